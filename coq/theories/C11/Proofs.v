(* PV.C11.Proofs — lemmas about the random-effect algebra model. *)
From Coq Require Import List Bool PArith Arith ZArith Lia Permutation.
From PV Require Import Base.PyData Base.Expr C11.Model.
Import ListNotations.
Local Open Scope nat_scope.

(* ---------------------------------------------------------------------------------------------- *)
(* generic list facts                                                                             *)
(* ---------------------------------------------------------------------------------------------- *)
Lemma memp_false_iff x l : memp x l = false <-> ~ In x l.
Proof.
  split.
  - intros H HI. apply memp_In in HI. congruence.
  - intros H. destruct (memp x l) eqn:M; [apply memp_In in M; contradiction | reflexivity].
Qed.

Lemma nodupb_NoDup l : nodupb l = true <-> NoDup l.
Proof.
  induction l as [|x tl IH]; cbn [nodupb].
  - split; [constructor | reflexivity].
  - rewrite andb_true_iff, negb_true_iff, memp_false_iff, IH. split.
    + intros [H1 H2]. constructor; assumption.
    + intros H. inversion H; subst. split; assumption.
Qed.

Lemma index_of_Some x l i : index_of x l = Some i -> i < length l /\ forall d, nth i l d = x.
Proof.
  revert i. induction l as [|y tl IH]; cbn [index_of]; intros i H; [discriminate|].
  destruct (Pos.eqb y x) eqn:Eq.
  - inversion H; subst. apply Pos.eqb_eq in Eq. subst. cbn. split; [lia | reflexivity].
  - destruct (index_of x tl) as [k|] eqn:Ek; cbn in H; [|discriminate].
    inversion H; subst. destruct (IH k eq_refl) as [Hl Hn]. cbn. split; [lia | exact Hn].
Qed.

Lemma index_of_In x l : In x l -> exists i, index_of x l = Some i.
Proof.
  induction l as [|y tl IH]; cbn [index_of In]; [tauto|].
  intros [H|H].
  - subst. rewrite Pos.eqb_refl. eauto.
  - destruct (Pos.eqb y x); [eauto|]. destruct (IH H) as [i Hi]. rewrite Hi. cbn. eauto.
Qed.

Lemma index_of_None x l : index_of x l = None -> ~ In x l.
Proof.
  intros H HI. destruct (index_of_In _ _ HI) as [i Hi]. congruence.
Qed.

Lemma index_of_nth l : NoDup l -> forall i d, i < length l -> index_of (nth i l d) l = Some i.
Proof.
  induction 1 as [|y tl Hy Hnd IH]; intros i d Hi; [cbn in Hi; lia|].
  destruct i as [|i]; cbn [nth index_of].
  - rewrite Pos.eqb_refl. reflexivity.
  - cbn in Hi. destruct (Pos.eqb y (nth i tl d)) eqn:Eq.
    + apply Pos.eqb_eq in Eq. exfalso. apply Hy. rewrite Eq. apply nth_In. lia.
    + rewrite IH by lia. reflexivity.
Qed.

Lemma filter_app_perm {A} (f : A -> bool) l :
  Permutation (filter f l ++ filter (fun x => negb (f x)) l) l.
Proof.
  induction l as [|x tl IH]; cbn [filter]; [constructor|].
  destruct (f x); cbn [negb app].
  - constructor. exact IH.
  - eapply Permutation_trans; [apply Permutation_sym, Permutation_middle|]. constructor. exact IH.
Qed.

Lemma filter_perm {A} (f : A -> bool) l l' : Permutation l l' -> Permutation (filter f l) (filter f l').
Proof.
  induction 1; cbn [filter].
  - constructor.
  - destruct (f x); [constructor|]; assumption.
  - destruct (f x), (f y); try apply perm_swap; apply Permutation_refl.
  - eapply Permutation_trans; eassumption.
Qed.

Lemma NoDup_filter {A} (f : A -> bool) l : NoDup l -> NoDup (filter f l).
Proof.
  induction 1 as [|x tl Hx Hnd IH]; cbn [filter]; [constructor|].
  destruct (f x); [|exact IH]. constructor; [|exact IH].
  intro H. apply filter_In in H. tauto.
Qed.

Lemma NoDup_app_l {A} (a b : list A) : NoDup (a ++ b) -> NoDup a.
Proof.
  induction a as [|x a IH]; cbn; intros H; [constructor|].
  inversion H; subst. constructor; [|auto]. intro HI. apply H2. apply in_or_app. auto.
Qed.

Lemma NoDup_app_r {A} (a b : list A) : NoDup (a ++ b) -> NoDup b.
Proof.
  induction a as [|x a IH]; cbn; intros H; [exact H|]. inversion H; subst. auto.
Qed.

Lemma NoDup_app_disj {A} (a b : list A) x : NoDup (a ++ b) -> In x a -> In x b -> False.
Proof.
  induction a as [|y a IH]; cbn; intros H Ha Hb; [tauto|].
  inversion H; subst. destruct Ha as [Ha|Ha].
  - subst. apply H2. apply in_or_app. auto.
  - eauto.
Qed.

(* positions: the indices whose element satisfies f, in increasing order *)
Lemma filter_seq_shift (g : nat -> bool) s n :
  filter g (seq (S s) n) = map S (filter (fun i => g (S i)) (seq s n)).
Proof.
  revert s. induction n as [|n IH]; intros s; cbn [seq filter map]; [reflexivity|].
  rewrite IH. destruct (g (S s)); reflexivity.
Qed.

Lemma positions_cons f x l :
  positions f (x :: l) = (if f x then [0] else []) ++ map S (positions f l).
Proof.
  unfold positions. cbn [length seq filter nth].
  rewrite filter_seq_shift. cbn [nth]. destruct (f x); reflexivity.
Qed.

Lemma map_nth_positions f l d :
  map (fun i => nth i l d) (positions f l) = filter f l.
Proof.
  induction l as [|x tl IH]; [reflexivity|].
  rewrite positions_cons, map_app, map_map. cbn [filter nth].
  rewrite <- IH. destruct (f x); reflexivity.
Qed.

Lemma positions_lt f l i : In i (positions f l) -> i < length l.
Proof.
  unfold positions. rewrite filter_In, in_seq. lia.
Qed.

Lemma positions_spec f l i : In i (positions f l) <-> i < length l /\ f (nth i l 1%positive) = true.
Proof.
  unfold positions. rewrite filter_In, in_seq. intuition lia.
Qed.

Lemma positions_NoDup f l : NoDup (positions f l).
Proof. unfold positions. apply NoDup_filter, seq_NoDup. Qed.

Lemma nth_map_nth {A B} (g : A -> B) (K : list A) p dA dB : p < length K -> nth p (map g K) dB = g (nth p K dA).
Proof.
  revert p. induction K as [|k K IH]; intros p Hp; cbn in *; [lia|].
  destruct p; [reflexivity|]. apply IH. lia.
Qed.

Ltac bcases :=
  repeat (match goal with
          | |- context [Nat.leb ?a ?b] => destruct (Nat.leb_spec a b)
          | |- context [Nat.ltb ?a ?b] => destruct (Nat.ltb_spec a b)
          | |- context [Nat.eqb ?a ?b] => destruct (Nat.eqb_spec a b)
          end; cbn [andb orb negb]).

Section Facts.
  Variable E : Type.
  Variable zero : E.
  Variable is_zero : E -> bool.
  Notation dist := (dist E).
  Notation coll := (coll E).
  Notation matrix := (matrix E).
  Notation mget := (mget E zero).
  Notation select := (select E zero).
  Notation unjoin1 := (unjoin1 E zero).
  Notation unjoin := (unjoin E zero).
  Notation dcov := (dcov E zero).
  Notation cov := (cov E zero).
  Notation lookup := (lookup E).
  Notation lookup_from := (lookup_from E).
  Notation wf_dist := (wf_dist E).
  Notation wf := (wf E).
  Notation getitem_list := (getitem_list E zero).

  (* ---- names ------------------------------------------------------------------------------- *)
  Lemma names_cons (d : dist) r : names (d :: r) = dnames d ++ names r.
  Proof. reflexivity. Qed.
  Lemma names_app (a b : coll) : names (a ++ b) = names a ++ names b.
  Proof. unfold names. apply flat_map_app. Qed.
  Lemma In_names (r : coll) x : In x (names r) <-> exists d, In d r /\ In x (dnames d).
  Proof. unfold names. apply in_flat_map. Qed.

  Lemma nrvs_names (r : coll) : nrvs E r = length (names r).
  Proof.
    unfold nrvs. assert (G : forall k, fold_left (fun n (d : dist) => n + dlen E d) r k = k + length (names r)).
    { induction r as [|d tl IH]; intros k; cbn [fold_left]; [cbn; lia|].
      rewrite IH, names_cons, app_length. unfold dlen. lia. }
    apply G.
  Qed.

  Lemma wf_cons d r : wf (d :: r) = true -> wf_dist d = true /\ wf r = true.
  Proof.
    unfold wf. cbn [forallb]. rewrite names_cons, !andb_true_iff, !nodupb_NoDup.
    intros [[H1 H2] H3]. repeat split; auto. eapply NoDup_app_r; eauto.
  Qed.
  Lemma wf_NoDup r : wf r = true -> NoDup (names r).
  Proof. unfold wf. rewrite andb_true_iff, nodupb_NoDup. intros [_ H]. exact H. Qed.
  Lemma wf_In r d : wf r = true -> In d r -> wf_dist d = true.
  Proof. unfold wf. rewrite andb_true_iff, forallb_forall. intros [H _]. apply H. Qed.

  Lemma wf_dist_joint ns l mu V :
    wf_dist (Joint ns l mu V) = true ->
    1 <= length ns /\ length mu = length ns /\ length V = length ns /\
    (forall row, In row V -> length row = length ns) /\ NoDup ns.
  Proof.
    cbn [Model.wf_dist]. rewrite !andb_true_iff, forallb_forall, nodupb_NoDup, Nat.leb_le, !Nat.eqb_eq.
    intros [[[[H1 H2] H3] H4] H5]. repeat split; auto. intros row Hr. apply Nat.eqb_eq. auto.
  Qed.

  (* ---- unjoin: names ------------------------------------------------------------------------ *)
  Definition affected (inds : list id) (d : dist) : bool :=
    match d with Joint ns _ _ _ => existsb (fun item => memp item ns) inds | _ => false end.
  (* the order of the names after unjoin, block by block *)
  Definition unjoin_order (inds : list id) (d : dist) : list id :=
    if affected inds d
    then filter (fun n => memp n inds) (dnames d) ++ filter (fun n => negb (memp n inds)) (dnames d)
    else dnames d.

  Lemma names_unjoin1 inds (d : dist) : names (unjoin1 inds d) = unjoin_order inds d.
  Proof.
    unfold unjoin_order. destruct d as [n l m v | ns l mu V]; cbn [Model.unjoin1 affected dnames].
    - cbn. reflexivity.
    - destruct (existsb (fun item => memp item ns) inds); [|cbn; rewrite app_nil_r; reflexivity].
      rewrite names_app. f_equal.
      + unfold names. rewrite flat_map_concat_map, map_map. cbn [dnames].
        etransitivity; [|apply (map_nth_positions (fun n => memp n inds) ns 1%positive)].
        induction (positions (fun n => memp n inds) ns) as [|k K IH]; cbn; [reflexivity|]. rewrite IH. reflexivity.
      + etransitivity; [|apply (map_nth_positions (fun n => negb (memp n inds)) ns 1%positive)].
        destruct (positions (fun n => negb (memp n inds)) ns) as [|k [|k2 K]]; cbn; rewrite ?app_nil_r; reflexivity.
  Qed.

  Lemma names_unjoin inds (r : coll) : names (unjoin inds r) = flat_map (unjoin_order inds) r.
  Proof.
    induction r as [|d tl IH]; [reflexivity|].
    unfold Model.unjoin in *. cbn [flat_map]. rewrite names_app, names_unjoin1, IH. reflexivity.
  Qed.

  Lemma unjoin_order_perm inds (d : dist) : Permutation (unjoin_order inds d) (dnames d).
  Proof.
    unfold unjoin_order. destruct (affected inds d); [apply filter_app_perm | apply Permutation_refl].
  Qed.

  Lemma unjoin_names_perm inds (r : coll) : Permutation (names (unjoin inds r)) (names r).
  Proof.
    rewrite names_unjoin. induction r as [|d tl IH]; cbn [flat_map]; [constructor|].
    rewrite names_cons. apply Permutation_app; [apply unjoin_order_perm | exact IH].
  Qed.

  Lemma removed_prefix_order inds ns :
    removed_prefix inds ns = true ->
    filter (fun n => memp n inds) ns ++ filter (fun n => negb (memp n inds)) ns = ns.
  Proof.
    induction ns as [|n tl IH]; cbn [removed_prefix filter]; [reflexivity|].
    destruct (memp n inds) eqn:M; cbn [negb app].
    - intros H. rewrite IH by exact H. reflexivity.
    - intros H. rewrite forallb_forall in H.
      assert (F1 : filter (fun n => memp n inds) tl = []).
      { clear IH. induction tl as [|a tl IH]; cbn; [reflexivity|].
        pose proof (H a (or_introl eq_refl)) as Ha. rewrite negb_true_iff in Ha. rewrite Ha.
        apply IH. intros x Hx. apply H. right. exact Hx. }
      assert (F2 : filter (fun n => negb (memp n inds)) tl = tl).
      { clear IH F1. induction tl as [|a tl IH]; cbn; [reflexivity|].
        rewrite (H a (or_introl eq_refl)). f_equal. apply IH. intros x Hx. apply H. right. exact Hx. }
      rewrite F1, F2. reflexivity.
  Qed.

  Lemma unjoin_keeps_order inds (r : coll) :
    g_removed_prefix E inds r = true -> names (unjoin inds r) = names r.
  Proof.
    rewrite names_unjoin. unfold g_removed_prefix. rewrite forallb_forall. intros H.
    induction r as [|d tl IH]; cbn [flat_map]; [reflexivity|].
    rewrite names_cons, IH by (intros x Hx; apply H; right; exact Hx). f_equal.
    pose proof (H d (or_introl eq_refl)) as Hd. unfold unjoin_order.
    destruct d as [n l m v | ns l mu V]; cbn [affected dnames] in *; [reflexivity|].
    destruct (existsb (fun item => memp item ns) inds); cbn [negb orb] in Hd; [|reflexivity].
    apply removed_prefix_order. exact Hd.
  Qed.

  (* ---- lookup / cov: an In-based interface ---------------------------------------------------- *)
  Lemma lookup_from_shift (r : coll) x k :
    lookup_from r x (S k) = option_map (fun p => (S (fst p), snd p)) (lookup_from r x k).
  Proof.
    revert k. induction r as [|d tl IH]; intros k; cbn [Model.lookup_from]; [reflexivity|].
    destruct (memp x (dnames d)); [reflexivity|]. apply IH.
  Qed.

  Lemma lookup_from_nth (r : coll) : NoDup (names r) ->
    forall i d x k, nth_error r i = Some d -> In x (dnames d) -> lookup_from r x k = Some (k + i, d).
  Proof.
    induction r as [|d0 tl IH]; intros Hnd i d x k Hi Hx; [destruct i; discriminate|].
    rewrite names_cons in Hnd. cbn [Model.lookup_from]. destruct i as [|i]; cbn [nth_error] in Hi.
    - inversion Hi; subst. apply memp_In in Hx. rewrite Hx. f_equal. f_equal. lia.
    - destruct (memp x (dnames d0)) eqn:M.
      + exfalso. apply memp_In in M. eapply NoDup_app_disj; [exact Hnd | exact M |].
        apply In_names. exists d. split; [eapply nth_error_In; eauto | exact Hx].
      + rewrite (IH (NoDup_app_r _ _ Hnd) i d x (S k) Hi Hx). f_equal. f_equal. lia.
  Qed.

  Lemma lookup_In (r : coll) d x : NoDup (names r) -> In d r -> In x (dnames d) ->
    exists i, lookup r x = Some (i, d) /\ nth_error r i = Some d.
  Proof.
    intros Hnd Hd Hx. destruct (In_nth_error _ _ Hd) as [i Hi]. exists i. split; [|exact Hi].
    unfold Model.lookup. rewrite (lookup_from_nth r Hnd i d x 0 Hi Hx). reflexivity.
  Qed.

  Lemma lookup_None (r : coll) x k : ~ In x (names r) -> lookup_from r x k = None.
  Proof.
    revert k. induction r as [|d tl IH]; intros k H; cbn [Model.lookup_from]; [reflexivity|].
    rewrite names_cons in H. destruct (memp x (dnames d)) eqn:M.
    - apply memp_In in M. exfalso. apply H. apply in_or_app. auto.
    - apply IH. intro. apply H. apply in_or_app. auto.
  Qed.

  Lemma cov_same (r : coll) d x y : NoDup (names r) -> In d r -> In x (dnames d) -> In y (dnames d) ->
    cov r x y = dcov d x y.
  Proof.
    intros Hnd Hd Hx Hy. destruct (In_nth_error _ _ Hd) as [i Hi].
    unfold Model.cov, Model.lookup.
    rewrite (lookup_from_nth r Hnd i d x 0 Hi Hx), (lookup_from_nth r Hnd i d y 0 Hi Hy).
    rewrite Nat.eqb_refl. reflexivity.
  Qed.

  Lemma cov_diff (r : coll) d1 d2 x y : NoDup (names r) -> In d1 r -> In d2 r ->
    In x (dnames d1) -> In y (dnames d2) -> ~ In y (dnames d1) -> cov r x y = Some zero.
  Proof.
    intros Hnd H1 H2 Hx Hy Hn. destruct (In_nth_error _ _ H1) as [i Hi]. destruct (In_nth_error _ _ H2) as [j Hj].
    unfold Model.cov, Model.lookup.
    rewrite (lookup_from_nth r Hnd i d1 x 0 Hi Hx), (lookup_from_nth r Hnd j d2 y 0 Hj Hy).
    cbn [plus]. destruct (Nat.eqb i j) eqn:Eij; [|reflexivity].
    apply Nat.eqb_eq in Eij. subst. rewrite Hi in Hj. inversion Hj; subst. contradiction.
  Qed.

  Lemma cov_None_l (r : coll) x y : ~ In x (names r) -> cov r x y = None.
  Proof. intros H. unfold Model.cov, Model.lookup. rewrite lookup_None by exact H. reflexivity. Qed.

  (* the distribution of a name *)
  Lemma dist_of (r : coll) x : In x (names r) -> exists d, In d r /\ In x (dnames d).
  Proof. apply In_names. Qed.

  Lemma cov_defined (r : coll) x y : wf r = true -> In x (names r) -> In y (names r) -> exists e, cov r x y = Some e.
  Proof.
    intros Hwf Hx Hy. pose proof (wf_NoDup _ Hwf) as Hnd.
    destruct (dist_of _ _ Hx) as [d1 [H1 Hx1]]. destruct (dist_of _ _ Hy) as [d2 [H2 Hy2]].
    destruct (in_dec Pos.eq_dec y (dnames d1)) as [Hin|Hout].
    - rewrite (cov_same r d1 x y Hnd H1 Hx1 Hin).
      destruct d1 as [n l m v | ns l mu V]; cbn [Model.dcov dnames] in *.
      + destruct Hx1 as [->|[]]. destruct Hin as [->|[]]. rewrite Pos.eqb_refl. cbn. eauto.
      + destruct (index_of_In _ _ Hx1) as [i ->]. destruct (index_of_In _ _ Hin) as [j ->]. eauto.
    - rewrite (cov_diff r d1 d2 x y Hnd H1 H2 Hx1 Hy2 Hout). eauto.
  Qed.

  (* ---- entries of selected sub-matrices ------------------------------------------------------- *)
  Lemma mget_select (V : matrix) K p q : p < length K -> q < length K ->
    mget (select V K) p q = mget V (nth p K 0) (nth q K 0).
  Proof.
    intros Hp Hq. unfold Model.select, Model.mget at 1.
    rewrite (nth_map_nth (fun i => map (fun j => Model.mget E zero V i j) K) K p 0 []) by exact Hp.
    rewrite (nth_map_nth (fun j => Model.mget E zero V (nth p K 0) j) K q 0 zero) by exact Hq.
    reflexivity.
  Qed.

  Lemma index_of_map_positions f ns x i : NoDup ns -> index_of x ns = Some i -> f x = true ->
    exists p, index_of x (map (fun k => nth k ns 1%positive) (positions f ns)) = Some p /\
              p < length (positions f ns) /\ nth p (positions f ns) 0 = i.
  Proof.
    intros Hnd Hi Hf. destruct (index_of_Some _ _ _ Hi) as [Hlt Hnth].
    assert (HinK : In i (positions f ns)).
    { apply positions_spec. split; [exact Hlt|]. rewrite Hnth. exact Hf. }
    assert (HinM : In x (map (fun k => nth k ns 1%positive) (positions f ns))).
    { apply in_map_iff. exists i. split; [apply Hnth | exact HinK]. }
    destruct (index_of_In _ _ HinM) as [p Hp]. exists p. split; [exact Hp|].
    destruct (index_of_Some _ _ _ Hp) as [Hpl Hpn]. rewrite map_length in Hpl. split; [exact Hpl|].
    specialize (Hpn 1%positive). rewrite (nth_map_nth (fun k => nth k ns 1%positive) (positions f ns) p 0 1%positive) in Hpn by exact Hpl.
    (* nth (nth p K) ns = x = nth i ns, both in range, NoDup -> equal *)
    assert (Hk : nth p (positions f ns) 0 < length ns).
    { apply (positions_lt f). apply nth_In. exact Hpl. }
    pose proof (index_of_nth ns Hnd _ 1%positive Hk) as E1. rewrite Hpn in E1. rewrite Hi in E1. inversion E1. reflexivity.
  Qed.

  Lemma same_dist (r : coll) d1 d2 x : NoDup (names r) -> In d1 r -> In d2 r ->
    In x (dnames d1) -> In x (dnames d2) -> d1 = d2.
  Proof.
    intros Hnd H1 H2 Hx1 Hx2.
    destruct (lookup_In r d1 x Hnd H1 Hx1) as [i [Li _]]. destruct (lookup_In r d2 x Hnd H2 Hx2) as [j [Lj _]].
    rewrite Li in Lj. inversion Lj. reflexivity.
  Qed.

  Lemma filter_all {A} (f : A -> bool) l : (forall x, In x l -> f x = true) -> filter f l = l.
  Proof.
    induction l as [|a tl IH]; intros H; cbn [filter]; [reflexivity|].
    rewrite (H a (or_introl eq_refl)). f_equal. apply IH. intros x Hx. apply H. right. exact Hx.
  Qed.

  Lemma unaffected_notin inds (ns : list id) n :
    existsb (fun item => memp item ns) inds = false -> In n ns -> memp n inds = false.
  Proof.
    intros H Hn. apply memp_false_iff. intro Hi.
    assert (T : existsb (fun item => memp item ns) inds = true).
    { apply existsb_exists. exists n. split; [exact Hi | apply memp_In; exact Hn]. }
    congruence.
  Qed.

  Lemma affected_true inds (ns : list id) x :
    In x ns -> In x inds -> existsb (fun item => memp item ns) inds = true.
  Proof. intros H1 H2. apply existsb_exists. exists x. split; [exact H2 | apply memp_In; exact H1]. Qed.

  Lemma joint_sel_wf (ns : list id) l (mu : list E) (V : matrix) K :
    1 <= length K -> NoDup (map (fun i => nth i ns 1%positive) K) ->
    wf_dist (Joint (map (fun i => nth i ns 1%positive) K) l (map (fun i => nth i mu zero) K) (select V K)) = true.
  Proof.
    intros HK Hnd. cbn [Model.wf_dist]. rewrite !map_length. unfold Model.select. rewrite map_length, !Nat.eqb_refl.
    apply andb_true_iff. split; [|apply nodupb_NoDup; exact Hnd].
    apply andb_true_iff. split; [apply andb_true_iff; split; [apply andb_true_iff; split|]; try reflexivity; apply Nat.leb_le; exact HK|].
    apply forallb_forall. intros row Hrow.
    apply in_map_iff in Hrow. destruct Hrow as [i [<- _]]. rewrite map_length. apply Nat.eqb_refl.
  Qed.

  (* the piece of a distribution that keeps the variables not named in inds *)
  Lemma kept_piece inds (d : dist) x : wf_dist d = true -> In x (dnames d) -> ~ In x inds ->
    exists p, In p (unjoin1 inds d) /\
              dnames p = filter (fun n => negb (memp n inds)) (dnames d) /\
              (forall a b, In a (dnames p) -> In b (dnames p) -> dcov p a b = dcov d a b) /\
              dlevel p = dlevel d /\ wf_dist p = true.
  Proof.
    intros Hwf Hx Hni. destruct d as [n l m v | ns l mu V].
    - exists (Normal n l m v). cbn [Model.unjoin1 dnames] in *. destruct Hx as [->|[]].
      apply memp_false_iff in Hni. cbn [filter]. rewrite Hni. cbn. repeat split; auto.
    - destruct (wf_dist_joint _ _ _ _ Hwf) as [Hlen [Hmu [HV [Hrows Hnd]]]].
      cbn [Model.unjoin1 dnames] in *.
      destruct (existsb (fun item => memp item ns) inds) eqn:Aff.
      + set (f := fun n : id => negb (memp n inds)).
        pose proof (map_nth_positions f ns 1%positive) as HK.
        assert (Hxf : In x (filter f ns)). { apply filter_In. split; [exact Hx|]. unfold f. apply memp_false_iff in Hni. rewrite Hni. reflexivity. }
        destruct (positions f ns) as [|k [|k2 K]] eqn:EK.
        * rewrite <- HK in Hxf. contradiction.
        * (* one variable left: a NormalDistribution *)
          exists (Normal (nth k ns 1%positive) l (nth k mu zero) (Model.mget E zero V k k)).
          assert (Hk : k < length ns). { apply (positions_lt f). rewrite EK. left. reflexivity. }
          split; [apply in_or_app; right; left; reflexivity|]. cbn [dnames dlevel]. split; [exact HK|].
          split; [|split; reflexivity].
          intros a b [<-|[]] [<-|[]]. cbn [Model.dcov]. rewrite Pos.eqb_refl. cbn [andb].
          rewrite (index_of_nth ns Hnd k 1%positive Hk). reflexivity.
        * (* a smaller joint distribution *)
          set (K2 := k :: k2 :: K) in *.
          exists (Joint (map (fun i => nth i ns 1%positive) K2) l (map (fun i => nth i mu zero) K2) (Model.select E zero V K2)).
          split; [apply in_or_app; right; left; reflexivity|]. cbn [dnames dlevel]. split; [exact HK|].
          split; [|split; [reflexivity|]].
          -- intros a b Ha Hb. cbn [Model.dcov]. rewrite HK in Ha, Hb.
             apply filter_In in Ha. apply filter_In in Hb. destruct Ha as [Ha Hfa]. destruct Hb as [Hb Hfb].
             destruct (index_of_In _ _ Ha) as [ia Hia]. destruct (index_of_In _ _ Hb) as [ib Hib].
             destruct (index_of_map_positions f ns a ia Hnd Hia Hfa) as [pa [Hpa [Hpal Hpan]]].
             destruct (index_of_map_positions f ns b ib Hnd Hib Hfb) as [pb [Hpb [Hpbl Hpbn]]].
             rewrite EK in Hpa, Hpb, Hpal, Hpbl, Hpan, Hpbn. fold K2 in Hpa, Hpb, Hpal, Hpbl, Hpan, Hpbn.
             rewrite Hpa, Hpb, Hia, Hib. rewrite mget_select by assumption. rewrite Hpan, Hpbn. reflexivity.
          -- apply joint_sel_wf; [unfold K2; cbn; lia|]. rewrite HK. apply NoDup_filter. exact Hnd.
      + exists (Joint ns l mu V). split; [left; reflexivity|]. cbn [dnames dlevel]. split.
        * symmetry. apply filter_all. intros n Hn. rewrite (unaffected_notin inds ns n Aff Hn). reflexivity.
        * repeat split; auto.
  Qed.

  (* the piece of a distribution that holds an unjoined variable *)
  Lemma removed_piece inds (d : dist) x : wf_dist d = true -> In x (dnames d) -> In x inds ->
    exists p, In p (unjoin1 inds d) /\ dnames p = [x] /\ dcov p x x = dcov d x x /\
              dlevel p = dlevel d /\ wf_dist p = true.
  Proof.
    intros Hwf Hx Hi. destruct d as [n l m v | ns l mu V].
    - exists (Normal n l m v). cbn [Model.unjoin1 dnames] in *. destruct Hx as [->|[]]. repeat split; auto. left. reflexivity.
    - destruct (wf_dist_joint _ _ _ _ Hwf) as [Hlen [Hmu [HV [Hrows Hnd]]]].
      cbn [Model.unjoin1 dnames] in *. rewrite (affected_true inds ns x Hx Hi).
      destruct (index_of_In _ _ Hx) as [i Hix]. destruct (index_of_Some _ _ _ Hix) as [Hil Hin].
      exists (Normal (nth i ns 1%positive) l (nth i mu zero) (Model.mget E zero V i i)). split.
      + apply in_or_app. left. apply in_map_iff. exists i. split; [reflexivity|].
        apply positions_spec. split; [exact Hil|]. rewrite Hin. apply memp_In. exact Hi.
      + cbn [dnames dlevel Model.dcov]. rewrite Hin. rewrite Pos.eqb_refl, Hix. repeat split; reflexivity.
  Qed.

  Lemma piece_names_incl inds (d p : dist) z : In p (unjoin1 inds d) -> In z (dnames p) -> In z (dnames d).
  Proof.
    intros Hp Hz. apply (Permutation_in z (unjoin_order_perm inds d)). rewrite <- names_unjoin1.
    apply In_names. exists p. split; assumption.
  Qed.

  Lemma In_unjoin inds (r : coll) p : In p (unjoin inds r) <-> exists d, In d r /\ In p (unjoin1 inds d).
  Proof. unfold Model.unjoin. apply in_flat_map. Qed.

  Lemma unjoin_NoDup inds (r : coll) : NoDup (names r) -> NoDup (names (unjoin inds r)).
  Proof. intros H. eapply Permutation_NoDup; [apply Permutation_sym, unjoin_names_perm | exact H]. Qed.

  Lemma unjoin1_wf inds (d : dist) p : wf_dist d = true -> In p (unjoin1 inds d) -> wf_dist p = true.
  Proof.
    intros Hwf Hp. destruct d as [n l m v | ns l mu V]; cbn [Model.unjoin1] in Hp.
    - destruct Hp as [<-|[]]. reflexivity.
    - destruct (existsb (fun item => memp item ns) inds) eqn:Aff; [|destruct Hp as [<-|[]]; exact Hwf].
      destruct (wf_dist_joint _ _ _ _ Hwf) as [_ [_ [_ [_ Hnd]]]].
      apply in_app_or in Hp. destruct Hp as [Hp|Hp].
      + apply in_map_iff in Hp. destruct Hp as [i [<- _]]. reflexivity.
      + destruct (positions (fun n => negb (memp n inds)) ns) as [|k [|k2 K]] eqn:EK.
        * destruct Hp.
        * destruct Hp as [<-|[]]. reflexivity.
        * destruct Hp as [<-|[]]. apply joint_sel_wf; [cbn; lia|].
          rewrite <- EK, map_nth_positions. apply NoDup_filter. exact Hnd.
  Qed.

  Lemma unjoin_wf inds (r : coll) : wf r = true -> wf (unjoin inds r) = true.
  Proof.
    intros Hwf. unfold Model.wf. apply andb_true_iff. split.
    - apply forallb_forall. intros p Hp. apply In_unjoin in Hp. destruct Hp as [d [Hd Hp]].
      eapply unjoin1_wf; [eapply wf_In; eauto | exact Hp].
    - apply nodupb_NoDup. apply unjoin_NoDup. apply wf_NoDup. exact Hwf.
  Qed.

  (* ---- unjoin: variances and covariances ------------------------------------------------------ *)
  Lemma unjoin_cov_kept inds (r : coll) x y : wf r = true -> In x (names r) -> In y (names r) ->
    ~ In x inds -> ~ In y inds -> cov (unjoin inds r) x y = cov r x y.
  Proof.
    intros Hwf Hx Hy Hnx Hny. pose proof (wf_NoDup _ Hwf) as Hnd. pose proof (unjoin_NoDup inds r Hnd) as Hnd'.
    destruct (dist_of _ _ Hx) as [dx [Hdx Hxd]]. destruct (dist_of _ _ Hy) as [dy [Hdy Hyd]].
    destruct (kept_piece inds dx x (wf_In _ _ Hwf Hdx) Hxd Hnx) as [px [Hpx [Npx [Cpx _]]]].
    destruct (kept_piece inds dy y (wf_In _ _ Hwf Hdy) Hyd Hny) as [py [Hpy [Npy [Cpy _]]]].
    assert (Ipx : In px (unjoin inds r)) by (apply In_unjoin; eauto).
    assert (Ipy : In py (unjoin inds r)) by (apply In_unjoin; eauto).
    assert (Xpx : In x (dnames px)). { rewrite Npx. apply filter_In. split; [exact Hxd|]. apply negb_true_iff, memp_false_iff. exact Hnx. }
    assert (Ypy : In y (dnames py)). { rewrite Npy. apply filter_In. split; [exact Hyd|]. apply negb_true_iff, memp_false_iff. exact Hny. }
    destruct (in_dec Pos.eq_dec y (dnames dx)) as [Hin|Hout].
    - assert (Ypx : In y (dnames px)). { rewrite Npx. apply filter_In. split; [exact Hin|]. apply negb_true_iff, memp_false_iff. exact Hny. }
      rewrite (cov_same _ px x y Hnd' Ipx Xpx Ypx), (cov_same _ dx x y Hnd Hdx Hxd Hin). apply Cpx; assumption.
    - rewrite (cov_diff r dx dy x y Hnd Hdx Hdy Hxd Hyd Hout).
      apply (cov_diff _ px py x y Hnd' Ipx Ipy Xpx Ypy). intro H. apply Hout. eapply piece_names_incl; eauto.
  Qed.

  Lemma unjoin_variance inds (r : coll) x : wf r = true -> In x (names r) ->
    cov (unjoin inds r) x x = cov r x x.
  Proof.
    intros Hwf Hx. destruct (in_dec Pos.eq_dec x inds) as [Hi|Hni]; [|apply unjoin_cov_kept; assumption].
    pose proof (wf_NoDup _ Hwf) as Hnd. pose proof (unjoin_NoDup inds r Hnd) as Hnd'.
    destruct (dist_of _ _ Hx) as [dx [Hdx Hxd]].
    destruct (removed_piece inds dx x (wf_In _ _ Hwf Hdx) Hxd Hi) as [p [Hp [Np [Cp _]]]].
    assert (Ip : In p (unjoin inds r)) by (apply In_unjoin; eauto).
    assert (Xp : In x (dnames p)) by (rewrite Np; left; reflexivity).
    rewrite (cov_same _ p x x Hnd' Ip Xp Xp), (cov_same _ dx x x Hnd Hdx Hxd Hxd). exact Cp.
  Qed.

  Lemma unjoin_cov_removed inds (r : coll) x y : wf r = true -> In x (names r) -> In y (names r) ->
    In x inds -> x <> y -> cov (unjoin inds r) x y = Some zero /\ cov (unjoin inds r) y x = Some zero.
  Proof.
    intros Hwf Hx Hy Hi Hne. pose proof (wf_NoDup _ Hwf) as Hnd. pose proof (unjoin_NoDup inds r Hnd) as Hnd'.
    destruct (dist_of _ _ Hx) as [dx [Hdx Hxd]].
    destruct (removed_piece inds dx x (wf_In _ _ Hwf Hdx) Hxd Hi) as [p [Hp [Np _]]].
    assert (Ip : In p (unjoin inds r)) by (apply In_unjoin; eauto).
    assert (Xp : In x (dnames p)) by (rewrite Np; left; reflexivity).
    assert (Hy' : In y (names (unjoin inds r))).
    { apply (Permutation_in y (Permutation_sym (unjoin_names_perm inds r))). exact Hy. }
    destruct (dist_of _ _ Hy') as [q [Hq Yq]].
    assert (Ynp : ~ In y (dnames p)). { rewrite Np. intros [H|[]]. congruence. }
    split.
    - apply (cov_diff _ p q x y Hnd' Ip Hq Xp Yq Ynp).
    - apply (cov_diff _ q p y x Hnd' Hq Ip Yq Xp). intro Xq.
      pose proof (same_dist _ p q x Hnd' Ip Hq Xp Xq) as Epq. subst q. contradiction.
  Qed.

  (* ---- sub-collections (filter) keep covariances ---------------------------------------------- *)
  Lemma NoDup_app_incl {A} (a b b' : list A) : NoDup (a ++ b) -> NoDup b' -> incl b' b -> NoDup (a ++ b').
  Proof.
    induction a as [|x a IH]; cbn; intros H Hb Hi; [exact Hb|].
    inversion H; subst. constructor; [|apply IH; assumption].
    intro HI. apply H2. apply in_app_or in HI. apply in_or_app. destruct HI; [left|right]; auto.
  Qed.

  Lemma names_filter_incl (P : dist -> bool) (u : coll) : incl (names (filter P u)) (names u).
  Proof.
    intros x Hx. apply In_names in Hx. destruct Hx as [d [Hd Hx]]. apply filter_In in Hd.
    apply In_names. exists d. destruct Hd as [Hd _]. split; assumption.
  Qed.

  Lemma names_filter_NoDup (P : dist -> bool) (u : coll) : NoDup (names u) -> NoDup (names (filter P u)).
  Proof.
    induction u as [|d tl IH]; cbn [filter]; intros H; [exact H|].
    rewrite names_cons in H. destruct (P d).
    - rewrite names_cons. eapply NoDup_app_incl; [exact H | apply IH; eapply NoDup_app_r; eauto | apply names_filter_incl].
    - apply IH. eapply NoDup_app_r; eauto.
  Qed.

  Lemma cov_filter (P : dist -> bool) (u : coll) x y : NoDup (names u) ->
    In x (names (filter P u)) -> In y (names (filter P u)) -> cov (filter P u) x y = cov u x y.
  Proof.
    intros Hnd Hx Hy. pose proof (names_filter_NoDup P u Hnd) as Hnd'.
    destruct (dist_of _ _ Hx) as [dx [Hdx Hxd]]. destruct (dist_of _ _ Hy) as [dy [Hdy Hyd]].
    assert (Ux : In dx u) by (apply filter_In in Hdx; destruct Hdx; assumption).
    assert (Uy : In dy u) by (apply filter_In in Hdy; destruct Hdy; assumption).
    destruct (in_dec Pos.eq_dec y (dnames dx)) as [Hin|Hout].
    - rewrite (cov_same _ dx x y Hnd' Hdx Hxd Hin), (cov_same _ dx x y Hnd Ux Hxd Hin). reflexivity.
    - rewrite (cov_diff _ dx dy x y Hnd' Hdx Hdy Hxd Hyd Hout), (cov_diff _ dx dy x y Hnd Ux Uy Hxd Hyd Hout). reflexivity.
  Qed.

  (* ---- __getitem__ with a container of names -------------------------------------------------- *)
  Lemma getitem1_names ind rem (d : dist) : wf_dist d = true ->
    (forall n, In n (dnames d) -> memp n rem = negb (memp n ind)) ->
    names (filter (first_name_in E ind) (unjoin1 rem d)) = filter (fun n => memp n ind) (dnames d).
  Proof.
    intros Hwf Hrem. destruct d as [n l m v | ns l mu V].
    - cbn [Model.unjoin1 filter dnames]. unfold first_name_in. cbn [dnames].
      destruct (memp n ind); reflexivity.
    - destruct (wf_dist_joint _ _ _ _ Hwf) as [Hlen [_ [_ [_ Hnd]]]].
      cbn [Model.unjoin1 dnames] in *.
      assert (Fext : filter (fun n => memp n ind) ns = filter (fun n => negb (memp n rem)) ns).
      { apply filter_ext_in. intros a Ha. rewrite (Hrem a Ha), negb_involutive. reflexivity. }
      destruct (existsb (fun item => memp item ns) rem) eqn:Aff.
      + rewrite filter_app.
        assert (S0 : filter (first_name_in E ind)
                        (map (fun i => Normal (nth i ns 1%positive) l (nth i mu zero) (Model.mget E zero V i i))
                             (positions (fun n => memp n rem) ns)) = []).
        { assert (G : forall R, (forall i, In i R -> In i (positions (fun n => memp n rem) ns)) ->
                      filter (first_name_in E ind)
                        (map (fun i => Normal (nth i ns 1%positive) l (nth i mu zero) (Model.mget E zero V i i)) R) = []).
          { induction R as [|i R IH]; intros HR; [reflexivity|]. cbn [map filter].
            pose proof (HR i (or_introl eq_refl)) as Hi. apply positions_spec in Hi. destruct Hi as [Hil Hif].
            unfold first_name_in at 1. cbn [dnames].
            rewrite (Hrem (nth i ns 1%positive) (nth_In _ _ Hil)) in Hif. apply negb_true_iff in Hif. rewrite Hif.
            apply IH. intros j Hj. apply HR. right. exact Hj. }
          apply G. auto. }
        rewrite S0. cbn [app]. rewrite Fext.
        pose proof (map_nth_positions (fun n => negb (memp n rem)) ns 1%positive) as HK.
        destruct (positions (fun n => negb (memp n rem)) ns) as [|k [|k2 K]] eqn:EK.
        * etransitivity; [|exact HK]. reflexivity.
        * assert (Hk : In k (positions (fun n => negb (memp n rem)) ns)) by (rewrite EK; left; reflexivity).
          apply positions_spec in Hk. destruct Hk as [Hkl Hkf].
          cbn [filter]. unfold first_name_in. cbn [dnames].
          rewrite (Hrem _ (nth_In _ _ Hkl)), negb_involutive in Hkf. rewrite Hkf. etransitivity; [|exact HK]. reflexivity.
        * assert (Hk : In k (positions (fun n => negb (memp n rem)) ns)) by (rewrite EK; left; reflexivity).
          apply positions_spec in Hk. destruct Hk as [Hkl Hkf].
          cbn [filter]. unfold first_name_in. cbn [dnames map].
          rewrite (Hrem _ (nth_In _ _ Hkl)), negb_involutive in Hkf. rewrite Hkf. etransitivity; [|exact HK].
          cbn. rewrite app_nil_r. reflexivity.
      + cbn [filter]. unfold first_name_in. cbn [dnames].
        assert (All : forall n, In n ns -> memp n ind = true).
        { intros n Hn. pose proof (unaffected_notin rem ns n Aff Hn) as Hr. rewrite (Hrem n Hn) in Hr.
          apply negb_false_iff in Hr. exact Hr. }
        destruct ns as [|n0 ns']; [cbn in Hlen; lia|].
        rewrite (All n0 (or_introl eq_refl)). cbn [names flat_map dnames]. rewrite app_nil_r.
        symmetry. apply filter_all. exact All.
  Qed.

  Lemma getitem_gen_names ind rem (r0 : coll) :
    (forall d, In d r0 -> wf_dist d = true) ->
    (forall n, In n (names r0) -> memp n rem = negb (memp n ind)) ->
    names (filter (first_name_in E ind) (unjoin rem r0)) = filter (fun n => memp n ind) (names r0).
  Proof.
    induction r0 as [|d tl IH]; intros Hwf Hrem; [reflexivity|].
    unfold Model.unjoin in *. cbn [flat_map]. rewrite filter_app, names_app, names_cons, filter_app.
    f_equal.
    - apply getitem1_names; [apply Hwf; left; reflexivity|]. intros n Hn. apply Hrem. rewrite names_cons. apply in_or_app. auto.
    - apply IH; [intros d' Hd'; apply Hwf; right; exact Hd'|]. intros n Hn. apply Hrem. rewrite names_cons. apply in_or_app. auto.
  Qed.

  Definition removed_of (ind : list id) (r : coll) : list id := filter (fun n => negb (memp n ind)) (names r).

  Lemma removed_of_spec ind (r : coll) n : In n (names r) -> memp n (removed_of ind r) = negb (memp n ind).
  Proof.
    intros Hn. unfold removed_of. destruct (memp n ind) eqn:M; cbn [negb].
    - apply memp_false_iff. intro H. apply filter_In in H. rewrite M in H. cbn in H. destruct H. discriminate.
    - apply memp_In. apply filter_In. rewrite M. auto.
  Qed.

  Lemma getitem_names ind (r : coll) : wf r = true ->
    names (getitem_list ind r) = filter (fun n => memp n ind) (names r).
  Proof.
    intros Hwf. unfold Model.getitem_list. apply getitem_gen_names.
    - intros d Hd. eapply wf_In; eauto.
    - intros n Hn. apply (removed_of_spec ind r n Hn).
  Qed.

  Lemma getitem_wf ind (r : coll) : wf r = true -> wf (getitem_list ind r) = true.
  Proof.
    intros Hwf. unfold Model.wf. apply andb_true_iff. split.
    - apply forallb_forall. intros p Hp. unfold Model.getitem_list in Hp. apply filter_In in Hp. destruct Hp as [Hp _].
      pose proof (unjoin_wf (removed_of ind r) r Hwf) as W. eapply wf_In; [exact W | exact Hp].
    - apply nodupb_NoDup. rewrite getitem_names by exact Hwf. apply NoDup_filter. apply wf_NoDup. exact Hwf.
  Qed.

  Lemma getitem_marginal ind (r : coll) x y : wf r = true -> In x (names r) -> In y (names r) ->
    In x ind -> In y ind -> cov (getitem_list ind r) x y = cov r x y.
  Proof.
    intros Hwf Hx Hy Hxi Hyi. pose proof (wf_NoDup _ Hwf) as Hnd.
    assert (Gx : In x (names (getitem_list ind r))).
    { rewrite getitem_names by exact Hwf. apply filter_In. split; [exact Hx | apply memp_In; exact Hxi]. }
    assert (Gy : In y (names (getitem_list ind r))).
    { rewrite getitem_names by exact Hwf. apply filter_In. split; [exact Hy | apply memp_In; exact Hyi]. }
    unfold Model.getitem_list in *. fold (removed_of ind r) in *.
    rewrite (cov_filter _ _ x y (unjoin_NoDup _ r Hnd) Gx Gy).
    apply unjoin_cov_kept; try assumption.
    - apply memp_false_iff. rewrite (removed_of_spec ind r x Hx). apply negb_false_iff, memp_In. exact Hxi.
    - apply memp_false_iff. rewrite (removed_of_spec ind r y Hy). apply negb_false_iff, memp_In. exact Hyi.
  Qed.

  (* etas / epsilons / iiv / iov are filters *)
  Lemma with_levels_cov ls (r : coll) x y : wf r = true ->
    In x (names (with_levels E ls r)) -> In y (names (with_levels E ls r)) ->
    cov (with_levels E ls r) x y = cov r x y.
  Proof. intros Hwf. apply cov_filter. apply wf_NoDup. exact Hwf. Qed.

  (* ---- matrices: set / get --------------------------------------------------------------------- *)
  Definition sq (n : nat) (M : matrix) : Prop := length M = n /\ forall row, In row M -> length row = n.

  Lemma set_nth_length {A} (l : list A) i f : length (set_nth l i f) = length l.
  Proof.
    unfold set_nth. revert i. induction l as [|x tl IH]; intros i.
    - destruct i; reflexivity.
    - destruct i as [|i]; cbn [firstn skipn app length]; [reflexivity|]. rewrite IH. reflexivity.
  Qed.

  Lemma set_nth_nth {A} (l : list A) i f k d : i < length l ->
    nth k (set_nth l i f) d = if Nat.eqb k i then f (nth i l d) else nth k l d.
  Proof.
    unfold set_nth. revert i k. induction l as [|x tl IH]; intros i k Hi; [cbn in Hi; lia|].
    destruct i as [|i]; cbn [firstn skipn app].
    - destruct k; reflexivity.
    - cbn in Hi. destruct k as [|k]; [reflexivity|]. cbn [nth]. rewrite IH by lia. reflexivity.
  Qed.

  Lemma set_nth_In {A} (l : list A) i f y : In y (set_nth l i f) -> In y l \/ exists x, In x l /\ y = f x.
  Proof.
    unfold set_nth. revert i. induction l as [|x tl IH]; intros i H.
    - destruct i; cbn in H; contradiction.
    - destruct i as [|i]; cbn [firstn skipn app] in H.
      + destruct H as [H|H]; [right; exists x; split; [left; reflexivity | auto] | left; right; exact H].
      + destruct H as [H|H]; [left; left; exact H|]. destruct (IH i H) as [H1|[z [H1 H2]]].
        * left. right. exact H1.
        * right. exists z. split; [right; exact H1 | exact H2].
  Qed.

  Lemma sq_nth n (M : matrix) a : sq n M -> a < n -> length (nth a M []) = n.
  Proof. intros [H1 H2] Ha. apply H2. apply nth_In. lia. Qed.

  Lemma mset_sq n (M : matrix) i j v : sq n M -> sq n (mset E M i j v).
  Proof.
    intros [H1 H2]. unfold mset. split; [rewrite set_nth_length; exact H1|].
    intros row Hr. apply set_nth_In in Hr. destruct Hr as [Hr|[x [Hx ->]]]; [auto|].
    rewrite set_nth_length. auto.
  Qed.

  Lemma mget_mset n (M : matrix) i j v a b : sq n M -> i < n -> j < n ->
    mget (mset E M i j v) a b = if Nat.eqb a i && Nat.eqb b j then v else mget M a b.
  Proof.
    intros Hsq Hi Hj. unfold Model.mget, mset. destruct Hsq as [H1 H2].
    rewrite set_nth_nth by lia. destruct (Nat.eqb a i) eqn:Ea; cbn [andb]; [|reflexivity].
    apply Nat.eqb_eq in Ea. subst a.
    rewrite set_nth_nth by (rewrite (H2 (nth i M [])); [lia | apply nth_In; lia]).
    reflexivity.
  Qed.

  (* one row of a block *)
  Definition row_write (M : matrix) (r c0 : nat) (f : nat -> E) (c : nat) : matrix :=
    fold_left (fun M j => mset E M r (c0 + j) (f j)) (seq 0 c) M.

  Lemma row_write_spec n (M : matrix) r c0 f c : sq n M -> r < n -> c0 + c <= n ->
    sq n (row_write M r c0 f c) /\
    forall a b, mget (row_write M r c0 f c) a b =
                if Nat.eqb a r && (c0 <=? b) && (b <? c0 + c) then f (b - c0) else mget M a b.
  Proof.
    intros Hsq Hr. induction c as [|c IH]; intros Hc.
    - unfold row_write. cbn [seq fold_left]. split; [exact Hsq|]. intros a b. bcases; try lia; reflexivity.
    - destruct (IH ltac:(lia)) as [IS IE]. unfold row_write in *. rewrite seq_S, fold_left_app. cbn [fold_left plus].
      split; [apply mset_sq; exact IS|]. intros a b.
      rewrite (mget_mset n) by (try exact IS; lia). rewrite IE.
      bcases; try lia; try reflexivity. f_equal. lia.
  Qed.

  Definition block_write (M : matrix) (row col : nat) (g : nat -> nat -> E) (R C : nat) : matrix :=
    fold_left (fun M i => row_write M (row + i) col (g i) C) (seq 0 R) M.

  Lemma block_write_spec n (M : matrix) row col g R C : sq n M -> row + R <= n -> col + C <= n ->
    sq n (block_write M row col g R C) /\
    forall a b, mget (block_write M row col g R C) a b =
                if (row <=? a) && (a <? row + R) && (col <=? b) && (b <? col + C)
                then g (a - row) (b - col) else mget M a b.
  Proof.
    intros Hsq. induction R as [|R IH]; intros HR HC.
    - unfold block_write. cbn [seq fold_left]. split; [exact Hsq|]. intros a b. bcases; try lia; reflexivity.
    - destruct (IH ltac:(lia) HC) as [IS IE]. unfold block_write in *. rewrite seq_S, fold_left_app. cbn [fold_left plus].
      destruct (row_write_spec n _ (row + R) col (g R) C IS ltac:(lia) HC) as [RS RE].
      split; [exact RS|]. intros a b. rewrite RE, IE.
      bcases; try lia; try reflexivity. f_equal; lia.
  Qed.

  Lemma write_block_eq (M : matrix) row col (V : matrix) :
    write_block E zero M row col V = block_write M row col (fun i j => mget V i j) (mrows E V) (mcols E V).
  Proof. reflexivity. Qed.

  (* ---- the covariance matrix entry by entry --------------------------------------------------- *)
  Fixpoint loc (ds : coll) (a b : nat) : option E :=
    match ds with
    | [] => None
    | d :: tl =>
        let s := dlen E d in
        if (a <? s) && (b <? s) then Some (mget (dvar E d) a b)
        else if (s <=? a) && (s <=? b) then loc tl (a - s) (b - s) else None
    end.

  Lemma wf_joint_dims ns l mu (V : matrix) : wf_dist (Joint ns l mu V) = true ->
    mrows E V = length ns /\ mcols E V = length ns /\ sq (length ns) V.
  Proof.
    intros Hwf. destruct (wf_dist_joint _ _ _ _ Hwf) as [Hlen [_ [HV [Hrows _]]]].
    unfold mrows, mcols, sq. repeat split; auto.
    destruct V as [|row V']; [cbn in HV; lia|]. apply Hrows. left. reflexivity.
  Qed.

  Lemma calc_loop_spec (ds : coll) : (forall d, In d ds -> wf_dist d = true) ->
    forall off n (M : matrix), sq n M -> off + length (names ds) <= n ->
    sq n (calc_loop E zero ds off off M) /\
    forall a b, mget (calc_loop E zero ds off off M) a b =
                if (off <=? a) && (off <=? b)
                then match loc ds (a - off) (b - off) with Some e => e | None => mget M a b end
                else mget M a b.
  Proof.
    induction ds as [|d tl IH]; intros Hwf off n M Hsq Hn.
    - cbn [calc_loop loc]. split; [exact Hsq|]. intros a b. destruct ((off <=? a) && (off <=? b)); reflexivity.
    - rewrite names_cons, app_length in Hn.
      assert (Hwtl : forall d', In d' tl -> wf_dist d' = true) by (intros d' Hd'; apply Hwf; right; exact Hd').
      pose proof (Hwf d (or_introl eq_refl)) as Hwd.
      destruct d as [nm l m v | ns l mu V]; cbn [calc_loop].
      + cbn [dnames length] in Hn.
        destruct (IH Hwtl (S off) n (mset E M off off v) (mset_sq n M off off v Hsq) ltac:(lia)) as [IS IE].
        split; [exact IS|]. intros a b. rewrite IE. rewrite (mget_mset n) by (try exact Hsq; lia).
        cbn [loc dvar]. unfold dlen. cbn [dnames length].
        replace (a - S off) with (a - off - 1) by lia. replace (b - S off) with (b - off - 1) by lia.
        bcases; try lia; try reflexivity.
        * subst. rewrite Nat.sub_diag. reflexivity.
      + destruct (wf_joint_dims _ _ _ _ Hwd) as [HR [HC HVsq]].
        cbn [dnames] in Hn. set (s := length ns) in *.
        rewrite write_block_eq, HR, HC.
        destruct (block_write_spec n M off off (fun i j => mget V i j) s s Hsq ltac:(lia) ltac:(lia)) as [BS BE].
        destruct (IH Hwtl (off + s) n _ BS ltac:(lia)) as [IS IE].
        split; [exact IS|]. intros a b. rewrite IE, BE. cbn [loc dvar]. unfold dlen. cbn [dnames]. fold s.
        rewrite !Nat.sub_add_distr.
        bcases; try lia; try reflexivity.
  Qed.

  (* ---- block_diag entry by entry -------------------------------------------------------------- *)
  Lemma dvar_sq (d : dist) : wf_dist d = true -> sq (dlen E d) (dvar E d).
  Proof.
    destruct d as [nm l m v | ns l mu V]; intros Hwf.
    - cbn. split; [reflexivity|]. intros row [<-|[]]. reflexivity.
    - destruct (wf_joint_dims _ _ _ _ Hwf) as [_ [_ H]]. exact H.
  Qed.

  Lemma nth_repeat_zero k m : nth k (repeat zero m) zero = zero.
  Proof. revert k. induction m as [|m IH]; intros [|k]; cbn; auto. Qed.

  Lemma block_diag_spec (ds : coll) : (forall d, In d ds -> wf_dist d = true) ->
    sq (length (names ds)) (block_diag E zero (map (dvar E) ds)) /\
    forall a b, a < length (names ds) -> b < length (names ds) ->
                mget (block_diag E zero (map (dvar E) ds)) a b =
                match loc ds a b with Some e => e | None => zero end.
  Proof.
    induction ds as [|d tl IH]; intros Hwf.
    - cbn. split; [split; [reflexivity | intros row []]|]. intros a b Ha. lia.
    - assert (Hwtl : forall d', In d' tl -> wf_dist d' = true) by (intros d' Hd'; apply Hwf; right; exact Hd').
      destruct (IH Hwtl) as [[RL RR] RE]. clear IH.
      destruct (dvar_sq d (Hwf d (or_introl eq_refl))) as [BL BR].
      rewrite names_cons, app_length. fold (dlen E d). set (s := dlen E d) in *. set (m := length (names tl)) in *.
      cbn [map block_diag]. set (R := block_diag E zero (map (dvar E) tl)) in *. set (B := dvar E d) in *.
      split.
      + split.
        * rewrite app_length, !map_length. lia.
        * intros row Hrow. apply in_app_or in Hrow. destruct Hrow as [Hrow|Hrow]; apply in_map_iff in Hrow;
            destruct Hrow as [x [<- Hx]]; rewrite app_length, repeat_length.
          -- rewrite (BR x Hx). lia.
          -- rewrite (RR x Hx). lia.
      + intros a b Ha Hb. cbn [loc]. fold s. unfold Model.mget at 1.
        destruct (Nat.ltb_spec a s) as [Has|Has].
        * rewrite app_nth1 by (rewrite map_length; lia).
          rewrite (nth_map_nth (fun row => row ++ repeat zero (length R)) B a [] []) by lia.
          assert (Hrl : length (nth a B []) = s) by (apply BR, nth_In; lia).
          destruct (Nat.ltb_spec b s) as [Hbs|Hbs]; cbn [andb].
          -- rewrite app_nth1 by lia. reflexivity.
          -- rewrite app_nth2 by lia. rewrite nth_repeat_zero.
             destruct (Nat.leb_spec s a); [lia|]. reflexivity.
        * rewrite app_nth2 by (rewrite map_length; lia). rewrite map_length, BL.
          rewrite (nth_map_nth (fun row => repeat zero s ++ row) R (a - s) [] []) by lia.
          cbn [andb]. destruct (Nat.leb_spec s a); [|lia]. cbn [andb].
          destruct (Nat.leb_spec s b) as [Hbs|Hbs].
          -- rewrite app_nth2 by (rewrite repeat_length; lia). rewrite repeat_length.
             rewrite <- (RE (a - s) (b - s)) by lia. reflexivity.
          -- rewrite app_nth1 by (rewrite repeat_length; lia). apply nth_repeat_zero.
  Qed.

  Lemma matrix_ext n (A B : matrix) : sq n A -> sq n B ->
    (forall a b, a < n -> b < n -> mget A a b = mget B a b) -> A = B.
  Proof.
    intros [AL AR] [BL BR] H. apply (nth_ext A B [] []); [lia|]. intros a Ha.
    assert (La : length (nth a A []) = n) by (apply AR, nth_In; exact Ha).
    assert (Lb : length (nth a B []) = n) by (apply BR, nth_In; lia).
    apply (nth_ext _ _ zero zero); [lia|]. intros b Hb. apply H; lia.
  Qed.

  Lemma zeros_sq n : sq n (zeros E zero n).
  Proof.
    unfold zeros. split; [apply repeat_length|]. intros row Hr. apply repeat_spec in Hr. subst. apply repeat_length.
  Qed.

  Lemma mget_zeros n a b : mget (zeros E zero n) a b = zero.
  Proof.
    unfold Model.mget, zeros. destruct (Nat.ltb_spec a n).
    - assert (E1 : nth a (repeat (repeat zero n) n) [] = repeat zero n).
      { apply (repeat_spec n). apply nth_In. rewrite repeat_length. exact H. }
      rewrite E1. apply nth_repeat_zero.
    - rewrite (nth_overflow (repeat (repeat zero n) n) []) by (rewrite repeat_length; exact H). destruct b; reflexivity.
  Qed.

  Lemma wf_names_nil (r : coll) : wf r = true -> names r = [] -> r = [].
  Proof.
    intros Hwf Hn. destruct r as [|d tl]; [reflexivity|]. exfalso.
    destruct (wf_cons _ _ Hwf) as [Hd _]. rewrite names_cons in Hn. apply app_eq_nil in Hn. destruct Hn as [Hn _].
    destruct d as [nm l m v | ns l mu V]; cbn [dnames] in Hn; [discriminate|].
    destruct (wf_dist_joint _ _ _ _ Hd) as [Hl _]. subst ns. cbn in Hl. lia.
  Qed.

  Lemma covariance_matrix_loop (r : coll) : wf r = true ->
    covariance_matrix E zero r = calc_loop E zero r 0 0 (zeros E zero (length (names r))).
  Proof.
    intros Hwf. unfold covariance_matrix, calc. rewrite nrvs_names.
    destruct (names r) as [|x tl] eqn:En; [|reflexivity].
    rewrite (wf_names_nil r Hwf En). reflexivity.
  Qed.

  Lemma cov_block_diag_lemma (r : coll) : wf r = true ->
    covariance_matrix E zero r = block_diag E zero (map (dvar E) r).
  Proof.
    intros Hwf. rewrite covariance_matrix_loop by exact Hwf.
    assert (Hw : forall d, In d r -> wf_dist d = true) by (intros d Hd; eapply wf_In; eauto).
    set (n := length (names r)).
    destruct (calc_loop_spec r Hw 0 n (zeros E zero n) (zeros_sq n) ltac:(lia)) as [CS CE].
    destruct (block_diag_spec r Hw) as [BS BE]. fold n in BS, BE.
    apply (matrix_ext n); [exact CS | exact BS|]. intros a b Ha Hb.
    rewrite CE, (BE a b Ha Hb). cbn [Nat.leb andb]. rewrite !Nat.sub_0_r, mget_zeros. reflexivity.
  Qed.

  (* ---- entries of the covariance matrix are the covariances of the named variables ------------ *)
  Lemma cov_cons_skip (d : dist) (tl : coll) x y : ~ In x (dnames d) -> ~ In y (dnames d) ->
    cov (d :: tl) x y = cov tl x y.
  Proof.
    intros Hx Hy. unfold Model.cov, Model.lookup. cbn [Model.lookup_from].
    apply memp_false_iff in Hx. apply memp_false_iff in Hy. rewrite Hx, Hy, !lookup_from_shift.
    destruct (lookup_from tl x 0) as [[i d1]|]; [|reflexivity].
    destruct (lookup_from tl y 0) as [[j d2]|]; reflexivity.
  Qed.

  Lemma loc_cov (r : coll) : wf r = true -> forall a b, a < length (names r) -> b < length (names r) ->
    cov r (nth a (names r) 1%positive) (nth b (names r) 1%positive) =
    Some (match loc r a b with Some e => e | None => zero end).
  Proof.
    induction r as [|d tl IH]; intros Hwf a b Ha Hb; [cbn in Ha; lia|].
    destruct (wf_cons _ _ Hwf) as [Hwd Hwtl]. pose proof (wf_NoDup _ Hwf) as Hnd.
    rewrite names_cons in *. rewrite app_length in Ha, Hb. cbn [loc]. fold (dlen E d) in Ha, Hb. set (s := dlen E d) in *.
    assert (Hs : length (dnames d) = s) by reflexivity.
    destruct (Nat.ltb_spec a s) as [Has|Has]; destruct (Nat.ltb_spec b s) as [Hbs|Hbs]; cbn [andb].
    - (* both in the first block *)
      rewrite !app_nth1 by lia.
      rewrite (cov_same (d :: tl) d _ _ Hnd (or_introl eq_refl)) by (apply nth_In; lia).
      destruct d as [nm l m v | ns l mu V]; cbn [Model.dcov dnames dvar] in *.
      + assert (a = 0) by (cbn in Has; lia). assert (b = 0) by (cbn in Hbs; lia). subst. cbn. rewrite Pos.eqb_refl. reflexivity.
      + destruct (wf_dist_joint _ _ _ _ Hwd) as [_ [_ [_ [_ Hndn]]]].
        rewrite !(index_of_nth ns Hndn) by lia. reflexivity.
    - (* x in the first block, y later *)
      destruct (Nat.leb_spec s a); [lia|]. cbn [andb].
      rewrite app_nth1 by lia. rewrite app_nth2 by lia. rewrite Hs.
      assert (Hy : In (nth (b - s) (names tl) 1%positive) (names tl)) by (apply nth_In; lia).
      destruct (dist_of _ _ Hy) as [dy [Hdy Hyd]].
      apply (cov_diff (d :: tl) d dy _ _ Hnd (or_introl eq_refl) (or_intror Hdy)); [apply nth_In; lia | exact Hyd|].
      intro Hin. eapply NoDup_app_disj; [exact Hnd | exact Hin | exact Hy].
    - destruct (Nat.leb_spec s a); [|lia]. destruct (Nat.leb_spec s b); [lia|]. cbn [andb].
      rewrite app_nth2 by lia. rewrite app_nth1 by lia. rewrite Hs.
      assert (Hx : In (nth (a - s) (names tl) 1%positive) (names tl)) by (apply nth_In; lia).
      destruct (dist_of _ _ Hx) as [dx [Hdx Hxd]].
      apply (cov_diff (d :: tl) dx d _ _ Hnd (or_intror Hdx) (or_introl eq_refl) Hxd); [apply nth_In; lia|].
      intro Hin. apply (NoDup_app_disj _ _ (nth b (dnames d) 1%positive) Hnd); [apply nth_In; lia|].
      apply In_names. exists dx. split; [exact Hdx | exact Hin].
    - destruct (Nat.leb_spec s a); [|lia]. destruct (Nat.leb_spec s b); [|lia]. cbn [andb].
      rewrite !app_nth2 by lia. rewrite Hs.
      assert (Hx : In (nth (a - s) (names tl) 1%positive) (names tl)) by (apply nth_In; lia).
      assert (Hy : In (nth (b - s) (names tl) 1%positive) (names tl)) by (apply nth_In; lia).
      rewrite cov_cons_skip.
      + apply IH; [exact Hwtl | lia | lia].
      + intro Hin. eapply NoDup_app_disj; [exact Hnd | exact Hin | exact Hx].
      + intro Hin. eapply NoDup_app_disj; [exact Hnd | exact Hin | exact Hy].
  Qed.

  Lemma calc_entry_cov (r : coll) a b : wf r = true -> a < length (names r) -> b < length (names r) ->
    cov r (nth a (names r) 1%positive) (nth b (names r) 1%positive) = Some (mget (covariance_matrix E zero r) a b).
  Proof.
    intros Hwf Ha Hb. rewrite (loc_cov r Hwf a b Ha Hb), cov_block_diag_lemma by exact Hwf.
    assert (Hw : forall d, In d r -> wf_dist d = true) by (intros d Hd; eapply wf_In; eauto).
    destruct (block_diag_spec r Hw) as [_ BE]. rewrite (BE a b Ha Hb). reflexivity.
  Qed.

  Lemma covariance_matrix_sq (r : coll) : wf r = true -> sq (length (names r)) (covariance_matrix E zero r).
  Proof.
    intros Hwf. rewrite cov_block_diag_lemma by exact Hwf. apply block_diag_spec. intros d Hd. eapply wf_In; eauto.
  Qed.

  (* ---- join ------------------------------------------------------------------------------------- *)
  Variable mk_cov : id -> id -> E.
  Notation join := (join E zero is_zero mk_cov).
  Notation place := (place E).

  Definition isA (inds : list id) (d : dist) : bool := existsb (fun item => memp item (dnames d)) inds.
  (* every distribution is entirely inside or entirely outside inds *)
  Definition sep (inds : list id) (d : dist) : Prop :=
    (forall n, In n (dnames d) -> In n inds) \/ (forall n, In n (dnames d) -> ~ In n inds).

  Lemma isA_true inds (d : dist) : isA inds d = true <-> exists n, In n inds /\ In n (dnames d).
  Proof.
    unfold isA. rewrite existsb_exists. split; intros [n [H1 H2]]; exists n; split; auto; apply memp_In; exact H2.
  Qed.

  Lemma unjoin_sep inds (r : coll) d : wf r = true -> In d (unjoin inds r) -> sep inds d.
  Proof.
    intros Hwf Hd. apply In_unjoin in Hd. destruct Hd as [d0 [Hd0 Hp]].
    destruct d0 as [nm l m v | ns l mu V]; cbn [Model.unjoin1] in Hp.
    - destruct Hp as [<-|[]]. cbn [dnames]. destruct (in_dec Pos.eq_dec nm inds) as [Hi|Hi].
      + left. intros n [<-|[]]. exact Hi.
      + right. intros n [<-|[]]. exact Hi.
    - destruct (existsb (fun item => memp item ns) inds) eqn:Aff.
      + apply in_app_or in Hp. destruct Hp as [Hp|Hp].
        * apply in_map_iff in Hp. destruct Hp as [i [<- Hi]]. apply positions_spec in Hi. destruct Hi as [_ Hi].
          left. intros n [<-|[]]. apply memp_In. exact Hi.
        * right. intros n Hn.
          pose proof (map_nth_positions (fun n => negb (memp n inds)) ns 1%positive) as HK.
          assert (Hn' : In n (map (fun i => nth i ns 1%positive) (positions (fun n => negb (memp n inds)) ns))).
          { destruct (positions (fun n => negb (memp n inds)) ns) as [|k [|k2 K]]; [destruct Hp | |];
              destruct Hp as [<-|[]]; exact Hn. }
          rewrite HK in Hn'.
          apply filter_In in Hn'. destruct Hn' as [_ Hf]. apply memp_false_iff, negb_true_iff. exact Hf.
      + destruct Hp as [<-|[]]. right. intros n Hn. apply memp_false_iff. eapply unaffected_notin; eauto.
  Qed.

  Lemma sep_filter_names inds (u : coll) : (forall d, In d u -> sep inds d) ->
    filter (fun n => memp n inds) (names u) = names (filter (isA inds) u) /\
    filter (fun n => negb (memp n inds)) (names u) = names (filter (fun d => negb (isA inds d)) u).
  Proof.
    induction u as [|d tl IH]; intros Hs; [split; reflexivity|].
    destruct (IH (fun d' Hd' => Hs d' (or_intror Hd'))) as [I1 I2]. clear IH.
    rewrite names_cons. unfold id in *. rewrite !filter_app, I1, I2. cbn [filter].
    destruct (Hs d (or_introl eq_refl)) as [Hin|Hout].
    - assert (F1 : filter (fun n => memp n inds) (dnames d) = dnames d).
      { apply filter_all. intros n Hn. apply memp_In. auto. }
      assert (F2 : filter (fun n => negb (memp n inds)) (dnames d) = []).
      { destruct (filter (fun n => negb (memp n inds)) (dnames d)) as [|z zs] eqn:Ez; [reflexivity|].
        assert (Hz : In z (filter (fun n => negb (memp n inds)) (dnames d))) by (rewrite Ez; left; reflexivity).
        apply filter_In in Hz. destruct Hz as [Hz1 Hz2]. apply negb_true_iff, memp_false_iff in Hz2. exfalso. auto. }
      rewrite F1, F2. destruct (isA inds d) eqn:A; cbn [negb]; rewrite ?names_cons; split; try reflexivity.
      + (* isA false although all-in: no names *)
        destruct (dnames d) as [|z zs] eqn:Ez; [reflexivity|]. exfalso.
        assert (T : isA inds d = true). { apply isA_true. exists z. rewrite Ez. split; [apply Hin|]; left; reflexivity. }
        congruence.
      + destruct (dnames d) as [|z zs] eqn:Ez; [reflexivity|]. exfalso.
        assert (T : isA inds d = true). { apply isA_true. exists z. rewrite Ez. split; [apply Hin|]; left; reflexivity. }
        congruence.
    - assert (A : isA inds d = false).
      { destruct (isA inds d) eqn:A; [|reflexivity]. apply isA_true in A. destruct A as [n [H1 H2]]. exfalso. eapply Hout; eauto. }
      assert (F1 : filter (fun n => memp n inds) (dnames d) = []).
      { destruct (filter (fun n => memp n inds) (dnames d)) as [|z zs] eqn:Ez; [reflexivity|].
        assert (Hz : In z (filter (fun n => memp n inds) (dnames d))) by (rewrite Ez; left; reflexivity).
        apply filter_In in Hz. destruct Hz as [Hz1 Hz2]. apply memp_In in Hz2. exfalso. eapply Hout; eauto. }
      assert (F2 : filter (fun n => negb (memp n inds)) (dnames d) = dnames d).
      { apply filter_all. intros n Hn. apply negb_true_iff, memp_false_iff. auto. }
      rewrite A, F1, F2. cbn [negb]. rewrite names_cons. split; reflexivity.
  Qed.

  Lemma place_names joined inds (u : coll) first :
    Permutation (names (place joined inds first u))
                ((if first && existsb (isA inds) u then dnames joined else []) ++
                 names (filter (fun d => negb (isA inds d)) u)).
  Proof.
    revert first. induction u as [|d tl IH]; intros first; cbn [Model.place existsb filter].
    - rewrite andb_false_r. constructor.
    - fold (isA inds d). destruct (isA inds d) eqn:A; cbn [negb orb].
      + destruct first; cbn [andb].
        * rewrite names_cons. apply Permutation_app_head. apply (IH false).
        * apply (IH false).
      + rewrite !names_cons. eapply Permutation_trans; [apply Permutation_app_head, IH|].
        apply Permutation_app_swap_app.
  Qed.

  Lemma place_In joined inds (u : coll) first p :
    In p (place joined inds first u) <->
    (p = joined /\ first && existsb (isA inds) u = true) \/ (In p u /\ isA inds p = false).
  Proof.
    revert first. induction u as [|d tl IH]; intros first; cbn [Model.place existsb].
    - rewrite andb_false_r. cbn. split; [intros [] | intros [[_ H]|[[] _]]; discriminate].
    - fold (isA inds d). destruct (isA inds d) eqn:A; cbn [orb].
      + destruct first; cbn [andb In]; rewrite (IH false); cbn [andb]; split.
        * intros [H|[[_ H]|[H1 H2]]];
            [left; split; [symmetry; exact H | reflexivity] | discriminate | right; split; [right; exact H1 | exact H2]].
        * intros [[H _]|[[H|H] H2]]; [left; symmetry; exact H | subst; congruence | right; right; split; assumption].
        * intros [[_ H]|[H1 H2]]; [discriminate | right; split; [right; exact H1 | exact H2]].
        * intros [[_ H]|[[H|H] H2]]; [discriminate | subst; congruence | right; split; assumption].
      + cbn [In]. rewrite IH. split.
        * intros [H|[H|[H1 H2]]];
            [right; split; [left; exact H | subst; exact A] | left; exact H | right; split; [right; exact H1 | exact H2]].
        * intros [H|[[H|H] H2]]; [right; left; exact H | left; exact H | right; right; split; assumption].
  Qed.

  Lemma existsb_filter_nil {A} (f : A -> bool) l : existsb f l = false -> filter f l = [].
  Proof.
    induction l as [|x tl IH]; cbn; [reflexivity|]. destruct (f x); cbn; [discriminate|]. exact IH.
  Qed.

  Lemma joined_place_perm inds (r : coll) joined : wf r = true ->
    dnames joined = filter (fun n => memp n inds) (names r) ->
    Permutation (names (place joined inds true (unjoin inds r))) (names r).
  Proof.
    intros Hwf Hj. set (u := unjoin inds r).
    destruct (sep_filter_names inds u (fun d Hd => unjoin_sep inds r d Hwf Hd)) as [S1 S2].
    eapply Permutation_trans; [apply place_names|]. cbn [andb]. rewrite <- S2.
    eapply Permutation_trans; [|apply unjoin_names_perm]. fold u.
    eapply Permutation_trans; [|apply filter_app_perm].
    apply Permutation_app_tail.
    destruct (existsb (isA inds) u) eqn:Ex.
    - rewrite Hj. apply filter_perm. apply Permutation_sym. apply unjoin_names_perm.
    - unfold id in *. fold u. rewrite S1, (existsb_filter_nil _ _ Ex). constructor.
  Qed.

  Lemma cov_transfer (c1 c2 : coll) dx dy x y : NoDup (names c1) -> NoDup (names c2) ->
    In dx c1 -> In dx c2 -> In dy c1 -> In dy c2 -> In x (dnames dx) -> In y (dnames dy) ->
    cov c1 x y = cov c2 x y.
  Proof.
    intros N1 N2 X1 X2 Y1 Y2 Hx Hy. destruct (in_dec Pos.eq_dec y (dnames dx)) as [Hin|Hout].
    - rewrite (cov_same c1 dx x y N1 X1 Hx Hin), (cov_same c2 dx x y N2 X2 Hx Hin). reflexivity.
    - rewrite (cov_diff c1 dx dy x y N1 X1 Y1 Hx Hy Hout), (cov_diff c2 dx dy x y N2 X2 Y2 Hx Hy Hout). reflexivity.
  Qed.

  (* the collection produced by join, whatever the joined matrix is *)
  Section Placed.
    Variable inds : list id.
    Variable r : coll.
    Variable joined : dist.
    Hypothesis Hwf : wf r = true.
    Hypothesis Hj : dnames joined = filter (fun n => memp n inds) (names r).
    Let r' := place joined inds true (unjoin inds r).

    Lemma placed_NoDup : NoDup (names r').
    Proof.
      eapply Permutation_NoDup; [apply Permutation_sym, (joined_place_perm inds r joined Hwf Hj) | apply wf_NoDup; exact Hwf].
    Qed.

    Lemma placed_kept_piece x : In x (names r) -> ~ In x inds ->
      exists p, In p r' /\ In p (unjoin inds r) /\ In x (dnames p) /\ (forall n, In n (dnames p) -> ~ In n inds).
    Proof.
      intros Hx Hni. destruct (dist_of _ _ Hx) as [dx [Hdx Hxd]].
      destruct (kept_piece inds dx x (wf_In _ _ Hwf Hdx) Hxd Hni) as [p [Hp [Np _]]].
      assert (Ip : In p (unjoin inds r)) by (apply In_unjoin; eauto).
      assert (Out : forall n, In n (dnames p) -> ~ In n inds).
      { intros n Hn. rewrite Np in Hn. apply filter_In in Hn. destruct Hn as [_ Hf]. apply memp_false_iff, negb_true_iff. exact Hf. }
      exists p. split; [|split; [exact Ip|split; [|exact Out]]].
      - apply place_In. right. split; [exact Ip|]. destruct (isA inds p) eqn:A; [|reflexivity].
        apply isA_true in A. destruct A as [n [H1 H2]]. exfalso. eapply Out; eauto.
      - rewrite Np. apply filter_In. split; [exact Hxd|]. apply negb_true_iff, memp_false_iff. exact Hni.
    Qed.

    Lemma placed_joined_in x : In x (names r) -> In x inds -> In joined r' /\ In x (dnames joined).
    Proof.
      intros Hx Hi. split.
      - apply place_In. left. split; [reflexivity|]. cbn [andb]. apply existsb_exists.
        destruct (dist_of _ _ Hx) as [dx [Hdx Hxd]].
        destruct (removed_piece inds dx x (wf_In _ _ Hwf Hdx) Hxd Hi) as [p [Hp [Np _]]].
        exists p. split; [apply In_unjoin; eauto|]. apply isA_true. exists x. split; [exact Hi|]. rewrite Np. left. reflexivity.
      - rewrite Hj. apply filter_In. split; [exact Hx | apply memp_In; exact Hi].
    Qed.

    Lemma placed_cov_outside x y : In x (names r) -> In y (names r) -> ~ In x inds -> ~ In y inds ->
      cov r' x y = cov r x y.
    Proof.
      intros Hx Hy Hnx Hny.
      destruct (placed_kept_piece x Hx Hnx) as [px [X1 [X2 [X3 _]]]].
      destruct (placed_kept_piece y Hy Hny) as [py [Y1 [Y2 [Y3 _]]]].
      rewrite (cov_transfer r' (unjoin inds r) px py x y placed_NoDup (unjoin_NoDup inds r (wf_NoDup _ Hwf)) X1 X2 Y1 Y2 X3 Y3).
      apply unjoin_cov_kept; assumption.
    Qed.

    Lemma placed_cov_cross x y : In x (names r) -> In y (names r) -> In x inds -> ~ In y inds ->
      cov r' x y = Some zero /\ cov r' y x = Some zero.
    Proof.
      intros Hx Hy Hi Hny.
      destruct (placed_joined_in x Hx Hi) as [J1 J2].
      destruct (placed_kept_piece y Hy Hny) as [py [Y1 [_ [Y3 Yout]]]].
      split.
      - apply (cov_diff r' joined py x y placed_NoDup J1 Y1 J2 Y3). rewrite Hj. intro H. apply filter_In in H.
        destruct H as [_ H]. apply memp_In in H. contradiction.
      - apply (cov_diff r' py joined y x placed_NoDup Y1 J1 Y3 J2). intro H. eapply Yout; eauto.
    Qed.

    Lemma placed_cov_inside x y : In x (names r) -> In y (names r) -> In x inds -> In y inds ->
      cov r' x y = dcov joined x y.
    Proof.
      intros Hx Hy Hxi Hyi. destruct (placed_joined_in x Hx Hxi) as [J1 J2]. destruct (placed_joined_in y Hy Hyi) as [_ J3].
      apply (cov_same r' joined x y placed_NoDup J1 J2 J3).
    Qed.
  End Placed.

  (* ---- tables ------------------------------------------------------------------------------------ *)
  Lemma mget_mtab n c f i j : i < n -> j < c -> mget (mtab E n c f) i j = f i j.
  Proof.
    intros Hi Hj. unfold Model.mget, mtab.
    rewrite (nth_map_nth (fun i => map (fun j => f i j) (seq 0 c)) (seq 0 n) i 0 []) by (rewrite seq_length; exact Hi).
    rewrite seq_nth by exact Hi. cbn [plus].
    rewrite (nth_map_nth (fun j => f i j) (seq 0 c) j 0 zero) by (rewrite seq_length; exact Hj).
    rewrite seq_nth by exact Hj. reflexivity.
  Qed.

  Lemma mtab_sq n f : sq n (mtab E n n f).
  Proof.
    unfold mtab. split; [rewrite map_length, seq_length; reflexivity|].
    intros row Hr. apply in_map_iff in Hr. destruct Hr as [i [<- _]]. rewrite map_length, seq_length. reflexivity.
  Qed.

  Lemma sq_dims n (M : matrix) : sq n M -> 1 <= n -> mrows E M = n /\ mcols E M = n.
  Proof.
    intros [H1 H2] Hn. unfold mrows, mcols. split; [exact H1|].
    destruct M as [|row M']; [cbn in H1; lia|]. apply H2. left. reflexivity.
  Qed.

  Definition join_matrix (fill : E) (tmpl : option (list id)) (M : matrix) : matrix :=
    if negb (is_zero fill) then fill_matrix E zero is_zero fill M
    else match tmpl with Some pn => tmpl_matrix E zero is_zero mk_cov pn M | None => M end.

  Lemma join_matrix_sq n fill tmpl (M : matrix) : sq n M -> 1 <= n -> sq n (join_matrix fill tmpl M).
  Proof.
    intros Hsq Hn. destruct (sq_dims n M Hsq Hn) as [HR HC]. unfold join_matrix.
    destruct (negb (is_zero fill)).
    - unfold fill_matrix. rewrite HR, HC. apply mtab_sq.
    - destruct tmpl as [pn|]; [|exact Hsq]. unfold tmpl_matrix. rewrite HR, HC. apply mtab_sq.
  Qed.

  Lemma variance_cov (r : coll) x : variance E zero r x = cov r x x.
  Proof.
    unfold Model.variance, Model.cov. destruct (lookup r x) as [[i d]|]; [|reflexivity].
    rewrite Nat.eqb_refl. destruct d as [n l m v | ns l mu V]; cbn [dvariance Model.dcov].
    - rewrite andb_diag. reflexivity.
    - destruct (index_of x ns); reflexivity.
  Qed.

  Lemma calc_parts (g : coll) : wf g = true -> g <> [] ->
    calc E zero g = (flat_map (dmeans E) g, covariance_matrix E zero g, names g).
  Proof.
    intros Hwf Hne. unfold covariance_matrix, calc. destruct (names g) as [|x tl] eqn:En; [|reflexivity].
    exfalso. apply Hne. apply wf_names_nil; assumption.
  Qed.

  Lemma join_inv inds fill tmpl (r r' : coll) ps : wf r = true -> join inds fill tmpl r = Ok (r', ps) ->
    (forall x, In x inds -> In x (names r)) /\
    exists d0 gtl, getitem_list inds r = d0 :: gtl /\
      r' = place (Joint (names (getitem_list inds r)) (dlevel d0) (flat_map (dmeans E) (getitem_list inds r))
                        (join_matrix fill tmpl (covariance_matrix E zero (getitem_list inds r))))
                 inds true (unjoin inds r).
  Proof.
    intros Hwf H. unfold Model.join in H.
    destruct (existsb (fun item => negb (memp item (names r))) inds) eqn:Ex; [discriminate|].
    split.
    - intros x Hx. destruct (memp x (names r)) eqn:M; [apply memp_In; exact M|]. exfalso.
      assert (T : existsb (fun item => negb (memp item (names r))) inds = true).
      { apply existsb_exists. exists x. rewrite M. auto. }
      congruence.
    - pose proof (getitem_wf inds r Hwf) as Hwg.
      destruct (getitem_list inds r) as [|d0 gtl] eqn:Eg.
      + exfalso. cbn in H. destruct (negb (is_zero fill)); [discriminate|]. destruct tmpl as [pn|]; cbn in H; discriminate.
      + exists d0, gtl. split; [reflexivity|]. rewrite (calc_parts _ Hwg) in H by discriminate.
        unfold join_matrix. destruct (negb (is_zero fill)).
        * inversion H. reflexivity.
        * destruct tmpl as [pn|].
          -- destruct (tmpl_index_error E zero is_zero pn _); [discriminate|]. inversion H. reflexivity.
          -- inversion H. reflexivity.
  Qed.

  (* entries of the joined block, for every pair of joined variables *)
  Lemma join_entry inds fill tmpl (r r' : coll) ps x y : wf r = true -> join inds fill tmpl r = Ok (r', ps) ->
    In x inds -> In y inds ->
    let nm := filter (fun n => memp n inds) (names r) in
    let M := covariance_matrix E zero (getitem_list inds r) in
    exists i j, index_of x nm = Some i /\ index_of y nm = Some j /\ i < length nm /\ j < length nm /\
                cov r x y = Some (mget M i j) /\
                cov r' x y = Some (mget (join_matrix fill tmpl M) i j) /\
                sq (length nm) M /\
                (forall a b, a < length nm -> b < length nm ->
                             cov r (nth a nm 1%positive) (nth b nm 1%positive) = Some (mget M a b)).
  Proof.
    intros Hwf HJ Hxi Hyi nm M. destruct (join_inv _ _ _ _ _ _ Hwf HJ) as [Hall [d0 [gtl [Eg ->]]]].
    pose proof (getitem_wf inds r Hwf) as Hwg. pose proof (getitem_names inds r Hwf) as Hng. fold nm in Hng.
    pose proof (Hall x Hxi) as Hx. pose proof (Hall y Hyi) as Hy.
    assert (Xn : In x nm) by (apply filter_In; split; [exact Hx | apply memp_In; exact Hxi]).
    assert (Yn : In y nm) by (apply filter_In; split; [exact Hy | apply memp_In; exact Hyi]).
    destruct (index_of_In _ _ Xn) as [i Hi]. destruct (index_of_In _ _ Yn) as [j Hj].
    destruct (index_of_Some _ _ _ Hi) as [Hil Hin]. destruct (index_of_Some _ _ _ Hj) as [Hjl Hjn].
    assert (Entries : forall a b, a < length nm -> b < length nm ->
                      cov r (nth a nm 1%positive) (nth b nm 1%positive) = Some (mget M a b)).
    { intros a b Ha Hb. unfold M. rewrite <- calc_entry_cov by (try exact Hwg; rewrite Hng; assumption).
      rewrite Hng. symmetry. apply getitem_marginal; try exact Hwf.
      - assert (H : In (nth a nm 1%positive) nm) by (apply nth_In; exact Ha). apply filter_In in H. destruct H; assumption.
      - assert (H : In (nth b nm 1%positive) nm) by (apply nth_In; exact Hb). apply filter_In in H. destruct H; assumption.
      - assert (H : In (nth a nm 1%positive) nm) by (apply nth_In; exact Ha). apply filter_In in H. apply memp_In. destruct H; assumption.
      - assert (H : In (nth b nm 1%positive) nm) by (apply nth_In; exact Hb). apply filter_In in H. apply memp_In. destruct H; assumption. }
    exists i, j. repeat split; try assumption.
    - rewrite <- (Hin 1%positive) at 1. rewrite <- (Hjn 1%positive) at 1. apply Entries; assumption.
    - rewrite (placed_cov_inside inds r _ Hwf) by (try assumption; cbn [dnames]; exact Hng).
      cbn [Model.dcov]. rewrite Hng, Hi, Hj. reflexivity.
    - unfold M. rewrite <- Hng. apply covariance_matrix_sq. exact Hwg.
    - unfold M. rewrite <- Hng. apply covariance_matrix_sq. exact Hwg.
  Qed.

  Lemma fill_entry n fill (M : matrix) i j : sq n M -> i < n -> j < n ->
    mget (fill_matrix E zero is_zero fill M) i j =
    if is_zero (mget M i j) && negb (Nat.eqb i j) then fill else mget M i j.
  Proof.
    intros Hsq Hi Hj. destruct (sq_dims n M Hsq ltac:(lia)) as [HR HC]. unfold fill_matrix. rewrite HR, HC.
    rewrite mget_mtab by assumption. reflexivity.
  Qed.

  Lemma tmpl_entry_eq n pn (M : matrix) i j : sq n M -> i < n -> j < n ->
    mget (tmpl_matrix E zero is_zero mk_cov pn M) i j = tmpl_entry E zero is_zero mk_cov pn M i j.
  Proof.
    intros Hsq Hi Hj. destruct (sq_dims n M Hsq ltac:(lia)) as [HR HC]. unfold tmpl_matrix. rewrite HR, HC.
    rewrite mget_mtab by assumption. reflexivity.
  Qed.

  Lemma join_names_lemma inds fill tmpl (r r' : coll) ps : wf r = true -> join inds fill tmpl r = Ok (r', ps) ->
    Permutation (names r') (names r).
  Proof.
    intros Hwf HJ. destruct (join_inv _ _ _ _ _ _ Hwf HJ) as [_ [d0 [gtl [Eg ->]]]].
    apply joined_place_perm; [exact Hwf|]. cbn [dnames]. apply getitem_names. exact Hwf.
  Qed.

  Lemma join_block_contiguous inds fill tmpl (r r' : coll) ps : wf r = true -> join inds fill tmpl r = Ok (r', ps) ->
    exists pre post, names r' = pre ++ filter (fun n => memp n inds) (names r) ++ post.
  Proof.
    intros Hwf HJ. destruct (join_inv _ _ _ _ _ _ Hwf HJ) as [Hall [d0 [gtl [Eg ->]]]].
    pose proof (getitem_names inds r Hwf) as Hng.
    assert (Hne : exists x, In x inds /\ In x (names r)).
    { assert (Hx : In d0 (getitem_list inds r)) by (rewrite Eg; left; reflexivity).
      pose proof (wf_In _ _ (getitem_wf inds r Hwf) Hx) as Hw0.
      assert (exists x, In x (dnames d0)) as [x Hx0].
      { destruct d0 as [n l m v|ns l mu V]; [exists n; left; reflexivity|]. destruct (wf_dist_joint _ _ _ _ Hw0) as [Hl _].
        destruct ns as [|n ns]; [cbn in Hl; lia|]. exists n. left. reflexivity. }
      assert (Hxg : In x (names (getitem_list inds r))) by (apply In_names; exists d0; split; assumption).
      rewrite Hng in Hxg. apply filter_In in Hxg. destruct Hxg as [H1 H2]. exists x. split; [apply memp_In; exact H2 | exact H1]. }
    destruct Hne as [x [Hxi Hx]].
    set (joined := Joint (names (getitem_list inds r)) (dlevel d0) (flat_map (dmeans E) (getitem_list inds r))
                         (join_matrix fill tmpl (covariance_matrix E zero (getitem_list inds r)))).
    destruct (placed_joined_in inds r joined Hwf Hng x Hx Hxi) as [J _].
    destruct (in_split _ _ J) as [l1 [l2 El]]. exists (names l1), (names l2).
    fold joined. rewrite El, names_app, names_cons. cbn [dnames joined]. rewrite Hng. reflexivity.
  Qed.

  Lemma join_outside_lemma inds fill tmpl (r r' : coll) ps x y : wf r = true -> join inds fill tmpl r = Ok (r', ps) ->
    In x (names r) -> In y (names r) -> ~ In x inds -> ~ In y inds -> cov r' x y = cov r x y.
  Proof.
    intros Hwf HJ Hx Hy Hnx Hny. destruct (join_inv _ _ _ _ _ _ Hwf HJ) as [_ [d0 [gtl [Eg ->]]]].
    apply placed_cov_outside; try assumption. cbn [dnames]. apply getitem_names. exact Hwf.
  Qed.

  Lemma join_cross_lemma inds fill tmpl (r r' : coll) ps x y : wf r = true -> join inds fill tmpl r = Ok (r', ps) ->
    In x inds -> In y (names r) -> ~ In y inds -> cov r' x y = Some zero /\ cov r' y x = Some zero.
  Proof.
    intros Hwf HJ Hxi Hy Hny. destruct (join_inv _ _ _ _ _ _ Hwf HJ) as [Hall [d0 [gtl [Eg ->]]]].
    apply placed_cov_cross; try assumption; [cbn [dnames]; apply getitem_names; exact Hwf | apply Hall; exact Hxi].
  Qed.

  Lemma join_variance_lemma inds fill tmpl (r r' : coll) ps x : wf r = true -> join inds fill tmpl r = Ok (r', ps) ->
    In x (names r) -> cov r' x x = cov r x x.
  Proof.
    intros Hwf HJ Hx. destruct (in_dec Pos.eq_dec x inds) as [Hi|Hni].
    - destruct (join_entry _ _ _ _ _ _ x x Hwf HJ Hi Hi) as [i [j [Hi1 [Hj1 [Hil [Hjl [C [C' [Hsq _]]]]]]]]].
      rewrite Hi1 in Hj1. inversion Hj1; subst j. rewrite C, C'. f_equal.
      unfold join_matrix. destruct (is_zero fill) eqn:Zf; cbn [negb].
      + destruct tmpl as [pn|]; [|reflexivity]. rewrite (tmpl_entry_eq _ pn _ i i Hsq Hil Hil).
        unfold tmpl_entry. rewrite Nat.min_id, Nat.max_id, Nat.ltb_irrefl. reflexivity.
      + rewrite (fill_entry _ fill _ i i Hsq Hil Hil). rewrite Nat.eqb_refl, andb_false_r. reflexivity.
    - eapply join_outside_lemma; eauto.
  Qed.

  Lemma join_inblock_lemma inds fill tmpl (r r' : coll) ps x y e e' : wf r = true -> join inds fill tmpl r = Ok (r', ps) ->
    In x inds -> In y inds -> cov r x y = Some e -> cov r y x = Some e' ->
    ((is_zero fill = true /\ tmpl = None) \/ (is_zero e = false /\ is_zero e' = false)) ->
    cov r' x y = Some e.
  Proof.
    intros Hwf HJ Hxi Hyi Ce Ce' G.
    destruct (join_entry _ _ _ _ _ _ x y Hwf HJ Hxi Hyi) as [i [j [Hi1 [Hj1 [Hil [Hjl [C [C' [Hsq Ent]]]]]]]]].
    destruct (join_entry _ _ _ _ _ _ y x Hwf HJ Hyi Hxi) as [j' [i' [Hj2 [Hi2 [_ [_ [D _]]]]]]].
    rewrite Hj1 in Hj2. rewrite Hi1 in Hi2. inversion Hj2; inversion Hi2; subst j' i'.
    rewrite C in Ce. inversion Ce as [Ee]. rewrite D in Ce'. inversion Ce' as [Ee'].
    rewrite C'. f_equal. unfold join_matrix.
    destruct (is_zero fill) eqn:Zf; cbn [negb].
    - destruct tmpl as [pn|]; [|reflexivity].
      destruct G as [[_ G]|[G1 G2]]; [discriminate|].
      rewrite (tmpl_entry_eq _ pn _ i j Hsq Hil Hjl). unfold tmpl_entry.
      destruct (Nat.ltb_spec (Nat.min i j) (Nat.max i j)) as [Hlt|Hge]; cbn [andb]; [|reflexivity].
      destruct (Nat.le_ge_cases i j) as [Hij|Hij].
      + rewrite Nat.min_l, Nat.max_r by exact Hij. rewrite Ee', G2. reflexivity.
      + rewrite Nat.min_r, Nat.max_l by exact Hij. rewrite Ee, G1. reflexivity.
    - destruct G as [[G _]|[G1 G2]]; [discriminate|].
      rewrite (fill_entry _ fill _ i j Hsq Hil Hjl). rewrite Ee, G1. reflexivity.
  Qed.

  Hypothesis is_zero_zero : is_zero zero = true.

  Lemma join_new_cov_lemma inds fill tmpl (r r' : coll) ps x y d : wf r = true -> join inds fill tmpl r = Ok (r', ps) ->
    In x inds -> In y inds -> In d r -> In x (dnames d) -> ~ In y (dnames d) ->
    let nm := filter (fun n => memp n inds) (names r) in
    exists i j, index_of x nm = Some i /\ index_of y nm = Some j /\ i <> j /\
      cov r' x y = Some (if negb (is_zero fill) then fill
                         else match tmpl with
                              | Some pn => mk_cov (nth (Nat.min i j) pn 1%positive) (nth (Nat.max i j) pn 1%positive)
                              | None => zero
                              end).
  Proof.
    intros Hwf HJ Hxi Hyi Hd Hxd Hyd nm. pose proof (wf_NoDup _ Hwf) as Hnd.
    destruct (join_inv _ _ _ _ _ _ Hwf HJ) as [Hall _].
    destruct (dist_of _ _ (Hall y Hyi)) as [dy [Hdy Hydy]].
    assert (Cxy : cov r x y = Some zero) by (apply (cov_diff r d dy x y Hnd Hd Hdy Hxd Hydy Hyd)).
    assert (Cyx : cov r y x = Some zero).
    { apply (cov_diff r dy d y x Hnd Hdy Hd Hydy Hxd). intro H.
      pose proof (same_dist r d dy x Hnd Hd Hdy Hxd H). subst dy. contradiction. }
    destruct (join_entry _ _ _ _ _ _ x y Hwf HJ Hxi Hyi) as [i [j [Hi1 [Hj1 [Hil [Hjl [C [C' [Hsq Ent]]]]]]]]].
    destruct (join_entry _ _ _ _ _ _ y x Hwf HJ Hyi Hxi) as [j' [i' [Hj2 [Hi2 [_ [_ [D _]]]]]]].
    fold nm in Hi1, Hj1, Hj2, Hi2, Hil, Hjl, Hsq.
    rewrite Hj1 in Hj2. rewrite Hi1 in Hi2. inversion Hj2; inversion Hi2; subst j' i'.
    assert (Exy : mget (covariance_matrix E zero (getitem_list inds r)) i j = zero) by (rewrite C in Cxy; congruence).
    assert (Eyx : mget (covariance_matrix E zero (getitem_list inds r)) j i = zero) by (rewrite D in Cyx; congruence).
    assert (Hne : i <> j).
    { intro. subst j. destruct (index_of_Some _ _ _ Hi1) as [_ H1]. destruct (index_of_Some _ _ _ Hj1) as [_ H2].
      apply Hyd. rewrite <- (H2 1%positive), (H1 1%positive). exact Hxd. }
    exists i, j. split; [exact Hi1|]. split; [exact Hj1|]. split; [exact Hne|]. rewrite C'. f_equal. unfold join_matrix.
    destruct (negb (is_zero fill)).
    - rewrite (fill_entry _ fill _ i j Hsq Hil Hjl). rewrite Exy, is_zero_zero.
      destruct (Nat.eqb_spec i j); [contradiction | reflexivity].
    - destruct tmpl as [pn|]; [|exact Exy].
      rewrite (tmpl_entry_eq _ pn _ i j Hsq Hil Hjl). unfold tmpl_entry.
      destruct (Nat.ltb_spec (Nat.min i j) (Nat.max i j)) as [Hlt|Hge]; [|lia]. cbn [andb].
      destruct (Nat.le_ge_cases i j) as [Hij|Hij].
      + rewrite Nat.min_l, Nat.max_r by exact Hij. rewrite Eyx, is_zero_zero. reflexivity.
      + rewrite Nat.min_r, Nat.max_l by exact Hij. rewrite Exy, is_zero_zero. reflexivity.
  Qed.

  Lemma means_length (g : coll) : (forall d, In d g -> wf_dist d = true) -> length (flat_map (dmeans E) g) = length (names g).
  Proof.
    induction g as [|d tl IH]; intros Hw; [reflexivity|].
    cbn [flat_map]. rewrite names_cons, !app_length, IH by (intros d' Hd'; apply Hw; right; exact Hd'). f_equal.
    pose proof (Hw d (or_introl eq_refl)) as Hd. destruct d as [n l m v | ns l mu V]; [reflexivity|].
    destruct (wf_dist_joint _ _ _ _ Hd) as [_ [Hmu _]]. exact Hmu.
  Qed.

  Lemma join_wf_lemma inds fill tmpl (r r' : coll) ps : wf r = true -> join inds fill tmpl r = Ok (r', ps) -> wf r' = true.
  Proof.
    intros Hwf HJ. pose proof (join_names_lemma _ _ _ _ _ _ Hwf HJ) as Hperm.
    destruct (join_inv _ _ _ _ _ _ Hwf HJ) as [Hall [d0 [gtl [Eg ->]]]].
    pose proof (getitem_wf inds r Hwf) as Hwg. pose proof (getitem_names inds r Hwf) as Hng.
    unfold Model.wf. apply andb_true_iff. split.
    - apply forallb_forall. intros p Hp. apply place_In in Hp. destruct Hp as [[-> _]|[Hp _]].
      + set (g := getitem_list inds r) in *. set (n := length (names g)).
        assert (Hn : 1 <= n).
        { unfold n. destruct (names g) eqn:En; [|cbn; lia]. rewrite (wf_names_nil g Hwg En) in Eg. discriminate. }
        destruct (join_matrix_sq n fill tmpl _ (covariance_matrix_sq g Hwg) Hn) as [ML MR].
        cbn [Model.wf_dist]. rewrite means_length by (intros d Hd; eapply wf_In; eauto). fold n. rewrite ML, !Nat.eqb_refl.
        apply andb_true_iff. split; [apply andb_true_iff; split|].
        * apply andb_true_iff. split; [apply andb_true_iff; split; [apply Nat.leb_le; exact Hn | reflexivity] | reflexivity].
        * apply forallb_forall. intros row Hrow. apply Nat.eqb_eq. apply MR. exact Hrow.
        * apply nodupb_NoDup. apply wf_NoDup. exact Hwg.
      + eapply wf_In; [apply (unjoin_wf inds r Hwf) | exact Hp].
    - apply nodupb_NoDup. eapply Permutation_NoDup; [apply Permutation_sym; exact Hperm | apply wf_NoDup; exact Hwf].
  Qed.

  (* ---- __add__ ------------------------------------------------------------------------------------ *)
  Lemma add_cov_left (r r2 : coll) x y : NoDup (names (r ++ r2)) -> In x (names r) -> In y (names r) ->
    cov (r ++ r2) x y = cov r x y.
  Proof.
    intros Hnd Hx Hy. destruct (dist_of _ _ Hx) as [dx [Hdx Hxd]]. destruct (dist_of _ _ Hy) as [dy [Hdy Hyd]].
    rewrite names_app in Hnd.
    apply (cov_transfer (r ++ r2) r dx dy x y); try assumption; try (apply in_or_app; left; assumption).
    - rewrite names_app. exact Hnd.
    - eapply NoDup_app_l; eauto.
  Qed.

  Lemma add_cov_right (r r2 : coll) x y : NoDup (names (r ++ r2)) -> In x (names r2) -> In y (names r2) ->
    cov (r ++ r2) x y = cov r2 x y.
  Proof.
    intros Hnd Hx Hy. destruct (dist_of _ _ Hx) as [dx [Hdx Hxd]]. destruct (dist_of _ _ Hy) as [dy [Hdy Hyd]].
    rewrite names_app in Hnd.
    apply (cov_transfer (r ++ r2) r2 dx dy x y); try assumption; try (apply in_or_app; right; assumption).
    - rewrite names_app. exact Hnd.
    - eapply NoDup_app_r; eauto.
  Qed.

  Lemma add_cov_cross (r r2 : coll) x y : NoDup (names (r ++ r2)) -> In x (names r) -> In y (names r2) ->
    cov (r ++ r2) x y = Some zero /\ cov (r ++ r2) y x = Some zero.
  Proof.
    intros Hnd Hx Hy. destruct (dist_of _ _ Hx) as [dx [Hdx Hxd]]. destruct (dist_of _ _ Hy) as [dy [Hdy Hyd]].
    assert (Ix : In dx (r ++ r2)) by (apply in_or_app; left; exact Hdx).
    assert (Iy : In dy (r ++ r2)) by (apply in_or_app; right; exact Hdy).
    pose proof Hnd as Hnd'. rewrite names_app in Hnd'.
    split.
    - apply (cov_diff _ dx dy x y Hnd Ix Iy Hxd Hyd). intro H. eapply NoDup_app_disj; [exact Hnd' | | exact Hy].
      apply In_names. exists dx. split; assumption.
    - apply (cov_diff _ dy dx y x Hnd Iy Ix Hyd Hxd). intro H. eapply NoDup_app_disj; [exact Hnd' | exact Hx |].
      apply In_names. exists dy. split; assumption.
  Qed.

  (* + goes through create: the result exists exactly when the names stay unique *)
  Lemma create_Ok (ds ds' : coll) : create E ds = Ok ds' -> ds' = ds /\ NoDup (names ds).
  Proof.
    unfold create. destruct (nodupb (names ds)) eqn:N; [|discriminate]. intros H. inversion H; subst.
    split; [reflexivity | apply nodupb_NoDup; exact N].
  Qed.

  Lemma add_coll_spec (r r2 r' : coll) : add_coll E r r2 = Ok r' -> r' = r ++ r2 /\ NoDup (names (r ++ r2)).
  Proof. apply create_Ok. Qed.

  Lemma add_coll_error (r r2 : coll) : add_coll E r r2 = Err ValueError <-> ~ NoDup (names (r ++ r2)).
  Proof.
    unfold add_coll, create. destruct (nodupb (names (r ++ r2))) eqn:N.
    - split; [discriminate | intros H; exfalso; apply H, nodupb_NoDup, N].
    - split; [intros _ H; apply nodupb_NoDup in H; congruence | reflexivity].
  Qed.

  Lemma add_coll_wf (r r2 r' : coll) : wf r = true -> wf r2 = true -> add_coll E r r2 = Ok r' -> wf r' = true.
  Proof.
    intros W1 W2 H. destruct (add_coll_spec _ _ _ H) as [-> Hnd]. unfold Model.wf in *.
    apply andb_true_iff in W1. apply andb_true_iff in W2. destruct W1 as [W1 _]. destruct W2 as [W2 _].
    apply andb_true_iff. split; [rewrite forallb_app, W1, W2; reflexivity | apply nodupb_NoDup; exact Hnd].
  Qed.

  Lemma add_dist_spec (r r' : coll) d : add_dist E r d = Ok r' -> r' = r ++ [d] /\ NoDup (names (r ++ [d])).
  Proof. unfold add_dist. destruct (negb (level_known E d)); [discriminate | apply create_Ok]. Qed.

  Lemma radd_dist_spec (r r' : coll) d : radd_dist E r d = Ok r' -> r' = d :: r /\ NoDup (names (d :: r)).
  Proof. unfold radd_dist. destruct (negb (level_known E d)); [discriminate | apply create_Ok]. Qed.
End Facts.

(* ---------------------------------------------------------------------------------------------- *)
(* variability levels                                                                             *)
(* ---------------------------------------------------------------------------------------------- *)
Section Levels.
  Variable E : Type.
  Variable zero : E.
  Variable is_zero : E -> bool.
  Variable mk_cov : id -> id -> E.

  Lemma level_In (r : coll E) d x : NoDup (names r) -> In d r -> In x (dnames d) -> level E r x = Some (dlevel d).
  Proof.
    intros Hnd Hd Hx. unfold level. destruct (lookup_In E r d x Hnd Hd Hx) as [i [L _]]. rewrite L. reflexivity.
  Qed.

  Lemma unjoin_level_lemma inds (r : coll E) x : wf E r = true -> In x (names r) ->
    level E (unjoin E zero inds r) x = level E r x.
  Proof.
    intros Hwf Hx. pose proof (wf_NoDup E _ Hwf) as Hnd. pose proof (unjoin_NoDup E zero inds r Hnd) as Hnd'.
    destruct (dist_of E _ _ Hx) as [dx [Hdx Hxd]]. rewrite (level_In r dx x Hnd Hdx Hxd).
    destruct (in_dec Pos.eq_dec x inds) as [Hi|Hni].
    - destruct (removed_piece E zero inds dx x (wf_In E _ _ Hwf Hdx) Hxd Hi) as [p [Hp [Np [_ [Lp _]]]]].
      rewrite (level_In _ p x Hnd'); [rewrite Lp; reflexivity | apply In_unjoin; eauto | rewrite Np; left; reflexivity].
    - destruct (kept_piece E zero inds dx x (wf_In E _ _ Hwf Hdx) Hxd Hni) as [p [Hp [Np [_ [Lp _]]]]].
      rewrite (level_In _ p x Hnd'); [rewrite Lp; reflexivity | apply In_unjoin; eauto |].
      rewrite Np. apply filter_In. split; [exact Hxd|]. apply negb_true_iff, memp_false_iff. exact Hni.
  Qed.

  Lemma getitem_level_lemma ind (r : coll E) x : wf E r = true -> In x (names r) -> In x ind ->
    level E (getitem_list E zero ind r) x = level E r x.
  Proof.
    intros Hwf Hx Hi. pose proof (wf_NoDup E _ Hwf) as Hnd.
    pose proof (getitem_wf E zero ind r Hwf) as Hwg. pose proof (wf_NoDup E _ Hwg) as Hndg.
    assert (Gx : In x (names (getitem_list E zero ind r))).
    { rewrite Proofs.getitem_names by exact Hwf. apply filter_In. split; [exact Hx | apply memp_In; exact Hi]. }
    destruct (dist_of E _ _ Gx) as [p [Hp Hxp]]. rewrite (level_In _ p x Hndg Hp Hxp).
    unfold getitem_list in Hp. apply filter_In in Hp. destruct Hp as [Hp _].
    rewrite <- (unjoin_level_lemma (removed_of E ind r) r x Hwf Hx).
    symmetry. apply level_In; [apply unjoin_NoDup; exact Hnd | exact Hp | exact Hxp].
  Qed.

  (* join: when all joined variables have the same level, every variable keeps its level *)
  Lemma join_level_lemma inds fill tmpl (r r' : coll E) ps L x : wf E r = true ->
    join E zero is_zero mk_cov inds fill tmpl r = Ok (r', ps) ->
    (forall z, In z inds -> level E r z = Some L) -> In x (names r) ->
    level E r' x = level E r x.
  Proof.
    intros Hwf HJ Hlev Hx. pose proof (wf_NoDup E _ Hwf) as Hnd.
    pose proof (join_wf_lemma E zero is_zero mk_cov _ _ _ _ _ _ Hwf HJ) as Hw'. pose proof (wf_NoDup E _ Hw') as Hnd'.
    destruct (join_inv E zero is_zero mk_cov _ _ _ _ _ _ Hwf HJ) as [Hall [d0 [gtl [Eg Er']]]].
    pose proof (Proofs.getitem_names E zero inds r Hwf) as Hng.
    set (joined := Joint (names (getitem_list E zero inds r)) (dlevel d0)
                         (flat_map (dmeans E) (getitem_list E zero inds r))
                         (join_matrix E zero is_zero mk_cov fill tmpl (covariance_matrix E zero (getitem_list E zero inds r)))) in *.
    destruct (in_dec Pos.eq_dec x inds) as [Hi|Hni].
    - destruct (placed_joined_in E zero inds r joined Hwf Hng x Hx Hi) as [J1 J2]. rewrite <- Er' in J1.
      rewrite (level_In r' joined x Hnd' J1 J2). cbn [dlevel joined]. rewrite (Hlev x Hi).
      (* the level of the first selected distribution is the level of one of the joined variables *)
      pose proof (getitem_wf E zero inds r Hwf) as Hwg.
      assert (Hd0 : In d0 (getitem_list E zero inds r)) by (rewrite Eg; left; reflexivity).
      assert (exists z, In z (dnames d0)) as [z Hz].
      { pose proof (wf_In E _ _ Hwg Hd0) as W. destruct d0 as [n l m v|ns l mu V]; [exists n; left; reflexivity|].
        destruct (wf_dist_joint E _ _ _ _ W) as [Hl _]. destruct ns as [|n ns]; [cbn in Hl; lia|]. exists n. left. reflexivity. }
      assert (Hzg : In z (names (getitem_list E zero inds r))) by (apply In_names; exists d0; split; assumption).
      pose proof Hzg as Hzg'. rewrite Hng in Hzg'. apply filter_In in Hzg'. destruct Hzg' as [Hzr Hzi]. apply memp_In in Hzi.
      rewrite <- (Hlev z Hzi). rewrite <- (getitem_level_lemma inds r z Hwf Hzr Hzi).
      f_equal. symmetry. pose proof (level_In _ d0 z (wf_NoDup E _ Hwg) Hd0 Hz) as Lz.
      rewrite Lz. reflexivity.
    - destruct (placed_kept_piece E zero inds r joined Hwf x Hx Hni) as [p [P1 [P2 [P3 _]]]]. rewrite <- Er' in P1.
      rewrite (level_In r' p x Hnd' P1 P3).
      rewrite <- (unjoin_level_lemma inds r x Hwf Hx). symmetry.
      apply level_In; [apply unjoin_NoDup; exact Hnd | exact P2 | exact P3].
  Qed.
End Levels.

(* ---------------------------------------------------------------------------------------------- *)
(* subs: names through the name map, entries through fe                                           *)
(* ---------------------------------------------------------------------------------------------- *)
Lemma NoDup_map_inj {A B} (f : A -> B) (l : list A) a b :
  NoDup (map f l) -> In a l -> In b l -> f a = f b -> a = b.
Proof.
  induction l as [|x tl IH]; cbn [map]; intros Hnd Ha Hb Hf; [destruct Ha|].
  inversion Hnd as [|? ? Hx Hnd']; subst. destruct Ha as [->|Ha], Hb as [->|Hb].
  - reflexivity.
  - exfalso. apply Hx. rewrite Hf. apply in_map. exact Hb.
  - exfalso. apply Hx. rewrite <- Hf. apply in_map. exact Ha.
  - apply IH; assumption.
Qed.

Lemma index_of_map_inj (f : id -> id) (ns : list id) x :
  (forall a, In a ns -> f a = f x -> a = x) -> index_of (f x) (map f ns) = index_of x ns.
Proof.
  induction ns as [|y tl IH]; intros Hinj; [reflexivity|]. cbn [map index_of].
  destruct (Pos.eqb_spec y x) as [->|Hne].
  - rewrite Pos.eqb_refl. reflexivity.
  - destruct (Pos.eqb_spec (f y) (f x)) as [Heq|_].
    + exfalso. apply Hne. apply Hinj; [left; reflexivity | exact Heq].
    + rewrite IH; [reflexivity|]. intros a Ha. apply Hinj. right. exact Ha.
Qed.

Section Subs.
  Variable E : Type.
  Variable zero : E.
  Variable fe : E -> E.
  Hypothesis fe_zero : fe zero = zero.

  Lemma dnames_dsubs nm (d : dist E) : dnames (dsubs E fe nm d) = map (subs_name nm) (dnames d).
  Proof. destruct d; reflexivity. Qed.

  Lemma names_map_dsubs nm (r : coll E) : names (map (dsubs E fe nm) r) = map (subs_name nm) (names r).
  Proof.
    induction r as [|d tl IH]; [reflexivity|]. cbn [map]. rewrite !names_cons, map_app, dnames_dsubs, IH. reflexivity.
  Qed.

  Lemma subs_names_lemma nm (r r' : coll E) : subs E fe nm r = Ok r' ->
    r' = map (dsubs E fe nm) r /\ names r' = map (subs_name nm) (names r) /\ NoDup (names r').
  Proof.
    unfold subs. destruct (nodupb (names (map (dsubs E fe nm) r))) eqn:N; [|discriminate].
    intros H. inversion H; subst. split; [reflexivity|]. split; [apply names_map_dsubs|]. apply nodupb_NoDup. exact N.
  Qed.

  Lemma mget_map_fe (V : matrix E) i j : i < length V -> j < length (nth i V []) ->
    mget E zero (map (map fe) V) i j = fe (mget E zero V i j).
  Proof.
    intros Hi Hj. unfold mget. rewrite (nth_map_nth (map fe) V i [] []) by exact Hi.
    rewrite (nth_map_nth fe (nth i V []) j zero zero) by exact Hj. reflexivity.
  Qed.

  Lemma dcov_dsubs nm (d : dist E) x y : wf_dist E d = true -> In x (dnames d) -> In y (dnames d) ->
    (forall a, In a (dnames d) -> subs_name nm a = subs_name nm x -> a = x) ->
    (forall a, In a (dnames d) -> subs_name nm a = subs_name nm y -> a = y) ->
    dcov E zero (dsubs E fe nm d) (subs_name nm x) (subs_name nm y) = option_map fe (dcov E zero d x y).
  Proof.
    intros Hwf Hx Hy Ix Iy. destruct d as [n l m v | ns l mu V]; cbn [dsubs dcov dnames] in *.
    - destruct Hx as [<-|[]]. destruct Hy as [<-|[]]. rewrite !Pos.eqb_refl. reflexivity.
    - rewrite (index_of_map_inj (subs_name nm) ns x Ix), (index_of_map_inj (subs_name nm) ns y Iy).
      destruct (index_of_In _ _ Hx) as [i Hi]. destruct (index_of_In _ _ Hy) as [j Hj]. rewrite Hi, Hj. cbn [option_map].
      destruct (index_of_Some _ _ _ Hi) as [Hil _]. destruct (index_of_Some _ _ _ Hj) as [Hjl _].
      destruct (wf_dist_joint E _ _ _ _ Hwf) as [_ [_ [HV [Hrows _]]]].
      rewrite mget_map_fe; [reflexivity | lia|]. rewrite (Hrows (nth i V [])); [exact Hjl | apply nth_In; lia].
  Qed.

  Lemma subs_cov_lemma nm (r r' : coll E) x y : wf E r = true -> subs E fe nm r = Ok r' ->
    In x (names r) -> In y (names r) ->
    cov E zero r' (subs_name nm x) (subs_name nm y) = option_map fe (cov E zero r x y).
  Proof.
    intros Hwf HS Hx Hy. destruct (subs_names_lemma nm r r' HS) as [-> [Hn Hnd']].
    pose proof (wf_NoDup E _ Hwf) as Hnd. rewrite Hn in Hnd'.
    assert (Inj : forall a b, In a (names r) -> In b (names r) -> subs_name nm a = subs_name nm b -> a = b).
    { intros a b Ha Hb. apply (NoDup_map_inj (subs_name nm) (names r) a b Hnd' Ha Hb). }
    rewrite <- Hn in Hnd'.
    destruct (dist_of E _ _ Hx) as [dx [Hdx Hxd]]. destruct (dist_of E _ _ Hy) as [dy [Hdy Hyd]].
    assert (Sub : forall d a, In d r -> In a (dnames d) -> In a (names r)).
    { intros d a Hd Ha. apply In_names. exists d. split; assumption. }
    assert (Ix' : In (dsubs E fe nm dx) (map (dsubs E fe nm) r)) by (apply in_map; exact Hdx).
    assert (Iy' : In (dsubs E fe nm dy) (map (dsubs E fe nm) r)) by (apply in_map; exact Hdy).
    assert (Xs : In (subs_name nm x) (dnames (dsubs E fe nm dx))) by (rewrite dnames_dsubs; apply in_map; exact Hxd).
    assert (Ys : In (subs_name nm y) (dnames (dsubs E fe nm dy))) by (rewrite dnames_dsubs; apply in_map; exact Hyd).
    destruct (in_dec Pos.eq_dec y (dnames dx)) as [Hin|Hout].
    - assert (Ys' : In (subs_name nm y) (dnames (dsubs E fe nm dx))) by (rewrite dnames_dsubs; apply in_map; exact Hin).
      rewrite (cov_same E zero _ (dsubs E fe nm dx) _ _ Hnd' Ix' Xs Ys'), (cov_same E zero r dx x y Hnd Hdx Hxd Hin).
      apply dcov_dsubs; try assumption; [eapply wf_In; eauto | |]; intros a Ha He; apply Inj; eauto.
    - rewrite (cov_diff E zero r dx dy x y Hnd Hdx Hdy Hxd Hyd Hout). cbn [option_map]. rewrite fe_zero.
      apply (cov_diff E zero _ (dsubs E fe nm dx) (dsubs E fe nm dy) _ _ Hnd' Ix' Iy' Xs Ys).
      rewrite dnames_dsubs. intro H. apply in_map_iff in H. destruct H as [z [Hz1 Hz2]].
      apply Hout. rewrite <- (Inj z y (Sub dx z Hdx Hz2) Hy Hz1). exact Hz2.
  Qed.

  Lemma subs_variance_lemma nm (r r' : coll E) x : wf E r = true -> subs E fe nm r = Ok r' -> In x (names r) ->
    variance E zero r' (subs_name nm x) = option_map fe (variance E zero r x).
  Proof. intros. rewrite !variance_cov. apply subs_cov_lemma; assumption. Qed.

  Lemma subs_level_lemma nm (r r' : coll E) x : wf E r = true -> subs E fe nm r = Ok r' -> In x (names r) ->
    level E r' (subs_name nm x) = level E r x.
  Proof.
    intros Hwf HS Hx. destruct (subs_names_lemma nm r r' HS) as [-> [Hn Hnd']].
    destruct (dist_of E _ _ Hx) as [dx [Hdx Hxd]].
    rewrite (level_In E r dx x (wf_NoDup E _ Hwf) Hdx Hxd).
    rewrite (level_In E _ (dsubs E fe nm dx) (subs_name nm x) Hnd'); [destruct dx; reflexivity | apply in_map; exact Hdx|].
    rewrite dnames_dsubs. apply in_map. exact Hxd.
  Qed.
End Subs.

(* ---------------------------------------------------------------------------------------------- *)
(* JointNormalDistribution.__getitem__ with a collection of names: the marginal distribution      *)
(* ---------------------------------------------------------------------------------------------- *)
Lemma In_dedup x l : In x (dedup l) <-> In x l.
Proof.
  induction l as [|y tl IH]; cbn [dedup]; [tauto|]. destruct (memp y tl) eqn:M.
  - rewrite IH. cbn [In]. split; [auto|]. intros [<-|H]; [apply memp_In; exact M | exact H].
  - cbn [In]. rewrite IH. tauto.
Qed.

Lemma NoDup_dedup l : NoDup (dedup l).
Proof.
  induction l as [|y tl IH]; cbn [dedup]; [constructor|]. destruct (memp y tl) eqn:M; [exact IH|].
  constructor; [|exact IH]. rewrite In_dedup. apply memp_false_iff. exact M.
Qed.

Section DistGet.
  Variable E : Type.
  Variable zero : E.

  Lemma marginal_spec (f : id -> bool) ns l mu (V : matrix E) :
    wf_dist E (Joint ns l mu V) = true -> positions f ns <> [] ->
    let d' := marginal E zero (Joint ns l mu V) (positions f ns) in
    dnames d' = filter f ns /\ dlevel d' = l /\
    forall a b, In a (filter f ns) -> In b (filter f ns) -> dcov E zero d' a b = dcov E zero (Joint ns l mu V) a b.
  Proof.
    intros Hwf Hne. destruct (wf_dist_joint E _ _ _ _ Hwf) as [_ [_ [_ [_ Hnd]]]].
    pose proof (map_nth_positions f ns 1%positive) as HK. cbn [marginal].
    destruct (positions f ns) as [|k [|k2 K]] eqn:EK; [contradiction| |].
    - assert (Hk : k < length ns). { apply (positions_lt f). rewrite EK. left. reflexivity. }
      cbn [dnames dlevel]. split; [exact HK|]. split; [reflexivity|].
      intros a b Ha Hb. rewrite <- HK in Ha, Hb. destruct Ha as [<-|[]]. destruct Hb as [<-|[]].
      cbn [dcov]. rewrite Pos.eqb_refl. cbn [andb]. rewrite (index_of_nth ns Hnd k 1%positive Hk). reflexivity.
    - set (K2 := k :: k2 :: K) in *. cbn [dnames dlevel]. split; [exact HK|]. split; [reflexivity|].
      intros a b Ha Hb. cbn [dcov]. apply filter_In in Ha. apply filter_In in Hb.
      destruct Ha as [Ha Hfa]. destruct Hb as [Hb Hfb].
      destruct (index_of_In _ _ Ha) as [ia Hia]. destruct (index_of_In _ _ Hb) as [ib Hib].
      destruct (index_of_map_positions f ns a ia Hnd Hia Hfa) as [pa [Hpa [Hpal Hpan]]].
      destruct (index_of_map_positions f ns b ib Hnd Hib Hfb) as [pb [Hpb [Hpbl Hpbn]]].
      rewrite EK in Hpa, Hpb, Hpal, Hpbl, Hpan, Hpbn. fold K2 in Hpa, Hpb, Hpal, Hpbl, Hpan, Hpbn.
      rewrite Hpa, Hpb, Hia, Hib. rewrite mget_select by assumption. rewrite Hpan, Hpbn. reflexivity.
  Qed.

  (* dist[names]: the names kept in their order, same level, all variances and covariances *)
  Lemma dget_list_lemma ind (d d' : dist E) : wf_dist E d = true -> dget_list E zero ind d = Ok d' ->
    dnames d' = filter (fun n => memp n ind) (dnames d) /\ dlevel d' = dlevel d /\
    forall a b, In a (dnames d') -> In b (dnames d') -> dcov E zero d' a b = dcov E zero d a b.
  Proof.
    intros Hwf H. destruct d as [n l m v | ns l mu V]; cbn [dget_list] in H.
    - destruct (negb (length ind =? 1) || negb (memp n ind)) eqn:G; [discriminate|]. inversion H; subst.
      apply orb_false_iff in G. destruct G as [_ G]. apply negb_false_iff in G.
      cbn [dnames filter]. rewrite G. repeat split; reflexivity.
    - destruct ((length ind =? 0) || (length ns <? length ind)) eqn:G1; [discriminate|].
      destruct (negb (forallb (fun x => memp x ns) ind)) eqn:G2; [discriminate|].
      apply negb_false_iff in G2. rewrite forallb_forall in G2.
      apply orb_false_iff in G1. destruct G1 as [G1 _]. apply Nat.eqb_neq in G1.
      destruct (wf_dist_joint E _ _ _ _ Hwf) as [_ [_ [_ [_ Hnd]]]].
      destruct (length (dedup ind) =? length ns) eqn:G3.
      + (* every name is selected: the distribution itself *)
        inversion H; subst. cbn [dnames]. split; [|split; [reflexivity | intros; reflexivity]].
        symmetry. apply filter_all. intros n Hn. apply memp_In. apply Nat.eqb_eq in G3.
        apply In_dedup. apply (@NoDup_length_incl _ (dedup ind) ns (NoDup_dedup ind)); [lia | | exact Hn].
        intros z Hz. apply (proj1 (In_dedup z ind)) in Hz. apply memp_In. apply G2. exact Hz.
      + inversion H; subst. clear H.
        assert (Hne : positions (fun n => memp n ind) ns <> []).
        { destruct ind as [|z zs]; [cbn in G1; contradiction|].
          pose proof (G2 z (or_introl eq_refl)) as Hz. apply memp_In in Hz.
          intro Hp. pose proof (map_nth_positions (fun n => memp n (z :: zs)) ns 1%positive) as HK. rewrite Hp in HK. cbn [map] in HK.
          assert (Hz' : In z (filter (fun n => memp n (z :: zs)) ns)) by (apply filter_In; split; [exact Hz | apply memp_In; left; reflexivity]).
          unfold id in *. rewrite <- HK in Hz'. destruct Hz'. }
        destruct (marginal_spec (fun n => memp n ind) ns l mu V Hwf Hne) as [M1 [M2 M3]].
        cbn [dnames dlevel] in *. split; [exact M1|]. split; [exact M2|]. intros a b Ha Hb. apply M3; rewrite <- M1; assumption.
  Qed.
End DistGet.

Lemma subs_names_only (E : Type) (fe : E -> E) nm (r r' : coll E) :
  subs E fe nm r = Ok r' -> names r' = map (subs_name nm) (names r) /\ NoDup (names r').
Proof. intros H. exact (proj2 (subs_names_lemma E fe nm r r' H)). Qed.

(* ---------------------------------------------------------------------------------------------- *)
(* when join answers                                                                              *)
(* ---------------------------------------------------------------------------------------------- *)
Section JoinTotal.
  Variable E : Type.
  Variable zero : E.
  Variable is_zero : E -> bool.
  Variable mk_cov : id -> id -> E.

  Lemma join_keyerror_lemma inds fill tmpl (r : coll E) :
    join E zero is_zero mk_cov inds fill tmpl r = Err KeyError <-> exists x, In x inds /\ ~ In x (names r).
  Proof.
    unfold join. destruct (existsb (fun item => negb (memp item (names r))) inds) eqn:Ex.
    - split; [intros _|reflexivity]. apply existsb_exists in Ex. destruct Ex as [x [H1 H2]].
      exists x. split; [exact H1|]. apply memp_false_iff, negb_true_iff. exact H2.
    - split.
      + intros H. exfalso. destruct (calc E zero (getitem_list E zero inds r)) as [[means M] nm].
        destruct (negb (is_zero fill)).
        * destruct (getitem_list E zero inds r); discriminate.
        * destruct tmpl as [pn|].
          -- destruct (tmpl_index_error E zero is_zero pn M); [discriminate|]. destruct (getitem_list E zero inds r); discriminate.
          -- destruct (getitem_list E zero inds r); discriminate.
      + intros [x [H1 H2]]. exfalso.
        assert (T : existsb (fun item => negb (memp item (names r))) inds = true).
        { apply existsb_exists. exists x. split; [exact H1|]. apply negb_true_iff, memp_false_iff. exact H2. }
        congruence.
  Qed.

  (* without a name template (or with a fill value) join succeeds on every non-empty set of existing names *)
  Lemma join_total_lemma inds fill tmpl (r : coll E) : wf E r = true ->
    inds <> [] -> (forall x, In x inds -> In x (names r)) -> (tmpl = None \/ is_zero fill = false) ->
    exists r' ps, join E zero is_zero mk_cov inds fill tmpl r = Ok (r', ps).
  Proof.
    intros Hwf Hne Hall Hmode. unfold join.
    assert (Ex : existsb (fun item => negb (memp item (names r))) inds = false).
    { destruct (existsb (fun item => negb (memp item (names r))) inds) eqn:Ex; [|reflexivity].
      apply existsb_exists in Ex. destruct Ex as [x [H1 H2]]. apply negb_true_iff, memp_false_iff in H2.
      exfalso. apply H2. apply Hall. exact H1. }
    rewrite Ex.
    assert (Hg : getitem_list E zero inds r <> []).
    { destruct inds as [|x tl]; [contradiction|]. intro Hg.
      assert (Hx : In x (names (getitem_list E zero (x :: tl) r))).
      { rewrite Proofs.getitem_names by exact Hwf. apply filter_In. split; [apply Hall; left; reflexivity|].
        apply memp_In. left. reflexivity. }
      rewrite Hg in Hx. destruct Hx. }
    destruct (calc E zero (getitem_list E zero inds r)) as [[means M] nm].
    destruct (getitem_list E zero inds r) as [|d0 gtl]; [contradiction|].
    destruct Hmode as [->|Hf].
    - destruct (negb (is_zero fill)); eexists; eexists; reflexivity.
    - rewrite Hf. cbn [negb]. eexists; eexists; reflexivity.
  Qed.
End JoinTotal.

(* statements phrased with [variance] (rvs[name].get_variance(name)) *)
Lemma unjoin_variances_lemma (E : Type) (zero : E) (inds : list id) (r : coll E) (x : id) :
  wf E r = true -> In x (names r) -> variance E zero (unjoin E zero inds r) x = variance E zero r x.
Proof. intros. rewrite !variance_cov. apply (unjoin_variance E zero); assumption. Qed.

Lemma join_variances_lemma (E : Type) (zero : E) (is_zero : E -> bool) (mk_cov : id -> id -> E)
  inds fill tmpl (r r' : coll E) ps (x : id) :
  wf E r = true -> join E zero is_zero mk_cov inds fill tmpl r = Ok (r', ps) -> In x (names r) ->
  variance E zero r' x = variance E zero r x.
Proof.
  intros Hwf HJ Hx. rewrite !variance_cov. eapply (join_variance_lemma E zero is_zero mk_cov); eauto.
Qed.

(* + : the (co)variance statements need no extra hypothesis any more: a result exists only when the names stay unique *)
Lemma add_keeps_cov_lemma (E : Type) (zero : E) (r r2 r' : coll E) x y :
  add_coll E r r2 = Ok r' -> In x (names r) -> In y (names r) -> cov E zero r' x y = cov E zero r x y.
Proof. intros H Hx Hy. destruct (add_coll_spec E r r2 r' H) as [-> Hnd]. apply add_cov_left; assumption. Qed.

Lemma add_cross_zero_lemma (E : Type) (zero : E) (r r2 r' : coll E) x y :
  add_coll E r r2 = Ok r' -> In x (names r) -> In y (names r2) ->
  cov E zero r' x y = Some zero /\ cov E zero r' y x = Some zero.
Proof. intros H Hx Hy. destruct (add_coll_spec E r r2 r' H) as [-> Hnd]. apply add_cov_cross; assumption. Qed.

Lemma add_names_lemma (E : Type) (r r2 r' : coll E) : add_coll E r r2 = Ok r' -> names r' = names r ++ names r2.
Proof. intros H. destruct (add_coll_spec E r r2 r' H) as [-> _]. apply names_app. Qed.
