(* PV.C11.Proofs — lemmas about the random-effect algebra model. *)
From Coq Require Import List Bool PArith Arith ZArith Lia Permutation.
From PV Require Import Base.PyData Base.Expr C11.Model.
Import ListNotations.
Local Open Scope nat_scope.

(* ---------------------------------------------------------------------------------------------- *)
(* generic list facts                                                                             *)
(* ---------------------------------------------------------------------------------------------- *)
Lemma memp_false_iff x l : memp x l = false <-> ~ In x l.
Proof.
  split.
  - intros H HI. apply memp_In in HI. congruence.
  - intros H. destruct (memp x l) eqn:M; [apply memp_In in M; contradiction | reflexivity].
Qed.

Lemma nodupb_NoDup l : nodupb l = true <-> NoDup l.
Proof.
  induction l as [|x tl IH]; cbn [nodupb].
  - split; [constructor | reflexivity].
  - rewrite andb_true_iff, negb_true_iff, memp_false_iff, IH. split.
    + intros [H1 H2]. constructor; assumption.
    + intros H. inversion H; subst. split; assumption.
Qed.

Lemma index_of_Some x l i : index_of x l = Some i -> i < length l /\ forall d, nth i l d = x.
Proof.
  revert i. induction l as [|y tl IH]; cbn [index_of]; intros i H; [discriminate|].
  destruct (Pos.eqb y x) eqn:Eq.
  - inversion H; subst. apply Pos.eqb_eq in Eq. subst. cbn. split; [lia | reflexivity].
  - destruct (index_of x tl) as [k|] eqn:Ek; cbn in H; [|discriminate].
    inversion H; subst. destruct (IH k eq_refl) as [Hl Hn]. cbn. split; [lia | exact Hn].
Qed.

Lemma index_of_In x l : In x l -> exists i, index_of x l = Some i.
Proof.
  induction l as [|y tl IH]; cbn [index_of In]; [tauto|].
  intros [H|H].
  - subst. rewrite Pos.eqb_refl. eauto.
  - destruct (Pos.eqb y x); [eauto|]. destruct (IH H) as [i Hi]. rewrite Hi. cbn. eauto.
Qed.

Lemma index_of_None x l : index_of x l = None -> ~ In x l.
Proof.
  intros H HI. destruct (index_of_In _ _ HI) as [i Hi]. congruence.
Qed.

Lemma index_of_nth l : NoDup l -> forall i d, i < length l -> index_of (nth i l d) l = Some i.
Proof.
  induction 1 as [|y tl Hy Hnd IH]; intros i d Hi; [cbn in Hi; lia|].
  destruct i as [|i]; cbn [nth index_of].
  - rewrite Pos.eqb_refl. reflexivity.
  - cbn in Hi. destruct (Pos.eqb y (nth i tl d)) eqn:Eq.
    + apply Pos.eqb_eq in Eq. exfalso. apply Hy. rewrite Eq. apply nth_In. lia.
    + rewrite IH by lia. reflexivity.
Qed.

Lemma filter_app_perm {A} (f : A -> bool) l :
  Permutation (filter f l ++ filter (fun x => negb (f x)) l) l.
Proof.
  induction l as [|x tl IH]; cbn [filter]; [constructor|].
  destruct (f x); cbn [negb app].
  - constructor. exact IH.
  - eapply Permutation_trans; [apply Permutation_sym, Permutation_middle|]. constructor. exact IH.
Qed.

Lemma filter_perm {A} (f : A -> bool) l l' : Permutation l l' -> Permutation (filter f l) (filter f l').
Proof.
  induction 1; cbn [filter].
  - constructor.
  - destruct (f x); [constructor|]; assumption.
  - destruct (f x), (f y); try apply perm_swap; apply Permutation_refl.
  - eapply Permutation_trans; eassumption.
Qed.

Lemma NoDup_filter {A} (f : A -> bool) l : NoDup l -> NoDup (filter f l).
Proof.
  induction 1 as [|x tl Hx Hnd IH]; cbn [filter]; [constructor|].
  destruct (f x); [|exact IH]. constructor; [|exact IH].
  intro H. apply filter_In in H. tauto.
Qed.

Lemma NoDup_app_l {A} (a b : list A) : NoDup (a ++ b) -> NoDup a.
Proof.
  induction a as [|x a IH]; cbn; intros H; [constructor|].
  inversion H; subst. constructor; [|auto]. intro HI. apply H2. apply in_or_app. auto.
Qed.

Lemma NoDup_app_r {A} (a b : list A) : NoDup (a ++ b) -> NoDup b.
Proof.
  induction a as [|x a IH]; cbn; intros H; [exact H|]. inversion H; subst. auto.
Qed.

Lemma NoDup_app_disj {A} (a b : list A) x : NoDup (a ++ b) -> In x a -> In x b -> False.
Proof.
  induction a as [|y a IH]; cbn; intros H Ha Hb; [tauto|].
  inversion H; subst. destruct Ha as [Ha|Ha].
  - subst. apply H2. apply in_or_app. auto.
  - eauto.
Qed.

(* positions: the indices whose element satisfies f, in increasing order *)
Lemma filter_seq_shift (g : nat -> bool) s n :
  filter g (seq (S s) n) = map S (filter (fun i => g (S i)) (seq s n)).
Proof.
  revert s. induction n as [|n IH]; intros s; cbn [seq filter map]; [reflexivity|].
  rewrite IH. destruct (g (S s)); reflexivity.
Qed.

Lemma positions_cons f x l :
  positions f (x :: l) = (if f x then [0] else []) ++ map S (positions f l).
Proof.
  unfold positions. cbn [length seq filter nth].
  rewrite filter_seq_shift. cbn [nth]. destruct (f x); reflexivity.
Qed.

Lemma map_nth_positions f l d :
  map (fun i => nth i l d) (positions f l) = filter f l.
Proof.
  induction l as [|x tl IH]; [reflexivity|].
  rewrite positions_cons, map_app, map_map. cbn [filter nth].
  rewrite <- IH. destruct (f x); reflexivity.
Qed.

Lemma positions_lt f l i : In i (positions f l) -> i < length l.
Proof.
  unfold positions. rewrite filter_In, in_seq. lia.
Qed.

Lemma positions_spec f l i : In i (positions f l) <-> i < length l /\ f (nth i l 1%positive) = true.
Proof.
  unfold positions. rewrite filter_In, in_seq. intuition lia.
Qed.

Lemma positions_NoDup f l : NoDup (positions f l).
Proof. unfold positions. apply NoDup_filter, seq_NoDup. Qed.

Lemma nth_map_nth {A B} (g : A -> B) (K : list A) p dA dB : p < length K -> nth p (map g K) dB = g (nth p K dA).
Proof.
  revert p. induction K as [|k K IH]; intros p Hp; cbn in *; [lia|].
  destruct p; [reflexivity|]. apply IH. lia.
Qed.

Section Facts.
  Variable E : Type.
  Variable zero : E.
  Variable is_zero : E -> bool.
  Notation dist := (dist E).
  Notation coll := (coll E).
  Notation matrix := (matrix E).
  Notation mget := (mget E zero).
  Notation select := (select E zero).
  Notation unjoin1 := (unjoin1 E zero).
  Notation unjoin := (unjoin E zero).
  Notation dcov := (dcov E zero).
  Notation cov := (cov E zero).
  Notation lookup := (lookup E).
  Notation lookup_from := (lookup_from E).
  Notation wf_dist := (wf_dist E).
  Notation wf := (wf E).
  Notation getitem_list := (getitem_list E zero).

  (* ---- names ------------------------------------------------------------------------------- *)
  Lemma names_cons (d : dist) r : names (d :: r) = dnames d ++ names r.
  Proof. reflexivity. Qed.
  Lemma names_app (a b : coll) : names (a ++ b) = names a ++ names b.
  Proof. unfold names. apply flat_map_app. Qed.
  Lemma In_names (r : coll) x : In x (names r) <-> exists d, In d r /\ In x (dnames d).
  Proof. unfold names. apply in_flat_map. Qed.

  Lemma nrvs_names (r : coll) : nrvs E r = length (names r).
  Proof.
    unfold nrvs. assert (G : forall k, fold_left (fun n (d : dist) => n + dlen E d) r k = k + length (names r)).
    { induction r as [|d tl IH]; intros k; cbn [fold_left]; [cbn; lia|].
      rewrite IH, names_cons, app_length. unfold dlen. lia. }
    apply G.
  Qed.

  Lemma wf_cons d r : wf (d :: r) = true -> wf_dist d = true /\ wf r = true.
  Proof.
    unfold wf. cbn [forallb]. rewrite names_cons, !andb_true_iff, !nodupb_NoDup.
    intros [[H1 H2] H3]. repeat split; auto. eapply NoDup_app_r; eauto.
  Qed.
  Lemma wf_NoDup r : wf r = true -> NoDup (names r).
  Proof. unfold wf. rewrite andb_true_iff, nodupb_NoDup. tauto. Qed.
  Lemma wf_In r d : wf r = true -> In d r -> wf_dist d = true.
  Proof. unfold wf. rewrite andb_true_iff, forallb_forall. intros [H _]. apply H. Qed.

  Lemma wf_dist_joint ns l mu V :
    wf_dist (Joint ns l mu V) = true ->
    1 <= length ns /\ length mu = length ns /\ length V = length ns /\
    (forall row, In row V -> length row = length ns) /\ NoDup ns.
  Proof.
    cbn [Model.wf_dist]. rewrite !andb_true_iff, forallb_forall, nodupb_NoDup, Nat.leb_le, !Nat.eqb_eq.
    intros [[[[H1 H2] H3] H4] H5]. repeat split; auto. intros row Hr. apply Nat.eqb_eq. auto.
  Qed.

  (* ---- unjoin: names ------------------------------------------------------------------------ *)
  Definition affected (inds : list id) (d : dist) : bool :=
    match d with Joint ns _ _ _ => existsb (fun item => memp item ns) inds | _ => false end.
  (* the order of the names after unjoin, block by block *)
  Definition unjoin_order (inds : list id) (d : dist) : list id :=
    if affected inds d
    then filter (fun n => memp n inds) (dnames d) ++ filter (fun n => negb (memp n inds)) (dnames d)
    else dnames d.

  Lemma names_unjoin1 inds (d : dist) : names (unjoin1 inds d) = unjoin_order inds d.
  Proof.
    unfold unjoin_order. destruct d as [n l m v | ns l mu V]; cbn [Model.unjoin1 affected dnames].
    - cbn. reflexivity.
    - destruct (existsb (fun item => memp item ns) inds); [|cbn; rewrite app_nil_r; reflexivity].
      rewrite names_app. f_equal.
      + unfold names. rewrite flat_map_concat_map, map_map. cbn [dnames].
        etransitivity; [|apply (map_nth_positions (fun n => memp n inds) ns 1%positive)].
        induction (positions (fun n => memp n inds) ns) as [|k K IH]; cbn; [reflexivity|]. rewrite IH. reflexivity.
      + etransitivity; [|apply (map_nth_positions (fun n => negb (memp n inds)) ns 1%positive)].
        destruct (positions (fun n => negb (memp n inds)) ns) as [|k [|k2 K]]; cbn; rewrite ?app_nil_r; reflexivity.
  Qed.

  Lemma names_unjoin inds (r : coll) : names (unjoin inds r) = flat_map (unjoin_order inds) r.
  Proof.
    induction r as [|d tl IH]; [reflexivity|].
    unfold Model.unjoin in *. cbn [flat_map]. rewrite names_app, names_unjoin1, IH. reflexivity.
  Qed.

  Lemma unjoin_order_perm inds (d : dist) : Permutation (unjoin_order inds d) (dnames d).
  Proof.
    unfold unjoin_order. destruct (affected inds d); [apply filter_app_perm | apply Permutation_refl].
  Qed.

  Lemma unjoin_names_perm inds (r : coll) : Permutation (names (unjoin inds r)) (names r).
  Proof.
    rewrite names_unjoin. induction r as [|d tl IH]; cbn [flat_map]; [constructor|].
    rewrite names_cons. apply Permutation_app; [apply unjoin_order_perm | exact IH].
  Qed.

  Lemma removed_prefix_order inds ns :
    removed_prefix inds ns = true ->
    filter (fun n => memp n inds) ns ++ filter (fun n => negb (memp n inds)) ns = ns.
  Proof.
    induction ns as [|n tl IH]; cbn [removed_prefix filter]; [reflexivity|].
    destruct (memp n inds) eqn:M; cbn [negb app].
    - intros H. rewrite IH by exact H. reflexivity.
    - intros H. rewrite forallb_forall in H.
      assert (F1 : filter (fun n => memp n inds) tl = []).
      { clear IH. induction tl as [|a tl IH]; cbn; [reflexivity|].
        pose proof (H a (or_introl eq_refl)) as Ha. rewrite negb_true_iff in Ha. rewrite Ha.
        apply IH. intros x Hx. apply H. right. exact Hx. }
      assert (F2 : filter (fun n => negb (memp n inds)) tl = tl).
      { clear IH F1. induction tl as [|a tl IH]; cbn; [reflexivity|].
        rewrite (H a (or_introl eq_refl)). f_equal. apply IH. intros x Hx. apply H. right. exact Hx. }
      rewrite F1, F2. reflexivity.
  Qed.

  Lemma unjoin_keeps_order inds (r : coll) :
    g_removed_prefix E inds r = true -> names (unjoin inds r) = names r.
  Proof.
    rewrite names_unjoin. unfold g_removed_prefix. rewrite forallb_forall. intros H.
    induction r as [|d tl IH]; cbn [flat_map]; [reflexivity|].
    rewrite names_cons, IH by (intros x Hx; apply H; right; exact Hx). f_equal.
    pose proof (H d (or_introl eq_refl)) as Hd. unfold unjoin_order.
    destruct d as [n l m v | ns l mu V]; cbn [affected dnames] in *; [reflexivity|].
    destruct (existsb (fun item => memp item ns) inds); cbn [negb orb] in Hd; [|reflexivity].
    apply removed_prefix_order. exact Hd.
  Qed.
End Facts.
