(* PV.C11.Model — executable model of the random-effect algebra of pharmpy:
     pharmpy/model/random_variables.py   RandomVariables.{create,__add__,__getitem__,names,etas,epsilons,
                                          iiv,iov,get_covariance,subs,unjoin,join,_calc_covariance_matrix,
                                          covariance_matrix}
     pharmpy/model/distributions/symbolic.py  NormalDistribution / JointNormalDistribution
                                          .{names,level,get_variance,get_covariance,__getitem__,subs}
   mirroring the Python statement by statement; element order and block placement are those of the
   code.  The model is generic in the type [E] of matrix entries (symbolic expressions in the
   correspondence check, anything in the theorems): the algebra only moves entries around, compares
   them with 0 ([is_zero], python [M[row, col] == 0]) and substitutes in them ([fe]).
   No proofs here (so the model still runs when a proof breaks). *)
From Coq Require Import List Bool PArith Arith ZArith Lia.
From PV Require Import Base.PyData Base.Expr.
Import ListNotations.
Local Open Scope nat_scope.

(* Python exception classes that the modelled code raises *)
Inductive err := KeyError | IndexError | ValueError | TypeError.
Inductive res (A : Type) := Ok (a : A) | Err (e : err).
Arguments Ok {A} a. Arguments Err {A} e.

(* variability levels; the default hierarchies of RandomVariables.create:
   eta_levels = (IIV reference, IOV), epsilon_levels = (RUV) *)
Definition L_IIV : id := 1%positive.
Definition L_IOV : id := 2%positive.
Definition L_RUV : id := 3%positive.
Definition eta_levels : list id := [L_IIV; L_IOV].
Definition epsilon_levels : list id := [L_RUV].

Fixpoint nodupb (l : list id) : bool :=
  match l with
  | [] => true
  | x :: tl => negb (memp x tl) && nodupb tl
  end.

(* len(set(l)) is computed on the list without repetitions *)
Fixpoint dedup (l : list id) : list id :=
  match l with
  | [] => []
  | x :: tl => if memp x tl then dedup tl else x :: dedup tl
  end.

(* tuple.index / list.index *)
Fixpoint index_of (x : id) (l : list id) : option nat :=
  match l with
  | [] => None
  | y :: tl => if Pos.eqb y x then Some 0 else option_map S (index_of x tl)
  end.

(* ---- python slice.indices(len) + range: the indices selected by seq[start:stop:step] ---------- *)
Local Open Scope Z_scope.
Definition slice_bound (v : option Z) (len lower upper : Z) (dflt : Z) : Z :=
  match v with
  | None => dflt
  | Some x => if x <? 0 then Z.max (x + len) lower else Z.min x upper
  end.
Fixpoint slice_walk (fuel : nat) (i stop step : Z) : list nat :=
  match fuel with
  | O => []
  | S f => if (if 0 <? step then i <? stop else stop <? i)
           then Z.to_nat i :: slice_walk f (i + step) stop step else []
  end.
Definition slice_indices (start stop step : option Z) (n : nat) : res (list nat) :=
  let len := Z.of_nat n in
  let st := match step with None => 1 | Some s => s end in
  if st =? 0 then Err ValueError else
  let lower := if st <? 0 then -1 else 0 in
  let upper := if st <? 0 then len - 1 else len in
  let a := slice_bound start len lower upper (if st <? 0 then upper else lower) in
  let b := slice_bound stop len lower upper (if st <? 0 then lower else upper) in
  Ok (slice_walk n a b st).
(* seq[i] for a python int i *)
Definition py_index (i : Z) (n : nat) : option nat :=
  let len := Z.of_nat n in
  if (0 <=? i) && (i <? len) then Some (Z.to_nat i)
  else if (- len <=? i) && (i <? 0) then Some (Z.to_nat (len + i))
  else None.
Local Open Scope nat_scope.

Section Algebra.
  Variable E : Type.
  Variable zero : E.                 (* sympy Integer(0) *)
  Variable is_zero : E -> bool.      (* python [entry == 0] *)

  Definition matrix := list (list E).
  Definition mget (M : matrix) (i j : nat) : E := nth j (nth i M []) zero.
  Definition mrows (M : matrix) : nat := length M.
  Definition mcols (M : matrix) : nat := match M with [] => 0 | r :: _ => length r end.
  (* the matrix [f i j] for i < n, j < c *)
  Definition mtab (n c : nat) (f : nat -> nat -> E) : matrix :=
    map (fun i => map (fun j => f i j) (seq 0 c)) (seq 0 n).
  Definition zeros (n : nat) : matrix := repeat (repeat zero n) n.   (* sympy.zeros(n) *)

  Definition set_nth {A} (l : list A) (i : nat) (f : A -> A) : list A :=
    firstn i l ++ match skipn i l with [] => [] | x :: tl => f x :: tl end.
  (* M[i, j] = v  (in range; the callers never write out of range on well-formed input) *)
  Definition mset (M : matrix) (i j : nat) (v : E) : matrix :=
    set_nth M i (fun row => set_nth row j (fun _ => v)).

  (* NormalDistribution(name, level, mean, variance) | JointNormalDistribution(names, level, mean, variance) *)
  Inductive dist :=
  | Normal (name : id) (lev : id) (mean : E) (var : E)
  | Joint (names : list id) (lev : id) (mean : list E) (var : matrix).
  Definition coll := list dist.       (* RandomVariables._dists (default hierarchies) *)

  Definition dnames (d : dist) : list id :=
    match d with Normal n _ _ _ => [n] | Joint ns _ _ _ => ns end.
  Definition dlevel (d : dist) : id :=
    match d with Normal _ l _ _ => l | Joint _ l _ _ => l end.
  Definition dlen (d : dist) : nat := length (dnames d).                    (* len(dist) *)
  Definition dmeans (d : dist) : list E :=
    match d with Normal _ _ m _ => [m] | Joint _ _ mu _ => mu end.
  (* the variance of a distribution as a matrix (1x1 for NormalDistribution) *)
  Definition dvar (d : dist) : matrix :=
    match d with Normal _ _ _ v => [[v]] | Joint _ _ _ V => V end.
  Definition is_joint (d : dist) : bool := match d with Joint _ _ _ _ => true | _ => false end.

  (* RandomVariables.names / nrvs *)
  Definition names (r : coll) : list id := flat_map dnames r.
  Definition nrvs (r : coll) : nat := fold_left (fun n d => n + dlen d) r 0.

  (* invariants established by the create() constructors: unique names, square matrices of the right
     size, joint distributions with at least one name *)
  Definition wf_dist (d : dist) : bool :=
    match d with
    | Normal _ _ _ _ => true
    | Joint ns _ mu V =>
        (1 <=? length ns) && (length mu =? length ns) && (length V =? length ns) &&
        forallb (fun row => length row =? length ns) V && nodupb ns
    end.
  Definition wf (r : coll) : bool := forallb wf_dist r && nodupb (names r).

  (* ---- Distribution.get_variance / get_covariance ------------------------------------------- *)
  Definition dcov (d : dist) (x y : id) : option E :=          (* None = KeyError / ValueError *)
    match d with
    | Normal n _ _ v => if Pos.eqb x n && Pos.eqb y n then Some v else None
    | Joint ns _ _ V =>
        match index_of x ns, index_of y ns with
        | Some i, Some j => Some (mget V i j)
        | _, _ => None
        end
    end.
  Definition dvariance (d : dist) (x : id) : option E :=
    match d with
    | Normal n _ _ v => if Pos.eqb x n then Some v else None
    | Joint ns _ _ V => match index_of x ns with Some i => Some (mget V i i) | None => None end
    end.

  (* ---- RandomVariables._lookup_rv / get_covariance ------------------------------------------ *)
  Fixpoint lookup_from (r : coll) (x : id) (i : nat) : option (nat * dist) :=
    match r with
    | [] => None
    | d :: tl => if memp x (dnames d) then Some (i, d) else lookup_from tl x (S i)
    end.
  Definition lookup (r : coll) (x : id) : option (nat * dist) := lookup_from r x 0.
  (* [dist1 is not dist2] is decided on positions: both lookups return the first distribution
     containing the name, so two positions holding the same object cannot both be returned *)
  Definition cov (r : coll) (x y : id) : option E :=           (* None = KeyError *)
    match lookup r x, lookup r y with
    | Some (i, d1), Some (j, _) => if Nat.eqb i j then dcov d1 x y else Some zero
    | _, _ => None
    end.
  (* rvs[name].get_variance(name) *)
  Definition variance (r : coll) (x : id) : option E :=
    match lookup r x with Some (_, d) => dvariance d x | None => None end.
  (* rvs[name].level *)
  Definition level (r : coll) (x : id) : option id :=
    match lookup r x with Some (_, d) => Some (dlevel d) | None => None end.

  (* ---- RandomVariables.unjoin ------------------------------------------------------------------
     for every joint distribution containing one of [inds]: the named variables become
     NormalDistributions (in their order), FOLLOWED by what is kept (a NormalDistribution when one
     variable is left, else the joint distribution with the rows/columns deleted) *)
  Definition select (V : matrix) (K : list nat) : matrix :=
    map (fun i => map (fun j => mget V i j) K) K.
  Definition positions (f : id -> bool) (ns : list id) : list nat :=
    filter (fun i => f (nth i ns 1%positive)) (seq 0 (length ns)).
  Definition unjoin1 (inds : list id) (d : dist) : list dist :=
    match d with
    | Normal _ _ _ _ => [d]
    | Joint ns lev mu V =>
        if existsb (fun item => memp item ns) inds then
          let single := fun i => Normal (nth i ns 1%positive) lev (nth i mu zero) (mget V i i) in
          let rem := positions (fun n => memp n inds) ns in
          let K := positions (fun n => negb (memp n inds)) ns in
          map single rem ++
          match K with
          | [] => []
          | [k] => [single k]
          | _ => [Joint (map (fun i => nth i ns 1%positive) K) lev (map (fun i => nth i mu zero) K)
                        (select V K)]
          end
        else [d]
    end.
  Definition unjoin (inds : list id) (r : coll) : coll := flat_map (unjoin1 inds) r.

  (* ---- RandomVariables.__getitem__ ----------------------------------------------------------- *)
  Definition first_name_in (ind : list id) (d : dist) : bool :=
    match dnames d with [] => false (* IndexError in python; excluded by wf *) | n :: _ => memp n ind end.
  (* rvs[container of names] *)
  Definition getitem_list (ind : list id) (r : coll) : coll :=
    let remove := filter (fun n => negb (memp n ind)) (names r) in
    filter (first_name_in ind) (unjoin remove r).
  (* rvs[int] *)
  Definition getitem_int (i : Z) (r : coll) : res dist :=
    match py_index i (length r) with
    | Some k => match nth_error r k with Some d => Ok d | None => Err IndexError end
    | None => Err IndexError
    end.
  (* rvs[slice] *)
  Definition getitem_slice (start stop step : option Z) (r : coll) : res coll :=
    match slice_indices start stop step (length r) with
    | Ok idx => Ok (flat_map (fun k => match nth_error r k with Some d => [d] | None => [] end) idx)
    | Err e => Err e
    end.
  (* rvs[name] *)
  Definition getitem_name (x : id) (r : coll) : res dist :=
    match lookup r x with Some (_, d) => Ok d | None => Err KeyError end.

  (* ---- JointNormalDistribution.__getitem__ / NormalDistribution.__getitem__ ------------------- *)
  Definition marginal (d : dist) (K : list nat) : dist :=
    match d with
    | Normal _ _ _ _ => d
    | Joint ns lev mu V =>
        match K with
        | [k] => Normal (nth k ns 1%positive) lev (nth k mu zero) (mget V k k)
        | _ => Joint (map (fun i => nth i ns 1%positive) K) lev (map (fun i => nth i mu zero) K) (select V K)
        end
    end.
  Definition dget_int (i : Z) (d : dist) : res dist :=
    match d with
    | Normal _ _ _ _ => if Z.eqb i 0 then Ok d else Err IndexError
    | Joint ns _ _ _ => match py_index i (length ns) with Some k => Ok (marginal d [k]) | None => Err IndexError end
    end.
  Definition dget_name (x : id) (d : dist) : res dist :=
    match d with
    | Normal n _ _ _ => if Pos.eqb x n then Ok d else Err KeyError
    | Joint ns _ _ _ => match index_of x ns with Some k => Ok (marginal d [k]) | None => Err KeyError end
    end.
  (* dist[collection of names]  (a python list: duplicates count for the length tests) *)
  Definition dget_list (ind : list id) (d : dist) : res dist :=
    match d with
    | Normal n _ _ _ =>
        if negb (length ind =? 1) || negb (memp n ind) then Err KeyError else Ok d
    | Joint ns _ _ _ =>
        if (length ind =? 0) || (length ns <? length ind) then Err KeyError
        else if negb (forallb (fun x => memp x ns) ind) then Err KeyError
        else if length (dedup ind) =? length ns then Ok d
        else Ok (marginal d (positions (fun n => memp n ind) ns))
    end.

  (* ---- RandomVariables._calc_covariance_matrix: sympy.zeros(n), then every distribution writes
     its variance block at the running (row, col) offset ---------------------------------------- *)
  Definition write_block (M : matrix) (row col : nat) (V : matrix) : matrix :=
    fold_left (fun M i => fold_left (fun M j => mset M (row + i) (col + j) (mget V i j))
                                    (seq 0 (mcols V)) M)
              (seq 0 (mrows V)) M.
  Fixpoint calc_loop (ds : coll) (row col : nat) (M : matrix) : matrix :=
    match ds with
    | [] => M
    | Normal _ _ _ v :: tl => calc_loop tl (S row) (S col) (mset M row col v)
    | Joint _ _ _ V :: tl => calc_loop tl (row + mrows V) (col + mcols V) (write_block M row col V)
    end.
  Definition calc (r : coll) : list E * matrix * list id :=
    let nm := names r in
    let M := zeros (nrvs r) in
    match nm with
    | [] => ([], M, [])
    | _ => (flat_map dmeans r, calc_loop r 0 0 M, nm)
    end.
  Definition covariance_matrix (r : coll) : matrix := snd (fst (calc r)).

  (* the specification the covariance matrix is compared with: block-diagonal composition *)
  Fixpoint block_diag (bs : list matrix) : matrix :=
    match bs with
    | [] => []
    | B :: tl =>
        let R := block_diag tl in
        map (fun row => row ++ repeat zero (length R)) B ++
        map (fun row => repeat zero (length B) ++ row) R
    end.

  (* ---- RandomVariables.join ---------------------------------------------------------------------
     fill != 0 : every zero entry OFF the diagonal of the joined matrix becomes [fill]
                 ([if M[row, col] == 0 and row != col], since fix a9c876f);
     elif name_template: every zero entry below the diagonal and its mirror become the symbol
       name_template.format(param_names[col], param_names[row])  =  [mk_cov pn[col] pn[row]].
     The loops are over product(range(rows), range(cols)); an assignment at (row, col), row > col,
     touches only (row, col) and (col, row) and the tests read only entries below the diagonal, so
     the result is the pointwise table below. *)
  Variable mk_cov : id -> id -> E.
  Definition fill_matrix (fill : E) (M : matrix) : matrix :=
    mtab (mrows M) (mcols M) (fun i j => let e := mget M i j in
                                         if is_zero e && negb (Nat.eqb i j) then fill else e).
  Definition tmpl_entry (pn : list id) (M : matrix) (i j : nat) : E :=
    let lo := Nat.min i j in let hi := Nat.max i j in
    if (lo <? hi) && is_zero (mget M hi lo)
    then mk_cov (nth lo pn 1%positive) (nth hi pn 1%positive) else mget M i j.
  Definition tmpl_matrix (pn : list id) (M : matrix) : matrix :=
    mtab (mrows M) (mcols M) (tmpl_entry pn M).
  (* param_names[row] raises IndexError when the list is too short for a zero that is found *)
  Definition tmpl_index_error (pn : list id) (M : matrix) : bool :=
    existsb (fun i => existsb (fun j => (j <? i) && is_zero (mget M i j) && (length pn <=? i))
                              (seq 0 (mcols M))) (seq 0 (mrows M)).
  (* cov_to_params, in creation order: ((param col, param row), (M[row,row], M[col,col])) *)
  Definition tmpl_params (pn : list id) (M : matrix) : list (id * id * E * E) :=
    flat_map (fun i => flat_map (fun j =>
       if (j <? i) && is_zero (mget M i j)
       then [(nth j pn 1%positive, nth i pn 1%positive, mget M i i, mget M j j)] else [])
       (seq 0 (mcols M))) (seq 0 (mrows M)).

  Fixpoint place (joined : dist) (inds : list id) (first : bool) (u : coll) : coll :=
    match u with
    | [] => []
    | d :: tl =>
        if existsb (fun item => memp item (dnames d)) inds
        then (if first then joined :: place joined inds false tl else place joined inds false tl)
        else d :: place joined inds first tl
    end.

  Definition join (inds : list id) (fill : E) (tmpl : option (list id)) (r : coll)
    : res (coll * list (id * id * E * E)) :=
    if existsb (fun item => negb (memp item (names r))) inds then Err KeyError else
    let g := getitem_list inds r in
    let '(means, M, nm) := calc g in
    let step :=
      if negb (is_zero fill) then Ok (fill_matrix fill M, [])
      else match tmpl with
           | Some pn => if tmpl_index_error pn M then Err IndexError
                        else Ok (tmpl_matrix pn M, tmpl_params pn M)
           | None => Ok (M, [])
           end in
    match step with
    | Err e => Err e
    | Ok (M', params) =>
        match g with
        | [] => Err IndexError                        (* joined_rvs[0] *)
        | d0 :: _ =>
            let joined := Joint nm (dlevel d0) means M' in
            Ok (place joined inds true (unjoin inds r), params)
        end
    end.

  (* ---- __add__ / __radd__ : the level check for a single distribution, then
     self.replace(dists=...) = RandomVariables.create, which refuses repeated names (fix 1b723c6) ---- *)
  Definition create (ds : coll) : res coll := if nodupb (names ds) then Ok ds else Err ValueError.
  Definition level_known (d : dist) : bool := memp (dlevel d) eta_levels || memp (dlevel d) epsilon_levels.
  Definition add_dist (r : coll) (d : dist) : res coll :=
    if negb (level_known d) then Err ValueError else create (r ++ [d]).
  Definition add_coll (r r2 : coll) : res coll := create (r ++ r2).      (* also rvs + [dists] *)
  (* dist + rvs  (__radd__) *)
  Definition radd_dist (r : coll) (d : dist) : res coll :=
    if negb (level_known d) then Err ValueError else create (d :: r).

  (* ---- etas / epsilons / iiv / iov ---------------------------------------------------------- *)
  Definition with_levels (ls : list id) (r : coll) : coll := filter (fun d => memp (dlevel d) ls) r.
  Definition etas (r : coll) : coll := with_levels eta_levels r.
  Definition epsilons (r : coll) : coll := with_levels epsilon_levels r.
  Definition iiv (r : coll) : coll := with_levels [L_IIV] r.
  Definition iov (r : coll) : coll := with_levels [L_IOV] r.

  (* ---- subs: names through the name map, entries through [fe]; then RandomVariables.create
     (unique names or ValueError) --------------------------------------------------------------- *)
  Variable fe : E -> E.
  Definition subs_name (nm : list (id * id)) (x : id) : id :=
    match alookup nm x with Some y => y | None => x end.
  Definition dsubs (nm : list (id * id)) (d : dist) : dist :=
    match d with
    | Normal n l m v => Normal (subs_name nm n) l (fe m) (fe v)
    | Joint ns l mu V => Joint (map (subs_name nm) ns) l (map fe mu) (map (map fe) V)
    end.
  Definition subs (nm : list (id * id)) (r : coll) : res coll :=
    let r' := map (dsubs nm) r in
    if nodupb (names r') then Ok r' else Err ValueError.

  (* ---- guards used by theorems / reported by the check ---------------------------------------- *)
  (* unjoin keeps the order exactly when in every affected block the removed names come first *)
  Fixpoint removed_prefix (inds : list id) (ns : list id) : bool :=
    match ns with
    | [] => true
    | n :: tl => if memp n inds then removed_prefix inds tl else forallb (fun m => negb (memp m inds)) tl
    end.
  Definition g_removed_prefix (inds : list id) (r : coll) : bool :=
    forallb (fun d => match d with
                      | Joint ns _ _ _ => negb (existsb (fun item => memp item ns) inds) || removed_prefix inds ns
                      | _ => true end) r.
  (* the kept names of every affected block are already adjacent in the block (so the order of the
     collection would not have to change to keep every block contiguous) *)
  Fixpoint kept_adjacent (inds : list id) (ns : list id) : bool :=
    match ns with
    | [] => true
    | n :: tl => if memp n inds then kept_adjacent inds tl
                 else (* first kept: kept run, then only removed *)
                   (fix run (l : list id) : bool :=
                      match l with
                      | [] => true
                      | m :: tl' => if memp m inds then forallb (fun q => memp q inds) tl' else run tl'
                      end) tl
    end.
  Definition g_kept_adjacent (inds : list id) (r : coll) : bool :=
    forallb (fun d => match d with Joint ns _ _ _ => kept_adjacent inds ns | _ => true end) r.
End Algebra.

Arguments Normal {E} name lev mean var.
Arguments Joint {E} names lev mean var.
Arguments dnames {E} d.
Arguments dlevel {E} d.
Arguments names {E} r.
