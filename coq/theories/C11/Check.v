(* PV.C11.Check — the comparison run inside Coq by the correspondence check.
   A case is a history: an initial RandomVariables and a sequence of operations, every state exported
   from the REAL objects (names, levels, means, every matrix entry, covariance_matrix, some
   get_covariance answers).  [verdict] re-runs the model on each exported state, compares with the
   next exported state (tags 1..9), evaluates the property statements on the implementation's own
   states (tags 11..19) and reports guard facts (tags >= 200).  Entries are compared by exact
   evaluation over Q (Base/Interp.v), never structurally. *)
From Coq Require Import QArith List Bool PArith Arith ZArith.
From PV Require Import Base.PyData Base.Expr Base.Interp Base.Stmts C11.Model.
Import ListNotations.
Local Open Scope nat_scope.

Definition ezero : expr := Num 0.
Definition e_is_zero (e : expr) : bool := match e with Num q => Qeq_bool q 0 | _ => false end.
(* name_template.format(param_names[col], param_names[row]) as an injective code of the two
   parameter ids (the harness registers the formatted strings under the same code) *)
Definition PAIR_BASE : positive := 100000%positive.
Definition e_mk_cov (a b : id) : expr := Sym (PAIR_BASE + a * 64 + b)%positive.

Notation edist := (dist expr).
Notation ecoll := (coll expr).
Notation ematrix := (matrix expr).

Record st := mkSt {
  s_dists : ecoll;                                 (* rvs._dists *)
  s_names : list id;                               (* rvs.names *)
  s_covmat : ematrix;                              (* rvs.covariance_matrix *)
  s_cov : list (id * id * option expr)             (* rvs.get_covariance(x, y), None = KeyError *)
}.

Inductive op :=
| OpUnjoin (inds : list id)
| OpJoin (inds : list id) (fill : expr) (tmpl : option (list id))
| OpGetList (ind : list id)
| OpGetInt (i : Z)
| OpGetName (x : id)
| OpGetSlice (a b c : option Z)
| OpAddDist (d : edist)
| OpRAddDist (d : edist)
| OpAddColl (ds : ecoll)
| OpSubs (nm : list (id * id)) (pm : list (id * expr))
| OpLevels (which : nat)                           (* 0 etas, 1 epsilons, 2 iiv, 3 iov *)
| OpDGetInt (k : nat) (i : Z)                      (* rvs[k][i] *)
| OpDGetName (k : nat) (x : id)
| OpDGetList (k : nat) (ind : list id).

Inductive outcome :=
| OColl (s : st)
| OJoin (s : st) (params : list (id * expr * expr))   (* cov_to_params: name, M[row,row], M[col,col] *)
| ODist (d : edist)
| OErr (e : err).

Record case := mkCase {
  c_init : st;
  c_steps : list (op * outcome * bool);            (* bool: the result becomes the current state *)
  c_envs : list (list (id * Q))
}.

Definition tag (b : bool) (t : nat) : list nat := if b then [] else [t].
Definition tag3 (v : nat) (tfail tinc : nat) : list nat :=
  match v with 0 => [] | 1 => [tfail] | _ => [tinc] end.
(* combine verdict codes: 1 dominates, then 2 *)
Definition vand (a b : nat) : nat :=
  match a, b with 1, _ | _, 1 => 1 | 0, 0 => 0 | _, _ => 2 end.
Fixpoint vall {A B} (f : A -> B -> nat) (a : list A) (b : list B) : nat :=
  match a, b with
  | [], [] => 0
  | x :: a', y :: b' => vand (f x y) (vall f a' b')
  | _, _ => 1
  end.
Definition vbool (b : bool) : nat := if b then 0 else 1.
Definition vbool_is0 (x : nat) : bool := match x with 0 => true | _ => false end.

Section WithEnvs.
  Variable envs : list env.
  Definition eagree (a b : expr) : nat := expr_agree 1 envs a b.
  Definition magree (A B : ematrix) : nat := vall (vall eagree) A B.
  Definition dist_agree (d1 d2 : edist) : nat :=
    match d1, d2 with
    | Normal n l m v, Normal n' l' m' v' =>
        vand (vbool (Pos.eqb n n' && Pos.eqb l l')) (vand (eagree m m') (eagree v v'))
    | Joint ns l mu V, Joint ns' l' mu' V' =>
        vand (vbool (list_eqb Pos.eqb ns ns' && Pos.eqb l l')) (vand (vall eagree mu mu') (magree V V'))
    | _, _ => 1
    end.
  Definition coll_agree (a b : ecoll) : nat := vall dist_agree a b.
  Definition oagree (a b : option expr) : nat :=
    match a, b with
    | Some x, Some y => eagree x y
    | None, None => 0
    | _, _ => 1
    end.

  Definition err_eqb (a b : err) : bool :=
    match a, b with
    | KeyError, KeyError | IndexError, IndexError | ValueError, ValueError | TypeError, TypeError => true
    | _, _ => false
    end.

  (* the model instantiated at symbolic entries *)
  Definition m_cov := cov expr ezero.
  Definition m_variance := variance expr ezero.
  Definition m_covmat := covariance_matrix expr ezero.
  Definition m_subs (nm : list (id * id)) (pm : list (id * expr)) :=
    subs expr (subs_map (map (fun p => (fst p, Sym (snd p))) nm ++ pm)) nm.

  (* ---- self-consistency of an exported state with the model's observers (tags 8, 9) and the
     block-diagonal property on the implementation's own matrix (tag 14) ------------------------- *)
  Definition check_state (s : st) : list nat :=
    tag (list_eqb Pos.eqb (names (s_dists s)) (s_names s)) 8 ++
    tag3 (magree (m_covmat (s_dists s)) (s_covmat s)) 8 1008 ++
    flat_map (fun q => let '(x, y, r) := q in tag3 (oagree (m_cov (s_dists s) x y) r) 9 1009) (s_cov s) ++
    tag3 (magree (s_covmat s) (block_diag expr ezero (map (dvar expr) (s_dists s)))) 14 1014.

  Definition out_state (o : outcome) : option st :=
    match o with OColl s | OJoin s _ => Some s | _ => None end.

  Definition cmp_coll (m : res ecoll) (o : outcome) (t : nat) : list nat :=
    match m, o with
    | Ok r, OColl s => tag3 (coll_agree r (s_dists s)) t (1000 + t)
    | Err e, OErr e' => tag (err_eqb e e') t
    | _, _ => [t]
    end.
  Definition cmp_dist (m : res edist) (o : outcome) (t : nat) : list nat :=
    match m, o with
    | Ok d, ODist d' => tag3 (dist_agree d d') t (1000 + t)
    | Err e, OErr e' => tag (err_eqb e e') t
    | _, _ => [t]
    end.
  Definition params_agree (a : list (id * id * expr * expr)) (b : list (id * expr * expr)) : nat :=
    vall (fun x y => let '(pc, pr, e1, e2) := x in let '(k, f1, f2) := y in
                     vand (vbool (match e_mk_cov pc pr with Sym s => Pos.eqb s k | _ => false end))
                          (vand (eagree e1 f1) (eagree e2 f2))) a b.

  (* rvs[k][...] : IndexError when there is no k-th distribution *)
  Definition on_dist (r : ecoll) (k : nat) (f : edist -> res edist) : res edist :=
    match nth_error r k with Some d => f d | None => Err IndexError end.

  (* correspondence of one step: model on the exported state before vs exported outcome *)
  Definition check_op (s : st) (o : op) (out : outcome) : list nat :=
    let r := s_dists s in
    match o with
    | OpUnjoin inds => cmp_coll (Ok (unjoin expr ezero inds r)) out 1
    | OpJoin inds fill tmpl =>
        match join expr ezero e_is_zero e_mk_cov inds fill tmpl r, out with
        | Ok (r', ps), OJoin s' ps' =>
            tag3 (coll_agree r' (s_dists s')) 2 1002 ++ tag3 (params_agree ps ps') 2 1002
        | Err e, OErr e' => tag (err_eqb e e') 2
        | _, _ => [2]
        end
    | OpGetList ind => cmp_coll (Ok (getitem_list expr ezero ind r)) out 3
    | OpGetInt i => cmp_dist (getitem_int expr i r) out 3
    | OpGetName x => cmp_dist (getitem_name expr x r) out 3
    | OpGetSlice a b c => cmp_coll (getitem_slice expr a b c r) out 3
    | OpAddDist d => cmp_coll (add_dist expr r d) out 4
    | OpRAddDist d => cmp_coll (radd_dist expr r d) out 4
    | OpAddColl ds => cmp_coll (add_coll expr r ds) out 4
    | OpSubs nm pm => cmp_coll (m_subs nm pm r) out 5
    | OpLevels w =>
        cmp_coll (Ok (match w with 0 => etas expr r | 1 => epsilons expr r | 2 => iiv expr r | _ => iov expr r end)) out 6
    | OpDGetInt k i => cmp_dist (on_dist r k (dget_int expr ezero i)) out 7
    | OpDGetName k x => cmp_dist (on_dist r k (dget_name expr ezero x)) out 7
    | OpDGetList k ind => cmp_dist (on_dist r k (dget_list expr ezero ind)) out 7
    end.

  (* ---- the property statements on the implementation's own states ----------------------------- *)
  (* reading an exported state: variance / covariance of named variables *)
  (* the oracles read (co)variances from the implementation's own covariance_matrix and names *)
  Definition st_cov (s : st) (x y : id) : option expr :=
    match index_of x (s_names s), index_of y (s_names s) with
    | Some i, Some j => Some (mget expr ezero (s_covmat s) i j)
    | _, _ => None
    end.
  Definition st_var (s : st) (x : id) : option expr := st_cov s x x.
  Definition same_block (s : st) (x y : id) : bool :=
    match lookup expr (s_dists s) x, lookup expr (s_dists s) y with
    | Some (i, _), Some (j, _) => Nat.eqb i j
    | _, _ => false
    end.
  Definition pairs_of (l : list id) : list (id * id) := flat_map (fun x => map (fun y => (x, y)) l) l.
  Definition symmetric (s : st) : nat :=
    let M := s_covmat s in let n := length M in
    fold_left vand (map (fun p => eagree (mget expr ezero M (fst p) (snd p)) (mget expr ezero M (snd p) (fst p)))
                        (flat_map (fun i => map (fun j => (i, j)) (seq 0 i)) (seq 0 n))) 0.
  Definition vars_preserved (a b : st) (xs : list id) (ren : id -> id) : nat :=
    fold_left vand (map (fun x => oagree (st_var a x) (st_var b (ren x))) xs) 0.
  Definition oexpr_is_zero (o : option expr) : bool := match o with Some e => e_is_zero e | None => false end.

  Definition idf (x : id) : id := x.
  Definition st_level (s : st) (x : id) : option id := level expr (s_dists s) x.
  Definition olevel_eqb (a b : option id) : bool :=
    match a, b with Some x, Some y => Pos.eqb x y | None, None => true | _, _ => false end.
  Definition levels_kept (a b : st) (xs : list id) : bool :=
    forallb (fun x => olevel_eqb (st_level a x) (st_level b x)) xs.

  Definition oracle (a : st) (o : op) (out : outcome) : list nat :=
    match o, out_state out with
    | OpUnjoin inds, Some b =>
        let na := s_names a in
        tag (setp_eqb na (s_names b) && (length na =? length (s_names b))) 11 ++
        tag3 (vars_preserved a b na idf) 12 1012 ++
        (* covariances between variables that stay together are kept; unjoined ones get 0 *)
        tag3 (fold_left vand (map (fun p => let '(x, y) := p in
               if Pos.eqb x y then 0
               else if memp x inds || memp y inds then oagree (st_cov b x y) (Some ezero)
               else oagree (st_cov a x y) (st_cov b x y)) (pairs_of na)) 0) 13 1013 ++
        (if vbool_is0 (symmetric a) then tag3 (symmetric b) 15 1015 else []) ++
        (* order: unchanged whenever the kept variables of every block were already adjacent *)
        (if g_kept_adjacent expr inds (s_dists a) then tag (list_eqb Pos.eqb na (s_names b)) 17 else []) ++
        tag (levels_kept a b na) 19 ++
        tag (g_removed_prefix expr inds (s_dists a)) 203
    | OpJoin inds fill tmpl, Some b =>
        let na := s_names a in
        let filling := negb (e_is_zero fill) in
        tag (setp_eqb na (s_names b) && (length na =? length (s_names b))) 11 ++
        (* every variance preserved (201 is only a fact now: a joined variable with variance 0 and fill != 0) *)
        tag3 (vars_preserved a b na idf) 12 1012 ++
        tag (negb (filling && existsb (fun x => memp x inds && oexpr_is_zero (st_var a x)) na)) 201 ++
        (* covariances of pairs that stay in one block (guard 202: an in-block covariance equal to 0
           among the joined variables while filling or naming) *)
        tag3 (fold_left vand (map (fun p => let '(x, y) := p in
               if negb (Pos.eqb x y) && same_block a x y && Bool.eqb (memp x inds) (memp y inds)
               then oagree (st_cov a x y) (st_cov b x y) else 0) (pairs_of na)) 0) 13 1013 ++
        tag (negb ((filling || (match tmpl with Some _ => true | None => false end)) &&
                   existsb (fun p => let '(x, y) := p in
                      negb (Pos.eqb x y) && memp x inds && memp y inds && same_block a x y &&
                      oexpr_is_zero (st_cov a x y)) (pairs_of na))) 202 ++
        (* new covariances are the fill value (or 0 / a symbol) ; between joined and others 0 *)
        tag3 (fold_left vand (map (fun p => let '(x, y) := p in
               if Pos.eqb x y || same_block a x y then 0
               else if memp x inds && memp y inds then
                 (if filling then oagree (st_cov b x y) (Some fill)
                  else match tmpl with None => oagree (st_cov b x y) (Some ezero)
                                     | Some _ => vbool (match st_cov b x y with Some (Sym _) => true | _ => false end) end)
               else oagree (st_cov b x y) (Some ezero)) (pairs_of na)) 0) 16 1016 ++
        (if vbool_is0 (symmetric a) then tag3 (symmetric b) 15 1015 else []) ++
        (let ls := map (st_level a) (filter (fun x => memp x inds) na) in
         if forallb (fun l => olevel_eqb l (hd None ls)) ls then tag (levels_kept a b na) 19 else [204])
    | OpGetList ind, Some b =>
        let na := s_names a in
        tag (list_eqb Pos.eqb (filter (fun x => memp x ind) na) (s_names b)) 11 ++
        tag3 (fold_left vand (map (fun p => oagree (st_cov a (fst p) (snd p)) (st_cov b (fst p) (snd p)))
                                  (pairs_of (s_names b))) 0) 18 1018 ++
        tag (levels_kept a b (s_names b)) 19
    | OpSubs nm pm, Some b =>
        let fe := subs_map (map (fun p => (fst p, Sym (snd p))) nm ++ pm) in
        tag (list_eqb Pos.eqb (map (subs_name nm) (s_names a)) (s_names b)) 11 ++
        tag3 (fold_left vand (map (fun x => oagree (option_map fe (st_var a x)) (st_var b (subs_name nm x))) (s_names a)) 0) 12 1012 ++
        tag3 (fold_left vand (map (fun p => oagree (option_map fe (st_cov a (fst p) (snd p)))
                                                   (st_cov b (subs_name nm (fst p)) (subs_name nm (snd p))))
                                  (pairs_of (s_names a))) 0) 13 1013 ++
        tag (forallb (fun x => olevel_eqb (st_level a x) (st_level b (subs_name nm x))) (s_names a)) 19
    (* + goes through create (unique names or ValueError): a result keeps every variance *)
    | OpAddDist d, Some b => tag (list_eqb Pos.eqb (s_names a ++ dnames d) (s_names b) && nodupb (s_names b)) 11 ++
                             tag3 (vars_preserved a b (s_names a) idf) 12 1012
    | OpRAddDist d, Some b => tag (list_eqb Pos.eqb (dnames d ++ s_names a) (s_names b) && nodupb (s_names b)) 11 ++
                              tag3 (vars_preserved a b (s_names a) idf) 12 1012
    | OpAddColl ds, Some b => tag (list_eqb Pos.eqb (s_names a ++ names ds) (s_names b) && nodupb (s_names b)) 11 ++
                              tag3 (vars_preserved a b (s_names a) idf) 12 1012
    | OpLevels _, Some b =>
        tag3 (fold_left vand (map (fun p => oagree (st_cov a (fst p) (snd p)) (st_cov b (fst p) (snd p)))
                                  (pairs_of (s_names b))) 0) 18 1018
    | _, _ => []
    end.

  Fixpoint run_steps (s : st) (steps : list (op * outcome * bool)) : list nat :=
    match steps with
    | [] => []
    | (o, out, adopt) :: tl =>
        check_op s o out ++
        (if wf expr (s_dists s) then oracle s o out else [210]) ++
        (match out_state out with Some s' => check_state s' | None => [] end) ++
        run_steps (if adopt then match out_state out with Some s' => s' | None => s end else s) tl
    end.
End WithEnvs.

Definition verdict (c : case) : list nat :=
  let envs := map env_of (c_envs c) in
  check_state envs (c_init c) ++ run_steps envs (c_init c) (c_steps c).
