(* PV.C11.JdCheck — comparison run inside Coq for create_joint_distribution / split_joint_distribution on real
   models: the model is re-run on the exported (random variables, initial estimates) before the call and
   compared with the exported result (tags 51, 52, 56); the property statements are evaluated on the
   implementation's own result (tags 53..58); 251 = the argument does not list the etas in collection order. *)
From Coq Require Import QArith Qabs List Bool PArith Arith.
From PV Require Import Base.PyData Base.Expr C11.Model C11.NumModel C11.JdModel C11.VarParams.
Import ListNotations.
Local Open Scope nat_scope.

Inductive jop := JCreate (inds pn : list id) | JCreateDefault (pn : list id) | JSplit (inds : list id).
Record jcase := mkJCase {
  j_r : scoll;                       (* model.random_variables before (None = 0, Some p = parameter symbol) *)
  j_p : list (id * Q);               (* model.parameters.inits before *)
  j_op : jop;
  j_out : option (scoll * list (id * Q));   (* result, None = ValueError *)
  j_sqrt : list (Q * Q);             (* np.sqrt as computed *)
  j_fixed : list id;                 (* names of the fixed parameters *)
  (* individual estimates: (parent1, parent2) -> correlation matrix of the two etas' individual estimates *)
  j_ie : list (id * id * list (list Q));
  j_psd : list (list (list Q) * bool);           (* is_positive_semidefinite as computed *)
  j_rep : list (list (list Q) * list (list Q));  (* nearest_positive_semidefinite as computed *)
  j_small : Q;                                    (* the float 0.0001 *)
  j_internal : bool;                              (* the call ended in an IndexError (internal error) *)
  j_vp : option (list id)                         (* rvs.variance_parameters before the call (None = raised) *)
}.

Fixpoint jall2 {A B} (f : A -> B -> bool) (a : list A) (b : list B) : bool :=
  match a, b with [], [] => true | x :: a', y :: b' => f x y && jall2 f a' b' | _, _ => false end.
Definition sym_eqb (a b : sym) : bool :=
  match a, b with Some x, Some y => Pos.eqb x y | None, None => true | _, _ => false end.
Definition sdist_eqb (a b : dist sym) : bool :=
  match a, b with
  | Normal n l m v, Normal n' l' m' v' => Pos.eqb n n' && Pos.eqb l l' && sym_eqb m m' && sym_eqb v v'
  | Joint ns l mu V, Joint ns' l' mu' V' =>
      list_eqb Pos.eqb ns ns' && Pos.eqb l l' && jall2 sym_eqb mu mu' && jall2 (jall2 sym_eqb) V V'
  | _, _ => false
  end.
Definition jclose (a b : Q) : bool := Qle_bool (Qabs (a - b)) (2 # 10000000).
Fixpoint jqlookup (t : list (Q * Q)) (x : Q) : Q :=
  match t with [] => 0%Q | (k, v) :: tl => if Qeq_bool k x then v else jqlookup tl x end.
Definition jtag (b : bool) (t : nat) : list nat := if b then [] else [t].
Definition osym_eqb (a b : option sym) : bool :=
  match a, b with Some x, Some y => sym_eqb x y | None, None => true | _, _ => false end.

Definition jmat_eqb (A B : list (list Q)) : bool := jall2 (jall2 Qeq_bool) A B.
Fixpoint jtlookup {A} (t : list (list (list Q) * A)) (M : list (list Q)) : option A :=
  match t with [] => None | (K, v) :: tl => if jmat_eqb K M then Some v else jtlookup tl M end.
Fixpoint jielookup (t : list (id * id * list (list Q))) (a b : id) : option (list (list Q)) :=
  match t with
  | [] => None
  | (x, y, M) :: tl => if Pos.eqb x a && Pos.eqb y b then Some M else jielookup tl a b
  end.

(* RandomVariables.variance_parameters: model against implementation (tag 70) and its statement on the
   implementation's own answer (tag 71: no repetition, exactly the variance symbols of the named variables) *)
Definition check_vp (c : jcase) : list nat :=
  let r := j_r c in
  match variance_parameters r, j_vp c with
  | Ok l, Some l' =>
      jtag (list_eqb Pos.eqb l l') 70 ++
      jtag (nodupb l' &&
            setp_eqb l' (flat_map (fun x => match variance sym None r x with Some (Some q) => [q] | _ => [] end) (names r))) 71
  | Err _, None => []
  | _, _ => [70]
  end.

Definition jverdict (c : jcase) : list nat :=
  check_vp c ++
  let r := j_r c in let p := j_p c in
  let sq := jqlookup (j_sqrt c) in
  let is_psd := fun M => match jtlookup (j_psd c) M with Some b => b | None => true end in
  let repair := fun M => match jtlookup (j_rep c) M with Some B => B | None => M end in
  let ie := fun a b => option_map (ie_cov_init Q 0%Q Qmult sq (fun x => x) Qplus (fun x => Qeq_bool x 0) (j_small c)
                                               is_psd repair p a b) (jielookup (j_ie c) a b) in
  let fixed := fun x => memp x (j_fixed c) in
  let create_case := fun inds pn =>
      let m := create_joint_distribution Q 0%Q Qmult sq (fun x => x) (1 # 10)%Q ie inds pn p r in
      match m, j_out c with
      | Err IndexError, None => if j_internal c then [60] else [51]
      | Err _, None => if j_internal c then [60; 51] else []   (* an internal IndexError is always reported *)
      | Ok (mr, mp), Some (ir, ip) =>
          jtag (jall2 sdist_eqb mr ir) 51 ++
          (* parameters: the implementation may drop unused ones afterwards; every parameter it keeps is the
             model's (same value up to the rounding to 7 decimals), every NEW model parameter is present *)
          jtag (forallb (fun kv => existsb (fun kv' => Pos.eqb (fst kv) (fst kv') && jclose (snd kv) (snd kv')) mp) ip) 52 ++
          jtag (forallb (fun kv => existsb (fun kv' => Pos.eqb (fst kv) (fst kv')) ip) (skipn (length p) mp)) 52 ++
          (* property statements on the implementation's result *)
          jtag (setp_eqb (names r) (names ir) && (length (names r) =? length (names ir))) 54 ++
          jtag (forallb (fun x => osym_eqb (variance sym None r x) (variance sym None ir x)) (names r)) 55 ++
          (* the covariance symbol of two joined variables from different blocks is the template applied to
             the parameter names of THESE two variables (earlier one first) *)
          jtag (forallb (fun x => forallb (fun y =>
                  match index_of x inds, index_of y inds, index_of x (names r), index_of y (names r) with
                  | Some i, Some j, Some a, Some b =>
                      if (a <? b) && osym_eqb (cov sym None r x y) (Some None)
                      then osym_eqb (cov sym None ir x y)
                                    (Some (sym_mk_cov (nth i pn 1%positive) (nth j pn 1%positive)))
                      else true
                  | _, _, _, _ => true
                  end) inds) inds) 53 ++
          jtag (list_eqb Pos.eqb inds (filter (fun n => memp n inds) (names r))) 251 ++
          (* the old parameters keep their values *)
          jtag (forallb (fun kv => match alookup p (fst kv) with Some v => Qeq_bool v (snd kv) | None => true end) ip) 58
      | _, _ => [51]
      end in
  match j_op c with
  | JCreate inds pn => create_case inds pn
  | JCreateDefault pn =>
      (* rvs=None: the IIV etas without a fixed parameter; this selection is in collection order *)
      create_case (default_rvs fixed r) pn ++
      jtag (list_eqb Pos.eqb (default_rvs fixed r) (filter (fun n => memp n (default_rvs fixed r)) (names r))) 59
  | JSplit inds =>
      match split_joint_distribution_checked Q fixed inds p r, j_out c with
      | Err _, None => []
      | Ok (mr, mp), Some (ir, ip) =>
          jtag (jall2 sdist_eqb mr ir) 56 ++
          jtag (list_eqb Pos.eqb (map fst mp) (map fst ip) && jall2 (fun a b => Qeq_bool (snd a) (snd b)) mp ip) 56 ++
          jtag (setp_eqb (names r) (names ir)) 54 ++
          jtag (forallb (fun x => osym_eqb (variance sym None r x) (variance sym None ir x)) (names r)) 55 ++
          (* every variance parameter survives; a dropped parameter is mentioned by no random variable *)
          jtag (forallb (fun x => match variance sym None r x with
                                  | Some (Some q) => negb (memp q (map fst p)) || memp q (map fst ip)
                                  | _ => true end) (names r)) 57 ++
          jtag (forallb (fun kv => memp (fst kv) (map fst ip) || negb (memp (fst kv) (syms ir))) p) 57
      | _, _ => [56]
      end
  end.
