(* PV.C11.NumModel — executable model of the NUMERIC side of C11, generic in the number type F
   (instantiated with R in the theorems, with Q plus exported numpy values in the correspondence):
     pharmpy/internals/math.py        cov2corr, corr2cov
     pharmpy/modeling/math.py         calculate_se_from_cov / calculate_corr_from_cov / calculate_cov_from_corrse
     pharmpy/model/random_variables.py parameters_sdcorr, validate_parameters, nearest_valid_parameters
     pharmpy/model/model.py           Model._canonicalize_parameter_estimates
     pharmpy/modeling/estimation.py   _scale_matrix, _descale_matrix, the theta part of
                                      calculate_ucp_scale / calculate_parameters_from_ucp
   LAPACK routines (eig, svd, cholesky) are NOT modelled: the PSD test, the Higham repair and the
   Cholesky factor are parameters (oracles).  No proofs here. *)
From Coq Require Import List Bool PArith Arith.
From PV Require Import Base.PyData Base.Expr C11.Model.
Import ListNotations.
Local Open Scope nat_scope.

Section Num.
  Variable F : Type.
  Variables f0 f1 : F.
  Variables fadd fsub fmul fdiv : F -> F -> F.
  Variables fsqrt fexp fln : F -> F.
  Variable fis0 : F -> bool.                       (* numpy [cov == 0] *)
  Variable ften : F.                               (* 10 *)
  Variable ftenth : F.                             (* 0.1 *)

  Notation fmatrix := (list (list F)).
  Definition fget (M : fmatrix) (i j : nat) : F := nth j (nth i M []) f0.
  Definition ftab (n c : nat) (f : nat -> nat -> F) : fmatrix :=
    map (fun i => map (fun j => f i j) (seq 0 c)) (seq 0 n).
  Definition fsum (l : list F) : F := fold_left fadd l f0.

  (* np.diag(M) / np.diag(v) / A @ B / A.T / np.tril(A) *)
  Definition diagv (M : fmatrix) : list F := map (fun i => fget M i i) (seq 0 (length M)).
  Definition diagm (v : list F) : fmatrix :=
    ftab (length v) (length v) (fun i j => if Nat.eqb i j then nth i v f0 else f0).
  Definition mmul (A B : fmatrix) : fmatrix :=
    let n := length A in
    ftab n n (fun i j => fsum (map (fun k => fmul (fget A i k) (fget B k j)) (seq 0 n))).
  Definition transpose (A : fmatrix) : fmatrix := ftab (length A) (length A) (fun i j => fget A j i).
  Definition tril (A : fmatrix) : fmatrix :=
    ftab (length A) (length A) (fun i j => if j <=? i then fget A i j else f0).

  (* ---- internals/math.py ---------------------------------------------------------------------- *)
  (* v = sqrt(diag(cov)); corr = cov / outer(v, v); corr[cov == 0] = 0 *)
  Definition cov2corr (cov : fmatrix) : fmatrix :=
    let v := map fsqrt (diagv cov) in
    let n := length cov in
    ftab n n (fun i j => if fis0 (fget cov i j) then f0
                         else fdiv (fget cov i j) (fmul (nth i v f0) (nth j v f0))).
  (* sd_matrix = diag(sd); cov = sd_matrix @ corr @ sd_matrix *)
  Definition corr2cov (corr : fmatrix) (sd : list F) : fmatrix :=
    mmul (mmul (diagm sd) corr) (diagm sd).
  (* modeling/math.py: se = sqrt(diag(cov)) *)
  Definition se_from_cov (cov : fmatrix) : list F := map fsqrt (diagv cov).

  (* modeling/math.py, the precision-matrix conversions; np.linalg.inv is an oracle *)
  Variable finv : fmatrix -> fmatrix.
  Definition cov_from_prec (P : fmatrix) : fmatrix := finv P.
  Definition se_from_prec (P : fmatrix) : list F := map fsqrt (diagv (finv P)).
  Definition corr_from_prec (P : fmatrix) : fmatrix := cov2corr (finv P).
  Definition prec_from_cov (S : fmatrix) : fmatrix := finv S.
  Definition cov_from_corrse (corr : fmatrix) (se : list F) : fmatrix := corr2cov corr se.
  Definition prec_from_corrse (corr : fmatrix) (se : list F) : fmatrix := finv (corr2cov corr se).

  (* parameters_sdcorr on one joint block: sd on the diagonal, correlations elsewhere *)
  Definition sdcorr_block (sigma : fmatrix) : fmatrix :=
    let corr := cov2corr sigma in
    let n := length sigma in
    ftab n n (fun i j => if Nat.eqb i j then fsqrt (fget sigma i j) else fget corr i j).

  (* ---- parameter dictionaries ---------------------------------------------------------------- *)
  Definition params := list (id * F).
  Fixpoint pget (p : params) (x : id) : F :=
    match p with [] => f0 | (k, v) :: tl => if Pos.eqb k x then v else pget tl x end.
  Fixpoint pset (p : params) (x : id) (v : F) : params :=           (* dict[x] = v *)
    match p with
    | [] => [(x, v)]
    | (k, w) :: tl => if Pos.eqb k x then (k, v) :: tl else (k, w) :: pset tl x v
    end.
  Definition msubs (p : params) (V : list (list id)) : fmatrix := map (map (pget p)) V.

  (* the symbolic variance matrices of the joint distributions (entries are parameter symbols) *)
  Definition joint_blocks (r : coll id) : list (list (list id)) :=
    flat_map (fun d => match d with Joint _ _ _ V => [V] | Normal _ _ _ _ => [] end) r.

  (* RandomVariables.parameters_sdcorr(values): newdict = dict(values); joint blocks assign every
     entry name (sd on the diagonal, correlation elsewhere), a NormalDistribution replaces its variance
     parameter by its square root when the name is in the dict *)
  Fixpoint pmem (p : params) (x : id) : bool :=
    match p with [] => false | (k, _) :: tl => Pos.eqb k x || pmem tl x end.
  Definition sdcorr_params (values : params) (r : coll id) : params :=
    fold_left (fun acc d =>
      match d with
      | Joint _ _ _ V =>
          let sigma := msubs values V in
          let sc := sdcorr_block sigma in
          fold_left (fun acc i =>
            fold_left (fun acc j => pset acc (nth j (nth i V []) 1%positive) (fget sc i j))
                      (seq 0 (match V with [] => 0 | row :: _ => length row end)) acc)
            (seq 0 (length V)) acc
      | Normal _ _ _ v => if pmem acc v then pset acc v (fsqrt (pget values v)) else acc
      end) r values.

  (* ---- validate_parameters / nearest_valid_parameters / _canonicalize_parameter_estimates ------
     is_psd = internals.math.is_positive_semidefinite (numpy eig), repair = the Higham branch of
     nearest_positive_semidefinite: both oracles.  nearest_positive_semidefinite returns its ARGUMENT
     (same object) when is_psd holds, and the caller tests [B is not A]. *)
  Variable is_psd : fmatrix -> bool.
  Variable repair : fmatrix -> fmatrix.
  Definition nearest_psd (A : fmatrix) : option fmatrix :=       (* None = "B is A" *)
    if is_psd A then None else Some (repair A).

  Definition validate (p : params) (r : coll id) : bool :=
    forallb (fun V => is_psd (msubs p V)) (joint_blocks r).

  (* for row in range(len(A)): for col in range(row + 1): nearest[symb_sigma[row, col].name] = B[row, col] *)
  Definition update_lower (acc : params) (V : list (list id)) (B : fmatrix) : params :=
    fold_left (fun acc row =>
      fold_left (fun acc col => pset acc (nth col (nth row V []) 1%positive) (fget B row col))
                (seq 0 (S row)) acc)
      (seq 0 (length V)) acc.

  Definition nearest (p : params) (r : coll id) : params :=
    fold_left (fun acc V => match nearest_psd (msubs p V) with
                            | None => acc
                            | Some B => update_lower acc V B
                            end) (joint_blocks r) p.

  Definition canonicalize (p : params) (r : coll id) : params :=
    if validate p r then p else nearest p r.

  (* Model.create(parameters, random_variables) and Model.replace(...): whichever of
     'parameters' / 'random_variables' is among the replaced attributes (the other one is taken from
     self), the initial estimates ALWAYS go through _canonicalize_parameter_estimates with the
     resulting pair. *)
  Definition model_replace (p_old : params) (r_old : coll id)
                           (p_new : option params) (r_new : option (coll id)) : params * coll id :=
    let parameters := match p_new with Some p => p | None => p_old end in
    let random_variables := match r_new with Some r => r | None => r_old end in
    (canonicalize parameters random_variables, random_variables).

  (* ---- estimation.py: _scale_matrix(A) given chol = np.linalg.cholesky(A) (oracle);
     m_scale = 10 * (M1 - M2) + M3, signed since fix 859061b ------------------------------------ *)
  Definition scale_matrix (chol : fmatrix) : fmatrix :=
    let n := length chol in
    let M1 := tril chol in
    let v1 := diagv M1 in
    let v2 := map (fun x => fdiv x (fexp ftenth)) v1 in
    let M2 := diagm v1 in
    let M3 := diagm v2 in
    let m_scale := ftab n n (fun i j => fadd (fmul ften (fsub (fget M1 i j) (fget M2 i j))) (fget M3 i j)) in
    (* m_scale[irows, icols] = m_scale[icols, irows] for the strict upper triangle *)
    ftab n n (fun i j => if i <? j then fget m_scale j i else fget m_scale i j).

  (* _descale_matrix(A, S) *)
  Definition descale_matrix (A S : fmatrix) : fmatrix :=
    let n := length A in
    let M := ftab n n (fun i j => if Nat.eqb i j then fexp (fget A i i) else fget A i j) in
    let M2 := ftab n n (fun i j => fmul (fget M i j) (fget S i j)) in
    let M3 := tril M2 in
    mmul M3 (transpose M3).

  (* theta part (bounds already clipped to +-1000000) *)
  Definition theta_scale (init lower upper : F) : F :=
    let range_ul := fsub upper lower in
    let range_prop := fdiv (fsub init lower) range_ul in
    fsub ftenth (fln (fdiv range_prop (fsub f1 range_prop))).
  Definition theta_descale (ucp scaled lower upper : F) : F :=
    let diff_scale := fsub ucp scaled in
    let prop_scale := fdiv (fexp diff_scale) (fadd f1 (fexp diff_scale)) in
    fadd (fmul prop_scale (fsub upper lower)) lower.
End Num.
