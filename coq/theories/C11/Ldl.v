(* PV.C11.Ldl — an exact positive-semidefiniteness checker over Q (fraction-free symmetric elimination) and
   its soundness: ldl_check A = true -> forall x, length x = length A -> 0 <= x^T A x, for every size. *)
From Coq Require Import QArith List Bool Arith Lia Qabs.
Import ListNotations.
Local Open Scope Q_scope.

Fixpoint dot (a x : list Q) : Q :=
  match a, x with
  | a0 :: a', x0 :: x' => a0 * x0 + dot a' x'
  | _, _ => 0
  end.
Definition mv (M : list (list Q)) (x : list Q) : list Q := map (fun row => dot row x) M.
Definition qf (M : list (list Q)) (x : list Q) : Q := dot x (mv M x).      (* x^T M x *)

Fixpoint all2q (a b : list Q) : bool :=
  match a, b with
  | [], [] => true
  | x :: a', y :: b' => Qeq_bool x y && all2q a' b'
  | _, _ => false
  end.
(* one elimination step without division: rows (c_i :: b_i), pivot p, first row r0:  p*b_ij - c_i*r0_j *)
Definition elim (p : Q) (r0 : list Q) (rows : list (list Q)) : list (list Q) :=
  map (fun row => map (fun br => Qred (p * fst br - hd 0 row * snd br)) (combine (tl row) r0)) rows.

Fixpoint ldl_fuel (fuel : nat) (M : list (list Q)) : bool :=
  match fuel with
  | O => false
  | S f =>
      match M with
      | [] => true
      | [] :: _ => false
      | (p :: r0) :: rows =>
          (length rows =? length r0)%nat &&
          forallb (fun row => (length row =? S (length r0))%nat) rows &&
          all2q (map (hd 0) rows) r0 &&                                   (* first column = first row *)
          (if Qle_bool p 0
           then Qeq_bool p 0 && forallb (fun x => Qeq_bool x 0) r0 && ldl_fuel f (map (@tl Q) rows)
           else ldl_fuel f (elim p r0 rows))
      end
  end.
Definition ldl_check (M : list (list Q)) : bool := ldl_fuel (S (length M)) M.

(* ---------------------------------------------------------------------------------------------- *)
Lemma dot_nil_r a : dot a [] = 0. Proof. destruct a; reflexivity. Qed.

Lemma dot_comm a x : dot a x == dot x a.
Proof. revert x. induction a as [|a0 a IH]; intros [|x0 x]; cbn [dot]; try reflexivity. rewrite IH. ring. Qed.

Lemma all2q_spec a b : all2q a b = true -> length a = length b /\ forall x, dot x a == dot x b.
Proof.
  revert b. induction a as [|a0 a IH]; intros [|b0 b] H; cbn [all2q] in H; try discriminate.
  - split; [reflexivity | intros; reflexivity].
  - apply andb_true_iff in H. destruct H as [H1 H2]. apply Qeq_bool_iff in H1. destruct (IH b H2) as [L E].
    split; [cbn; lia|]. intros [|x0 x]; cbn [dot]; [reflexivity|]. rewrite H1, (E x). reflexivity.
Qed.

Lemma allzero_dot r x : forallb (fun y => Qeq_bool y 0) r = true -> dot r x == 0.
Proof.
  revert x. induction r as [|r0 r IH]; intros [|x0 x] H; cbn [dot]; try reflexivity.
  cbn [forallb] in H. apply andb_true_iff in H. destruct H as [H1 H2]. apply Qeq_bool_iff in H1.
  rewrite H1, (IH x H2). ring.
Qed.

(* dot x (map (fun r => f r * k + g r) l) = k * dot x (map f l) + dot x (map g l) *)
Lemma dot_map_lin {A} (f g : A -> Q) k (l : list A) x :
  dot x (map (fun r => f r * k + g r) l) == k * dot x (map f l) + dot x (map g l).
Proof.
  revert x. induction l as [|r l IH]; intros [|x0 x]; cbn [map dot]; try ring. rewrite IH. ring.
Qed.

Lemma dot_map_lin2 {A} (f g : A -> Q) p s (l : list A) x :
  dot x (map (fun r => p * f r - g r * s) l) == p * dot x (map f l) - s * dot x (map g l).
Proof.
  revert x. induction l as [|r l IH]; intros [|x0 x]; cbn [map dot]; try ring. rewrite IH. ring.
Qed.

(* a row of the eliminated matrix against x' *)
Lemma dot_elim_row p c (b r0 x : list Q) : length b = length r0 ->
  dot (map (fun br => Qred (p * fst br - c * snd br)) (combine b r0)) x == p * dot b x - c * dot r0 x.
Proof.
  revert r0 x. induction b as [|b0 b IH]; intros [|r r0] x Hl; cbn in Hl; try discriminate.
  - cbn. ring.
  - destruct x as [|x0 x]; cbn [combine map dot fst snd]; [ring|]. rewrite Qred_correct, IH by lia. ring.
Qed.

Lemma map_ext_in_Q {A} (f g : A -> Q) (l : list A) x : (forall a, In a l -> f a == g a) ->
  dot x (map f l) == dot x (map g l).
Proof.
  revert x. induction l as [|a l IH]; intros [|x0 x] H; cbn [map dot]; try reflexivity.
  rewrite (H a (or_introl eq_refl)), IH; [reflexivity|]. intros b Hb. apply H. right. exact Hb.
Qed.

Section Step.
  Variables (p : Q) (r0 : list Q) (rows : list (list Q)) (x0 : Q) (x : list Q).
  Hypothesis Hrows : forall row, In row rows -> length row = S (length r0).
  Hypothesis Hcol : forall y, dot y (map (hd 0) rows) == dot y r0.
  Let s := dot r0 x.
  Let t := qf (map (@tl Q) rows) x.

  Lemma row_split row : In row rows -> dot row (x0 :: x) == hd 0 row * x0 + dot (tl row) x.
  Proof. intros H. pose proof (Hrows row H) as L. destruct row as [|c b]; [discriminate|]. reflexivity. Qed.

  (* x^T M x = p x0^2 + 2 x0 s + t *)
  Lemma qf_split : qf ((p :: r0) :: rows) (x0 :: x) == p * x0 * x0 + 2 * x0 * s + t.
  Proof.
    unfold qf, mv. cbn [map dot].
    rewrite (map_ext_in_Q (fun row => dot row (x0 :: x)) (fun row => hd 0 row * x0 + dot (tl row) x) rows x row_split).
    rewrite (dot_map_lin (hd 0) (fun row => dot (tl row) x) x0 rows x).
    rewrite (Hcol x). rewrite (dot_comm x r0). fold s.
    unfold t, qf, mv. rewrite map_map. ring.
  Qed.

  (* x'^T (p B - r0 r0^T) x' = p t - s^2 *)
  Lemma qf_elim : qf (elim p r0 rows) x == p * t - s * s.
  Proof.
    unfold qf, mv, elim. rewrite map_map.
    rewrite (map_ext_in_Q _ (fun row => p * dot (tl row) x - hd 0 row * s) rows x).
    - rewrite (dot_map_lin2 (fun row => dot (tl row) x) (hd 0) p s rows x).
      rewrite (Hcol x), (dot_comm x r0). fold s. unfold t, qf, mv. rewrite map_map. ring.
    - intros row Hr. unfold s. apply dot_elim_row. pose proof (Hrows row Hr) as L.
      destruct row; [discriminate | cbn in *; lia].
  Qed.
End Step.

Lemma Qnonneg_plus a b : 0 <= a -> 0 <= b -> 0 <= a + b.
Proof. intros Ha Hb. setoid_replace 0 with (0 + 0) by ring. apply Qplus_le_compat; assumption. Qed.

Theorem ldl_fuel_sound : forall fuel M, ldl_fuel fuel M = true ->
  forall x, length x = length M -> 0 <= qf M x.
Proof.
  induction fuel as [|f IH]; intros M H x Hx; [discriminate|].
  cbn [ldl_fuel] in H. destruct M as [|[|p r0] rows]; [|discriminate|].
  - destruct x; [|discriminate]. unfold qf. cbn. apply Qle_refl.
  - apply andb_true_iff in H. destruct H as [H Hrec]. apply andb_true_iff in H. destruct H as [H Hsym].
    apply andb_true_iff in H. destruct H as [Hn Hlen]. apply Nat.eqb_eq in Hn.
    rewrite forallb_forall in Hlen.
    assert (Hrows : forall row, In row rows -> length row = S (length r0)) by (intros row Hr; apply Nat.eqb_eq, Hlen, Hr).
    destruct (all2q_spec _ _ Hsym) as [_ Hcol].
    destruct x as [|x0 x]; [discriminate|]. cbn in Hx.
    assert (Hx' : length x = length rows) by lia.
    rewrite (qf_split p r0 rows x0 x Hrows Hcol).
    destruct (Qle_bool p 0) eqn:Hp.
    + (* zero pivot: the first row and column vanish *)
      apply andb_true_iff in Hrec. destruct Hrec as [Hrec Hsub]. apply andb_true_iff in Hrec. destruct Hrec as [Hp0 Hz].
      apply Qeq_bool_iff in Hp0. rewrite Hp0, (allzero_dot r0 x Hz).
      assert (G : 0 <= qf (map (@tl Q) rows) x) by (apply (IH _ Hsub); rewrite map_length; exact Hx').
      setoid_replace (0 * x0 * x0 + 2 * x0 * 0 + qf (map (@tl Q) rows) x) with (qf (map (@tl Q) rows) x) by ring. exact G.
    + (* positive pivot: p * q = (p x0 + s)^2 + x'^T (p B - r0 r0^T) x' *)
      assert (Hpos : 0 < p). { apply Qnot_le_lt. intro Hle. apply Qle_bool_iff in Hle. congruence. }
      assert (G : 0 <= qf (elim p r0 rows) x).
      { apply (IH _ Hrec). unfold elim. rewrite map_length. exact Hx'. }
      rewrite (qf_elim p r0 rows x Hrows Hcol) in G.
      set (s := dot r0 x) in *. set (t := qf (map (@tl Q) rows) x) in *.
      assert (E : p * (p * x0 * x0 + 2 * x0 * s + t) == (p * x0 + s) * (p * x0 + s) + (p * t - s * s)) by ring.
      assert (N : 0 <= p * (p * x0 * x0 + 2 * x0 * s + t)).
      { rewrite E. apply Qnonneg_plus; [|exact G].
        destruct (Qlt_le_dec (p * x0 + s) 0) as [Hneg|Hnn].
        - setoid_replace ((p * x0 + s) * (p * x0 + s)) with ((- (p * x0 + s)) * (- (p * x0 + s))) by ring.
          apply Qmult_le_0_compat; apply Qlt_le_weak; apply (Qopp_lt_compat _ 0) in Hneg; exact Hneg.
        - apply Qmult_le_0_compat; exact Hnn. }
      apply (Qmult_le_l _ _ p Hpos). setoid_replace (p * 0) with 0 by ring. exact N.
Qed.

Theorem ldl_psd_sound_lemma : forall A, ldl_check A = true -> forall x, length x = length A -> 0 <= qf A x.
Proof. intros A H. apply (ldl_fuel_sound _ _ H). Qed.
