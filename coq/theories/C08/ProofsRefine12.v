(* PV.C08.ProofsRefine12 — set_transit_compartments(n, keep_depot=False) on a depot behind a chain:
   the last transit is connected to central and the depot is removed. *)
From Coq Require Import List Bool Arith NArith Lia.
From PV Require Import Base.PyData C08.Model C08.ProofsGraph C08.ProofsRefine C08.ProofsDecimal C08.ProofsRefine2
  C08.ProofsRefine3 C08.ProofsRefine4 C08.ProofsRefine5 C08.ProofsRefine6 C08.ProofsRefine7 C08.ProofsRefine8
  C08.ProofsRefine9 C08.ProofsRefine10.
Import ListNotations.
Local Open Scope nat_scope.

Definition nodepot (s : sk) : sk :=
  mkSk (drop_depot_abs (s_abs s)) (s_transits s) (s_periph s) (s_elim s) (s_lag s) (s_mat s) (s_popmdt s) (s_krates s) (s_elq s) (s_bio s).

(* build (nodepot s) with the edge of the last transit moved to the end *)
Definition depot_removed (s : sk) : graph :=
  mkGraph (build_nodes (nodepot s))
          (chainE (s_transits s) ++ build_edges (with_tr (nodepot s) 0) ++ [lastE (nodepot s) (s_transits s)])
          (snd (elim_flags (s_elim s))) (s_mat s) (s_popmdt s) (s_krates s) (s_elq s).

Lemma nodepot_no_depot s : s_depot s = true -> s_depot (nodepot s) = false.
Proof. unfold s_depot, nodepot. cbn [s_abs]. destruct (s_abs s); try discriminate; reflexivity. Qed.

Lemma nodepot_zo s : s_depot s = true -> s_zo (nodepot s) = s_zo s.
Proof. unfold s_depot, s_zo, nodepot. cbn [s_abs]. destruct (s_abs s); try discriminate; reflexivity. Qed.

Lemma depot_removed_spec s :
  s_depot s = true -> 1 <= s_transits s ->
  remove_compartment (add_flow_like (build s) (NTransit (s_transits s)) NCentral (tedge s (s_transits s))) (plain NDepot)
  = depot_removed s.
Proof.
  intros Hd H1. set (tr := s_transits s) in *.
  assert (Hd1 := nodepot_no_depot s Hd).
  assert (Hf1 : first_name s = NTransit 1) by (unfold first_name; fold tr; destruct tr; [lia|reflexivity]).
  unfold add_flow_like, add_flow.
  assert (Hno : has_edge (build s) (NTransit tr) NCentral = false).
  { rewrite has_edge_build. cbn [edge_spec]. unfold chain_next. fold tr. rewrite Nat.ltb_irrefl, Hd. cbn [name_eqb]. apply andb_false_r. }
  rewrite Hno. unfold remove_compartment, depot_removed. cbn [g_nodes g_edges g_kmfix g_mat g_popmdt g_krates g_elq set_edges build plain n_name].
  f_equal.
  - rewrite !build_nodes_names, drop_named_map.
    assert (Hn : filter (fun y => negb (name_eqb y NDepot)) (names s) = names (nodepot s)).
    { unfold names. change (s_transits (nodepot s)) with (s_transits s). change (s_periph (nodepot s)) with (s_periph s).
      rewrite Hd1, Hd. rewrite !filter_app. cbn [filter name_eqb negb app].
      f_equal; [|f_equal]; apply filter_all; intros x Hx; apply in_map_iff in Hx; destruct Hx as [i [<- _]]; reflexivity. }
    rewrite Hn. apply map_ext. intro x. unfold mk_node. replace (first_name (nodepot s)) with (first_name s).
    2:{ rewrite Hf1. unfold first_name. cbn [nodepot s_transits]. fold tr. destruct tr; [lia|reflexivity]. }
    unfold the_dose. rewrite (nodepot_zo s Hd). reflexivity.
  - rewrite (build_edges_split s H1). fold tr.
    assert (Hr : build_edges (with_tr s 0) = mkEdge NDepot NCentral 1 false false :: build_edges (with_tr (nodepot s) 0)).
    { unfold build_edges. cbn [with_tr nodepot s_transits s_periph s_elim seq map app]. 
      change (s_depot (with_tr s 0)) with (s_depot s). rewrite Hd.
      change (s_depot (with_tr (nodepot s) 0)) with (s_depot (nodepot s)). rewrite Hd1. reflexivity. }
    rewrite Hr, !filter_app. unfold lastE at 1. rewrite Hd. cbn [filter e_src e_dst name_eqb negb andb app].
    rewrite <- !app_assoc. f_equal.
    + apply filter_all. intros e H. apply in_map_iff in H. destruct H as [i [<- _]]. reflexivity.
    + f_equal; [|unfold lastE; rewrite Hd1; reflexivity].
      apply filter_all. intros e H. rewrite build_edges_with in H. apply in_edges_with in H.
      destruct H as [k Hk' ->| Hd' ->| -> |j' Hj ->|j' Hj ->]; try reflexivity.
      * cbn in Hk'. lia.
      * change (s_depot (nodepot s) = true) in Hd'. rewrite Hd1 in Hd'. discriminate.
Qed.

(* the part of set_transit_compartments after the depot block (text of Model.set_transit_compartments) *)
Definition transits_tail (model cs : graph) (transits : list name) (n : nat) : res graph :=
  let nt := length transits in
  if Nat.eqb nt n then Ok model
  else if Nat.eqb n 1 && has_instantaneous_absorption model then Refuse
  else if Nat.eqb nt 0 then
    do dosing_comp <- opt_res (dosing0 cs) CValue;
    do cc <- create_chain n cs (n_name dosing_comp) (fresh cs);
    let '(cb, cname) := cc in
    do comp <- opt_res (find_node cb cname) CValue;
    let '(cb1, comp1) := set_bioavailability cb comp (n_bio dosing_comp) in
    let '(cb2, dc2) := set_bioavailability cb1 dosing_comp false in
    let '(cb3, dc3) :=
      match n_doses dc2 with
      | [d] => if Nat.eqb (d_admid d) 2 then set_dose cb2 dc2 [mkDose (d_zo d) (d_inf d) 1] else (cb2, dc2)
      | _ => (cb2, dc2)
      end in
    do cb4 <- move_dose cb3 dc3 comp1 1;
    if Nat.eqb (length (n_doses dc3)) 1 then Ok (fst (set_dose cb4 comp1 (n_doses dc3)))
    else
      do sd <- opt_res (hd_error (sorted_doses dc3)) CIndex;
      let '(cb5, _) := add_dose cb4 comp1 [sd] in
      Ok (fst (set_dose cb5 dc3 (tl (sorted_doses dc3))))
  else if n <? nt then
    do lt <- find_last_transit cs transits;
    let '(trans, e) := lt in
    let cb := remove_transits (nt - n) cs cs trans (e_dst e) in
    if Nat.eqb n 0 then
      do d0 <- opt_res (dosing0 cs) CValue;
      do dd <- opt_res (hd_error (n_doses d0)) CIndex;
      do dest <- opt_res (find_node cs (e_dst e)) CValue;
      Ok (fst (set_dose cb dest [dd]))
    else Ok cb
  else
    do lt <- find_last_transit cs transits;
    let '(lastt, e) := lt in
    do cb0 <- remove_flow cs lastt (e_dst e);
    do cb1 <- add_transits (n - nt) n cb0 lastt e;
    Ok (add_flow_like cb1 (last_added (n - nt) n lastt) (e_dst e) e).

Lemma depot_removed_geqb s : s_depot s = true -> 1 <= s_transits s -> geqb (depot_removed s) (build (nodepot s)) = true.
Proof.
  intros Hd H1.
  assert (HE : build_edges (nodepot s) = chainE (s_transits s) ++ [lastE (nodepot s) (s_transits s)] ++ build_edges (with_tr (nodepot s) 0)).
  { apply (build_edges_split (nodepot s)). exact H1. }
  assert (Hchar : forall e, In e (g_edges (depot_removed s)) <-> In e (build_edges (nodepot s))).
  { intro e. rewrite HE. unfold depot_removed. cbn [g_edges]. rewrite !in_app_iff. tauto. }
  apply (geqb_perm_edges _ (build (nodepot s)) (fun e => e)).
  - auto.
  - auto.
  - reflexivity.
  - cbn [g_edges build depot_removed]. rewrite HE, !app_length. cbn [length]. lia.
  - intros e H. apply Hchar. exact H.
  - intros e' H. exists e'. split; [apply Hchar; exact H | reflexivity].
  - intro e. split; reflexivity.
  - intros e _. apply edge_shape_refl.
  - cbn [g_edges build]. rewrite build_edges_with. apply key_unique_edges_with; reflexivity.
  - intros a b _ _. reflexivity.
  - reflexivity.
Qed.

(* the head of set_transit_compartments(n, keep_depot=False) on a depot behind a chain *)
Lemma nodepot_head s n :
  s_depot s = true -> 1 <= s_transits s ->
  set_transit_compartments (build s) n false
  = if s_mat s && s_popmdt s then Crash CDupParam
    else transits_tail (depot_removed s) (depot_removed s) (map NTransit (seq 1 (s_transits s))) n.
Proof.
  intros Hd H1. unfold set_transit_compartments.
  rewrite dosing0_build. cbn [opt_res bind]. rewrite find_transits_build. cbn [opt_res bind].
  destruct (remove_lag_build s) as [gl [Hg _]]. rewrite Hg. cbn [bind]. rewrite find_depot_build. cbn [bind].
  unfold canon_depot. rewrite Hd.
  assert (Hf1 : first_name s = NTransit 1) by (unfold first_name; destruct (s_transits s); [lia|reflexivity]).
  assert (Dn : mk_node s NDepot = plain NDepot) by (unfold mk_node; rewrite Hf1; reflexivity).
  rewrite Dn. rewrite central_build. cbn [opt_res bind plain n_name]. rewrite preds_depot, Hd.
  destruct (Nat.eqb_spec (s_transits s) 0); [lia|]. cbn [negb andb]. unfold tnode. rewrite !n_name_mk_node.
  assert (Hge : get_edge (build s) (NTransit (s_transits s)) NDepot = Some (tedge s (s_transits s))).
  { rewrite tedge_last. unfold get_edge.
    replace NDepot with (e_dst (lastE s (s_transits s))) by (unfold lastE; cbn [e_dst]; rewrite Hd; reflexivity).
    change (NTransit (s_transits s)) with (e_src (lastE s (s_transits s))).
    apply get_edge_unique.
    - cbn [g_edges build]. rewrite build_edges_with. apply key_unique_edges_with; reflexivity.
    - cbn [g_edges build]. rewrite (build_edges_split s H1). apply in_or_app. right. left. reflexivity. }
  rewrite Hge, n_name_cnode. cbn [bind]. rewrite (depot_removed_spec s Hd H1).
  change (g_mat (build s)) with (s_mat s). change (g_popmdt (build s)) with (s_popmdt s).
  destruct (s_mat s && s_popmdt s); [reflexivity|]. cbn [bind].
  assert (Htn : transit_names s = map NTransit (seq 1 (s_transits s))) by (unfold transit_names; rewrite Hd; reflexivity).
  rewrite Htn. reflexivity.
Qed.

Theorem refines_transits_nodepot_same s :
  s_depot s = true -> 1 <= s_transits s -> refines (Transits (s_transits s) false) s = true.
Proof.
  intros Hd H1. unfold refines.
  assert (Hct : canon_transits s = s_transits s) by (unfold canon_transits; rewrite Hd; reflexivity).
  assert (Hstep : step (Transits (s_transits s) false) s =
            if s_mat s && s_popmdt s then SCrash CDupParam else SOk (nodepot s)).
  { cbn [step]. unfold step_transits. rewrite Hct, Hd. cbn [negb andb orb]. rewrite Nat.eqb_refl.
    destruct (s_mat s && s_popmdt s); [reflexivity|].
    destruct (Nat.eqb_spec (s_transits s) 0); [lia|]. reflexivity. }
  rewrite Hstep. cbn [setter_graph]. rewrite (nodepot_head s _ Hd H1).
  destruct (s_mat s && s_popmdt s); [reflexivity|].
  unfold transits_tail. rewrite map_length, seq_length, Nat.eqb_refl. apply depot_removed_geqb; assumption.
Qed.

(* the `while nadd > 0` loop after the flow out of the last transit was removed (second half of refines_transits_add) *)
Lemma add_tail s n :
  1 <= s_transits s -> s_transits s < n ->
  match (do cb1 <- add_transits (n - s_transits s) n
                     (set_edges (build s) (map (tedge s) (seq 1 (s_transits s - 1)) ++ build_edges (with_tr s 0)))
                     (NTransit (s_transits s))
                     (mkEdge (NTransit (s_transits s)) (if s_depot s then NDepot else NCentral) 2 false false);
         Ok (add_flow_like cb1 (last_added (n - s_transits s) n (NTransit (s_transits s)))
               (if s_depot s then NDepot else NCentral)
               (mkEdge (NTransit (s_transits s)) (if s_depot s then NDepot else NCentral) 2 false false)))
  with Ok g' => geqb g' (build (with_tr s n)) | _ => false end = true.
Proof.
  intros H1 Hlt.
  set (tr := s_transits s) in *.
  set (dst := if s_depot s then NDepot else NCentral).
  set (rest := build_edges (with_tr s 0)).
  assert (Hlast : tedge s tr = mkEdge (NTransit tr) dst 2 false false).
  { unfold tedge, chain_next. fold tr. rewrite Nat.ltb_irrefl. reflexivity. }
  assert (Hlt' : forall k, k < tr -> tedge s k = mkEdge (NTransit k) (NTransit (S k)) 2 false false).
  { intros k Hk'. unfold tedge, chain_next. fold tr. destruct (Nat.ltb_spec k tr); [reflexivity|lia]. }
  assert (HE : build_edges s = map (tedge s) (seq 1 (tr - 1)) ++ [tedge s tr] ++ rest).
  { unfold build_edges at 1. fold tr. replace tr with ((tr - 1) + 1) at 1 by lia. rewrite seq_app, map_app.
    cbn [seq map]. replace (1 + (tr - 1)) with tr by lia. rewrite <- app_assoc. reflexivity. }
  assert (Hrest : forall e, In e rest -> e_rid e <> 2 /\ (forall j, e_src e <> NTransit j)).
  { intros e H. apply (old_edge_rid (with_tr s 0) e eq_refl H). }
  assert (Hrest_dst : forall e j, In e rest -> e_dst e <> NTransit j).
  { intros e j H. unfold rest in H. rewrite build_edges_with in H. apply in_edges_with in H.
    destruct H as [k Hk' ->| Hd ->| -> |j' Hj ->|j' Hj ->]; cbn; try discriminate. cbn in Hk'. lia. }
  set (Efil := map (tedge s) (seq 1 (tr - 1)) ++ rest).
  set (rate := mkEdge (NTransit tr) dst 2 false false).
  assert (HinEfil : forall e, In e Efil <-> ((exists k, 1 <= k < tr /\ e = mkEdge (NTransit k) (NTransit (S k)) 2 false false) \/ In e rest)).
  { intro e. unfold Efil. rewrite in_app_iff. split.
    - intros [H|H]; [left|right; exact H]. apply in_map_iff in H. destruct H as [k [<- Hk']]. apply in_seq in Hk'.
      exists k. split; [lia|]. apply Hlt'. lia.
    - intros [[k [Hk' ->]]|H]; [left|right; exact H]. rewrite <- (Hlt' k) by lia. apply in_map. apply in_seq. lia. }
  rewrite add_transits_spec.
  2:{ lia. }
  2:{ intros nd j Hin E. cbn [g_nodes set_edges build] in Hin. rewrite build_nodes_names in Hin.
      apply in_map_iff in Hin. destruct Hin as [x [<- Hx]]. rewrite n_name_mk_node in E. subst x.
      unfold names in Hx. fold tr in Hx. apply in_app_or in Hx. destruct Hx as [Hx|Hx].
      - apply in_map_iff in Hx. destruct Hx as [i [E Hi]]. injection E as <-. apply in_seq in Hi. lia.
      - exfalso. apply in_app_or in Hx. destruct Hx as [Hx|Hx].
        + destruct (s_depot s); [destruct Hx as [Hx|[]]; discriminate | contradiction].
        + destruct Hx as [Hx|Hx]; [discriminate|]. apply in_map_iff in Hx. destruct Hx as [i [Hx _]]. discriminate. }
  2:{ intros e j Hin E. cbn [g_edges set_edges] in Hin. apply HinEfil in Hin. destruct Hin as [[k [Hk' ->]]|Hin].
      - cbn in E. injection E as <-. lia.
      - exfalso. exact (Hrest_dst e j Hin E). }
  cbn [bind g_nodes g_edges g_kmfix set_edges build].
  assert (Hla : last_added (n - tr) n (NTransit tr) = NTransit n) by (destruct (n - tr) eqn:E; [lia|reflexivity]).
  rewrite Hla. replace (n - (n - tr)) with tr by lia.
  assert (HinAdd : forall e, In e (add_edges (n - tr) n (NTransit tr) rate)
                   <-> exists j, tr <= j < n /\ e = mkEdge (NTransit j) (NTransit (S j)) 2 false false).
  { intro e. replace (NTransit tr) with (NTransit (n - (n - tr))) by (f_equal; lia).
    rewrite in_add_edges by lia. replace (n - (n - tr)) with tr by lia. reflexivity. }
  unfold add_flow_like, add_flow.
  match goal with |- context [has_edge ?g _ _] => set (g1 := g) end.
  assert (Hno : has_edge g1 (NTransit n) dst = false).
  { apply has_edge_false_src. unfold g1. cbn [g_edges]. intros e Hin E. apply in_app_or in Hin. destruct Hin as [Hin|Hin].
    - apply HinEfil in Hin. destruct Hin as [[k [Hk' ->]]|Hin]; [cbn in E; injection E as E; lia|].
      destruct (Hrest e Hin) as [_ Hs]. exact (Hs n E).
    - apply HinAdd in Hin. destruct Hin as [j [Hj ->]]. cbn in E. injection E as E. lia. }
  rewrite Hno. unfold g1. cbn [set_edges g_nodes g_edges g_kmfix g_mat g_popmdt g_krates g_elq e_rid e_nonlin e_cl rate].
  fold rate. clear Hno g1.
  set (s' := with_tr s n).
  set (R := names (with_tr s 0)).
  assert (Hns : names s = map NTransit (seq 1 tr) ++ R) by reflexivity.
  assert (Hns' : names s' = map NTransit (seq 1 n) ++ R) by reflexivity.
  assert (Hf1 : first_name s = NTransit 1) by (unfold first_name; fold tr; destruct tr; [lia|reflexivity]).
  assert (Hmk : forall x, mk_node s' x = mk_node s x).
  { intro x. unfold mk_node. replace (first_name s') with (NTransit 1); [rewrite Hf1; reflexivity|].
    unfold first_name, s'. cbn [with_tr s_transits]. destruct n; [lia|reflexivity]. }
  assert (Hbn' : build_nodes s' = map (mk_node s) (names s')).
  { rewrite build_nodes_names. apply map_ext. exact Hmk. }
  assert (Hpl : forall j, tr < j -> plain (NTransit j) = mk_node s (NTransit j)).
  { intros j Hj. unfold mk_node. rewrite Hf1. cbn [name_eqb]. destruct (Nat.eqb_spec j 1); [lia|reflexivity]. }
  assert (HE' : build_edges s' = map (tedge s') (seq 1 n) ++ rest) by reflexivity.
  assert (Hs'lt : forall k, k < n -> tedge s' k = mkEdge (NTransit k) (NTransit (S k)) 2 false false).
  { intros k Hk'. unfold tedge, chain_next, s'. cbn [with_tr s_transits]. destruct (Nat.ltb_spec k n); [reflexivity|lia]. }
  assert (Hs'n : tedge s' n = mkEdge (NTransit n) dst 2 false false).
  { unfold tedge, chain_next, s'. cbn [with_tr s_transits]. rewrite Nat.ltb_irrefl. reflexivity. }
  assert (Hchar : forall e, In e ((Efil ++ add_edges (n - tr) n (NTransit tr) rate) ++ [mkEdge (NTransit n) dst 2 false false])
                            <-> In e (build_edges s')).
  { intro e. rewrite HE'. rewrite !in_app_iff, HinEfil, HinAdd. split.
    - intros [[[[k [Hk' ->]]|Hr]|[j [Hj ->]]]|[<-|[]]].
      + left. rewrite <- Hs'lt by lia. apply in_map. apply in_seq. lia.
      + right. exact Hr.
      + left. rewrite <- Hs'lt by lia. apply in_map. apply in_seq. lia.
      + left. rewrite <- Hs'n. apply in_map. apply in_seq. lia.
    - intros [Hm|Hr]; [|left; left; right; exact Hr].
      apply in_map_iff in Hm. destruct Hm as [k [<- Hk']]. apply in_seq in Hk'.
      destruct (Nat.eq_dec k n) as [->|Nk].
      + right. left. symmetry. exact Hs'n.
      + rewrite Hs'lt by lia. destruct (Nat.lt_ge_cases k tr).
        * left. left. left. exists k. split; [lia|reflexivity].
        * left. right. exists k. split; [lia|reflexivity]. }
  apply (geqb_perm_edges _ (build s') (fun e => e)).
  - cbn [g_nodes set_edges build]. rewrite Hbn'. intros nd Hin. apply in_app_or in Hin. destruct Hin as [Hin|Hin].
    + rewrite build_nodes_names in Hin. apply in_map_iff in Hin. destruct Hin as [x [<- Hx]]. apply in_map.
      rewrite Hns'. rewrite Hns in Hx. apply in_app_or in Hx. apply in_or_app. destruct Hx as [Hx|Hx]; [left|right; exact Hx].
      apply in_map_iff in Hx. destruct Hx as [j [<- Hj]]. apply in_seq in Hj. apply in_map. apply in_seq. lia.
    + apply in_map_iff in Hin. destruct Hin as [j [<- Hj]]. apply in_seq in Hj. rewrite Hpl by lia. apply in_map.
      rewrite Hns'. apply in_or_app. left. apply in_map. apply in_seq. lia.
  - cbn [g_nodes set_edges build]. rewrite Hbn'. intros nd Hin. apply in_map_iff in Hin. destruct Hin as [x [<- Hx]].
    rewrite Hns' in Hx. apply in_app_or in Hx. destruct Hx as [Hx|Hx].
    + apply in_map_iff in Hx. destruct Hx as [j [<- Hj]]. apply in_seq in Hj. apply in_or_app.
      destruct (Nat.lt_ge_cases tr j).
      * right. rewrite <- Hpl by lia. apply (in_map (fun j => plain (NTransit j))). apply in_seq. lia.
      * left. rewrite build_nodes_names. apply in_map. rewrite Hns. apply in_or_app. left. apply in_map. apply in_seq. lia.
    + apply in_or_app. left. rewrite build_nodes_names. apply in_map. rewrite Hns. apply in_or_app. right. exact Hx.
  - cbn [g_nodes set_edges build]. rewrite Hbn', build_nodes_names, app_length, !map_length, Hns, Hns', !app_length, !map_length, !seq_length. lia.
  - cbn [g_edges set_edges build]. rewrite HE'. unfold Efil. rewrite !app_length, !map_length, !seq_length, length_add_edges. cbn [length]. lia.
  - intros e Hin. cbn [g_edges set_edges] in Hin. cbn [g_edges build]. apply Hchar. exact Hin.
  - intros e' Hin. exists e'. split; [|reflexivity]. cbn [g_edges set_edges]. cbn [g_edges build] in Hin. apply Hchar. exact Hin.
  - intro e. split; reflexivity.
  - intros e _. apply edge_shape_refl.
  - cbn [g_edges build]. rewrite build_edges_with. apply key_unique_edges_with; reflexivity.
  - intros a b _ _. reflexivity.
  - reflexivity.
Qed.

(* ---- the chain loops on the system after the depot removal ---- *)
Lemma out_edges_removed s k :
  s_depot s = true -> 1 <= k <= s_transits s ->
  out_edges (depot_removed s) (NTransit k)
  = if k <? s_transits s then [linkE k] else [lastE (nodepot s) (s_transits s)].
Proof.
  intros Hd Hk. unfold out_edges, depot_removed. cbn [g_edges]. rewrite !filter_app.
  rewrite (filter_none_intro _ (build_edges (with_tr (nodepot s) 0))).
  2:{ intros e H. apply name_eqb_neq. exact (rest_src (nodepot s) e k H). }
  cbn [app filter lastE e_src name_eqb]. unfold chainE.
  destruct (Nat.ltb_spec k (s_transits s)).
  - rewrite (filter_map_seq_one linkE _ (s_transits s - 1) 1 k); [| lia | intros i Hi; reflexivity].
    destruct (Nat.eqb_spec (s_transits s) k); [lia|]. reflexivity.
  - rewrite (filter_map_seq_none linkE).
    2:{ intros i Hi. cbn [linkE e_src name_eqb]. destruct (Nat.eqb_spec i k); [lia|reflexivity]. }
    destruct (Nat.eqb_spec (s_transits s) k); [|lia]. reflexivity.
Qed.

Lemma find_last_removed s :
  s_depot s = true -> 1 <= s_transits s ->
  find_last_transit (depot_removed s) (map NTransit (seq 1 (s_transits s)))
  = Ok (NTransit (s_transits s), lastE (nodepot s) (s_transits s)).
Proof.
  intros Hd H1. unfold find_last_transit.
  rewrite (filter_map_seq_one NTransit _ (s_transits s) 1 (s_transits s)).
  - rewrite out_edges_removed by (auto; lia). rewrite Nat.ltb_irrefl. reflexivity.
  - lia.
  - intros k Hk. rewrite out_edges_removed by (auto; lia).
    destruct (Nat.ltb_spec k (s_transits s)).
    + cbn [linkE e_dst]. rewrite memname_transits. destruct (Nat.eqb_spec k (s_transits s)); [lia|].
      apply negb_false_iff. apply existsb_exists. exists (S k). split; [apply in_seq; lia | apply Nat.eqb_refl].
    + cbn [lastE e_dst]. rewrite memname_other by (apply (dst_not_transit (nodepot s))).
      destruct (Nat.eqb_spec k (s_transits s)); [reflexivity|lia].
Qed.

Lemma nodepot_step s n :
  s_depot s = true -> 1 <= s_transits s -> s_transits s <> n ->
  step (Transits n false) s =
    if s_mat s && s_popmdt s then SCrash CDupParam
    else if n <? s_transits s
         then SOk (if Nat.eqb n 0 then with_biob (with_lagb (with_tr (nodepot s) 0) false) false else with_tr (nodepot s) n)
         else SOk (with_tr (nodepot s) n).
Proof.
  intros Hd H1 Hn.
  assert (Hct : canon_transits s = s_transits s) by (unfold canon_transits; rewrite Hd; reflexivity).
  cbn [step]. unfold step_transits. rewrite Hct, Hd. cbn [negb andb orb].
  destruct (s_mat s && s_popmdt s); [reflexivity|].
  destruct (Nat.eqb_spec (s_transits s) n); [contradiction|].
  destruct (Nat.eqb_spec (s_transits s) 0); [lia|]. cbn [s_transits]. 
  destruct (Nat.eqb_spec (s_transits s) 0); [lia|]. rewrite andb_false_r. reflexivity.
Qed.

Theorem refines_transits_nodepot_add s n :
  s_depot s = true -> 1 <= s_transits s -> s_transits s < n -> refines (Transits n false) s = true.
Proof.
  intros Hd H1 Hlt. unfold refines. rewrite (nodepot_step s n Hd H1) by lia.
  cbn [setter_graph]. rewrite (nodepot_head s n Hd H1).
  destruct (s_mat s && s_popmdt s); [reflexivity|].
  destruct (Nat.ltb_spec n (s_transits s)) as [|_]; [lia|].
  unfold transits_tail. rewrite map_length, seq_length. cbv zeta.
  destruct (Nat.eqb_spec (s_transits s) n); [lia|].
  destruct (Nat.eqb_spec n 1); [lia|]. cbn [andb].
  destruct (Nat.eqb_spec (s_transits s) 0); [lia|].
  destruct (Nat.ltb_spec n (s_transits s)) as [|_]; [lia|].
  rewrite (find_last_removed s Hd H1). cbn [bind]. cbn [lastE e_dst].
  set (s1 := nodepot s) in *. set (tr := s_transits s) in *.
  set (dst := if s_depot s1 then NDepot else NCentral).
  assert (Hrf : remove_flow (depot_removed s) (NTransit tr) dst
                = Ok (set_edges (build s1) (map (tedge s1) (seq 1 (s_transits s1 - 1)) ++ build_edges (with_tr s1 0)))).
  { unfold remove_flow.
    assert (Hhe : has_edge (depot_removed s) (NTransit tr) dst = true).
    { unfold has_edge. apply existsb_exists. exists (lastE s1 tr). split.
      - unfold depot_removed. cbn [g_edges]. apply in_or_app. right. apply in_or_app. right. left. reflexivity.
      - unfold is_edge, lastE. cbn [e_src e_dst]. rewrite !name_eqb_refl. reflexivity. }
    rewrite Hhe. f_equal. unfold depot_removed, set_edges. cbn [g_nodes g_edges g_kmfix g_mat g_popmdt g_krates g_elq build].
    fold s1. fold tr. change (s_transits s1) with tr.
    assert (Hf : filter (fun e => negb (is_edge (NTransit tr) dst e)) (chainE tr ++ build_edges (with_tr s1 0) ++ [lastE s1 tr])
                 = map (tedge s1) (seq 1 (tr - 1)) ++ build_edges (with_tr s1 0)).
    { rewrite !filter_app. cbn [filter]. unfold is_edge at 3. unfold lastE at 1. cbn [e_src e_dst]. rewrite !name_eqb_refl.
      cbn [andb negb]. rewrite app_nil_r. f_equal.
      - unfold chainE. rewrite filter_all.
        + apply map_ext_in. intros i Hi. apply in_seq in Hi. symmetry. apply (tedge_link s1). change (s_transits s1) with tr. lia.
        + intros e H. apply in_map_iff in H. destruct H as [i [<- Hi]]. apply in_seq in Hi. unfold is_edge. cbn [linkE e_src name_eqb].
          destruct (Nat.eqb_spec i tr); [lia|]. reflexivity.
      - apply filter_all. intros e H. unfold is_edge. rewrite (name_eqb_neq _ _ (rest_src s1 e tr H)). reflexivity. }
    rewrite Hf. reflexivity. }
  rewrite Hrf. cbn [bind].
  exact (add_tail s1 n H1 Hlt).
Qed.

(* ---- the `while nremove > 0` loop with the inflows read from any system cs that has the chain of build s ---- *)
Section RemoveGen.
  Variable s : sk.
  Variable cs : graph.
  Local Notation tr := (s_transits s).
  Local Notation dst := (if s_depot s then NDepot else NCentral).
  Local Notation rest := (build_edges (with_tr s 0)).
  Hypothesis Hp : forall j, 2 <= j <= tr -> preds cs (NTransit j) = [tnode s (j - 1)].
  Hypothesis Hp1 : preds cs (NTransit 1) = [].
  Hypothesis Hgl : forall k, 1 <= k < tr -> get_edge cs (NTransit k) (NTransit (S k)) = Some (linkE k).

  Lemma remove_step_g k j cb X1 X2 :
    2 <= j -> j <= tr ->
    g_nodes cb = st_nodes s j -> g_edges cb = chainE j ++ X1 ++ [lastE s j] ++ X2 -> X1 ++ X2 = rest ->
    exists cb', remove_transits (S k) cs cb (NTransit j) dst = remove_transits k cs cb' (NTransit (j - 1)) dst
      /\ g_nodes cb' = st_nodes s (j - 1) /\ g_edges cb' = chainE (j - 1) ++ rest ++ [lastE s (j - 1)] ++ []
      /\ g_kmfix cb' = g_kmfix cb.
  Proof.
    intros Hk Hj Hn He HX.
    remember (remove_transits (S k) cs cb (NTransit j) dst) as g' eqn:Hg'. symmetry in Hg'.
    cbn [remove_transits] in Hg'. rewrite Hp in Hg' by lia. unfold tnode in Hg'. rewrite n_name_mk_node in Hg'.
      assert (Hge : get_edge cs (NTransit (j - 1)) (NTransit j) = Some (linkE (j - 1))).
      { replace (NTransit j) with (NTransit (S (j - 1))) by (f_equal; lia). apply Hgl. lia. }
      rewrite Hge in Hg'. unfold add_flow_like in Hg'. cbn [linkE e_rid e_nonlin e_cl] in Hg'. unfold add_flow in Hg'.
      assert (InX : forall e, In e X1 \/ In e X2 -> In e rest).
      { intros e H. rewrite <- HX. apply in_or_app. exact H. }
      assert (Hno : has_edge cb (NTransit (j - 1)) dst = false).
      { unfold has_edge. apply not_true_is_false. intro X. apply existsb_exists in X. destruct X as [e [Hin E]].
        unfold is_edge in E. apply andb_true_iff in E. destruct E as [E1 E2]. apply name_eqb_eq in E1, E2.
        rewrite He in Hin. rewrite !in_app_iff in Hin. destruct Hin as [Hin|[Hin|[Hin|Hin]]].
        - apply in_map_iff in Hin. destruct Hin as [i [<- _]]. cbn in E2. symmetry in E2. exact (dst_not_transit s _ E2).
        - exact (rest_src s e _ (InX e (or_introl Hin)) E1).
        - destruct Hin as [<-|[]]. cbn in E1. injection E1 as E1. lia.
        - exact (rest_src s e _ (InX e (or_intror Hin)) E1). }
      rewrite Hno in Hg'.
      set (cb' := remove_compartment _ _) in Hg'.
      assert (Hn' : g_nodes cb' = st_nodes s (j - 1)).
      { unfold cb', remove_compartment. cbn [g_nodes set_edges plain n_name]. rewrite Hn. apply (drop_st_nodes s). lia. }
      assert (He' : g_edges cb' = chainE (j - 1) ++ rest ++ [lastE s (j - 1)] ++ []).
      { unfold cb', remove_compartment. cbn [g_edges set_edges plain n_name]. rewrite He.
        assert (Hc : chainE j = chainE (j - 1) ++ [linkE (j - 1)]).
        { unfold chainE. replace (j - 1) with ((j - 1 - 1) + 1) at 1 by lia. rewrite seq_app, map_app. cbn [seq map].
          replace (1 + (j - 1 - 1)) with (j - 1) by lia. reflexivity. }
        rewrite Hc, !filter_app. cbn [filter linkE lastE e_src e_dst name_eqb].
        replace (S (j - 1)) with j by lia. rewrite !Nat.eqb_refl. cbn [negb andb app].
        destruct (Nat.eqb_spec (j - 1) j); [lia|]. cbn [negb andb].
        rewrite (name_eqb_neq _ _ (dst_not_transit s j)). cbn [negb app]. rewrite app_nil_r.
        rewrite <- HX.
        assert (F1 : forall l, (forall e, In e l -> In e rest) ->
                     filter (fun e => negb (name_eqb (e_src e) (NTransit j)) && negb (name_eqb (e_dst e) (NTransit j))) l = l).
        { intros l Hl. apply filter_all. intros e H. rewrite (name_eqb_neq _ _ (rest_src s e j (Hl e H))), (name_eqb_neq _ _ (rest_dst s e j (Hl e H))). reflexivity. }
        rewrite (F1 X1) by (intros e H; apply InX; left; exact H).
        rewrite (F1 X2) by (intros e H; apply InX; right; exact H).
        rewrite <- !app_assoc. f_equal.
        apply filter_all. intros e H. apply in_map_iff in H. destruct H as [i [<- Hi]]. apply in_seq in Hi.
        cbn [linkE e_src e_dst name_eqb]. destruct (Nat.eqb_spec i j); [lia|]. destruct (Nat.eqb_spec (S i) j); [lia|]. reflexivity. }
      exists cb'. split; [symmetry; exact Hg'|]. split; [exact Hn'|]. split; [exact He'|]. reflexivity.
  Qed.

  Lemma remove_transits_spec_g k : forall j cb X1 X2,
    k < j -> j <= tr ->
    g_nodes cb = st_nodes s j -> g_edges cb = chainE j ++ X1 ++ [lastE s j] ++ X2 -> X1 ++ X2 = rest ->
    forall g', remove_transits k cs cb (NTransit j) dst = g' ->
    g_nodes g' = st_nodes s (j - k)
    /\ (exists Y1 Y2, Y1 ++ Y2 = rest /\ g_edges g' = chainE (j - k) ++ Y1 ++ [lastE s (j - k)] ++ Y2)
    /\ g_kmfix g' = g_kmfix cb.
  Proof.
    induction k as [|k IH]; intros j cb X1 X2 Hk Hj Hn He HX g' Hg'.
    - cbn [remove_transits] in Hg'. subst g'. rewrite Nat.sub_0_r. split; [exact Hn|]. split; [exists X1, X2; split; assumption | reflexivity].
    - destruct (remove_step_g k j cb X1 X2 ltac:(lia) Hj Hn He HX) as [cb' [E [Hn' [He' Hk']]]]. rewrite E in Hg'.
      destruct (IH (j - 1) cb' rest [] ltac:(lia) ltac:(lia) Hn' He' (app_nil_r _) g' Hg') as [G1 [G2 G3]].
      replace (j - S k) with (j - 1 - k) by lia. split; [exact G1|]. split; [exact G2|]. rewrite G3. exact Hk'.
  Qed.

  (* all transits go: the last step finds no inflow of TRANSIT1 *)
  Lemma remove_last_step_g cb X1 X2 :
    1 <= tr ->
    g_nodes cb = st_nodes s 1 -> g_edges cb = chainE 1 ++ X1 ++ [lastE s 1] ++ X2 -> X1 ++ X2 = rest ->
    let g' := remove_transits 1 cs cb (NTransit 1) dst in
    g_nodes g' = st_nodes s 0 /\ g_edges g' = rest /\ g_kmfix g' = g_kmfix cb.
  Proof.
    intros H1 Hn He HX. cbn [remove_transits]. rewrite Hp1. cbn zeta.
    unfold remove_compartment. cbn [g_nodes g_edges g_kmfix plain n_name]. split; [|split; [|reflexivity]].
    - rewrite Hn. apply (drop_st_nodes s 1). lia.
    - rewrite He. cbn [chainE seq map app Nat.sub]. rewrite !filter_app. cbn [filter lastE e_src e_dst name_eqb Nat.eqb negb andb app].
      rewrite <- HX.
      assert (F1 : forall l, (forall e, In e l -> In e rest) ->
                   filter (fun e => negb (name_eqb (e_src e) (NTransit 1)) && negb (name_eqb (e_dst e) (NTransit 1))) l = l).
      { intros l Hl. apply filter_all. intros e H. rewrite (name_eqb_neq _ _ (rest_src s e 1 (Hl e H))), (name_eqb_neq _ _ (rest_dst s e 1 (Hl e H))). reflexivity. }
      rewrite (F1 X1), (F1 X2); [reflexivity | |]; intros e H; rewrite <- HX; apply in_or_app; auto.
  Qed.

  Lemma remove_transits_all_g k : forall j cb X1 X2,
    k = j -> 1 <= j -> j <= tr ->
    g_nodes cb = st_nodes s j -> g_edges cb = chainE j ++ X1 ++ [lastE s j] ++ X2 -> X1 ++ X2 = rest ->
    forall g', remove_transits k cs cb (NTransit j) dst = g' ->
    g_nodes g' = st_nodes s 0 /\ g_edges g' = rest /\ g_kmfix g' = g_kmfix cb.
  Proof.
    induction k as [|k IH]; intros j cb X1 X2 Hk H1 Hj Hn He HX g' Hg'; [lia|].
    destruct (Nat.eq_dec j 1) as [->|Nj].
    - injection Hk as ->. subst g'. apply (remove_last_step_g cb X1 X2); auto.
    - destruct (remove_step_g k j cb X1 X2 ltac:(lia) Hj Hn He HX) as [cb' [E [Hn' [He' Hk']]]]. rewrite E in Hg'.
      destruct (IH (j - 1) cb' rest [] ltac:(lia) ltac:(lia) ltac:(lia) Hn' He' (app_nil_r _) g' Hg') as [G1 [G2 G3]].
      split; [exact G1|]. split; [exact G2|]. rewrite G3. exact Hk'.
  Qed.
End RemoveGen.

(* ---- detectors and the removal loop on the system after the depot removal ---- *)
Lemma removed_edges_char s e : 1 <= s_transits s ->
  In e (g_edges (depot_removed s)) <-> In e (build_edges (nodepot s)).
Proof.
  intro H1. rewrite (build_edges_split (nodepot s) H1). unfold depot_removed. cbn [g_edges].
  change (s_transits (nodepot s)) with (s_transits s). rewrite !in_app_iff. tauto.
Qed.

Lemma has_edge_removed s u v : 1 <= s_transits s ->
  has_edge (depot_removed s) u v = has_edge (build (nodepot s)) u v.
Proof.
  intro H1. unfold has_edge. apply eq_true_iff_eq. rewrite !existsb_exists. cbn [g_edges build].
  split; intros [e [Hin E]]; exists e; (split; [apply (removed_edges_char s e H1); exact Hin | exact E]).
Qed.

Lemma preds_removed s x : 1 <= s_transits s -> preds (depot_removed s) x = preds (build (nodepot s)) x.
Proof. intro H1. unfold preds. cbn [g_nodes depot_removed build]. apply filter_ext. intro nd. apply has_edge_removed. exact H1. Qed.

Lemma central_removed s : 1 <= s_transits s -> central (depot_removed s) = central (build (nodepot s)).
Proof. intro H1. unfold central. rewrite preds_removed by exact H1. reflexivity. Qed.

Lemma dosing0_removed s : 1 <= s_transits s -> dosing0 (depot_removed s) = dosing0 (build (nodepot s)).
Proof. intro H1. unfold dosing0, dosing. rewrite central_removed by exact H1. reflexivity. Qed.

Lemma inst_removed s : 1 <= s_transits s -> has_instantaneous_absorption (depot_removed s) = false.
Proof.
  intro H1. unfold has_instantaneous_absorption. rewrite dosing0_removed, central_removed by exact H1.
  change (has_instantaneous_absorption (build (nodepot s)) = false). rewrite inst_build.
  change (s_transits (nodepot s)) with (s_transits s). destruct (Nat.eqb_spec (s_transits s) 0); [lia|].
  rewrite andb_false_r. reflexivity.
Qed.

Lemma get_edge_removed s k : 1 <= k < s_transits s ->
  get_edge (depot_removed s) (NTransit k) (NTransit (S k)) = Some (linkE k).
Proof.
  intro Hk. unfold get_edge.
  change (NTransit k) with (e_src (linkE k)). change (NTransit (S k)) with (e_dst (linkE k)).
  apply get_edge_unique.
  - intros e e' He He' E. apply (removed_edges_char s) in He, He'; try lia.
    assert (KU : key_unique (build_edges (nodepot s))) by (rewrite build_edges_with; apply key_unique_edges_with; reflexivity).
    exact (KU e e' He He' E).
  - unfold depot_removed. cbn [g_edges]. apply in_or_app. left. unfold chainE. apply in_map. apply in_seq. lia.
Qed.

Lemma removed_Hp s j : 2 <= j <= s_transits s -> preds (depot_removed s) (NTransit j) = [tnode (nodepot s) (j - 1)].
Proof. intro H. rewrite preds_removed by lia. apply (preds_transit (nodepot s)). exact H. Qed.
Lemma removed_Hp1 s : 1 <= s_transits s -> preds (depot_removed s) (NTransit 1) = [].
Proof. intro H. rewrite preds_removed by lia. apply (preds_transit1 (nodepot s)). Qed.

Theorem refines_transits_nodepot_remove s n :
  s_depot s = true -> 1 <= n -> n < s_transits s -> refines (Transits n false) s = true.
Proof.
  intros Hd Hn1 Hlt. assert (H1 : 1 <= s_transits s) by lia.
  unfold refines. rewrite (nodepot_step s n Hd H1) by lia.
  cbn [setter_graph]. rewrite (nodepot_head s n Hd H1).
  destruct (s_mat s && s_popmdt s); [reflexivity|].
  destruct (Nat.ltb_spec n (s_transits s)) as [_|]; [|lia].
  destruct (Nat.eqb_spec n 0); [lia|].
  unfold transits_tail. rewrite map_length, seq_length. cbv zeta.
  destruct (Nat.eqb_spec (s_transits s) n); [lia|].
  rewrite (inst_removed s H1), andb_false_r.
  destruct (Nat.eqb_spec (s_transits s) 0); [lia|].
  destruct (Nat.ltb_spec n (s_transits s)) as [_|]; [|lia].
  rewrite (find_last_removed s Hd H1). cbn [bind]. cbn [lastE e_dst].
  destruct (Nat.eqb_spec n 0); [lia|].
  set (s1 := nodepot s) in *. set (tr := s_transits s) in *. set (s' := with_tr s1 n).
  destruct (remove_transits_spec_g s1 (depot_removed s) (removed_Hp s) (get_edge_removed s) (tr - n) tr (depot_removed s)
              (build_edges (with_tr s1 0)) [])
    with (g' := remove_transits (tr - n) (depot_removed s) (depot_removed s) (NTransit tr) (if s_depot s1 then NDepot else NCentral))
    as [G1 [[Y1 [Y2 [HY G2]]] G3]]; try reflexivity; try lia.
  { unfold depot_removed. cbn [g_nodes]. symmetry. apply (st_nodes_build s1). }
  { apply app_nil_r. }
  set (g' := remove_transits _ _ _ _ _) in *. clearbody g'.
  replace (tr - (tr - n)) with n in * by lia.
  assert (Hf1 : first_name s1 = NTransit 1) by (unfold first_name; change (s_transits s1) with tr; destruct tr; [lia|reflexivity]).
  assert (Hmk : forall x, mk_node s' x = mk_node s1 x).
  { intro x. unfold mk_node. replace (first_name s') with (NTransit 1); [rewrite Hf1; reflexivity|].
    unfold first_name, s'. cbn [with_tr s_transits]. destruct n; [lia|reflexivity]. }
  assert (Hbn' : build_nodes s' = g_nodes g').
  { rewrite G1, build_nodes_names. unfold st_nodes. apply map_ext. exact Hmk. }
  assert (HE' : build_edges s' = chainE n ++ [lastE s1 n] ++ build_edges (with_tr s1 0)).
  { apply (build_edges_split s'). cbn. lia. }
  assert (Hchar : forall e, In e (g_edges g') <-> In e (build_edges s')).
  { intro e. rewrite G2, HE', <- HY, !in_app_iff. tauto. }
  apply (geqb_perm_edges g' (build s') (fun e => e)).
  - cbn [g_nodes build]. rewrite Hbn'. auto.
  - cbn [g_nodes build]. rewrite Hbn'. auto.
  - cbn [g_nodes build]. rewrite Hbn'. reflexivity.
  - cbn [g_edges build]. rewrite G2, HE', <- HY, !app_length. cbn [length]. lia.
  - intros e Hin. apply Hchar. exact Hin.
  - intros e' Hin. exists e'. split; [apply Hchar; exact Hin | reflexivity].
  - intro e. split; reflexivity.
  - intros e _. apply edge_shape_refl.
  - cbn [g_edges build]. rewrite build_edges_with. apply key_unique_edges_with; reflexivity.
  - intros a b _ _. reflexivity.
  - rewrite G3. reflexivity.
Qed.

(* all transits gone: the dose is put on the compartment behind the chain (last part of refines_transits_remove_all) *)
Lemma remove_all_finish s g' :
  1 <= s_transits s ->
  g_nodes g' = st_nodes s 0 -> g_edges g' = build_edges (with_tr s 0) -> g_kmfix g' = g_kmfix (build s) ->
  geqb (relabel g' (plain (if s_depot s then NDepot else NCentral))
          (with_doses (plain (if s_depot s then NDepot else NCentral)) [the_dose s]))
       (build (with_biob (with_lagb (with_tr s 0) false) false)) = true.
Proof.
  intros H1 G1 G2 G3.
  set (tr := s_transits s) in *. set (dst := if s_depot s then NDepot else NCentral).
  set (R := names (with_tr s 0)).
  set (s0 := with_biob (with_lagb (with_tr s 0) false) false).
  assert (Hf1 : first_name s = NTransit 1) by (unfold first_name; fold tr; destruct tr; [lia|reflexivity]).
  assert (HdR : In dst R).
  { unfold R, names, dst. cbn [with_tr s_transits seq map app]. change (s_depot (with_tr s 0)) with (s_depot s).
    destruct (s_depot s); left; reflexivity. }
  assert (HRs : forall x, In x R -> In x (names s)).
  { intros x Hx. unfold names. apply in_or_app. right. exact Hx. }
  assert (HRt : forall x j, In x R -> x <> NTransit j).
  { intros x j Hx. exact (names_no_transit (with_tr s 0) x j eq_refl Hx). }
  assert (Hpl : forall x, In x R -> mk_node s x = plain x).
  { intros x Hx. unfold mk_node. rewrite Hf1, (name_eqb_neq _ _ (HRt x 1 Hx)). reflexivity. }
  set (b := with_doses (plain dst) [the_dose s]).
  assert (G1' : g_nodes g' = map plain R).
  { rewrite G1. unfold st_nodes. cbn [seq map app]. apply map_ext_in. exact Hpl. }
  assert (U : uniq g').
  { unfold uniq. rewrite G1', map_map. cbn [plain n_name]. rewrite map_id. apply names_nodup. }
  assert (Ia : In (plain dst) (g_nodes g')) by (rewrite G1'; apply in_map; exact HdR).
  pose proof (relabel_in g' (plain dst) b U Ia eq_refl) as C.
  assert (Hmk0 : forall x, mk_node s0 x = if name_eqb x dst then mkNode x [the_dose s] false false else plain x).
  { intro x. reflexivity. }
  assert (Hb : b = mk_node s0 dst) by (rewrite Hmk0, name_eqb_refl; reflexivity).
  assert (Hbn0 : build_nodes s0 = map (mk_node s0) R) by (rewrite build_nodes_names; reflexivity).
  apply (geqb_perm_edges _ (build s0) (fun e => e)).
  - intros nd H. apply C in H. cbn [g_nodes build]. rewrite Hbn0. destruct H as [->|[H Hne]].
    + rewrite Hb. apply in_map. exact HdR.
    + rewrite G1' in H. apply in_map_iff in H. destruct H as [x [<- Hx]]. cbn [plain n_name] in Hne.
      replace (plain x) with (mk_node s0 x) by (rewrite Hmk0, (name_eqb_neq _ _ Hne); reflexivity). apply in_map. exact Hx.
  - intros nd H. apply C. cbn [g_nodes build] in H. rewrite Hbn0 in H. apply in_map_iff in H. destruct H as [x [<- Hx]].
    rewrite Hmk0. destruct (name_eqb x dst) eqn:E.
    + left. apply name_eqb_eq in E. subst x. reflexivity.
    + right. split; [rewrite G1'; apply in_map; exact Hx|]. cbn [plain n_name]. intro X. rewrite X, name_eqb_refl in E. discriminate.
  - rewrite relabel_length by (auto; reflexivity). cbn [g_nodes build]. rewrite G1', Hbn0, !map_length. reflexivity.
  - rewrite relabel_edges, G2. reflexivity.
  - intros e H. rewrite relabel_edges, G2 in H. exact H.
  - intros e' H. exists e'. split; [|reflexivity]. rewrite relabel_edges, G2. exact H.
  - intro e. split; reflexivity.
  - intros e _. apply edge_shape_refl.
  - cbn [g_edges build]. rewrite build_edges_with. apply key_unique_edges_with; reflexivity.
  - intros x y _ _. reflexivity.
  - rewrite relabel_kmfix, G3. reflexivity.
Qed.

Theorem refines_transits_nodepot_remove_all s :
  s_depot s = true -> 1 <= s_transits s -> refines (Transits 0 false) s = true.
Proof.
  intros Hd H1. unfold refines. rewrite (nodepot_step s 0 Hd H1) by lia.
  cbn [setter_graph]. rewrite (nodepot_head s 0 Hd H1).
  destruct (s_mat s && s_popmdt s); [reflexivity|].
  destruct (Nat.ltb_spec 0 (s_transits s)) as [_|]; [|lia]. cbn [Nat.eqb].
  unfold transits_tail. rewrite map_length, seq_length. cbv zeta.
  destruct (Nat.eqb_spec (s_transits s) 0); [lia|]. cbn [Nat.eqb andb].
  destruct (Nat.ltb_spec 0 (s_transits s)) as [_|]; [|lia].
  rewrite (find_last_removed s Hd H1). cbn [bind]. cbn [lastE e_dst].
  rewrite (dosing0_removed s H1), dosing0_build. cbn [opt_res bind]. rewrite fnode_doses. cbn [hd_error opt_res bind].
  rewrite Nat.sub_0_r.
  set (s1 := nodepot s) in *. set (tr := s_transits s) in *.
  set (dst := if s_depot s1 then NDepot else NCentral).
  assert (Hf1 : first_name s1 = NTransit 1) by (unfold first_name; change (s_transits s1) with tr; destruct tr; [lia|reflexivity]).
  assert (Hdn : In dst (names s1)).
  { unfold names, dst. apply in_or_app. right. destruct (s_depot s1); left; reflexivity. }
  change (find_node (depot_removed s) dst) with (find_node (build s1) dst).
  rewrite (find_node_build s1 dst Hdn).
  assert (Hpl : mk_node s1 dst = plain dst).
  { unfold mk_node. rewrite Hf1. unfold dst. destruct (s_depot s1); reflexivity. }
  rewrite Hpl. cbn [opt_res bind]. unfold set_dose. cbn [fst].
  destruct (remove_transits_all_g s1 (depot_removed s) (removed_Hp s) (removed_Hp1 s H1) (get_edge_removed s) tr tr (depot_removed s)
              (build_edges (with_tr s1 0)) [])
    with (g' := remove_transits tr (depot_removed s) (depot_removed s) (NTransit tr) dst)
    as [G1 [G2 G3]]; try reflexivity; try lia.
  { unfold depot_removed. cbn [g_nodes]. symmetry. apply (st_nodes_build s1). }
  { apply app_nil_r. }
  exact (remove_all_finish s1 _ H1 G1 G2 G3).
Qed.
