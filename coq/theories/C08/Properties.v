(* PV.C08.Properties — the property theorems of C08 and nothing else.
   Vocabulary (Model.v): a skeleton s : sk is a structural state (absorption INST/FO/ZO/SEQ, number of
   transits, number of peripherals, elimination FO/ZO/MM/MIX, lag time; plus four facts of the
   statement layer that the setters look at: MAT assigned, POP_MDT exists, peripheral rates are bare K
   symbols, elimination rate is a quotient); build s is its compartmental system; detect g is what
   the real detectors (has_*_absorption, has_*_elimination, get_number_of_*, find_depot, has_lag_time)
   answer on a system g; canon s is that answer written as a function of s — the documented feature
   interactions; setter_graph f g is the graph part of the real setter for request f run on g;
   step f s is its closed form on skeletons; guard f s excludes the (request, state) pairs on
   which the CODE fails (one conjunct per known finding, see Refuted.v). *)
From Coq Require Import List Bool Arith.
From PV Require Import Base.PyData C08.Model C08.ProofsGraph C08.ProofsStep C08.ProofsStep2 C08.ProofsDomain C08.Proofs C08.ProofsRefine C08.ProofsDecimal C08.ProofsRefine2 C08.ProofsRefine3 C08.ProofsRefine4 C08.ProofsRefine5 C08.ProofsRefine6 C08.ProofsRefine14 C08.ProofsRefineAll.

(* The detectors are exact on every skeleton graph: for ANY number of transit and peripheral
   compartments, any absorption/elimination/lag combination (no validity hypothesis needed), each
   detector reports the canonical reading: a transit chain without depot reads as first-order
   absorption, an infusion into a chain or depot as sequential ZO-FO, one transit directly in front
   of central is not a transit but the depot; elimination, peripheral count and lag read exactly. *)
Theorem detect_build : forall s : sk, detect (build s) = canon s.
Proof. exact detect_build_lemma. Qed.

(* The property on skeletons, all counts: from a valid state, a guarded request either yields a
   valid state in which the requested feature is detected and the other categories are unchanged
   (up to the documented interactions listed at others_unchanged), or is refused with the
   documented refusal — never an internal error, never a system outside the search space. *)
Theorem feature_request_sound_on_skeletons :
  forall (f : req) (s : sk), valid s = true -> guard f s = true ->
    match step f s with
    | SOk s' => valid s' = true /\ request_detected f s s' = true /\ others_unchanged f s s' = true
    | SRefuse => refusal_documented f s = true
    | SCrash _ | SAnom => False
    end.
Proof. exact step_ok_lemma. Qed.

(* Requesting the same feature again changes nothing (and is again a guarded request). *)
Theorem idempotent :
  forall (f : req) (s : sk), valid s = true -> guard f s = true -> is_incr f = false ->
    match step f s with SOk s' => guard f s' = true /\ step f s' = SOk s' | _ => True end.
Proof. exact step_idempotent_lemma. Qed.

(* Undoing a feature that the request really added restores exactly the state before. *)
Theorem undo :
  forall (f : req) (s : sk), valid s = true -> guard f s = true ->
    match undo_of f s, step f s with
    | Some f', SOk s' => guard f' s' = true -> step f' s' = SOk s
    | _, _ => True
    end.
Proof. exact step_undo_lemma. Qed.

(* The refusal set is exactly the documented one: one transit compartment in front of an
   instantaneous-absorption model without transits (after the depot has been dropped for keep_depot=False). *)
Theorem refusal_documented_exact :
  forall (f : req) (s : sk), valid s = true -> guard f s = true ->
    (step f s = SRefuse <-> refusal_documented f s = true).
Proof. exact refusal_exact_lemma. Qed.

(* Full strength, for every skeleton: IF the graph part of the setter agrees with the closed form
   on build s (refines f s, an executable check), THEN on the real-shaped graph the request is
   total, lands (up to node order and rate renaming) on the graph of a valid skeleton on which
   the detectors read the requested feature, with the other categories unchanged, or is the
   documented refusal. *)
Theorem feature_request_sound :
  forall (f : req) (s : sk), refines f s = true -> valid s = true -> guard f s = true ->
    match setter_graph f (build s) with
    | Ok g' => exists s', geqb g' (build s') = true /\ valid s' = true /\ detect (build s') = canon s'
                          /\ request_detected f s s' = true /\ others_unchanged f s s' = true
    | Refuse => refusal_documented f s = true
    | Crash _ => False
    end.
Proof. exact refines_sound. Qed.

(* setter_refines, PARTIAL: the hypothesis of the previous theorem is discharged by evaluation for
   every skeleton with at most 5 transits and 3 peripherals (all absorption / elimination / lag
   combinations) and every request with transit count <= 6, peripheral count <= 4.  The four
   environment flags are enumerated for the requests that read them (MAT / POP_MDT for
   keep_depot=False, K-rates / quotient elimination for the removal of peripherals) and are at a
   fixed value otherwise (env_default).
   Missing for full strength: the induction over the counts for the graph part of the setters,
   and the (obvious but unproved) irrelevance of the flags a request does not read. *)
Theorem setter_refines_partial :
  forall (s : sk) (f : req),
    s_transits s <= 5 -> s_periph s <= 3 -> req_bounded 6 4 f -> env_default f s = true -> refines f s = true.
Proof. exact setter_refines_bounded. Qed.

Theorem feature_request_sound_partial :
  forall (f : req) (s : sk),
    s_transits s <= 5 -> s_periph s <= 3 -> req_bounded 6 4 f -> env_default f s = true ->
    valid s = true -> guard f s = true -> sound_on_graph f s.
Proof.
  intros f s Ht Hp Hf He Hv Hg. apply refines_sound; [apply setter_refines_bounded|..]; assumption.
Qed.

(* setter_refines, ALL transit and peripheral counts — no bound, no vm_compute, neither validity nor
   guard needed: the graph part of the setter, run on build s, does exactly what the closed form
   says (result equivalent to build (step f s) up to node order and rate renaming, or the same
   refusal / crash kind), for EVERY skeleton s and
   - the four elimination setters, add/remove_lag_time, add/remove_bioavailability,
     add_peripheral_compartment, remove_peripheral_compartment (all states);
   - set_peripheral_compartments(n) for every n <= current count + 1 (any number of removals, or
     one addition) — uses `periph_order`: Python's (len(name), name) order on PERIPHERAL<k> is
     the numeric order, i.e. the decimal rendering of naturals is monotone for (length, lexicographic);
   - the four absorption setters on the states listed by abs_proved — every valid state on which the
     guard holds EXCEPT set_seq_zo_fo_absorption from instantaneous absorption without transits
     (its second pass runs on the output of set_first_order_absorption, known only up to the
     equivalence).  Includes the two-pass cases where the Python runs its detectors on an
     intermediate system (depot removed; dose moved to CENTRAL) — lemmas FG_central, FG_dosing0 on
     systems whose dosing compartment was relabelled and moved in the node order — and
     set_instantaneous_absorption with a depot behind ANY number of transits (depot_removed_spec,
     refines_inst_depot_chain: chain reconnected to central, infusion on TRANSIT1 turned into a bolus);
   - set_transit_compartments(n, keep_depot) on every valid state when the depot stays
     (keep_depot=True, or there is no depot), for every n and every current count (transits_proved):
     count already there (only the lag time goes), the documented refusal, the `while n > 0` loop
     creating a chain in front of the dosing compartment (dose, bioavailability moved to TRANSIT1),
     the `while nadd > 0` loop, the `while nremove > 0` loop down to n >= 1 and down to 0 (dose
     to the compartment behind the chain) — each by induction on the loop count; and
     keep_depot=False on a depot for every n: WITHOUT transits (dose to central, depot removed, chain
     created in front of central: create_on_FG, the creation loop on a system whose dosing compartment
     was relabelled) and BEHIND a chain (last transit connected to central, depot removed:
     depot_removed_spec; then the same / addition / removal loops run on that system, which is
     build (nodepot s) with one edge moved — the loop lemmas are generalised to it: add_tail,
     remove_transits_spec_g, detectors through has_edge_removed).  Round 4: creating a chain while
     a lag time is set and the depot stays (outside the guard; finding C08-TRANSIT-STALE-LAG) is
     refined too — the closed form says SAnom and the setter's result is the build of NO skeleton
     (refines_transits_create_lag), so refines_proved (Transits n keep) s is just `valid s`.
   Not covered here (setter_refines_partial remains their link): the absorption case above,
   set_peripheral_compartments adding two or more. *)
Theorem setter_refines :
  forall (f : req) (s : sk), refines_proved f s = true -> refines f s = true.
Proof. exact setter_refines_lemma. Qed.

(* set_transit_compartments(n, keep_depot), graph part, agrees with the closed form on EVERY valid
   skeleton: every n, both keep_depot values, every transit / peripheral count, every flag — no
   guard, no bound, no evaluation.  (valid only excludes the single transit without depot, which
   find_transit_compartments reads as the depot.) *)
Theorem transit_setter_refines_every_valid_state :
  forall (n : nat) (keep : bool) (s : sk), valid s = true -> refines (Transits n keep) s = true.
Proof. exact transits_refines. Qed.

(* the stale lag time (open finding C08-TRANSIT-STALE-LAG) for every count: a chain of n transits
   created in front of a dosing compartment that has a lag time (depot kept, or none) — the setter
   succeeds, the lag time stays on the old dosing compartment, which has no dose any more, and the
   resulting system is the build of no skeleton at all *)
Theorem stale_lag_result_is_no_skeleton :
  forall (s : sk) (n : nat) (keep : bool),
    s_transits s = 0 -> s_lag s = true -> (keep = true \/ s_depot s = false) ->
    1 <= n -> (n <> 1 \/ s_abs s <> INST) ->
    step (Transits n keep) s = SAnom
    /\ exists g', setter_graph (Transits n keep) (build s) = Ok g' /\ recognize g' = None.
Proof. exact stale_lag_anomaly. Qed.

(* the (len(name), name) order of find_peripheral_compartments is the numbering order, for all k *)
Theorem peripheral_order_is_numeric :
  forall i j : nat, i <= j -> name_len_leb (NPeriph i) (NPeriph j) = true.
Proof. exact periph_order. Qed.

(* ... hence for these (request, state) pairs feature_request_sound holds with no `refines`
   hypothesis and no bound *)
Theorem feature_request_sound_all_counts :
  forall (f : req) (s : sk), refines_proved f s = true ->
    valid s = true -> guard f s = true -> sound_on_graph f s.
Proof. exact sound_all_counts_lemma. Qed.

(* Coverage of setter_refines: on valid states within the guard, every request of all sixteen forms
   has the all-counts refinement, except the two residual classes named by open_case
   (set_seq_zo_fo_absorption from instantaneous absorption without transits;
   set_peripheral_compartments adding two or more).  The other fourteen request forms —
   including set_transit_compartments with either keep_depot — are covered completely. *)
Theorem setter_refines_coverage :
  forall (f : req) (s : sk), valid s = true -> guard f s = true -> open_case f s = false ->
    refines_proved f s = true.
Proof. exact covered_proved. Qed.

(* feature_request_sound with no `refines` hypothesis, no bound on the transit / peripheral counts
   and no evaluation: all sixteen request forms, every valid state within the guard, outside open_case *)
Theorem feature_request_sound_unbounded :
  forall (f : req) (s : sk), valid s = true -> guard f s = true -> open_case f s = false ->
    sound_on_graph f s.
Proof. exact sound_covered_lemma. Qed.
