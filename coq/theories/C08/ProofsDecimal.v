(* PV.C08.ProofsDecimal — Python's (len(name), name) order on PERIPHERAL<k> is the numeric order:
   the decimal rendering of naturals is monotone for (length, lexicographic). *)
From Coq Require Import List Bool Arith NArith Lia Decimal.
From PV Require Import Base.PyData C08.Model.
Import ListNotations.
Local Open Scope nat_scope.

Lemma lex_leb_refl a : lex_leb a a = true.
Proof. induction a as [|x a IH]; [reflexivity|]. cbn. rewrite N.ltb_irrefl. exact IH. Qed.

Lemma lex_leb_prefix p a b : lex_leb (p ++ a) (p ++ b) = lex_leb a b.
Proof. induction p as [|x p IH]; [reflexivity|]. cbn. rewrite N.ltb_irrefl. exact IH. Qed.

Lemma ltb_both_false x y : N.ltb x y = false -> N.ltb y x = false -> x = y.
Proof. intros H1 H2. apply N.ltb_ge in H1. apply N.ltb_ge in H2. apply N.le_antisymm; assumption. Qed.

Lemma lex_leb_extend a : forall b x y,
  length a = length b -> lex_leb a b = true -> a <> b -> lex_leb (a ++ x) (b ++ y) = true.
Proof.
  induction a as [|u a IH]; intros b x y Hl Hle Hne; destruct b as [|v b]; try discriminate.
  - contradiction.
  - cbn in *. destruct (N.ltb u v) eqn:E1; [reflexivity|]. destruct (N.ltb v u) eqn:E2; [discriminate|].
    pose proof (ltb_both_false u v E1 E2). subst v.
    apply IH; [lia | exact Hle | intro; subst; contradiction].
Qed.

Lemma lex_leb_antisym a : forall b, length a = length b -> lex_leb a b = true -> lex_leb b a = true -> a = b.
Proof.
  induction a as [|u a IH]; intros b Hl H1 H2; destruct b as [|v b]; try discriminate; [reflexivity|].
  cbn in *. destruct (N.ltb u v) eqn:E1; destruct (N.ltb v u) eqn:E2; try discriminate.
  - apply N.ltb_lt in E1. apply N.ltb_lt in E2. lia.
  - pose proof (ltb_both_false u v E1 E2). subst v. f_equal. apply IH; auto.
Qed.

Lemma lex_leb_trans a : forall b c, length a = length b -> length b = length c ->
  lex_leb a b = true -> lex_leb b c = true -> lex_leb a c = true.
Proof.
  induction a as [|u a IH]; intros b c L1 L2 H1 H2; destruct b as [|v b]; destruct c as [|w c]; try discriminate; [reflexivity|].
  cbn in *.
  destruct (N.ltb u v) eqn:E1.
  - apply N.ltb_lt in E1. destruct (N.ltb v w) eqn:E3.
    + apply N.ltb_lt in E3. assert (E : N.ltb u w = true) by (apply N.ltb_lt; lia). rewrite E. reflexivity.
    + destruct (N.ltb w v) eqn:E4; [discriminate|]. pose proof (ltb_both_false v w E3 E4). subst w.
      assert (E : N.ltb u v = true) by (apply N.ltb_lt; lia). rewrite E. reflexivity.
  - destruct (N.ltb v u) eqn:E2; [discriminate|]. pose proof (ltb_both_false u v E1 E2). subst v.
    destruct (N.ltb u w) eqn:E3; [reflexivity|]. destruct (N.ltb w u) eqn:E4; [discriminate|].
    apply (IH b c); auto; lia.
Qed.

(* strictly smaller in the (length, lexicographic) order *)
Definition sord (a b : list N) : Prop :=
  length a < length b \/ (length a = length b /\ lex_leb a b = true /\ a <> b).

Lemma sord_trans a b c : sord a b -> sord b c -> sord a c.
Proof.
  intros [H1|[L1 [E1 N1]]] [H2|[L2 [E2 N2]]]; try (left; lia).
  right. split; [lia|]. split; [apply (lex_leb_trans a b c); auto|].
  intro; subst c. apply N1. apply lex_leb_antisym; auto.
Qed.

Lemma uint_codes_revapp d : forall acc, uint_codes (revapp d acc) = List.rev (uint_codes d) ++ uint_codes acc.
Proof.
  induction d; intro acc; cbn [revapp uint_codes List.rev]; try reflexivity;
    rewrite IHd; cbn [uint_codes]; rewrite <- app_assoc; reflexivity.
Qed.

Lemma sord_snoc t c c' : N.ltb c c' = true -> sord (t ++ [c]) (t ++ [c']).
Proof.
  intro H. right. split; [rewrite !app_length; reflexivity|]. split.
  - rewrite lex_leb_prefix. cbn. rewrite H. reflexivity.
  - intro E. apply app_inv_head in E. injection E as ->. rewrite N.ltb_irrefl in H. discriminate.
Qed.

Lemma succ_step d : sord (List.rev (uint_codes d)) (List.rev (uint_codes (Little.succ d))).
Proof.
  induction d; cbn [Little.succ uint_codes List.rev]; try (apply sord_snoc; reflexivity).
  - left. cbn. lia.
  - destruct IHd as [H|[L [E Ne]]].
    + left. rewrite !app_length. cbn. lia.
    + right. split; [rewrite !app_length; cbn; lia|]. split.
      * apply lex_leb_extend; assumption.
      * intro Eq. apply app_inj_tail in Eq. destruct Eq as [_ Eq]. discriminate.
Qed.

Lemma to_little_succ n : forall acc, Nat.to_little_uint n (Little.succ acc) = Little.succ (Nat.to_little_uint n acc).
Proof. induction n as [|n IH]; intro acc; cbn; [reflexivity|]. rewrite IH. reflexivity. Qed.

Lemma nat_codes_eq n : nat_codes n = List.rev (uint_codes (Nat.to_little_uint n zero)).
Proof. unfold nat_codes, Nat.to_uint, Decimal.rev. rewrite uint_codes_revapp. cbn. apply app_nil_r. Qed.

Lemma nat_codes_step n : sord (nat_codes n) (nat_codes (S n)).
Proof.
  rewrite !nat_codes_eq. cbn [Nat.to_little_uint]. rewrite to_little_succ. apply succ_step.
Qed.

Lemma nat_codes_mono i j : i < j -> sord (nat_codes i) (nat_codes j).
Proof.
  intro H. induction j as [|j IH]; [lia|].
  destruct (Nat.eq_dec i j) as [->|N]; [apply nat_codes_step|].
  apply (sord_trans _ (nat_codes j)); [apply IH; lia | apply nat_codes_step].
Qed.

Theorem periph_order i j : i <= j -> name_len_leb (NPeriph i) (NPeriph j) = true.
Proof.
  intro H. unfold name_len_leb. cbn [name_str]. rewrite !app_length.
  destruct (Nat.eq_dec i j) as [->|N].
  - rewrite Nat.ltb_irrefl. apply lex_leb_refl.
  - destruct (nat_codes_mono i j) as [L|[L [E _]]]; [lia| |].
    + assert (A : (length s_PERIPHERAL + length (nat_codes i) <? length s_PERIPHERAL + length (nat_codes j)) = true)
        by (apply Nat.ltb_lt; lia).
      rewrite A. reflexivity.
    + rewrite L, Nat.ltb_irrefl, lex_leb_prefix. exact E.
Qed.
