(* PV.C08.ProofsRefine13 — set_instantaneous_absorption on a depot behind a chain: the last transit is
   connected to central, the depot removed; a zero-order dose on TRANSIT1 becomes a bolus. *)
From Coq Require Import List Bool Arith NArith Lia.
From PV Require Import Base.PyData C08.Model C08.ProofsGraph C08.ProofsRefine C08.ProofsDecimal C08.ProofsRefine2
  C08.ProofsRefine3 C08.ProofsRefine4 C08.ProofsRefine5 C08.ProofsRefine6 C08.ProofsRefine7 C08.ProofsRefine8
  C08.ProofsRefine9 C08.ProofsRefine10 C08.ProofsRefine12.
Import ListNotations.
Local Open Scope nat_scope.

Theorem refines_inst_depot_chain s :
  s_depot s = true -> 1 <= s_transits s -> refines AbsInst s = true.
Proof.
  intros Hd H1. unfold refines.
  assert (Hstep : step AbsInst s = SOk (with_abs s INST)).
  { cbn [step]. unfold s_depot in Hd. destruct (s_abs s); try discriminate Hd; destruct (s_transits s); try lia; reflexivity. }
  rewrite Hstep. cbn [setter_graph].
  assert (Hf1 : first_name s = NTransit 1) by (unfold first_name; destruct (s_transits s); [lia|reflexivity]).
  assert (Dn : mk_node s NDepot = plain NDepot) by (unfold mk_node; rewrite Hf1; reflexivity).
  assert (Cn : cnode s = plain NCentral) by (unfold cnode, mk_node; rewrite Hf1; reflexivity).
  unfold set_instantaneous_absorption. rewrite dosing0_build. cbn [opt_res bind]. rewrite inst_build, Hd. cbn [negb andb].
  rewrite find_depot_build. unfold canon_depot. rewrite Hd. cbn [bind]. rewrite Dn. cbn [plain n_name n_doses].
  rewrite out_edges_depot by exact Hd. cbn [hd_error opt_res bind dedge e_dst].
  rewrite (find_node_build s NCentral (central_in_names s)). cbn [opt_res bind]. fold (cnode s). rewrite Cn.
  cbv beta iota zeta. rewrite preds_depot, Hd.
  destruct (Nat.eqb_spec (s_transits s) 0); [lia|]. cbn [negb andb fold_left]. unfold tnode. rewrite n_name_mk_node.
  assert (Hge : get_edge (build s) (NTransit (s_transits s)) NDepot = Some (tedge s (s_transits s))).
  { rewrite tedge_last. unfold get_edge.
    replace NDepot with (e_dst (lastE s (s_transits s))) by (unfold lastE; cbn [e_dst]; rewrite Hd; reflexivity).
    change (NTransit (s_transits s)) with (e_src (lastE s (s_transits s))).
    apply get_edge_unique.
    - cbn [g_edges build]. rewrite build_edges_with. apply key_unique_edges_with; reflexivity.
    - cbn [g_edges build]. rewrite (build_edges_split s H1). apply in_or_app. right. left. reflexivity. }
  rewrite Hge. cbn [plain n_name]. rewrite (depot_removed_spec s Hd H1).
  set (s1 := nodepot s). set (s' := with_abs s INST).
  assert (Hzo : has_zero_order_absorption (depot_removed s) = s_zo s).
  { unfold has_zero_order_absorption, first_dose. rewrite (dosing0_removed s H1), dosing0_build, fnode_doses. cbn [hd_error].
    unfold the_dose. rewrite (nodepot_zo s Hd). destruct (s_zo s); reflexivity. }
  rewrite Hzo.
  assert (E1 : names s' = names s1).
  { unfold names, s', s1, nodepot, s_depot in *. cbn [with_abs s_abs s_transits s_periph]. destruct (s_abs s); try discriminate Hd; reflexivity. }
  assert (E4 : build_edges s' = build_edges s1).
  { unfold build_edges, chain_next, s', s1, nodepot, s_depot in *. cbn [with_abs s_abs s_transits s_periph s_elim].
    destruct (s_abs s); try discriminate Hd; reflexivity. }
  assert (Hf' : first_name s' = NTransit 1) by (unfold first_name, s'; cbn [with_abs s_transits]; destruct (s_transits s); [lia|reflexivity]).
  assert (Hf1' : first_name s1 = NTransit 1) by (unfold first_name, s1, nodepot; cbn [s_transits]; destruct (s_transits s); [lia|reflexivity]).
  destruct (s_zo s) eqn:Ez.
  - (* sequential: the infusion into TRANSIT1 becomes a bolus *)
    rewrite (dosing0_removed s H1), dosing0_build. cbn [opt_res bind].
    unfold sorted_doses. rewrite fnode_doses. cbn [length Nat.leb hd_error opt_res bind]. unfold set_dose. cbn [fst].
    set (b := with_doses (fnode s1) [bolus 1]).
    assert (U : uniq (depot_removed s)) by (unfold uniq, depot_removed; cbn [g_nodes]; apply (uniq_build s1)).
    assert (Ia : In (fnode s1) (g_nodes (depot_removed s))).
    { unfold depot_removed. cbn [g_nodes]. fold s1. rewrite build_nodes_names. unfold fnode. apply in_map. apply first_in_names. }
    pose proof (relabel_in (depot_removed s) (fnode s1) b U Ia eq_refl) as C.
    assert (Hb : b = mk_node s' (NTransit 1)).
    { unfold b, fnode, mk_node. rewrite Hf', Hf1', !name_eqb_refl. unfold with_doses. cbn [n_name n_doses n_lag n_bio]. reflexivity. }
    assert (Hoth : forall x, x <> NTransit 1 -> mk_node s' x = mk_node s1 x).
    { intros x Hx. unfold mk_node. rewrite Hf', Hf1', (name_eqb_neq _ _ Hx). reflexivity. }
    assert (Hchar : forall e, In e (g_edges (depot_removed s)) <-> In e (build_edges s')).
    { intro e. rewrite E4. apply removed_edges_char. exact H1. }
    apply (geqb_perm_edges _ (build s') (fun e => e)).
    + intros nd H. apply C in H. cbn [g_nodes build]. rewrite build_nodes_names, E1. destruct H as [->|[H Hne]].
      * rewrite Hb. apply in_map. rewrite <- Hf1'. apply first_in_names.
      * unfold depot_removed in H. cbn [g_nodes] in H. fold s1 in H. rewrite build_nodes_names in H. apply in_map_iff in H.
        destruct H as [x [<- Hx]]. rewrite n_name_mk_node in Hne. rewrite n_name_fnode, Hf1' in Hne.
        rewrite <- (Hoth x Hne). apply in_map. exact Hx.
    + intros nd H. apply C. cbn [g_nodes build] in H. rewrite build_nodes_names, E1 in H. apply in_map_iff in H.
      destruct H as [x [<- Hx]]. destruct (name_eqb x (NTransit 1)) eqn:Ex.
      * apply name_eqb_eq in Ex. subst x. left. symmetry. exact Hb.
      * assert (Nx : x <> NTransit 1) by (intro X; rewrite X, name_eqb_refl in Ex; discriminate).
        right. rewrite (Hoth x Nx). split.
        -- unfold depot_removed. cbn [g_nodes]. fold s1. rewrite build_nodes_names. apply in_map. exact Hx.
        -- rewrite n_name_mk_node, n_name_fnode, Hf1'. exact Nx.
    + rewrite relabel_length by assumption. cbn [g_nodes build depot_removed]. fold s1. rewrite !build_nodes_names, E1, !map_length. reflexivity.
    + rewrite relabel_edges. cbn [g_edges build]. rewrite E4, (build_edges_split s1 H1). unfold depot_removed. cbn [g_edges]. fold s1.
      rewrite !app_length. cbn [length]. change (s_transits s1) with (s_transits s). lia.
    + intros e H. rewrite relabel_edges in H. apply Hchar. exact H.
    + intros e' H. exists e'. split; [rewrite relabel_edges; apply Hchar; exact H | reflexivity].
    + intro e. split; reflexivity.
    + intros e _. apply edge_shape_refl.
    + cbn [g_edges build]. rewrite build_edges_with. apply key_unique_edges_with; reflexivity.
    + intros x y _ _. reflexivity.
    + rewrite relabel_kmfix. reflexivity.
  - (* first order: nothing else to do *)
    replace s' with s1; [apply depot_removed_geqb; assumption|].
    unfold s1, s', nodepot, with_abs, s_zo, s_depot in *. destruct (s_abs s); try discriminate Hd; try discriminate Ez; reflexivity.
Qed.
