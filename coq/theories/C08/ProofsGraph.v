(* PV.C08.ProofsGraph — the detectors on the graph of a skeleton, for every transit / peripheral count. *)
From Coq Require Import List Bool Arith NArith Lia.
From PV Require Import Base.PyData C08.Model.
Import ListNotations.
Local Open Scope nat_scope.

(* ------------------------------------------------------------------ names *)
Lemma codes_eqb_refl c : codes_eqb c c = true.
Proof. unfold codes_eqb. induction c as [|x c IH]; cbn; [reflexivity|]. rewrite N.eqb_refl, IH. reflexivity. Qed.

Lemma name_eqb_refl x : name_eqb x x = true.
Proof. destruct x; cbn; auto using Nat.eqb_refl, codes_eqb_refl. Qed.

Lemma codes_eqb_eq a b : codes_eqb a b = true -> a = b.
Proof.
  unfold codes_eqb. revert b. induction a as [|x a IH]; destruct b as [|y b]; cbn; try discriminate; auto.
  intro H. apply andb_true_iff in H. destruct H as [H1 H2]. apply N.eqb_eq in H1. subst. f_equal. auto.
Qed.

Lemma name_eqb_eq a b : name_eqb a b = true -> a = b.
Proof.
  destruct a, b; cbn; try discriminate; auto; intro H.
  - apply Nat.eqb_eq in H. subst. reflexivity.
  - apply Nat.eqb_eq in H. subst. reflexivity.
  - apply codes_eqb_eq in H. subst. reflexivity.
Qed.

Lemma name_eqb_neq a b : a <> b -> name_eqb a b = false.
Proof. intro H. destruct (name_eqb a b) eqn:E; [apply name_eqb_eq in E; contradiction | reflexivity]. Qed.

Lemma name_eqb_sym a b : name_eqb a b = name_eqb b a.
Proof.
  destruct (name_eqb a b) eqn:E.
  - apply name_eqb_eq in E. subst. symmetry. apply name_eqb_refl.
  - destruct (name_eqb b a) eqn:E2; [|reflexivity]. apply name_eqb_eq in E2. subst. rewrite name_eqb_refl in E. discriminate.
Qed.

(* ------------------------------------------------------------------ filter over map-seq *)
Lemma filter_map_seq_none {A} (f : nat -> A) (P : A -> bool) len : forall a,
  (forall k, a <= k < a + len -> P (f k) = false) -> filter P (map f (seq a len)) = [].
Proof.
  induction len as [|len IH]; intros a H; cbn; [reflexivity|].
  rewrite (H a) by lia. apply IH. intros k Hk. apply H. lia.
Qed.

Lemma filter_map_seq_all {A} (f : nat -> A) (P : A -> bool) len : forall a,
  (forall k, a <= k < a + len -> P (f k) = true) -> filter P (map f (seq a len)) = map f (seq a len).
Proof.
  induction len as [|len IH]; intros a H; cbn; [reflexivity|].
  rewrite (H a) by lia. f_equal. apply IH. intros k Hk. apply H. lia.
Qed.

Lemma filter_map_seq_one {A} (f : nat -> A) (P : A -> bool) len : forall a j,
  a <= j < a + len ->
  (forall k, a <= k < a + len -> P (f k) = Nat.eqb k j) -> filter P (map f (seq a len)) = [f j].
Proof.
  induction len as [|len IH]; intros a j Hj H; [lia|]. cbn.
  rewrite (H a) by lia. destruct (Nat.eqb_spec a j) as [E|E].
  - subst. f_equal. apply filter_map_seq_none. intros k Hk. rewrite H by lia. apply Nat.eqb_neq. lia.
  - apply IH; [lia|]. intros k Hk. apply H. lia.
Qed.

Lemma existsb_map_seq_false {A} (f : nat -> A) (P : A -> bool) len : forall a,
  (forall k, a <= k < a + len -> P (f k) = false) -> existsb P (map f (seq a len)) = false.
Proof.
  induction len as [|len IH]; intros a H; cbn; [reflexivity|].
  rewrite (H a) by lia. apply IH. intros k Hk. apply H. lia.
Qed.

Lemma existsb_map_seq_true {A} (f : nat -> A) (P : A -> bool) len a j :
  a <= j < a + len -> P (f j) = true -> existsb P (map f (seq a len)) = true.
Proof.
  intros Hj HP. apply existsb_exists. exists (f j). split; [|exact HP].
  apply in_map. apply in_seq. lia.
Qed.

(* ------------------------------------------------------------------ the graph of a skeleton *)
Section Build.
  Variable s : sk.
  Local Notation n := (s_transits s).
  Local Notation m := (s_periph s).

  Definition tnode (k : nat) : node := mk_node s (NTransit k).
  Definition tedge (k : nat) : edge := mkEdge (NTransit k) (chain_next s k) 2 false false.
  Definition pedge1 (j : nat) : edge := mkEdge NCentral (NPeriph j) (2 * j + 2) false false.
  Definition pedge2 (j : nat) : edge := mkEdge (NPeriph j) NCentral (2 * j + 3) false false.
  Definition eledge : edge :=
    mkEdge NCentral NOutput 3 (fst (fst (elim_flags (s_elim s)))) (snd (fst (elim_flags (s_elim s)))).
  Definition dedge : edge := mkEdge NDepot NCentral 1 false false.

  Lemma n_name_mk_node x : n_name (mk_node s x) = x.
  Proof. unfold mk_node. destruct (name_eqb x (first_name s)); reflexivity. Qed.

  Lemma chain_next_cases k :
    (k < n /\ chain_next s k = NTransit (S k)) \/
    (n <= k /\ s_depot s = true /\ chain_next s k = NDepot) \/
    (n <= k /\ s_depot s = false /\ chain_next s k = NCentral).
  Proof.
    unfold chain_next. destruct (Nat.ltb_spec k n); [left; auto|].
    destruct (s_depot s); [right; left | right; right]; auto.
  Qed.

  (* ---- has_edge on build s ---- *)
  Definition edge_spec (u v : name) : bool :=
    match u, v with
    | NTransit k, _ => (1 <=? k) && (k <=? n) && name_eqb v (chain_next s k)
    | NDepot, NCentral => s_depot s
    | NCentral, NOutput => true
    | NCentral, NPeriph j => (1 <=? j) && (j <=? m)
    | NPeriph j, NCentral => (1 <=? j) && (j <=? m)
    | _, _ => false
    end.

  Lemma has_edge_app g1 l1 l2 u v (H : g_edges g1 = l1 ++ l2) :
    has_edge g1 u v = existsb (is_edge u v) l1 || existsb (is_edge u v) l2.
  Proof. unfold has_edge. rewrite H. apply existsb_app. Qed.

  Lemma has_edge_build u v : has_edge (build s) u v = edge_spec u v.
  Proof.
    unfold has_edge, build, build_edges. cbn [g_edges].
    rewrite !existsb_app.
    change (map (fun k => mkEdge (NTransit k) (chain_next s k) 2 false false) (seq 1 n)) with (map tedge (seq 1 n)).
    change (map (fun j => mkEdge NCentral (NPeriph j) (2 * j + 2) false false) (seq 1 m)) with (map pedge1 (seq 1 m)).
    change (map (fun j => mkEdge (NPeriph j) NCentral (2 * j + 3) false false) (seq 1 m)) with (map pedge2 (seq 1 m)).
    destruct u as [| | |k|j|c].
    - (* NOutput *)
      rewrite !existsb_map_seq_false by (intros; reflexivity).
      destruct (s_depot s); reflexivity.
    - (* NCentral *)
      rewrite (existsb_map_seq_false tedge) by (intros; reflexivity).
      rewrite (existsb_map_seq_false pedge2) by (intros; reflexivity).
      assert (Hd : existsb (is_edge NCentral v) (if s_depot s then [mkEdge NDepot NCentral 1 false false] else []) = false)
        by (destruct (s_depot s); reflexivity).
      rewrite Hd. cbn [orb].
      destruct v as [| | |k|j|c]; cbn [edge_spec existsb is_edge e_src e_dst name_eqb andb orb];
        rewrite ?orb_false_r; try reflexivity;
        try (rewrite existsb_map_seq_false by (intros; reflexivity); reflexivity).
      destruct ((1 <=? j) && (j <=? m)) eqn:E.
      + apply andb_true_iff in E. destruct E as [E1 E2]. apply Nat.leb_le in E1, E2.
        apply (existsb_map_seq_true pedge1 _ m 1 j); [lia|]. cbn. apply Nat.eqb_refl.
      + apply existsb_map_seq_false. intros k Hk. cbn.
        apply Nat.eqb_neq. intro; subst.
        assert ((1 <=? j) && (j <=? m) = true) by (apply andb_true_iff; split; apply Nat.leb_le; lia). congruence.
    - (* NDepot *)
      rewrite !existsb_map_seq_false by (intros; reflexivity).
      unfold edge_spec. destruct (s_depot s); destruct v; reflexivity.
    - (* NTransit k *)
      rewrite (existsb_map_seq_false pedge1) by (intros; reflexivity).
      rewrite (existsb_map_seq_false pedge2) by (intros; reflexivity).
      assert (Hd : existsb (is_edge (NTransit k) v) (if s_depot s then [mkEdge NDepot NCentral 1 false false] else []) = false)
        by (destruct (s_depot s); reflexivity).
      rewrite Hd. cbn [existsb is_edge e_src e_dst name_eqb andb orb]. rewrite !orb_false_r.
      cbn [edge_spec].
      destruct ((1 <=? k) && (k <=? n)) eqn:E.
      + apply andb_true_iff in E. destruct E as [E1 E2]. apply Nat.leb_le in E1, E2. cbn [andb].
        destruct (name_eqb v (chain_next s k)) eqn:Ev.
        * apply (existsb_map_seq_true tedge _ n 1 k); [lia|].
          unfold is_edge, tedge; cbn [e_src e_dst name_eqb]. rewrite Nat.eqb_refl. cbn [andb].
          rewrite name_eqb_sym. exact Ev.
        * apply existsb_map_seq_false. intros k' Hk'.
          unfold is_edge, tedge; cbn [e_src e_dst name_eqb].
          destruct (Nat.eqb_spec k' k); [subst; cbn [andb]; rewrite name_eqb_sym; exact Ev | reflexivity].
      + cbn [andb]. apply existsb_map_seq_false. intros k' Hk'.
        unfold is_edge, tedge; cbn [e_src e_dst name_eqb].
        destruct (Nat.eqb_spec k' k); [|reflexivity]. subst.
        assert ((1 <=? k) && (k <=? n) = true) by (apply andb_true_iff; split; apply Nat.leb_le; lia). congruence.
    - (* NPeriph j *)
      rewrite (existsb_map_seq_false tedge) by (intros; reflexivity).
      rewrite (existsb_map_seq_false pedge1) by (intros; reflexivity).
      assert (Hd : existsb (is_edge (NPeriph j) v) (if s_depot s then [mkEdge NDepot NCentral 1 false false] else []) = false)
        by (destruct (s_depot s); reflexivity).
      rewrite Hd. cbn [existsb is_edge e_src e_dst name_eqb andb orb].
      destruct ((1 <=? j) && (j <=? m)) eqn:E.
      + apply andb_true_iff in E. destruct E as [E1 E2]. apply Nat.leb_le in E1, E2.
        destruct v; cbn [edge_spec];
          try (apply existsb_map_seq_false; intros k' Hk; unfold is_edge, pedge2; cbn [e_src e_dst name_eqb];
               rewrite andb_false_r; reflexivity).
        assert ((1 <=? j) && (j <=? m) = true) as -> by (apply andb_true_iff; split; apply Nat.leb_le; lia).
        apply (existsb_map_seq_true pedge2 _ m 1 j); [lia|].
        unfold is_edge, pedge2; cbn [e_src e_dst name_eqb]. rewrite Nat.eqb_refl. reflexivity.
      + assert (Hf : existsb (is_edge (NPeriph j) v) (map pedge2 (seq 1 m)) = false).
        { apply existsb_map_seq_false. intros k Hk. unfold is_edge, pedge2; cbn [e_src e_dst name_eqb].
          destruct (Nat.eqb_spec k j); [|reflexivity]. subst.
          assert ((1 <=? j) && (j <=? m) = true) by (apply andb_true_iff; split; apply Nat.leb_le; lia). congruence. }
        rewrite Hf. destruct v; cbn [edge_spec]; try reflexivity. symmetry. exact E.
    - (* NOther *)
      rewrite !existsb_map_seq_false by (intros; reflexivity).
      destruct (s_depot s); reflexivity.
  Qed.

  (* ---- nodes ---- *)
  Definition pnode (j : nat) : node := plain (NPeriph j).
  Definition cnode : node := mk_node s NCentral.
  Definition dnode : node := mk_node s NDepot.

  Lemma build_nodes_eq :
    build_nodes s = map tnode (seq 1 n) ++ (if s_depot s then [dnode] else []) ++ [cnode] ++ map pnode (seq 1 m).
  Proof. reflexivity. Qed.

  Lemma build_edges_eq :
    build_edges s = map tedge (seq 1 n) ++ (if s_depot s then [dedge] else []) ++ [eledge]
                    ++ map pedge1 (seq 1 m) ++ map pedge2 (seq 1 m).
  Proof. reflexivity. Qed.

  Lemma filter_nodes (Q : name -> bool) :
    filter (fun nd => Q (n_name nd)) (build_nodes s) =
    filter (fun nd => Q (n_name nd)) (map tnode (seq 1 n))
    ++ (if s_depot s && Q NDepot then [dnode] else [])
    ++ (if Q NCentral then [cnode] else [])
    ++ filter (fun nd => Q (n_name nd)) (map pnode (seq 1 m)).
  Proof.
    rewrite build_nodes_eq, !filter_app. f_equal. f_equal; [|f_equal].
    - destruct (s_depot s); cbn [filter andb]; [|reflexivity].
      unfold dnode. rewrite n_name_mk_node. destruct (Q NDepot); reflexivity.
    - cbn [filter]. unfold cnode. rewrite n_name_mk_node. destruct (Q NCentral); reflexivity.
  Qed.

  Lemma preds_build x :
    preds (build s) x = filter (fun nd => edge_spec (n_name nd) x) (build_nodes s).
  Proof. unfold preds. cbn [g_nodes build]. apply filter_ext. intro nd. apply has_edge_build. Qed.

  Lemma tnodes_none (Q : name -> bool) :
    (forall k, 1 <= k <= n -> Q (NTransit k) = false) ->
    filter (fun nd => Q (n_name nd)) (map tnode (seq 1 n)) = [].
  Proof.
    intro H. apply filter_map_seq_none. intros k Hk. unfold tnode. rewrite n_name_mk_node. apply H. lia.
  Qed.
  Lemma pnodes_none (Q : name -> bool) :
    (forall j, 1 <= j <= m -> Q (NPeriph j) = false) ->
    filter (fun nd => Q (n_name nd)) (map pnode (seq 1 m)) = [].
  Proof. intro H. apply filter_map_seq_none. intros k Hk. cbn. apply H. lia. Qed.
  Lemma pnodes_all (Q : name -> bool) :
    (forall j, 1 <= j <= m -> Q (NPeriph j) = true) ->
    filter (fun nd => Q (n_name nd)) (map pnode (seq 1 m)) = map pnode (seq 1 m).
  Proof. intro H. apply filter_map_seq_all. intros k Hk. cbn. apply H. lia. Qed.
  Lemma tnodes_one (Q : name -> bool) j :
    1 <= j <= n -> (forall k, 1 <= k <= n -> Q (NTransit k) = Nat.eqb k j) ->
    filter (fun nd => Q (n_name nd)) (map tnode (seq 1 n)) = [tnode j].
  Proof.
    intros Hj H. apply filter_map_seq_one; [lia|]. intros k Hk. unfold tnode. rewrite n_name_mk_node. apply H. lia.
  Qed.

  Lemma chain_next_lt k : k < n -> chain_next s k = NTransit (S k).
  Proof. intro H. destruct (chain_next_cases k) as [[_ E]|[[H1 _]|[H1 _]]]; [exact E|lia|lia]. Qed.
  Lemma chain_next_last k : n <= k -> chain_next s k = if s_depot s then NDepot else NCentral.
  Proof.
    intro H. destruct (chain_next_cases k) as [[H1 _]|[[_ [E1 E2]]|[_ [E1 E2]]]]; [lia| |]; rewrite E1; exact E2.
  Qed.

  Lemma leb_and a b c : (a <=? b) && (b <=? c) = true <-> a <= b <= c.
  Proof. rewrite andb_true_iff, !Nat.leb_le. tauto. Qed.
  Lemma range_true k : 1 <= k <= n -> (1 <=? k) && (k <=? n) = true.
  Proof. intro H. apply leb_and. exact H. Qed.
  Lemma range_true_m j : 1 <= j <= m -> (1 <=? j) && (j <=? m) = true.
  Proof. intro H. apply leb_and. exact H. Qed.

  (* ---- predecessors ---- *)
  Lemma preds_output : preds (build s) NOutput = [cnode].
  Proof.
    rewrite preds_build, (filter_nodes (fun u => edge_spec u NOutput)).
    rewrite (tnodes_none (fun u => edge_spec u NOutput)), (pnodes_none (fun u => edge_spec u NOutput)); [| intros; reflexivity |].
    - cbn [edge_spec]. rewrite andb_false_r. reflexivity.
    - intros k Hk. cbn [edge_spec]. rewrite range_true by exact Hk. cbn [andb].
      destruct (chain_next_cases k) as [[_ E]|[[_ [_ E]]|[_ [_ E]]]]; rewrite E; reflexivity.
  Qed.

  Lemma preds_transit k : 2 <= k <= n -> preds (build s) (NTransit k) = [tnode (k - 1)].
  Proof.
    intro Hk. rewrite preds_build, (filter_nodes (fun u => edge_spec u (NTransit k))).
    cbn [edge_spec]. rewrite andb_false_r. rewrite (pnodes_none (fun u => edge_spec u (NTransit k))) by (intros; reflexivity).
    rewrite (tnodes_one (fun u => edge_spec u (NTransit k)) (k - 1)); [reflexivity | lia |].
    intros k' Hk'. cbn [edge_spec]. rewrite range_true by exact Hk'. cbn [andb].
    destruct (Nat.lt_ge_cases k' n) as [Hlt|Hge].
    - rewrite chain_next_lt by exact Hlt. cbn [name_eqb].
      destruct (Nat.eqb_spec k (S k')); destruct (Nat.eqb_spec k' (k - 1)); try reflexivity; lia.
    - rewrite chain_next_last by exact Hge.
      destruct (Nat.eqb_spec k' (k - 1)); [lia|]. destruct (s_depot s); reflexivity.
  Qed.

  Lemma preds_transit1 : preds (build s) (NTransit 1) = [].
  Proof.
    rewrite preds_build, (filter_nodes (fun u => edge_spec u (NTransit 1))).
    cbn [edge_spec]. rewrite andb_false_r. rewrite (pnodes_none (fun u => edge_spec u (NTransit 1))) by (intros; reflexivity).
    rewrite (tnodes_none (fun u => edge_spec u (NTransit 1))); [reflexivity|].
    intros k' Hk'. cbn [edge_spec]. rewrite range_true by exact Hk'. cbn [andb].
    destruct (Nat.lt_ge_cases k' n) as [Hlt|Hge].
    - rewrite chain_next_lt by exact Hlt. cbn [name_eqb]. apply Nat.eqb_neq. lia.
    - rewrite chain_next_last by exact Hge. destruct (s_depot s); reflexivity.
  Qed.

  Lemma preds_depot :
    preds (build s) NDepot = if s_depot s && negb (Nat.eqb n 0) then [tnode n] else [].
  Proof.
    rewrite preds_build, (filter_nodes (fun u => edge_spec u NDepot)).
    cbn [edge_spec]. rewrite andb_false_r. rewrite (pnodes_none (fun u => edge_spec u NDepot)) by (intros; reflexivity).
    rewrite !app_nil_r.
    destruct (s_depot s) eqn:Ed; cbn [andb].
    - destruct (Nat.eqb_spec n 0) as [E0|E0]; cbn [negb].
      + apply (tnodes_none (fun u => edge_spec u NDepot)). intros k Hk. lia.
      + apply (tnodes_one (fun u => edge_spec u NDepot)); [lia|]. intros k' Hk'. cbn [edge_spec]. rewrite range_true by exact Hk'. cbn [andb].
        destruct (Nat.lt_ge_cases k' n) as [Hlt|Hge].
        * rewrite chain_next_lt by exact Hlt. cbn [name_eqb]. symmetry. apply Nat.eqb_neq. lia.
        * rewrite chain_next_last by exact Hge. rewrite Ed. cbn [name_eqb]. symmetry. apply Nat.eqb_eq. lia.
    - apply (tnodes_none (fun u => edge_spec u NDepot)). intros k' Hk'. cbn [edge_spec]. rewrite range_true by exact Hk'. cbn [andb].
      destruct (Nat.lt_ge_cases k' n) as [Hlt|Hge].
      + rewrite chain_next_lt by exact Hlt. reflexivity.
      + rewrite chain_next_last by exact Hge. rewrite Ed. reflexivity.
  Qed.

  Lemma preds_central :
    preds (build s) NCentral =
    (if negb (s_depot s) && negb (Nat.eqb n 0) then [tnode n] else [])
    ++ (if s_depot s then [dnode] else []) ++ map pnode (seq 1 m).
  Proof.
    rewrite preds_build, (filter_nodes (fun u => edge_spec u NCentral)).
    cbn [edge_spec].
    rewrite (pnodes_all (fun u => edge_spec u NCentral)) by (intros j Hj; cbn [edge_spec]; apply range_true_m; exact Hj).
    destruct (s_depot s) eqn:Ed; cbn [andb negb app].
    - rewrite (tnodes_none (fun u => edge_spec u NCentral)); [reflexivity|].
      intros k' Hk'. cbn [edge_spec]. rewrite range_true by exact Hk'. cbn [andb].
      destruct (Nat.lt_ge_cases k' n) as [Hlt|Hge].
      + rewrite chain_next_lt by exact Hlt. reflexivity.
      + rewrite chain_next_last by exact Hge. rewrite Ed. reflexivity.
    - destruct (Nat.eqb_spec n 0) as [E0|E0]; cbn [negb app].
      + rewrite (tnodes_none (fun u => edge_spec u NCentral)); [reflexivity|]. intros k Hk. lia.
      + rewrite (tnodes_one (fun u => edge_spec u NCentral) n); [reflexivity|lia|].
        intros k' Hk'. cbn [edge_spec]. rewrite range_true by exact Hk'. cbn [andb].
        destruct (Nat.lt_ge_cases k' n) as [Hlt|Hge].
        * rewrite chain_next_lt by exact Hlt. cbn [name_eqb]. symmetry. apply Nat.eqb_neq. lia.
        * rewrite chain_next_last by exact Hge. rewrite Ed. cbn [name_eqb]. symmetry. apply Nat.eqb_eq. lia.
  Qed.

  (* ---- outgoing edges ---- *)
  Lemma out_edges_app_build x :
    out_edges (build s) x =
    filter (fun e => name_eqb (e_src e) x) (map tedge (seq 1 n))
    ++ filter (fun e => name_eqb (e_src e) x) (if s_depot s then [dedge] else [])
    ++ filter (fun e => name_eqb (e_src e) x) [eledge]
    ++ filter (fun e => name_eqb (e_src e) x) (map pedge1 (seq 1 m))
    ++ filter (fun e => name_eqb (e_src e) x) (map pedge2 (seq 1 m)).
  Proof. unfold out_edges. cbn [g_edges build]. rewrite build_edges_eq, !filter_app. reflexivity. Qed.

  Lemma out_edges_transit k : 1 <= k <= n -> out_edges (build s) (NTransit k) = [tedge k].
  Proof.
    intro Hk. rewrite out_edges_app_build.
    rewrite (filter_map_seq_one tedge _ n 1 k) by (try lia; intros; reflexivity).
    rewrite (filter_map_seq_none pedge1) by (intros; reflexivity).
    rewrite (filter_map_seq_none pedge2) by (intros; reflexivity).
    destruct (s_depot s); reflexivity.
  Qed.

  Lemma out_edges_depot : s_depot s = true -> out_edges (build s) NDepot = [dedge].
  Proof.
    intro Hd. rewrite out_edges_app_build, Hd.
    rewrite (filter_map_seq_none tedge) by (intros; reflexivity).
    rewrite (filter_map_seq_none pedge1) by (intros; reflexivity).
    rewrite (filter_map_seq_none pedge2) by (intros; reflexivity).
    reflexivity.
  Qed.

  Lemma out_edges_central : out_edges (build s) NCentral = eledge :: map pedge1 (seq 1 m).
  Proof.
    rewrite out_edges_app_build.
    rewrite (filter_map_seq_none tedge) by (intros; reflexivity).
    rewrite (filter_map_seq_all pedge1) by (intros; reflexivity).
    rewrite (filter_map_seq_none pedge2) by (intros; reflexivity).
    destruct (s_depot s); cbn; rewrite app_nil_r; reflexivity.
  Qed.

  Lemma out_edges_periph j : 1 <= j <= m -> out_edges (build s) (NPeriph j) = [pedge2 j].
  Proof.
    intro Hj. rewrite out_edges_app_build.
    rewrite (filter_map_seq_none tedge) by (intros; reflexivity).
    rewrite (filter_map_seq_none pedge1) by (intros; reflexivity).
    rewrite (filter_map_seq_one pedge2 _ m 1 j) by (try lia; intros; reflexivity).
    destruct (s_depot s); reflexivity.
  Qed.

  Lemma out_edges_output : out_edges (build s) NOutput = [].
  Proof.
    rewrite out_edges_app_build.
    rewrite (filter_map_seq_none tedge) by (intros; reflexivity).
    rewrite (filter_map_seq_none pedge1) by (intros; reflexivity).
    rewrite (filter_map_seq_none pedge2) by (intros; reflexivity).
    destruct (s_depot s); reflexivity.
  Qed.

  Lemma in_degree_periph j : 1 <= j <= m -> in_degree (build s) (NPeriph j) = 1.
  Proof.
    intro Hj. unfold in_degree. cbn [g_edges build]. rewrite build_edges_eq, !filter_app.
    rewrite (filter_map_seq_none tedge).
    2:{ intros k Hk. cbn [tedge e_dst].
        destruct (chain_next_cases k) as [[_ E]|[[_ [_ E]]|[_ [_ E]]]]; rewrite E; reflexivity. }
    rewrite (filter_map_seq_one pedge1 _ m 1 j) by (try lia; intros; reflexivity).
    rewrite (filter_map_seq_none pedge2) by (intros; reflexivity).
    destruct (s_depot s); reflexivity.
  Qed.

  (* ---- central, dosing ---- *)
  Definition fnode : node := mk_node s (first_name s).

  Lemma n_name_cnode : n_name cnode = NCentral.
  Proof. apply n_name_mk_node. Qed.

  Lemma central_build : central (build s) = Some cnode.
  Proof. unfold central. rewrite preds_output. cbn [map last]. rewrite n_name_cnode. reflexivity. Qed.

  Lemma first_name_cases :
    (n = 0 /\ s_depot s = true /\ first_name s = NDepot) \/
    (n = 0 /\ s_depot s = false /\ first_name s = NCentral) \/
    (1 <= n /\ first_name s = NTransit 1).
  Proof.
    unfold first_name. destruct n as [|n']; [|right; right; split; [lia|reflexivity]].
    destruct (s_depot s); [left|right; left]; auto.
  Qed.

  Lemma has_doses_mk_node x : has_doses (mk_node s x) = name_eqb x (first_name s).
  Proof. unfold mk_node. destruct (name_eqb x (first_name s)); reflexivity. Qed.

  Lemma dosed_nodes : filter has_doses (build_nodes s) = [fnode].
  Proof.
    assert (E : filter has_doses (build_nodes s)
                = filter (fun nd => name_eqb (n_name nd) (first_name s)) (build_nodes s)).
    { apply filter_ext_in. intros nd Hin. rewrite build_nodes_eq in Hin.
      rewrite !in_app_iff in Hin. destruct Hin as [H|[H|[H|H]]].
      - apply in_map_iff in H. destruct H as [k [<- _]]. unfold tnode. rewrite has_doses_mk_node, n_name_mk_node. reflexivity.
      - destruct (s_depot s); [|contradiction]. destruct H as [<-|[]]. unfold dnode. rewrite has_doses_mk_node, n_name_mk_node. reflexivity.
      - destruct H as [<-|[]]. unfold cnode. rewrite has_doses_mk_node, n_name_mk_node. reflexivity.
      - apply in_map_iff in H. destruct H as [j [<- _]]. cbn.
        destruct first_name_cases as [[_ [_ ->]]|[[_ [_ ->]]|[_ ->]]]; reflexivity. }
    rewrite E, (filter_nodes (fun x => name_eqb x (first_name s))).
    unfold fnode.
    destruct first_name_cases as [[H0 [Hd ->]]|[[H0 [Hd ->]]|[H1 ->]]].
    - rewrite H0, Hd. cbn. rewrite (pnodes_none (fun x => name_eqb x NDepot)) by (intros; reflexivity). reflexivity.
    - rewrite H0, Hd. cbn. rewrite (pnodes_none (fun x => name_eqb x NCentral)) by (intros; reflexivity). reflexivity.
    - rewrite (tnodes_one (fun x => name_eqb x (NTransit 1)) 1) by (try lia; intros; cbn; reflexivity).
      rewrite (pnodes_none (fun x => name_eqb x (NTransit 1))) by (intros; reflexivity).
      cbn [name_eqb]. rewrite andb_false_r. reflexivity.
  Qed.

  Lemma dosing_build : dosing (build s) = Some [fnode].
  Proof.
    unfold dosing. rewrite central_build. cbn [g_nodes build]. rewrite dosed_nodes.
    cbn [sort_nodes fold_left ins_node dosing_loop].
    destruct (negb (name_eqb (n_name fnode) (n_name cnode))); reflexivity.
  Qed.

  Lemma dosing0_build : dosing0 (build s) = Some fnode.
  Proof. unfold dosing0. rewrite dosing_build. reflexivity. Qed.

  Lemma n_name_fnode : n_name fnode = first_name s.
  Proof. apply n_name_mk_node. Qed.

  (* ---- the transit chain walk ---- *)
  Lemma length_preds_central :
    length (preds (build s) NCentral)
    = (if negb (s_depot s) && negb (Nat.eqb n 0) then 1 else 0) + (if s_depot s then 1 else 0) + m.
  Proof.
    rewrite preds_central, !app_length, map_length, seq_length.
    destruct (negb (s_depot s) && negb (n =? 0)); destruct (s_depot s); cbn; lia.
  Qed.

  Lemma walk_end_depot fuel acc rid :
    s_depot s = true -> rid <> 1 -> transit_walk (S fuel) (build s) NDepot rid acc = Some acc.
  Proof.
    intros Hd Hr. cbn [transit_walk]. rewrite preds_depot, Hd. cbn [andb].
    destruct (negb (n =? 0)); cbn [length Nat.eqb negb]; [|reflexivity].
    rewrite out_edges_depot by exact Hd. cbn [dedge e_rid].
    destruct (Nat.eqb_spec rid 1); [contradiction|reflexivity].
  Qed.

  Lemma walk_end_central fuel acc rid :
    rid <> 3 -> transit_walk (S fuel) (build s) NCentral rid acc = Some acc.
  Proof.
    intros Hr. cbn [transit_walk].
    destruct (negb (length (preds (build s) NCentral) =? 1)); [reflexivity|].
    rewrite out_edges_central.
    destruct (map pedge1 (seq 1 m)); [|reflexivity].
    cbn [eledge e_rid]. destruct (Nat.eqb_spec rid 3); [contradiction|reflexivity].
  Qed.

  Lemma walk_chain d : forall k fuel acc,
    2 <= k -> k + d = n -> d + 2 <= fuel ->
    transit_walk fuel (build s) (NTransit k) 2 acc = Some (acc ++ map NTransit (seq k (S d))).
  Proof.
    induction d as [|d IH]; intros k fuel acc Hk Hd Hf.
    - destruct fuel as [|fuel]; [lia|]. cbn [transit_walk].
      rewrite preds_transit by lia. cbn [length Nat.eqb negb].
      rewrite out_edges_transit by lia. cbn [tedge e_rid e_dst Nat.eqb negb].
      rewrite chain_next_last by lia.
      destruct fuel as [|fuel]; [lia|].
      destruct (s_depot s) eqn:Ed.
      + rewrite walk_end_depot by (auto; lia). reflexivity.
      + rewrite walk_end_central by lia. reflexivity.
    - destruct fuel as [|fuel]; [lia|]. cbn [transit_walk].
      rewrite preds_transit by lia. cbn [length Nat.eqb negb].
      rewrite out_edges_transit by lia. cbn [tedge e_rid e_dst Nat.eqb negb].
      rewrite chain_next_lt by lia.
      rewrite IH by lia. rewrite <- app_assoc. reflexivity.
  Qed.

  Definition transit_names : list name :=
    if negb (s_depot s) && Nat.eqb n 1 then [] else map NTransit (seq 1 n).

  Lemma length_build_nodes : length (g_nodes (build s)) = n + (if s_depot s then 1 else 0) + 1 + m.
  Proof.
    cbn [g_nodes build]. rewrite build_nodes_eq, !app_length, !map_length, !seq_length.
    destruct (s_depot s); cbn; lia.
  Qed.

  Lemma find_transits_build : find_transits (build s) = Some transit_names.
  Proof.
    unfold find_transits, transit_names. rewrite dosing0_build, central_build, n_name_fnode, n_name_cnode.
    destruct first_name_cases as [[H0 [Hd ->]]|[[H0 [Hd ->]]|[H1 ->]]].
    - (* DEPOT is the dosing compartment *)
      rewrite preds_depot, H0, Hd. cbn [andb Nat.eqb negb length].
      rewrite out_edges_depot by exact Hd. cbn [dedge e_dst e_rid].
      rewrite walk_end_central by lia. rewrite has_edge_build. cbn [edge_spec]. rewrite Hd. reflexivity.
    - (* CENTRAL is the dosing compartment *)
      rewrite Hd, H0. cbn [negb andb Nat.eqb map seq].
      rewrite length_preds_central, Hd, H0. cbn [negb andb Nat.eqb Nat.add].
      destruct m as [|m'] eqn:Em; [|reflexivity]. cbn [Nat.eqb negb].
      rewrite out_edges_central, Em. cbn [seq map eledge e_dst e_rid].
      cbn [transit_walk]. rewrite preds_output. cbn [length Nat.eqb negb]. rewrite out_edges_output.
      rewrite name_eqb_refl, orb_true_r. reflexivity.
    - (* TRANSIT1 is the dosing compartment *)
      rewrite preds_transit1. cbn [length Nat.eqb negb].
      rewrite out_edges_transit by lia. cbn [tedge e_dst e_rid].
      destruct (Nat.eq_dec n 1) as [E1|E1].
      + rewrite chain_next_last by lia. rewrite length_build_nodes.
        destruct (s_depot s) eqn:Ed.
        * rewrite walk_end_depot by (auto; lia). rewrite has_edge_build. cbn [edge_spec].
          rewrite chain_next_last by lia. rewrite Ed, E1. reflexivity.
        * rewrite walk_end_central by lia. rewrite has_edge_build. cbn [edge_spec].
          rewrite chain_next_last by lia. rewrite Ed, E1. reflexivity.
      + rewrite chain_next_lt by lia.
        rewrite (walk_chain (n - 2)) by (rewrite ?length_build_nodes; lia).
        replace (Nat.eqb n 1) with false by (symmetry; apply Nat.eqb_neq; exact E1).
        rewrite andb_false_r.
        replace (S (n - 2)) with (n - 1) by lia.
        assert (Hs : forall q, 1 <= q -> [NTransit 1] ++ map NTransit (seq 2 (q - 1)) = map NTransit (seq 1 q)).
        { intros q Hq. destruct q as [|q]; [lia|]. cbn [Nat.sub seq map app]. rewrite Nat.sub_0_r. reflexivity. }
        rewrite Hs by lia.
        destruct n as [|[|n'']]; [lia|lia|]. reflexivity.
  Qed.

  Lemma length_transit_names : length transit_names = canon_transits s.
  Proof.
    unfold transit_names, canon_transits.
    destruct (s_depot s); cbn [negb andb]; [rewrite map_length, seq_length; reflexivity|].
    destruct (Nat.eqb n 1); [reflexivity|]. rewrite map_length, seq_length. reflexivity.
  Qed.

  (* ---- find_depot ---- *)
  Lemma out_degree_periph j : 1 <= j <= m -> out_degree (build s) (NPeriph j) = 1.
  Proof. intro H. unfold out_degree. rewrite out_edges_periph by exact H. reflexivity. Qed.

  Lemma depot_loop_periph len : forall a,
    1 <= a -> a + len <= S m ->
    find_depot_loop (build s) NCentral (map pnode (seq a len)) = Ok None.
  Proof.
    induction len as [|len IH]; intros a Ha Hb; [reflexivity|].
    cbn [seq map find_depot_loop pnode plain n_name].
    rewrite out_degree_periph by lia. cbn [Nat.eqb orb negb].
    rewrite has_edge_build. cbn [edge_spec]. rewrite range_true_m by lia.
    apply IH; lia.
  Qed.

  Lemma memname_transits k l : memname (NTransit k) (map NTransit l) = existsb (Nat.eqb k) l.
  Proof. induction l as [|x l IH]; [reflexivity|]. cbn. rewrite <- IH. reflexivity. Qed.

  Lemma find_depot_build :
    find_depot (build s) = Ok (match canon_depot s with Some x => Some (mk_node s x) | None => None end).
  Proof.
    unfold find_depot. rewrite find_transits_build, central_build, n_name_cnode, preds_central.
    unfold canon_depot, transit_names.
    destruct (s_depot s) eqn:Ed; cbn [negb andb app].
    - cbn [find_depot_loop]. unfold dnode. rewrite !n_name_mk_node.
      unfold out_degree. rewrite out_edges_depot by exact Ed. cbn [length Nat.eqb orb negb].
      rewrite has_edge_build. cbn [edge_spec bind].
      assert (Hm : memname NDepot (map NTransit (seq 1 n)) = false).
      { induction (seq 1 n) as [|x l IH]; [reflexivity|]. cbn. exact IH. }
      rewrite n_name_mk_node, Hm. reflexivity.
    - destruct (Nat.eqb_spec n 0) as [E0|E0]; cbn [negb app].
      + rewrite depot_loop_periph by lia. cbn [bind].
        destruct (Nat.eqb_spec n 1); [lia|reflexivity].
      + cbn [find_depot_loop]. unfold tnode. rewrite !n_name_mk_node.
        unfold out_degree. rewrite out_edges_transit by lia. cbn [length Nat.eqb orb negb].
        rewrite has_edge_build. cbn [edge_spec bind]. rewrite ?n_name_mk_node.
        destruct (Nat.eqb_spec n 1) as [E1|E1].
        * cbn [memname existsb]. rewrite E1. reflexivity.
        * rewrite memname_transits.
          assert (He : existsb (Nat.eqb n) (seq 1 n) = true).
          { apply existsb_exists. exists n. split; [apply in_seq; lia | apply Nat.eqb_refl]. }
          rewrite He. reflexivity.
  Qed.

  (* ---- peripherals ---- *)
  Lemma ins_node_length x l : length (ins_node x l) = S (length l).
  Proof. induction l as [|y l IH]; cbn; [reflexivity|]. destruct (name_leb (n_name y) (n_name x)); cbn; auto. Qed.
  Lemma sort_nodes_length l : length (sort_nodes l) = length l.
  Proof.
    unfold sort_nodes.
    assert (H : forall acc, length (fold_left (fun acc x => ins_node x acc) l acc) = length l + length acc).
    { induction l as [|x l IH]; intro acc; cbn; [reflexivity|]. rewrite IH, ins_node_length. lia. }
    rewrite H. cbn. lia.
  Qed.

  Lemma ins_node_len_length x l : length (ins_node_len x l) = S (length l).
  Proof. induction l as [|y l IH]; cbn; [reflexivity|]. destruct (name_len_leb (n_name y) (n_name x)); cbn; auto. Qed.
  Lemma sort_nodes_len_length l : length (sort_nodes_len l) = length l.
  Proof.
    unfold sort_nodes_len.
    assert (H : forall acc, length (fold_left (fun acc x => ins_node_len x acc) l acc) = length l + length acc).
    { induction l as [|x l IH]; intro acc; cbn; [reflexivity|]. rewrite IH, ins_node_len_length. lia. }
    rewrite H. cbn. lia.
  Qed.

  Definition periph_cond (x : name) : bool :=
    Nat.eqb (out_degree (build s) x) 1 && Nat.eqb (in_degree (build s) x) 1
    && has_edge (build s) x NCentral && has_edge (build s) NCentral x.

  Lemma find_peripherals_build : length (find_peripherals (build s)) = m.
  Proof.
    unfold find_peripherals. rewrite central_build, n_name_cnode, sort_nodes_len_length.
    change (length (filter (fun nd => periph_cond (n_name nd)) (g_nodes (build s))) = m).
    cbn [g_nodes build]. rewrite (filter_nodes periph_cond).
    rewrite (tnodes_none periph_cond).
    2:{ intros k Hk. unfold periph_cond. rewrite (has_edge_build NCentral). cbn [edge_spec]. apply andb_false_r. }
    rewrite (pnodes_all periph_cond).
    2:{ intros j Hj. unfold periph_cond. rewrite out_degree_periph, in_degree_periph by exact Hj.
        rewrite !has_edge_build. cbn [edge_spec Nat.eqb andb]. rewrite range_true_m by exact Hj. reflexivity. }
    assert (Hd : periph_cond NDepot = false).
    { unfold periph_cond. rewrite (has_edge_build NCentral). cbn [edge_spec]. apply andb_false_r. }
    assert (Hc : periph_cond NCentral = false).
    { unfold periph_cond. rewrite (has_edge_build NCentral). cbn [edge_spec]. apply andb_false_r. }
    rewrite Hd, Hc, andb_false_r. cbn [app]. rewrite map_length, seq_length. reflexivity.
  Qed.

  (* ---- absorption, lag, elimination ---- *)
  Lemma fnode_doses : n_doses fnode = [the_dose s].
  Proof. unfold fnode, mk_node. rewrite name_eqb_refl. reflexivity. Qed.
  Lemma fnode_lag : n_lag fnode = s_lag s.
  Proof. unfold fnode, mk_node. rewrite name_eqb_refl. reflexivity. Qed.

  Lemma zo_build : has_zero_order_absorption (build s) = s_zo s.
  Proof.
    unfold has_zero_order_absorption, first_dose. rewrite dosing0_build, fnode_doses. cbn [hd_error].
    unfold the_dose. destruct (s_zo s); reflexivity.
  Qed.

  Lemma lag_build : has_lag_time (build s) = s_lag s.
  Proof. unfold has_lag_time. rewrite dosing0_build. apply fnode_lag. Qed.

  Lemma fnode_bio : n_bio fnode = s_bio s.
  Proof. unfold fnode, mk_node. rewrite name_eqb_refl. reflexivity. Qed.
  Lemma bio_build : has_bioavailability (build s) = s_bio s.
  Proof. unfold has_bioavailability. rewrite dosing0_build. apply fnode_bio. Qed.

  Lemma fo_build :
    has_first_order_absorption (build s) = (s_depot s || negb (Nat.eqb n 0)).
  Proof.
    unfold has_first_order_absorption. rewrite dosing0_build, central_build, n_name_fnode, n_name_cnode.
    rewrite preds_central, !filter_app.
    assert (Hp : filter (fun nd => negb (has_edge (build s) NCentral (n_name nd))) (map pnode (seq 1 m)) = []).
    { apply (pnodes_none (fun x => negb (has_edge (build s) NCentral x))). intros j Hj.
      rewrite has_edge_build. cbn [edge_spec]. rewrite range_true_m by exact Hj. reflexivity. }
    rewrite Hp, app_nil_r.
    destruct first_name_cases as [[H0 [Hd ->]]|[[H0 [Hd ->]]|[H1 ->]]].
    - rewrite Hd, H0. cbn [name_eqb negb andb Nat.eqb app]. unfold dnode. cbn [filter].
      rewrite n_name_mk_node, has_edge_build. reflexivity.
    - rewrite Hd, H0. reflexivity.
    - cbn [name_eqb].
      replace (Nat.eqb n 0) with false by (symmetry; apply Nat.eqb_neq; lia). cbn [negb]. rewrite orb_true_r, andb_true_r.
      destruct (s_depot s) eqn:Ed; cbn [negb app]; unfold tnode, dnode; cbn [filter];
        rewrite n_name_mk_node, has_edge_build; reflexivity.
  Qed.

  Lemma inst_build :
    has_instantaneous_absorption (build s) = (negb (s_depot s) && Nat.eqb n 0 && negb (s_zo s)).
  Proof.
    unfold has_instantaneous_absorption. rewrite dosing0_build, central_build, n_name_fnode, n_name_cnode, fnode_doses.
    destruct first_name_cases as [[H0 [Hd ->]]|[[H0 [Hd ->]]|[H1 ->]]].
    - rewrite Hd. reflexivity.
    - rewrite Hd, H0. unfold the_dose. destruct (s_zo s); reflexivity.
    - replace (Nat.eqb n 0) with false by (symmetry; apply Nat.eqb_neq; lia). rewrite andb_false_r. reflexivity.
  Qed.

  Lemma detect_abs_build : detect_abs (build s) = Some (canon_abs s).
  Proof.
    unfold detect_abs, has_seq_zo_fo_absorption. rewrite zo_build, fo_build, inst_build.
    unfold canon_abs, s_zo, s_depot.
    destruct (s_abs s); destruct n as [|n']; reflexivity.
  Qed.

  Lemma find_app {A} (p : A -> bool) l1 l2 :
    find p (l1 ++ l2) = match find p l1 with Some x => Some x | None => find p l2 end.
  Proof. induction l1 as [|x l1 IH]; cbn; [reflexivity|]. destruct (p x); auto. Qed.

  Lemma find_map_seq_none {A} (f : nat -> A) (p : A -> bool) len : forall a,
    (forall k, p (f k) = false) -> find p (map f (seq a len)) = None.
  Proof. induction len as [|len IH]; intros a H; cbn; [reflexivity|]. rewrite H. apply IH. exact H. Qed.

  Lemma elim_edge_build : elim_edge (build s) = Some eledge.
  Proof.
    unfold elim_edge. rewrite central_build, n_name_cnode. unfold get_edge. cbn [g_edges build].
    rewrite build_edges_eq, !find_app.
    rewrite (find_map_seq_none tedge) by (intros; reflexivity).
    destruct (s_depot s); reflexivity.
  Qed.

  Lemma detect_elim_build : detect_elim (build s) = Some (s_elim s).
  Proof.
    unfold detect_elim, has_mixed_mm_fo_elimination, has_zero_order_elimination, has_first_order_elimination,
      has_michaelis_menten_elimination, el_nonlin, el_cl.
    rewrite elim_edge_build. cbn [eledge e_nonlin e_cl g_kmfix build].
    destruct (s_elim s); reflexivity.
  Qed.

  Theorem detect_build_lemma : detect (build s) = canon s.
  Proof.
    unfold detect, canon.
    rewrite detect_abs_build, detect_elim_build, find_transits_build, length_transit_names,
      find_depot_build, find_peripherals_build, lag_build, bio_build.
    f_equal. destruct (canon_depot s); [rewrite n_name_mk_node|]; reflexivity.
  Qed.
End Build.

