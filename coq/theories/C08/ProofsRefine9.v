(* PV.C08.ProofsRefine9 — set_transit_compartments adding transits at the end of an existing chain. *)
From Coq Require Import List Bool Arith NArith Lia.
From PV Require Import Base.PyData C08.Model C08.ProofsGraph C08.ProofsRefine C08.ProofsDecimal C08.ProofsRefine2
  C08.ProofsRefine3 C08.ProofsRefine4 C08.ProofsRefine5 C08.ProofsRefine6 C08.ProofsRefine7 C08.ProofsRefine8.
Import ListNotations.
Local Open Scope nat_scope.

(* the new edges of the `while nadd > 0` loop *)
Fixpoint add_edges (k n : nat) (last : name) (rate : edge) : list edge :=
  match k with
  | 0 => []
  | S k' => mkEdge last (NTransit (n - k + 1)) (e_rid rate) (e_nonlin rate) (e_cl rate)
            :: add_edges k' n (NTransit (n - k + 1)) rate
  end.

Lemma add_transits_spec k : forall n g last rate,
  k <= n ->
  (forall nd j, In nd (g_nodes g) -> n_name nd = NTransit j -> j <= n - k) ->
  (forall e j, In e (g_edges g) -> e_dst e = NTransit j -> j <= n - k) ->
  add_transits k n g last rate
  = Ok (mkGraph (g_nodes g ++ map (fun j => plain (NTransit j)) (seq (n - k + 1) k))
                (g_edges g ++ add_edges k n last rate)
                (g_kmfix g) (g_mat g) (g_popmdt g) (g_krates g) (g_elq g)).
Proof.
  induction k as [|k IH]; intros n g last rate Hk Hn He.
  - cbn. rewrite !app_nil_r. destruct g; reflexivity.
  - cbn [add_transits]. unfold add_compartment. cbn [plain n_name].
    rewrite (find_node_none_in g (NTransit (n - S k + 1))).
    2:{ intros nd Hin E. specialize (Hn nd _ Hin E). lia. }
    cbn [bind]. unfold add_flow_like, add_flow.
    assert (Hno : has_edge (set_nodes g (g_nodes g ++ [plain (NTransit (n - S k + 1))])) last (NTransit (n - S k + 1)) = false).
    { unfold has_edge. apply not_true_is_false. intro X. apply existsb_exists in X. destruct X as [e [Hin E]].
      unfold is_edge in E. apply andb_true_iff in E. destruct E as [_ E]. apply name_eqb_eq in E.
      cbn [g_edges set_nodes] in Hin. specialize (He e _ Hin E). lia. }
    rewrite Hno. rewrite IH.
    + cbn [g_nodes g_edges g_kmfix g_mat g_popmdt g_krates g_elq set_nodes set_edges add_edges seq map].
      rewrite <- !app_assoc. cbn [app]. replace (S (n - S k + 1)) with (n - k + 1) by lia. reflexivity.
    + lia.
    + cbn [g_nodes set_edges set_nodes]. intros nd j Hin E. apply in_app_or in Hin. destruct Hin as [Hin|[<-|[]]].
      * specialize (Hn nd j Hin E). lia.
      * cbn in E. injection E as <-. lia.
    + cbn [g_edges set_edges set_nodes]. intros e j Hin E. apply in_app_or in Hin. destruct Hin as [Hin|[<-|[]]].
      * specialize (He e j Hin E). lia.
      * cbn in E. injection E as <-. lia.
Qed.

Lemma in_add_edges k : forall n rate e, k <= n ->
  In e (add_edges k n (NTransit (n - k)) rate)
  <-> exists j, n - k <= j < n /\ e = mkEdge (NTransit j) (NTransit (S j)) (e_rid rate) (e_nonlin rate) (e_cl rate).
Proof.
  induction k as [|k IH]; intros n rate e Hk; cbn [add_edges In].
  - split; [contradiction | intros [j [H _]]; lia].
  - replace (n - S k + 1) with (n - k) by lia. rewrite IH by lia. split.
    + intros [<-|[j [Hj ->]]].
      * exists (n - S k). split; [lia|]. replace (S (n - S k)) with (n - k) by lia. reflexivity.
      * exists j. split; [lia|reflexivity].
    + intros [j [Hj ->]]. destruct (Nat.eq_dec j (n - S k)) as [E|N].
      * left. rewrite E. replace (S (n - S k)) with (n - k) by lia. reflexivity.
      * right. exists j. split; [lia|reflexivity].
Qed.

Lemma length_add_edges k : forall n last rate, length (add_edges k n last rate) = k.
Proof. induction k; intros; cbn; auto. Qed.

Lemma memname_other x l : (forall j, x <> NTransit j) -> memname x (map NTransit l) = false.
Proof.
  intro H. unfold memname. apply not_true_is_false. intro X. apply existsb_exists in X. destruct X as [y [Hy E]].
  apply in_map_iff in Hy. destruct Hy as [j [<- _]]. apply name_eqb_eq in E. exact (H j E).
Qed.

Lemma chain_end_not_transit s j : (if s_depot s then NDepot else NCentral) <> NTransit j.
Proof. destruct (s_depot s); discriminate. Qed.

Lemma find_last_build s :
  1 <= s_transits s ->
  find_last_transit (build s) (map NTransit (seq 1 (s_transits s)))
  = Ok (NTransit (s_transits s), tedge s (s_transits s)).
Proof.
  intro H1. unfold find_last_transit.
  rewrite (filter_map_seq_one NTransit _ (s_transits s) 1 (s_transits s)).
  - rewrite out_edges_transit by lia. reflexivity.
  - lia.
  - intros k Hk. rewrite out_edges_transit by lia. cbn [tedge e_dst]. unfold chain_next.
    destruct (Nat.ltb_spec k (s_transits s)).
    + rewrite memname_transits. destruct (Nat.eqb_spec k (s_transits s)); [lia|].
      cbn [negb]. apply negb_false_iff. apply existsb_exists. exists (S k). split; [apply in_seq; lia | apply Nat.eqb_refl].
    + rewrite memname_other by (apply chain_end_not_transit). destruct (Nat.eqb_spec k (s_transits s)); [reflexivity|lia].
Qed.

(* ---- the theorem: more transits at the end of an existing chain ---- *)
Theorem refines_transits_add s n keep :
  valid s = true -> (keep = true \/ s_depot s = false) ->
  1 <= s_transits s -> s_transits s < n ->
  refines (Transits n keep) s = true.
Proof.
  intros Hv Hk H1 Hlt. unfold refines.
  assert (Hnd : negb (s_depot s) && Nat.eqb (s_transits s) 1 = false).
  { unfold valid in Hv. apply negb_true_iff in Hv. exact Hv. }
  assert (Hct : canon_transits s = s_transits s).
  { unfold canon_transits. destruct (s_depot s); [reflexivity|]. cbn [negb andb] in Hnd. rewrite Hnd. reflexivity. }
  assert (Htn : transit_names s = map NTransit (seq 1 (s_transits s))).
  { unfold transit_names. rewrite Hnd. reflexivity. }
  assert (Hstep : step (Transits n keep) s = SOk (with_tr s n)).
  { cbn [step]. unfold step_transits. rewrite Hct, Hnd.
    replace (negb keep && (s_depot s || false)) with false.
    2:{ destruct Hk as [->| ->]; [reflexivity | destruct keep; reflexivity]. }
    destruct (Nat.eqb_spec (s_transits s) n); [lia|].
    destruct (Nat.eqb_spec (s_transits s) 0); [lia|]. rewrite andb_false_r.
    destruct (Nat.ltb_spec n (s_transits s)); [lia|]. reflexivity. }
  rewrite Hstep. cbn [setter_graph]. unfold set_transit_compartments.
  rewrite dosing0_build. cbn [opt_res bind]. rewrite find_transits_build. cbn [opt_res bind].
  destruct (remove_lag_build s) as [gl [Hg _]]. rewrite Hg. cbn [bind]. rewrite find_depot_build. cbn [bind].
  pose proof (no_depot_block s keep Hv Hk) as Nb.
  rewrite length_transit_names, Hct, Htn.
  match goal with |- context [bind ?M ?K] => assert (HM : M = Ok (gl, build s)) end.
  { destruct (canon_depot s); [destruct keep; [|contradiction]|]; reflexivity. }
  rewrite HM. clear HM Nb. cbn [bind]. cbv zeta.
  destruct (Nat.eqb_spec (s_transits s) n); [lia|].
  destruct (Nat.eqb_spec n 1); [lia|]. cbn [andb].
  destruct (Nat.eqb_spec (s_transits s) 0); [lia|].
  destruct (Nat.ltb_spec n (s_transits s)) as [|Hge]; [lia|].
  rewrite find_last_build by exact H1. cbn [bind].
  set (tr := s_transits s) in *.
  set (dst := if s_depot s then NDepot else NCentral).
  set (rest := build_edges (with_tr s 0)).
  assert (Hlast : tedge s tr = mkEdge (NTransit tr) dst 2 false false).
  { unfold tedge, chain_next. fold tr. rewrite Nat.ltb_irrefl. reflexivity. }
  assert (Hlt' : forall k, k < tr -> tedge s k = mkEdge (NTransit k) (NTransit (S k)) 2 false false).
  { intros k Hk'. unfold tedge, chain_next. fold tr. destruct (Nat.ltb_spec k tr); [reflexivity|lia]. }
  assert (HE : build_edges s = map (tedge s) (seq 1 (tr - 1)) ++ [tedge s tr] ++ rest).
  { unfold build_edges at 1. fold tr. replace tr with ((tr - 1) + 1) at 1 by lia. rewrite seq_app, map_app.
    cbn [seq map]. replace (1 + (tr - 1)) with tr by lia. rewrite <- app_assoc. reflexivity. }
  assert (Hrest : forall e, In e rest -> e_rid e <> 2 /\ (forall j, e_src e <> NTransit j)).
  { intros e H. apply (old_edge_rid (with_tr s 0) e eq_refl H). }
  assert (Hrest_dst : forall e j, In e rest -> e_dst e <> NTransit j).
  { intros e j H. unfold rest in H. rewrite build_edges_with in H. apply in_edges_with in H.
    destruct H as [k Hk' ->| Hd ->| -> |j' Hj ->|j' Hj ->]; cbn; try discriminate. cbn in Hk'. lia. }
  rewrite Hlast. cbn [e_dst]. unfold remove_flow.
  assert (Hhe : has_edge (build s) (NTransit tr) dst = true).
  { unfold has_edge. apply existsb_exists. exists (tedge s tr). split.
    - cbn [g_edges build]. rewrite HE. apply in_or_app. right. left. reflexivity.
    - rewrite Hlast. unfold is_edge. cbn [e_src e_dst]. rewrite !name_eqb_refl. reflexivity. }
  rewrite Hhe. cbn [bind].
  set (Efil := map (tedge s) (seq 1 (tr - 1)) ++ rest).
  assert (Hfil : filter (fun e => negb (is_edge (NTransit tr) dst e)) (g_edges (build s)) = Efil).
  { cbn [g_edges build]. rewrite HE, !filter_app. unfold Efil. f_equal; [|].
    - apply filter_all. intros e H. apply in_map_iff in H. destruct H as [k [<- Hk']]. apply in_seq in Hk'.
      rewrite Hlt' by lia. unfold is_edge. cbn [e_src e_dst name_eqb].
      destruct (Nat.eqb_spec k tr); [lia|]. reflexivity.
    - rewrite Hlast. cbn [filter]. unfold is_edge at 1. cbn [e_src e_dst]. rewrite !name_eqb_refl. cbn [andb negb app].
      apply filter_all. intros e H. destruct (Hrest e H) as [_ Hs]. unfold is_edge.
      rewrite (name_eqb_neq _ _ (Hs tr)). reflexivity. }
  rewrite Hfil. clear Hfil Hhe.
  set (rate := mkEdge (NTransit tr) dst 2 false false).
  assert (HinEfil : forall e, In e Efil <-> ((exists k, 1 <= k < tr /\ e = mkEdge (NTransit k) (NTransit (S k)) 2 false false) \/ In e rest)).
  { intro e. unfold Efil. rewrite in_app_iff. split.
    - intros [H|H]; [left|right; exact H]. apply in_map_iff in H. destruct H as [k [<- Hk']]. apply in_seq in Hk'.
      exists k. split; [lia|]. apply Hlt'. lia.
    - intros [[k [Hk' ->]]|H]; [left|right; exact H]. rewrite <- (Hlt' k) by lia. apply in_map. apply in_seq. lia. }
  rewrite add_transits_spec.
  2:{ lia. }
  2:{ intros nd j Hin E. cbn [g_nodes set_edges build] in Hin. rewrite build_nodes_names in Hin.
      apply in_map_iff in Hin. destruct Hin as [x [<- Hx]]. rewrite n_name_mk_node in E. subst x.
      unfold names in Hx. fold tr in Hx. apply in_app_or in Hx. destruct Hx as [Hx|Hx].
      - apply in_map_iff in Hx. destruct Hx as [i [E Hi]]. injection E as <-. apply in_seq in Hi. lia.
      - exfalso. apply in_app_or in Hx. destruct Hx as [Hx|Hx].
        + destruct (s_depot s); [destruct Hx as [Hx|[]]; discriminate | contradiction].
        + destruct Hx as [Hx|Hx]; [discriminate|]. apply in_map_iff in Hx. destruct Hx as [i [Hx _]]. discriminate. }
  2:{ intros e j Hin E. cbn [g_edges set_edges] in Hin. apply HinEfil in Hin. destruct Hin as [[k [Hk' ->]]|Hin].
      - cbn in E. injection E as <-. lia.
      - exfalso. exact (Hrest_dst e j Hin E). }
  cbn [bind g_nodes g_edges g_kmfix set_edges build].
  assert (Hla : last_added (n - tr) n (NTransit tr) = NTransit n) by (destruct (n - tr) eqn:E; [lia|reflexivity]).
  rewrite Hla. replace (n - (n - tr)) with tr by lia.
  assert (HinAdd : forall e, In e (add_edges (n - tr) n (NTransit tr) rate)
                   <-> exists j, tr <= j < n /\ e = mkEdge (NTransit j) (NTransit (S j)) 2 false false).
  { intro e. replace (NTransit tr) with (NTransit (n - (n - tr))) by (f_equal; lia).
    rewrite in_add_edges by lia. replace (n - (n - tr)) with tr by lia. reflexivity. }
  unfold add_flow_like, add_flow.
  match goal with |- context [has_edge ?g _ _] => set (g1 := g) end.
  assert (Hno : has_edge g1 (NTransit n) dst = false).
  { apply has_edge_false_src. unfold g1. cbn [g_edges]. intros e Hin E. apply in_app_or in Hin. destruct Hin as [Hin|Hin].
    - apply HinEfil in Hin. destruct Hin as [[k [Hk' ->]]|Hin]; [cbn in E; injection E as E; lia|].
      destruct (Hrest e Hin) as [_ Hs]. exact (Hs n E).
    - apply HinAdd in Hin. destruct Hin as [j [Hj ->]]. cbn in E. injection E as E. lia. }
  rewrite Hno. unfold g1. cbn [set_edges g_nodes g_edges g_kmfix g_mat g_popmdt g_krates g_elq e_rid e_nonlin e_cl rate].
  fold rate. clear Hno g1.
  set (s' := with_tr s n).
  set (R := names (with_tr s 0)).
  assert (Hns : names s = map NTransit (seq 1 tr) ++ R) by reflexivity.
  assert (Hns' : names s' = map NTransit (seq 1 n) ++ R) by reflexivity.
  assert (Hf1 : first_name s = NTransit 1) by (unfold first_name; fold tr; destruct tr; [lia|reflexivity]).
  assert (Hmk : forall x, mk_node s' x = mk_node s x).
  { intro x. unfold mk_node. replace (first_name s') with (NTransit 1); [rewrite Hf1; reflexivity|].
    unfold first_name, s'. cbn [with_tr s_transits]. destruct n; [lia|reflexivity]. }
  assert (Hbn' : build_nodes s' = map (mk_node s) (names s')).
  { rewrite build_nodes_names. apply map_ext. exact Hmk. }
  assert (Hpl : forall j, tr < j -> plain (NTransit j) = mk_node s (NTransit j)).
  { intros j Hj. unfold mk_node. rewrite Hf1. cbn [name_eqb]. destruct (Nat.eqb_spec j 1); [lia|reflexivity]. }
  assert (HE' : build_edges s' = map (tedge s') (seq 1 n) ++ rest) by reflexivity.
  assert (Hs'lt : forall k, k < n -> tedge s' k = mkEdge (NTransit k) (NTransit (S k)) 2 false false).
  { intros k Hk'. unfold tedge, chain_next, s'. cbn [with_tr s_transits]. destruct (Nat.ltb_spec k n); [reflexivity|lia]. }
  assert (Hs'n : tedge s' n = mkEdge (NTransit n) dst 2 false false).
  { unfold tedge, chain_next, s'. cbn [with_tr s_transits]. rewrite Nat.ltb_irrefl. reflexivity. }
  assert (Hchar : forall e, In e ((Efil ++ add_edges (n - tr) n (NTransit tr) rate) ++ [mkEdge (NTransit n) dst 2 false false])
                            <-> In e (build_edges s')).
  { intro e. rewrite HE'. rewrite !in_app_iff, HinEfil, HinAdd. split.
    - intros [[[[k [Hk' ->]]|Hr]|[j [Hj ->]]]|[<-|[]]].
      + left. rewrite <- Hs'lt by lia. apply in_map. apply in_seq. lia.
      + right. exact Hr.
      + left. rewrite <- Hs'lt by lia. apply in_map. apply in_seq. lia.
      + left. rewrite <- Hs'n. apply in_map. apply in_seq. lia.
    - intros [Hm|Hr]; [|left; left; right; exact Hr].
      apply in_map_iff in Hm. destruct Hm as [k [<- Hk']]. apply in_seq in Hk'.
      destruct (Nat.eq_dec k n) as [->|Nk].
      + right. left. symmetry. exact Hs'n.
      + rewrite Hs'lt by lia. destruct (Nat.lt_ge_cases k tr).
        * left. left. left. exists k. split; [lia|reflexivity].
        * left. right. exists k. split; [lia|reflexivity]. }
  apply (geqb_perm_edges _ (build s') (fun e => e)).
  - cbn [g_nodes set_edges build]. rewrite Hbn'. intros nd Hin. apply in_app_or in Hin. destruct Hin as [Hin|Hin].
    + rewrite build_nodes_names in Hin. apply in_map_iff in Hin. destruct Hin as [x [<- Hx]]. apply in_map.
      rewrite Hns'. rewrite Hns in Hx. apply in_app_or in Hx. apply in_or_app. destruct Hx as [Hx|Hx]; [left|right; exact Hx].
      apply in_map_iff in Hx. destruct Hx as [j [<- Hj]]. apply in_seq in Hj. apply in_map. apply in_seq. lia.
    + apply in_map_iff in Hin. destruct Hin as [j [<- Hj]]. apply in_seq in Hj. rewrite Hpl by lia. apply in_map.
      rewrite Hns'. apply in_or_app. left. apply in_map. apply in_seq. lia.
  - cbn [g_nodes set_edges build]. rewrite Hbn'. intros nd Hin. apply in_map_iff in Hin. destruct Hin as [x [<- Hx]].
    rewrite Hns' in Hx. apply in_app_or in Hx. destruct Hx as [Hx|Hx].
    + apply in_map_iff in Hx. destruct Hx as [j [<- Hj]]. apply in_seq in Hj. apply in_or_app.
      destruct (Nat.lt_ge_cases tr j).
      * right. rewrite <- Hpl by lia. apply (in_map (fun j => plain (NTransit j))). apply in_seq. lia.
      * left. rewrite build_nodes_names. apply in_map. rewrite Hns. apply in_or_app. left. apply in_map. apply in_seq. lia.
    + apply in_or_app. left. rewrite build_nodes_names. apply in_map. rewrite Hns. apply in_or_app. right. exact Hx.
  - cbn [g_nodes set_edges build]. rewrite Hbn', build_nodes_names, app_length, !map_length, Hns, Hns', !app_length, !map_length, !seq_length. lia.
  - cbn [g_edges set_edges build]. rewrite HE'. unfold Efil. rewrite !app_length, !map_length, !seq_length, length_add_edges. cbn [length]. lia.
  - intros e Hin. cbn [g_edges set_edges] in Hin. cbn [g_edges build]. apply Hchar. exact Hin.
  - intros e' Hin. exists e'. split; [|reflexivity]. cbn [g_edges set_edges]. cbn [g_edges build] in Hin. apply Hchar. exact Hin.
  - intro e. split; reflexivity.
  - intros e _. apply edge_shape_refl.
  - cbn [g_edges build]. rewrite build_edges_with. apply key_unique_edges_with; reflexivity.
  - intros a b _ _. reflexivity.
  - reflexivity.
Qed.
