(* PV.C08.ProofsRefine — the graph part of the setters refines the closed form `step` for EVERY transit
   and peripheral count (no bounded closure): infrastructure and the elimination / lag-time /
   bioavailability setters. *)
From Coq Require Import List Bool Arith NArith Lia.
From PV Require Import Base.PyData C08.Model C08.ProofsGraph.
Import ListNotations.
Local Open Scope nat_scope.

(* ------------------------------------------------------------------ reflexivity of the comparisons *)
Lemma dose_eqb_refl d : dose_eqb d d = true.
Proof. unfold dose_eqb. rewrite !eqb_reflx, Nat.eqb_refl. reflexivity. Qed.
Lemma doses_eqb_refl l : list_eqb dose_eqb l l = true.
Proof. induction l as [|d l IH]; cbn; [reflexivity|]. rewrite dose_eqb_refl, IH. reflexivity. Qed.
Lemma node_eqb_refl nd : node_eqb nd nd = true.
Proof. unfold node_eqb. rewrite name_eqb_refl, doses_eqb_refl, !eqb_reflx. reflexivity. Qed.
Lemma dose_eqb_eq a b : dose_eqb a b = true -> a = b.
Proof.
  destruct a as [z1 i1 a1], b as [z2 i2 a2]. unfold dose_eqb. cbn. intro H.
  apply andb_true_iff in H. destruct H as [H H3]. apply andb_true_iff in H. destruct H as [H1 H2].
  apply eqb_prop in H1. apply eqb_prop in H2. apply Nat.eqb_eq in H3. subst. reflexivity.
Qed.
Lemma doses_eqb_eq a : forall b, list_eqb dose_eqb a b = true -> a = b.
Proof.
  induction a as [|x a IH]; destruct b as [|y b]; cbn; try discriminate; auto. intro H.
  apply andb_true_iff in H. destruct H as [H1 H2]. apply dose_eqb_eq in H1. subst. f_equal. auto.
Qed.
Lemma node_eqb_eq a b : node_eqb a b = true -> a = b.
Proof.
  destruct a as [n1 d1 l1 b1], b as [n2 d2 l2 b2]. unfold node_eqb. cbn. intro H.
  apply andb_true_iff in H. destruct H as [H H4]. apply andb_true_iff in H. destruct H as [H H3].
  apply andb_true_iff in H. destruct H as [H1 H2].
  apply name_eqb_eq in H1. apply doses_eqb_eq in H2. apply eqb_prop in H3. apply eqb_prop in H4. subst. reflexivity.
Qed.
Lemma node_mem_In nd l : In nd l -> node_mem nd l = true.
Proof. intro H. unfold node_mem. apply existsb_exists. exists nd. split; [exact H | apply node_eqb_refl]. Qed.
Lemma edge_shape_refl e : edge_shape_eqb e e = true.
Proof. unfold edge_shape_eqb. rewrite !name_eqb_refl, !eqb_reflx. reflexivity. Qed.

(* ------------------------------------------------------------------ rate classes through a relabelling of the edges *)
Definition key_unique (l : list edge) : Prop :=
  forall e e', In e l -> In e' l -> is_edge (e_src e) (e_dst e) e' = true -> e' = e.

Lemma rid_of_unique l e : key_unique l -> In e l -> rid_of l (e_src e) (e_dst e) = Some (e_rid e).
Proof.
  intros HU Hin. unfold rid_of.
  assert (H : forall l0, (forall x, In x l0 -> In x l) -> In e l0 ->
                         find (is_edge (e_src e) (e_dst e)) l0 = Some e).
  { induction l0 as [|x l0 IH]; intros Hs Hi; [contradiction|]. cbn.
    destruct (is_edge (e_src e) (e_dst e) x) eqn:E.
    - f_equal. apply (HU e x); auto. apply Hs. left. reflexivity.
    - destruct Hi as [->|Hi].
      + unfold is_edge in E. rewrite !name_eqb_refl in E. discriminate.
      + apply IH; auto. intros y Hy. apply Hs. right. exact Hy. }
  rewrite (H l); auto.
Qed.

Definition keeps_key (f : edge -> edge) : Prop :=
  forall e, e_src (f e) = e_src e /\ e_dst (f e) = e_dst e.

(* g2 is g1 with the same nodes (as a list) and the edges relabelled by f *)
Lemma geqb_map_edges g1 g2 (f : edge -> edge) :
  (forall nd, In nd (g_nodes g1) -> In nd (g_nodes g2)) ->
  (forall nd, In nd (g_nodes g2) -> In nd (g_nodes g1)) ->
  length (g_nodes g1) = length (g_nodes g2) ->
  g_edges g2 = map f (g_edges g1) ->
  keeps_key f ->
  (forall e, In e (g_edges g1) -> edge_shape_eqb e (f e) = true) ->
  key_unique (g_edges g2) ->
  (forall a b, In a (g_edges g1) -> In b (g_edges g1) ->
               (e_rid a = e_rid b <-> e_rid (f a) = e_rid (f b))) ->
  g_kmfix g1 = g_kmfix g2 ->
  geqb g1 g2 = true.
Proof.
  intros Hn12 Hn21 Hlen He Hk Hs Hu Hp Hkm. unfold geqb.
  rewrite Hlen, Nat.eqb_refl, He, map_length, Nat.eqb_refl, Hkm, eqb_reflx. cbn [andb].
  assert (A1 : forallb (fun nd => node_mem nd (g_nodes g2)) (g_nodes g1) = true).
  { apply forallb_forall. intros nd H. apply node_mem_In. auto. }
  assert (A2 : forallb (fun nd => node_mem nd (g_nodes g1)) (g_nodes g2) = true).
  { apply forallb_forall. intros nd H. apply node_mem_In. auto. }
  assert (A3 : forallb (fun e => edge_mem e (map f (g_edges g1))) (g_edges g1) = true).
  { apply forallb_forall. intros e H. unfold edge_mem. apply existsb_exists. exists (f e).
    split; [apply in_map; exact H | apply Hs; exact H]. }
  assert (A4 : forallb (fun e => edge_mem e (g_edges g1)) (map f (g_edges g1)) = true).
  { apply forallb_forall. intros e' H. apply in_map_iff in H. destruct H as [e [<- H]].
    unfold edge_mem. apply existsb_exists. exists e. split; [exact H|].
    pose proof (Hs e H) as S. unfold edge_shape_eqb in *.
    rewrite (name_eqb_sym (e_src (f e))), (name_eqb_sym (e_dst (f e))).
    destruct (name_eqb (e_src e) (e_src (f e))); [|discriminate].
    destruct (name_eqb (e_dst e) (e_dst (f e))); [|discriminate]. cbn [andb] in *.
    destruct (e_nonlin e), (e_nonlin (f e)), (e_cl e), (e_cl (f e)); cbn in *; congruence. }
  rewrite A1, A2, A3, A4. cbn [andb]. rewrite andb_true_r.
  unfold same_partition. cbv zeta.
  apply forallb_forall. intros p Hp1. apply forallb_forall. intros q Hq1.
  apply in_map_iff in Hp1. destruct Hp1 as [a [<- Ha]].
  apply in_map_iff in Hq1. destruct Hq1 as [b [<- Hb]]. cbn [fst snd].
  rewrite He in Hu.
  destruct (Hk a) as [Ka1 Ka2]. destruct (Hk b) as [Kb1 Kb2].
  rewrite <- Ka1, <- Ka2, <- Kb1, <- Kb2.
  rewrite (rid_of_unique _ (f a) Hu) by (apply in_map; exact Ha).
  rewrite (rid_of_unique _ (f b) Hu) by (apply in_map; exact Hb).
  cbn [onat_eqb]. specialize (Hp a b Ha Hb).
  destruct (Nat.eqb_spec (e_rid a) (e_rid b)) as [E|E]; destruct (Nat.eqb_spec (e_rid (f a)) (e_rid (f b))) as [E'|E'];
    try reflexivity; exfalso; tauto.
Qed.

(* ------------------------------------------------------------------ the edges of a skeleton graph *)
Definition edges_with (s : sk) (el : edge) : list edge :=
  map (tedge s) (seq 1 (s_transits s)) ++ (if s_depot s then [dedge] else []) ++ [el]
  ++ map pedge1 (seq 1 (s_periph s)) ++ map pedge2 (seq 1 (s_periph s)).

Lemma build_edges_with s : build_edges s = edges_with s (eledge s).
Proof. reflexivity. Qed.

Inductive edge_kind (s : sk) (el e : edge) : Prop :=
| EKt k : 1 <= k <= s_transits s -> e = tedge s k -> edge_kind s el e
| EKd : s_depot s = true -> e = dedge -> edge_kind s el e
| EKe : e = el -> edge_kind s el e
| EKp1 j : 1 <= j <= s_periph s -> e = pedge1 j -> edge_kind s el e
| EKp2 j : 1 <= j <= s_periph s -> e = pedge2 j -> edge_kind s el e.

Lemma in_edges_with s el e : In e (edges_with s el) -> edge_kind s el e.
Proof.
  unfold edges_with. rewrite !in_app_iff. intros [H|[H|[H|[H|H]]]].
  - apply in_map_iff in H. destruct H as [k [<- H]]. apply in_seq in H. apply (EKt s el _ k); [lia|reflexivity].
  - destruct (s_depot s) eqn:E; [|contradiction]. destruct H as [<-|[]]. apply EKd; auto.
  - destruct H as [<-|[]]. apply EKe. reflexivity.
  - apply in_map_iff in H. destruct H as [j [<- H]]. apply in_seq in H. apply (EKp1 s el _ j); [lia|reflexivity].
  - apply in_map_iff in H. destruct H as [j [<- H]]. apply in_seq in H. apply (EKp2 s el _ j); [lia|reflexivity].
Qed.

Lemma chain_next_not_output s k : chain_next s k <> NOutput.
Proof. destruct (chain_next_cases s k) as [[_ E]|[[_ [_ E]]|[_ [_ E]]]]; rewrite E; discriminate. Qed.

Lemma key_unique_edges_with s el :
  e_src el = NCentral -> e_dst el = NOutput -> key_unique (edges_with s el).
Proof.
  intros Hs Hd e e' He He' H.
  apply in_edges_with in He. apply in_edges_with in He'.
  unfold is_edge in H. apply andb_true_iff in H. destruct H as [H1 H2].
  apply name_eqb_eq in H1. apply name_eqb_eq in H2.
  destruct He as [k Hk ->| _ ->| -> |j Hj ->|j Hj ->];
    destruct He' as [k' Hk' ->| _ ->| -> |j' Hj' ->|j' Hj' ->];
    cbn [tedge dedge pedge1 pedge2 e_src e_dst] in H1, H2; rewrite ?Hs, ?Hd in *;
    try discriminate; try reflexivity;
    try (injection H1 as ->; reflexivity);
    try (injection H2 as ->; reflexivity).
Qed.

Lemma fold_max_ge l : forall a x, (x <= a \/ In x l) -> x <= fold_left Nat.max l a.
Proof.
  induction l as [|y l IH]; intros a x H; cbn.
  - destruct H as [H|[]]. exact H.
  - apply IH. destruct H as [H|[->|H]]; [left; lia | left; lia | right; exact H].
Qed.
Lemma fresh_gt g e : In e (g_edges g) -> e_rid e < fresh g.
Proof. intro H. unfold fresh. apply Nat.lt_succ_r. apply fold_max_ge. right. apply in_map. exact H. Qed.

Definition is_el (e : edge) : bool := is_edge NCentral NOutput e.

Lemma is_el_kind s el e : e_src el = NCentral -> e_dst el = NOutput ->
  edge_kind s el e -> is_el e = true -> e = el.
Proof.
  intros Hs Hd K H. unfold is_el, is_edge in H. apply andb_true_iff in H. destruct H as [H1 H2].
  apply name_eqb_eq in H1. apply name_eqb_eq in H2.
  destruct K as [k Hk ->| _ ->| -> |j Hj ->|j Hj ->]; cbn in H1, H2; try discriminate; reflexivity.
Qed.

(* replacing the elimination edge of edges_with *)
Lemma map_repl_edges_with s el (g : edge -> edge) :
  e_src el = NCentral -> e_dst el = NOutput -> (forall e, is_el e = false -> g e = e) ->
  map g (edges_with s el) = edges_with s (g el).
Proof.
  intros Hs Hd Hg. unfold edges_with. rewrite !map_app. cbn [map].
  assert (T : map g (map (tedge s) (seq 1 (s_transits s))) = map (tedge s) (seq 1 (s_transits s))).
  { rewrite map_map. apply map_ext. intro k. apply Hg. reflexivity. }
  assert (P1 : map g (map pedge1 (seq 1 (s_periph s))) = map pedge1 (seq 1 (s_periph s))).
  { rewrite map_map. apply map_ext. intro k. apply Hg. reflexivity. }
  assert (P2 : map g (map pedge2 (seq 1 (s_periph s))) = map pedge2 (seq 1 (s_periph s))).
  { rewrite map_map. apply map_ext. intro k. apply Hg. reflexivity. }
  rewrite T, P1, P2. destruct (s_depot s); cbn [map]; [rewrite (Hg dedge) by reflexivity|]; reflexivity.
Qed.

Lemma rid_kind_other s el e : edge_kind s el e -> e <> el ->
  e_rid e = 1 \/ e_rid e = 2 \/ 4 <= e_rid e.
Proof.
  intros K N. destruct K as [k Hk ->| _ ->| -> |j Hj ->|j Hj ->]; cbn; try (right; right; lia); auto.
  contradiction.
Qed.

(* two skeleton-shaped graphs that differ in the elimination edge only (same shape, each elimination
   rate in a class of its own) and agree on POP_KM are equivalent *)
Lemma geqb_elim_edge s s' el el' km (a1 a2 a3 a4 b1 b2 b3 b4 : bool) :
  build_nodes s' = build_nodes s -> s_transits s' = s_transits s -> s_periph s' = s_periph s ->
  s_depot s' = s_depot s -> (forall k, chain_next s' k = chain_next s k) ->
  e_src el = NCentral -> e_dst el = NOutput -> e_src el' = NCentral -> e_dst el' = NOutput ->
  edge_shape_eqb el el' = true ->
  (e_rid el = 3 \/ 3 < e_rid el /\ forall e, In e (edges_with s el) -> e <> el -> e_rid e < e_rid el) ->
  e_rid el' = 3 ->
  geqb (mkGraph (build_nodes s) (edges_with s el) km a1 a2 a3 a4)
       (mkGraph (build_nodes s') (edges_with s' el') km b1 b2 b3 b4) = true.
Proof.
  intros Hn Ht Hp Hdp Hc Hs Hd Hs' Hd' Hsh Hr Hr'.
  set (f := fun e => if is_el e then el' else e).
  assert (Hew : edges_with s' el' = map f (edges_with s el)).
  { rewrite (map_repl_edges_with s el f Hs Hd).
    - unfold f at 1. unfold is_el, is_edge. rewrite Hs, Hd. cbn.
      unfold edges_with. rewrite Ht, Hp, Hdp. f_equal. apply map_ext. intro k. unfold tedge. rewrite Hc. reflexivity.
    - intros e E. unfold f. rewrite E. reflexivity. }
  apply (geqb_map_edges _ _ f); cbn [g_nodes g_edges g_kmfix].
  - rewrite Hn. auto.
  - rewrite Hn. auto.
  - rewrite Hn. reflexivity.
  - exact Hew.
  - intro e. unfold f. destruct (is_el e) eqn:E; [|auto].
    unfold is_el, is_edge in E. apply andb_true_iff in E. destruct E as [E1 E2].
    apply name_eqb_eq in E1. apply name_eqb_eq in E2. rewrite Hs', Hd'. auto.
  - intros e He. unfold f. destruct (is_el e) eqn:E; [|apply edge_shape_refl].
    rewrite (is_el_kind s el e Hs Hd (in_edges_with _ _ _ He) E). exact Hsh.
  - apply key_unique_edges_with; assumption.
  - intros a b Ha Hb. unfold f.
    pose proof (in_edges_with _ _ _ Ha) as Ka. pose proof (in_edges_with _ _ _ Hb) as Kb.
    destruct (is_el a) eqn:Ea; destruct (is_el b) eqn:Eb.
    + rewrite (is_el_kind s el a Hs Hd Ka Ea), (is_el_kind s el b Hs Hd Kb Eb). tauto.
    + rewrite (is_el_kind s el a Hs Hd Ka Ea).
      assert (Nb : b <> el). { intro; subst b. unfold is_el, is_edge in Eb. rewrite Hs, Hd in Eb. discriminate. }
      pose proof (rid_kind_other s el b Kb Nb) as Rb. rewrite Hr'.
      destruct Hr as [Hr|[Hr1 Hr2]]; [rewrite Hr; lia|]. specialize (Hr2 b Hb Nb). lia.
    + rewrite (is_el_kind s el b Hs Hd Kb Eb).
      assert (Na : a <> el). { intro; subst a. unfold is_el, is_edge in Ea. rewrite Hs, Hd in Ea. discriminate. }
      pose proof (rid_kind_other s el a Ka Na) as Ra. rewrite Hr'.
      destruct Hr as [Hr|[Hr1 Hr2]]; [rewrite Hr; lia|]. specialize (Hr2 a Ha Na). lia.
    + tauto.
  - reflexivity.
Qed.

Lemma in_edges_with_other s el el2 e : In e (edges_with s el) -> e <> el -> In e (edges_with s el2).
Proof.
  unfold edges_with. rewrite !in_app_iff. intros [H|[H|[H|[H|H]]]] N; auto.
  destruct H as [<-|[]]. contradiction.
Qed.

Lemma with_el_nodes s e : build_nodes (with_el s e) = build_nodes s.
Proof. reflexivity. Qed.

(* the shape every elimination setter produces: the elimination edge replaced, POP_KM (un)fixed *)
Lemma geqb_elim_result s el km e' :
  e_src el = NCentral -> e_dst el = NOutput ->
  edge_shape_eqb el (eledge (with_el s e')) = true ->
  (e_rid el = 3 \/ 3 < e_rid el /\ forall e, In e (edges_with s el) -> e <> el -> e_rid e < e_rid el) ->
  km = snd (elim_flags e') ->
  geqb (mkGraph (build_nodes s) (edges_with s el) km (s_mat s) (s_popmdt s) (s_krates s) (s_elq s))
       (build (with_el s e')) = true.
Proof.
  intros Hs Hd Hsh Hr Hkm. subst km.
  change (build (with_el s e')) with
    (mkGraph (build_nodes (with_el s e')) (edges_with (with_el s e') (eledge (with_el s e')))
             (snd (elim_flags e')) (s_mat s) (s_popmdt s) (s_krates s) (s_elq s)).
  apply geqb_elim_edge; try reflexivity; assumption.
Qed.

Lemma add_flow_elim s r nl cl :
  add_flow (build s) NCentral NOutput r nl cl
  = mkGraph (build_nodes s) (edges_with s (mkEdge NCentral NOutput r nl cl))
            (g_kmfix (build s)) (s_mat s) (s_popmdt s) (s_krates s) (s_elq s).
Proof.
  unfold add_flow. rewrite has_edge_build. cbn [edge_spec]. unfold set_edges. cbn [g_nodes g_edges g_kmfix g_mat g_popmdt g_krates g_elq build].
  f_equal. rewrite build_edges_with.
  rewrite (map_repl_edges_with s (eledge s)); try reflexivity.
  intros e E. unfold is_el in E. rewrite E. reflexivity.
Qed.

Lemma set_elim_build s nl cl km :
  set_elim (build s) nl cl km true
  = Ok (mkGraph (build_nodes s) (edges_with s (mkEdge NCentral NOutput (fresh (build s)) nl cl))
                km (s_mat s) (s_popmdt s) (s_krates s) (s_elq s)).
Proof.
  unfold set_elim. rewrite central_build, n_name_cnode.
  pose proof (elim_edge_build s) as E. unfold elim_edge in E. rewrite central_build, n_name_cnode in E. rewrite E.
  rewrite add_flow_elim. reflexivity.
Qed.

Lemma fresh_cond s nl cl :
  let el := mkEdge NCentral NOutput (fresh (build s)) nl cl in
  e_rid el = 3 \/ 3 < e_rid el /\ forall e, In e (edges_with s el) -> e <> el -> e_rid e < e_rid el.
Proof.
  intro el. right. split.
  - apply (fresh_gt (build s) (eledge s)). cbn [g_edges build]. rewrite build_edges_with.
    unfold edges_with. rewrite !in_app_iff. right. right. left. left. reflexivity.
  - intros e He Ne. apply (fresh_gt (build s) e). cbn [g_edges build]. rewrite build_edges_with.
    apply (in_edges_with_other s el); assumption.
Qed.

Lemma elim_flags_build s :
  el_nonlin (build s) = fst (fst (elim_flags (s_elim s))) /\ el_cl (build s) = snd (fst (elim_flags (s_elim s)))
  /\ g_kmfix (build s) = snd (elim_flags (s_elim s)).
Proof. unfold el_nonlin, el_cl. rewrite elim_edge_build. repeat split. Qed.

Definition is_elim_req (f : req) : bool := match f with ElFO | ElZO | ElMM | ElMix => true | _ => false end.

Theorem refines_elim f s : is_elim_req f = true -> refines f s = true.
Proof.
  intro Hf. unfold refines.
  destruct (elim_flags_build s) as [F1 [F2 F3]].
  assert (Same : forall km, km = snd (elim_flags (s_elim s)) ->
            geqb (mkGraph (build_nodes s) (edges_with s (eledge s)) km (s_mat s) (s_popmdt s) (s_krates s) (s_elq s))
                 (build (with_el s (s_elim s))) = true).
  { intros km Hk. apply geqb_elim_result; try reflexivity; [apply edge_shape_refl | left; reflexivity | exact Hk]. }
  destruct f; try discriminate Hf; cbn [step setter_graph];
    unfold set_first_order_elimination, set_zero_order_elimination, set_michaelis_menten_elimination,
      set_mixed_mm_fo_elimination, has_first_order_elimination, has_zero_order_elimination,
      has_michaelis_menten_elimination, has_mixed_mm_fo_elimination;
    rewrite ?F1, ?F2, ?F3; rewrite ?set_elim_build;
    destruct (s_elim s) eqn:El; cbn [elim_flags fst snd negb andb orb];
    rewrite ?set_elim_build;
    try (apply geqb_elim_result; try reflexivity; [apply fresh_cond]);
    try (unfold set_kmfix; cbn [g_nodes g_edges g_mat g_popmdt g_krates g_elq build];
         rewrite ?build_edges_with;
         apply geqb_elim_result; try reflexivity; try (left; reflexivity); rewrite ?El; reflexivity).
  - unfold set_kmfix. cbn [g_nodes g_edges g_mat g_popmdt g_krates g_elq build]. rewrite build_edges_with.
    apply geqb_elim_result; try reflexivity; [|left; reflexivity].
    unfold edge_shape_eqb, eledge. cbn [e_src e_dst e_nonlin e_cl with_el s_elim name_eqb]. rewrite El. reflexivity.
  - unfold set_kmfix. cbn [g_nodes g_edges g_mat g_popmdt g_krates g_elq build]. rewrite build_edges_with.
    apply geqb_elim_result; try reflexivity; [|left; reflexivity].
    unfold edge_shape_eqb, eledge. cbn [e_src e_dst e_nonlin e_cl with_el s_elim name_eqb]. rewrite El. reflexivity.
Qed.

(* ------------------------------------------------------------------ the nodes of a skeleton graph *)
Definition names (s : sk) : list name :=
  map NTransit (seq 1 (s_transits s)) ++ (if s_depot s then [NDepot] else []) ++ [NCentral]
  ++ map NPeriph (seq 1 (s_periph s)).

Lemma periph_not_first s j : name_eqb (NPeriph j) (first_name s) = false.
Proof. destruct (first_name_cases s) as [[_ [_ ->]]|[[_ [_ ->]]|[_ ->]]]; reflexivity. Qed.

Lemma build_nodes_names s : build_nodes s = map (mk_node s) (names s).
Proof.
  unfold build_nodes, names. rewrite !map_app, !map_map. f_equal. f_equal; [destruct (s_depot s); reflexivity|].
  cbn [map app]. f_equal. apply map_ext. intro j. unfold mk_node. rewrite periph_not_first. reflexivity.
Qed.

Lemma drop_named_map s x l :
  drop_named x (map (mk_node s) l) = map (mk_node s) (filter (fun y => negb (name_eqb y x)) l).
Proof.
  unfold drop_named. induction l as [|y l IH]; [reflexivity|]. cbn [map filter]. rewrite n_name_mk_node.
  destruct (negb (name_eqb y x)); cbn [map]; rewrite IH; reflexivity.
Qed.

Lemma first_in_names s : In (first_name s) (names s).
Proof.
  unfold names. destruct (first_name_cases s) as [[H0 [Hd ->]]|[[H0 [Hd ->]]|[H1 ->]]].
  - rewrite Hd. apply in_or_app. right. left. reflexivity.
  - rewrite Hd. apply in_or_app. right. left. reflexivity.
  - apply in_or_app. left. apply in_map. apply in_seq. lia.
Qed.

Lemma filter_all {A} (P : A -> bool) l : (forall x, In x l -> P x = true) -> filter P l = l.
Proof. induction l as [|x l IH]; intro H; cbn; [reflexivity|]. rewrite (H x) by (left; reflexivity). f_equal. apply IH. intros y Hy. apply H. right. exact Hy. Qed.

Lemma names_without_first s :
  S (length (filter (fun y => negb (name_eqb y (first_name s))) (names s))) = length (names s).
Proof.
  unfold names. rewrite !filter_app, !app_length.
  assert (P : filter (fun y => negb (name_eqb y (first_name s))) (map NPeriph (seq 1 (s_periph s))) = map NPeriph (seq 1 (s_periph s))).
  { apply filter_all. intros x Hx. apply in_map_iff in Hx. destruct Hx as [j [<- _]]. rewrite periph_not_first. reflexivity. }
  rewrite P.
  destruct (first_name_cases s) as [[H0 [Hd E]]|[[H0 [Hd E]]|[H1 E]]]; rewrite E.
  - rewrite H0, Hd. cbn. lia.
  - rewrite H0, Hd. cbn. lia.
  - assert (T : filter (fun y => negb (name_eqb y (NTransit 1))) (map NTransit (seq 1 (s_transits s)))
                = map NTransit (seq 2 (s_transits s - 1))).
    { destruct (s_transits s) as [|n']; [lia|]. cbn [seq map filter name_eqb Nat.eqb negb]. rewrite ?Nat.sub_0_r.
      replace (S n' - 1) with n' by lia.
      apply filter_all. intros x Hx. apply in_map_iff in Hx. destruct Hx as [k [<- Hk]]. apply in_seq in Hk.
      cbn [name_eqb]. destruct (Nat.eqb_spec k 1); [lia|reflexivity]. }
    rewrite T, !map_length, !seq_length. destruct (s_depot s); cbn; lia.
Qed.

(* relabelling the dosing compartment of build s (lag time / bioavailability changed) gives build s' *)
Lemma geqb_relabel_first s s' new :
  names s' = names s -> first_name s' = first_name s -> build_edges s' = build_edges s ->
  g_kmfix (build s') = g_kmfix (build s) ->
  mk_node s' (first_name s) = new ->
  (forall x, name_eqb x (first_name s) = false -> mk_node s' x = mk_node s x) ->
  geqb (relabel (build s) (fnode s) new) (build s') = true.
Proof.
  intros Hn Hf He Hk Hnew Hoth.
  assert (Hin : node_in (build s) (fnode s) = true).
  { unfold node_in. apply existsb_exists. exists (fnode s). split; [|apply node_eqb_refl].
    cbn [g_nodes build]. rewrite build_nodes_names. unfold fnode. apply in_map. apply first_in_names. }
  assert (Nn : n_name new = first_name s) by (rewrite <- Hnew; apply n_name_mk_node).
  unfold relabel. rewrite Hin.
  destruct (node_eqb (fnode s) new) eqn:Eq.
  - (* nothing changes *)
    assert (E : new = fnode s) by (symmetry; apply node_eqb_eq; exact Eq).
    apply (geqb_map_edges _ _ (fun e => e)); cbn [g_nodes g_edges g_kmfix build].
    + intros nd H. rewrite build_nodes_names in *. rewrite Hn. apply in_map_iff in H. destruct H as [x [<- Hx]].
      apply in_map_iff. exists x. split; [|exact Hx].
      destruct (name_eqb x (first_name s)) eqn:Ex; [|apply Hoth; exact Ex].
      apply name_eqb_eq in Ex. subst x. rewrite Hnew, E. reflexivity.
    + intros nd H. rewrite build_nodes_names in *. rewrite Hn in H. apply in_map_iff in H. destruct H as [x [<- Hx]].
      apply in_map_iff. exists x. split; [|exact Hx].
      destruct (name_eqb x (first_name s)) eqn:Ex; [|symmetry; apply Hoth; exact Ex].
      apply name_eqb_eq in Ex. subst x. rewrite Hnew, E. reflexivity.
    + rewrite !build_nodes_names, !map_length, Hn. reflexivity.
    + rewrite He, map_id. reflexivity.
    + intro e. auto.
    + intros e _. apply edge_shape_refl.
    + rewrite He, build_edges_with. apply key_unique_edges_with; reflexivity.
    + tauto.
    + symmetry. exact Hk.
  - apply (geqb_map_edges _ _ (fun e => e)); unfold set_nodes; cbn [g_nodes g_edges g_kmfix build].
    + intros nd H. apply in_app_or in H. rewrite !build_nodes_names in *. rewrite Hn.
      destruct H as [H|[<-|[]]].
      * unfold fnode in H. rewrite n_name_mk_node, drop_named_map in H.
        apply in_map_iff in H. destruct H as [x [<- Hx]]. apply filter_In in Hx. destruct Hx as [Hx Hne].
        apply negb_true_iff in Hne. apply in_map_iff. exists x. split; [apply Hoth; exact Hne | exact Hx].
      * apply in_map_iff. exists (first_name s). split; [exact Hnew | apply first_in_names].
    + intros nd H. rewrite !build_nodes_names in *. rewrite Hn in H. apply in_map_iff in H. destruct H as [x [<- Hx]].
      apply in_or_app. destruct (name_eqb x (first_name s)) eqn:Ex.
      * right. left. apply name_eqb_eq in Ex. subst x. symmetry. exact Hnew.
      * left. unfold fnode. rewrite n_name_mk_node, drop_named_map. apply in_map_iff. exists x.
        split; [symmetry; apply Hoth; exact Ex|]. apply filter_In. split; [exact Hx|]. rewrite Ex. reflexivity.
    + rewrite app_length, !build_nodes_names. unfold fnode. rewrite n_name_mk_node, drop_named_map, !map_length, Hn.
      cbn [length]. rewrite Nat.add_1_r. apply names_without_first.
    + rewrite He, map_id. reflexivity.
    + intro e. auto.
    + intros e _. apply edge_shape_refl.
    + rewrite He, build_edges_with. apply key_unique_edges_with; reflexivity.
    + tauto.
    + symmetry. exact Hk.
Qed.

Lemma relabel_id g nd : relabel g nd nd = g.
Proof. unfold relabel. rewrite node_eqb_refl. destruct (node_in g nd); reflexivity. Qed.

Lemma mk_node_first s : mk_node s (first_name s) = mkNode (first_name s) [the_dose s] (s_lag s) (s_bio s).
Proof. unfold mk_node. rewrite name_eqb_refl. reflexivity. Qed.

Lemma geqb_lag s b : geqb (relabel (build s) (fnode s) (with_lag (fnode s) b)) (build (with_lagb s b)) = true.
Proof.
  apply geqb_relabel_first; try reflexivity.
  - unfold fnode, mk_node. change (first_name (with_lagb s b)) with (first_name s). rewrite name_eqb_refl. reflexivity.
  - intros x Hx. unfold mk_node. change (first_name (with_lagb s b)) with (first_name s). rewrite Hx. reflexivity.
Qed.
Lemma geqb_bio s b : geqb (relabel (build s) (fnode s) (with_bio (fnode s) b)) (build (with_biob s b)) = true.
Proof.
  apply geqb_relabel_first; try reflexivity.
  - unfold fnode, mk_node. change (first_name (with_biob s b)) with (first_name s). rewrite name_eqb_refl. reflexivity.
  - intros x Hx. unfold mk_node. change (first_name (with_biob s b)) with (first_name s). rewrite Hx. reflexivity.
Qed.

Definition is_label_req (f : req) : bool := match f with LagOn | LagOff | BioOn | BioOff => true | _ => false end.

Theorem refines_label f s : is_label_req f = true -> refines f s = true.
Proof.
  intro Hf. unfold refines.
  destruct f; try discriminate Hf; cbn [step setter_graph];
    unfold add_lag_time, remove_lag_time, add_bioavailability, remove_bioavailability, set_lag_time, set_bioavailability;
    rewrite dosing0_build; cbn [opt_res bind fst].
  - apply geqb_lag.
  - rewrite fnode_lag. destruct (s_lag s) eqn:E; [apply geqb_lag|].
    rewrite <- (relabel_id (build s) (fnode s)) at 1.
    replace (fnode s) with (with_lag (fnode s) false) at 2; [apply geqb_lag|].
    unfold fnode, with_lag. rewrite mk_node_first. cbn. rewrite E. reflexivity.
  - rewrite fnode_bio. destruct (s_bio s) eqn:E; [|apply geqb_bio].
    rewrite <- (relabel_id (build s) (fnode s)) at 1.
    replace (fnode s) with (with_bio (fnode s) true) at 2; [apply geqb_bio|].
    unfold fnode, with_bio. rewrite mk_node_first. cbn. rewrite E. reflexivity.
  - apply geqb_bio.
Qed.

(* ------------------------------------------------------------------ edges up to order *)
Lemma geqb_perm_edges g1 g2 (f : edge -> edge) :
  (forall nd, In nd (g_nodes g1) -> In nd (g_nodes g2)) ->
  (forall nd, In nd (g_nodes g2) -> In nd (g_nodes g1)) ->
  length (g_nodes g1) = length (g_nodes g2) ->
  length (g_edges g1) = length (g_edges g2) ->
  (forall e, In e (g_edges g1) -> In (f e) (g_edges g2)) ->
  (forall e', In e' (g_edges g2) -> exists e, In e (g_edges g1) /\ f e = e') ->
  keeps_key f ->
  (forall e, In e (g_edges g1) -> edge_shape_eqb e (f e) = true) ->
  key_unique (g_edges g2) ->
  (forall a b, In a (g_edges g1) -> In b (g_edges g1) ->
               (e_rid a = e_rid b <-> e_rid (f a) = e_rid (f b))) ->
  g_kmfix g1 = g_kmfix g2 ->
  geqb g1 g2 = true.
Proof.
  intros Hn12 Hn21 Hlen Hel Hin Hsur Hk Hs Hu Hp Hkm. unfold geqb.
  rewrite Hlen, Nat.eqb_refl, Hel, Nat.eqb_refl, Hkm, eqb_reflx. cbn [andb].
  assert (A1 : forallb (fun nd => node_mem nd (g_nodes g2)) (g_nodes g1) = true).
  { apply forallb_forall. intros nd H. apply node_mem_In. auto. }
  assert (A2 : forallb (fun nd => node_mem nd (g_nodes g1)) (g_nodes g2) = true).
  { apply forallb_forall. intros nd H. apply node_mem_In. auto. }
  assert (Sym : forall e, In e (g_edges g1) -> edge_shape_eqb (f e) e = true).
  { intros e H. pose proof (Hs e H) as S. unfold edge_shape_eqb in *.
    rewrite (name_eqb_sym (e_src (f e))), (name_eqb_sym (e_dst (f e))).
    destruct (name_eqb (e_src e) (e_src (f e))); [|discriminate].
    destruct (name_eqb (e_dst e) (e_dst (f e))); [|discriminate]. cbn [andb] in *.
    destruct (e_nonlin e), (e_nonlin (f e)), (e_cl e), (e_cl (f e)); cbn in *; congruence. }
  assert (A3 : forallb (fun e => edge_mem e (g_edges g2)) (g_edges g1) = true).
  { apply forallb_forall. intros e H. unfold edge_mem. apply existsb_exists. exists (f e). split; [apply Hin; exact H | apply Hs; exact H]. }
  assert (A4 : forallb (fun e => edge_mem e (g_edges g1)) (g_edges g2) = true).
  { apply forallb_forall. intros e' H. destruct (Hsur e' H) as [e [He <-]].
    unfold edge_mem. apply existsb_exists. exists e. split; [exact He | apply Sym; exact He]. }
  rewrite A1, A2, A3, A4. cbn [andb]. rewrite andb_true_r.
  unfold same_partition. cbv zeta.
  apply forallb_forall. intros p Hp1. apply forallb_forall. intros q Hq1.
  apply in_map_iff in Hp1. destruct Hp1 as [a [<- Ha]].
  apply in_map_iff in Hq1. destruct Hq1 as [b [<- Hb]]. cbn [fst snd].
  destruct (Hk a) as [Ka1 Ka2]. destruct (Hk b) as [Kb1 Kb2].
  rewrite <- Ka1, <- Ka2, <- Kb1, <- Kb2.
  rewrite (rid_of_unique _ (f a) Hu) by (apply Hin; exact Ha).
  rewrite (rid_of_unique _ (f b) Hu) by (apply Hin; exact Hb).
  cbn [onat_eqb]. specialize (Hp a b Ha Hb).
  destruct (Nat.eqb_spec (e_rid a) (e_rid b)) as [E|E]; destruct (Nat.eqb_spec (e_rid (f a)) (e_rid (f b))) as [E'|E'];
    try reflexivity; exfalso; tauto.
Qed.

Lemma edges_with_in s el e : edge_kind s el e -> In e (edges_with s el).
Proof.
  intro K. unfold edges_with. rewrite !in_app_iff.
  destruct K as [k Hk ->| Hd ->| -> |j Hj ->|j Hj ->].
  - left. apply in_map. apply in_seq. lia.
  - right. left. rewrite Hd. left. reflexivity.
  - right. right. left. left. reflexivity.
  - right. right. right. left. apply in_map. apply in_seq. lia.
  - right. right. right. right. apply in_map. apply in_seq. lia.
Qed.

Lemma rid_bound s e : edge_kind s (eledge s) e -> e_rid e <= 2 * s_periph s + 3.
Proof. intro K. destruct K as [k Hk ->| Hd ->| -> |j Hj ->|j Hj ->]; cbn; lia. Qed.

Lemma length_edges_with s el :
  length (edges_with s el) = s_transits s + (if s_depot s then 1 else 0) + 1 + s_periph s + s_periph s.
Proof. unfold edges_with. rewrite !app_length, !map_length, !seq_length. destruct (s_depot s); cbn; lia. Qed.

Lemma find_node_none s x : ~ In x (names s) -> find_node (build s) x = None.
Proof.
  intro H. unfold find_node. cbn [g_nodes build]. rewrite build_nodes_names.
  induction (names s) as [|y l IH]; [reflexivity|]. cbn [map find]. rewrite n_name_mk_node.
  destruct (name_eqb y x) eqn:E.
  - apply name_eqb_eq in E. subst. exfalso. apply H. left. reflexivity.
  - apply IH. intro Hx. apply H. right. exact Hx.
Qed.

Lemma new_periph_not_in_names s : ~ In (NPeriph (S (s_periph s))) (names s).
Proof.
  unfold names. rewrite !in_app_iff. intros [H|[H|[H|H]]].
  - apply in_map_iff in H. destruct H as [k [E _]]. discriminate.
  - destruct (s_depot s); [destruct H as [E|[]]; discriminate | contradiction].
  - destruct H as [E|[]]. discriminate.
  - apply in_map_iff in H. destruct H as [j [E Hj]]. injection E as ->. apply in_seq in Hj. lia.
Qed.

Lemma build_nodes_add_periph s :
  build_nodes (with_per s (S (s_periph s))) = build_nodes s ++ [plain (NPeriph (S (s_periph s)))].
Proof.
  unfold build_nodes. cbn [s_periph with_per s_transits s_depot]. rewrite seq_S, map_app. cbn [map].
  rewrite <- !app_assoc. reflexivity.
Qed.

Theorem refines_peradd s : refines PerAdd s = true.
Proof.
  unfold refines. cbn [step setter_graph]. unfold add_peripheral_compartment.
  rewrite central_build. cbn [opt_res bind]. rewrite find_peripherals_build, ?n_name_cnode.
  set (m := s_periph s). set (P := NPeriph (S m)).
  unfold add_compartment. cbn [plain n_name]. rewrite (find_node_none s P (new_periph_not_in_names s)). cbn [bind].
  set (g1 := set_nodes (build s) (g_nodes (build s) ++ [plain P])).
  assert (Eg1 : g_edges g1 = build_edges s) by reflexivity.
  assert (H1 : has_edge g1 NCentral P = false).
  { unfold has_edge. rewrite Eg1. change (existsb (is_edge NCentral P) (build_edges s)) with (has_edge (build s) NCentral P).
    rewrite has_edge_build. cbn [edge_spec]. subst m. apply andb_false_iff. right. apply Nat.leb_gt. lia. }
  set (r1 := fresh g1). set (e1 := mkEdge NCentral P r1 false false).
  assert (Eg2 : add_flow g1 NCentral P r1 false false = set_edges g1 (g_edges g1 ++ [e1])).
  { unfold add_flow. rewrite H1. reflexivity. }
  rewrite Eg2.
  set (g2 := set_edges g1 (g_edges g1 ++ [e1])).
  assert (H2 : has_edge g2 P NCentral = false).
  { unfold has_edge, g2. cbn [g_edges set_edges]. rewrite Eg1, existsb_app.
    change (existsb (is_edge P NCentral) (build_edges s)) with (has_edge (build s) P NCentral).
    rewrite has_edge_build. cbn [edge_spec existsb is_edge e_src e_dst name_eqb andb orb]. subst m.
    rewrite orb_false_r. apply andb_false_iff. right. apply Nat.leb_gt. lia. }
  unfold add_flow. rewrite H2.
  set (r2 := fresh g2). set (e2 := mkEdge P NCentral r2 false false).
  set (s' := with_per s (S m)).
  assert (Hr1 : forall e, In e (build_edges s) -> e_rid e < r1).
  { intros e He. apply (fresh_gt g1). rewrite Eg1. exact He. }
  assert (Hr2 : r1 < r2).
  { apply (fresh_gt g2 e1). unfold g2. cbn [g_edges set_edges]. apply in_or_app. right. left. reflexivity. }
  assert (Hr2' : forall e, In e (build_edges s) -> e_rid e < r2).
  { intros e He. apply (fresh_gt g2). unfold g2. cbn [g_edges set_edges]. rewrite Eg1. apply in_or_app. left. exact He. }
  set (f := fun e : edge => if is_edge NCentral P e then pedge1 (S m) else if is_edge P NCentral e then pedge2 (S m) else e).
  assert (Fold : forall e, edge_kind s (eledge s) e -> f e = e).
  { intros e K. unfold f.
    assert (A : is_edge NCentral P e = false /\ is_edge P NCentral e = false).
    { destruct K as [k Hk ->| Hd ->| -> |j Hj ->|j Hj ->]; unfold is_edge, P;
        cbn [tedge dedge eledge pedge1 pedge2 e_src e_dst name_eqb andb]; split;
        rewrite ?andb_false_r; try reflexivity;
        repeat match goal with |- context [Nat.eqb ?a ?b] => destruct (Nat.eqb_spec a b); try (subst m; lia) end;
        reflexivity. }
    destruct A as [-> ->]. reflexivity. }
  assert (F1 : f e1 = pedge1 (S m)).
  { unfold f, e1, is_edge. cbn [e_src e_dst]. rewrite !name_eqb_refl. reflexivity. }
  assert (F2 : f e2 = pedge2 (S m)).
  { unfold f, e2, is_edge, P. cbn [e_src e_dst name_eqb andb]. rewrite Nat.eqb_refl. reflexivity. }
  assert (Kup : forall e, edge_kind s (eledge s) e -> edge_kind s' (eledge s') e).
  { intros e K. destruct K as [k Hk ->| Hd ->| -> |j Hj ->|j Hj ->].
    - apply (EKt s' _ _ k); [exact Hk | reflexivity].
    - apply EKd; [exact Hd | reflexivity].
    - apply EKe. reflexivity.
    - apply (EKp1 s' _ _ j); [cbn; subst m; lia | reflexivity].
    - apply (EKp2 s' _ _ j); [cbn; subst m; lia | reflexivity]. }
  assert (InE : forall e, In e ((build_edges s ++ [e1]) ++ [e2]) <-> In e (build_edges s) \/ e1 = e \/ e2 = e).
  { intro e. rewrite !in_app_iff. cbn [In]. tauto. }
  assert (L : length (build_edges s') = length (build_edges s) + 2).
  { rewrite !build_edges_with, !length_edges_with. subst s' m. unfold with_per, s_depot. cbn [s_transits s_periph s_abs]. lia. }
  apply (geqb_perm_edges _ _ f); unfold g2, g1; cbn [g_nodes g_edges g_kmfix set_edges set_nodes build].
  - intros nd H. subst s' m P. rewrite build_nodes_add_periph. exact H.
  - intros nd H. subst s' m P. rewrite build_nodes_add_periph in H. exact H.
  - subst s' m P. rewrite build_nodes_add_periph. reflexivity.
  - rewrite !app_length, L. cbn [length]. lia.
  - intros e He. rewrite (build_edges_with s') . apply edges_with_in.
    apply InE in He. destruct He as [He|[<-|<-]].
    + rewrite build_edges_with in He. apply in_edges_with in He. rewrite (Fold e He). apply Kup. exact He.
    + rewrite F1. apply (EKp1 s' _ _ (S m)); [cbn; lia | reflexivity].
    + rewrite F2. apply (EKp2 s' _ _ (S m)); [cbn; lia | reflexivity].
  - intros e' He'. rewrite (build_edges_with s') in He'. apply in_edges_with in He'.
    destruct He' as [k Hk ->| Hd ->| -> |j Hj ->|j Hj ->].
    + exists (tedge s k). split; [|apply Fold; apply (EKt s _ _ k); [exact Hk|reflexivity]].
      apply InE. left. rewrite build_edges_with. apply edges_with_in. apply (EKt s _ _ k); [exact Hk|reflexivity].
    + exists dedge. split; [|apply Fold; apply EKd; [exact Hd|reflexivity]].
      apply InE. left. rewrite build_edges_with. apply edges_with_in. apply EKd; [exact Hd|reflexivity].
    + exists (eledge s). split; [|apply Fold; apply EKe; reflexivity].
      apply InE. left. rewrite build_edges_with. apply edges_with_in. apply EKe. reflexivity.
    + cbn in Hj. destruct (Nat.eq_dec j (S m)) as [->|Nj].
      * exists e1. split; [apply InE; right; left; reflexivity | exact F1].
      * exists (pedge1 j). assert (K : edge_kind s (eledge s) (pedge1 j)) by (apply (EKp1 s _ _ j); [subst m; lia|reflexivity]).
        split; [|apply Fold; exact K]. apply InE. left. rewrite build_edges_with. apply edges_with_in. exact K.
    + cbn in Hj. destruct (Nat.eq_dec j (S m)) as [->|Nj].
      * exists e2. split; [apply InE; right; right; reflexivity | exact F2].
      * exists (pedge2 j). assert (K : edge_kind s (eledge s) (pedge2 j)) by (apply (EKp2 s _ _ j); [subst m; lia|reflexivity]).
        split; [|apply Fold; exact K]. apply InE. left. rewrite build_edges_with. apply edges_with_in. exact K.
  - intro e. unfold f. destruct (is_edge NCentral P e) eqn:E1.
    + unfold is_edge in E1. apply andb_true_iff in E1. destruct E1 as [A B]. apply name_eqb_eq in A. apply name_eqb_eq in B. rewrite A, B. split; reflexivity.
    + destruct (is_edge P NCentral e) eqn:E2; [|split; reflexivity].
      unfold is_edge in E2. apply andb_true_iff in E2. destruct E2 as [A B]. apply name_eqb_eq in A. apply name_eqb_eq in B. rewrite A, B. split; reflexivity.
  - intros e He. apply InE in He. destruct He as [He|[<-|<-]].
    + rewrite build_edges_with in He. apply in_edges_with in He. rewrite (Fold e He). apply edge_shape_refl.
    + rewrite F1. unfold edge_shape_eqb, e1, P. cbn. rewrite Nat.eqb_refl. reflexivity.
    + rewrite F2. unfold edge_shape_eqb, e2, P. cbn. rewrite Nat.eqb_refl. reflexivity.
  - rewrite (build_edges_with s'). apply key_unique_edges_with; reflexivity.
  - assert (Old : forall e, In e (build_edges s) -> f e = e /\ e_rid e <= 2 * m + 3 /\ e_rid e < r1 /\ e_rid e < r2).
    { intros e He. pose proof He as He0. rewrite build_edges_with in He. apply in_edges_with in He.
      split; [apply Fold; exact He|]. split; [apply rid_bound; exact He|]. split; [apply Hr1|apply Hr2']; exact He0. }
    intros a b Ha Hb.
    apply InE in Ha. apply InE in Hb.
    destruct Ha as [Ha|[<-|<-]]; [destruct (Old a Ha) as [Fa [Ba [Ba1 Ba2]]] | |];
    (destruct Hb as [Hb|[<-|<-]]; [destruct (Old b Hb) as [Fb [Bb [Bb1 Bb2]]] | |]);
    rewrite ?Fa, ?Fb, ?F1, ?F2; cbn [pedge1 pedge2 e_rid e1 e2]; split; intro; lia.
  - reflexivity.
Qed.
