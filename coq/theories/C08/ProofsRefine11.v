(* PV.C08.ProofsRefine11 — set_transit_compartments(n, keep_depot=False) on a depot without transits:
   the dose goes to central, the depot is removed, then the chain is created in front of central. *)
From Coq Require Import List Bool Arith NArith Lia.
From PV Require Import Base.PyData C08.Model C08.ProofsGraph C08.ProofsRefine C08.ProofsDecimal C08.ProofsRefine2
  C08.ProofsRefine3 C08.ProofsRefine4 C08.ProofsRefine5 C08.ProofsRefine6 C08.ProofsRefine7 C08.ProofsRefine8.
Import ListNotations.
Local Open Scope nat_scope.

(* the branch of set_transit_compartments that creates the chain (text of Model.set_transit_compartments) *)
Definition create_branch (cs : graph) (n : nat) : res graph :=
    do dosing_comp <- opt_res (dosing0 cs) CValue;
    do cc <- create_chain n cs (n_name dosing_comp) (fresh cs);
    let '(cb, cname) := cc in
    do comp <- opt_res (find_node cb cname) CValue;
    let '(cb1, comp1) := set_bioavailability cb comp (n_bio dosing_comp) in
    let '(cb2, dc2) := set_bioavailability cb1 dosing_comp false in
    let '(cb3, dc3) :=
      match n_doses dc2 with
      | [d] => if Nat.eqb (d_admid d) 2 then set_dose cb2 dc2 [mkDose (d_zo d) (d_inf d) 1] else (cb2, dc2)
      | _ => (cb2, dc2)
      end in
    do cb4 <- move_dose cb3 dc3 comp1 1;
    if Nat.eqb (length (n_doses dc3)) 1 then Ok (fst (set_dose cb4 comp1 (n_doses dc3)))
    else
      do sd <- opt_res (hd_error (sorted_doses dc3)) CIndex;
      let '(cb5, _) := add_dose cb4 comp1 [sd] in
      Ok (fst (set_dose cb5 dc3 (tl (sorted_doses dc3)))).

Lemma create_on_FG s g n :
  FG s (fnode s) g -> s_transits s = 0 -> s_lag s = false -> 1 <= n ->
  match create_branch g n with Ok g' => geqb g' (build (with_tr s n)) | _ => false end = true.
Proof.
  intros F Ht Hl Hn1. unfold create_branch.
  assert (Hgn : forall nd j, In nd (g_nodes g) -> n_name nd <> NTransit j).
  { intros nd j Hin E. apply (fg_nodes _ _ _ F) in Hin. destruct Hin as [->|[Hin _]].
    - rewrite n_name_fnode in E. unfold first_name in E. rewrite Ht in E. destruct (s_depot s); discriminate.
    - rewrite build_nodes_names in Hin. apply in_map_iff in Hin. destruct Hin as [x [<- Hx]]. rewrite n_name_mk_node in E.
      exact (names_no_transit s x j Ht Hx E). }
  assert (Hfr : fresh g = fresh (build s)) by (unfold fresh; rewrite (fg_edges _ _ _ F); reflexivity).
  rewrite (FG_dosing0 s (fnode s) g F) by (unfold has_doses; rewrite fnode_doses; reflexivity).
  cbn [opt_res bind]. rewrite n_name_fnode.
  rewrite (create_chain_spec1 n g (first_name s) (fresh g) Hn1).
  2:{ intros nd j Hin E. exfalso. exact (Hgn nd j Hin E). }
  2:{ intros e j Hin E. exfalso. rewrite (fg_edges _ _ _ F), build_edges_with in Hin.
      apply in_edges_with in Hin. destruct Hin as [k Hk' ->| Hd ->| -> |j' Hj ->|j' Hj ->]; try discriminate E. lia. }
  rewrite Hfr, (fg_edges _ _ _ F), (fg_km _ _ _ F). clear Hfr.
  cbn [bind].
  match goal with |- context [find_node ?g _] => set (g0 := g) end.
  assert (U0 : uniq g0).
  { unfold uniq, g0. cbn [g_nodes]. rewrite map_app. apply nodup_app; [apply (fg_uniq _ _ _ F) | apply chain_names_nodup|].
    intros x H1 H2. apply in_map_iff in H2. destruct H2 as [nd [<- H2]]. apply in_chain_nodes in H2.
    destruct H2 as [j [_ ->]]. apply in_map_iff in H1. destruct H1 as [y [E Hy]]. exact (Hgn y j Hy E). }
  assert (I1 : In (plain (NTransit 1)) (g_nodes g0)).
  { unfold g0. cbn [g_nodes]. apply in_or_app. right. apply in_chain_nodes. exists 1. split; [lia|reflexivity]. }
  assert (Hf : find_node g0 (NTransit 1) = Some (plain (NTransit 1))) by (apply (find_node_uniq g0 (plain (NTransit 1)) U0 I1)).
  rewrite Hf. cbn [opt_res bind]. unfold set_bioavailability. cbn [with_bio plain n_name n_doses n_lag n_bio].
  rewrite fnode_doses.
  assert (Hadm : d_admid (the_dose s) = 1) by (unfold the_dose; destruct (s_zo s); reflexivity).
  rewrite Hadm. cbn [Nat.eqb]. unfold move_dose.
  set (r := fresh (build s)) in *.
  set (A0 := plain (NTransit 1)) in *.
  set (A1 := with_bio A0 (n_bio (fnode s))).
  set (B1 := with_bio (fnode s) false).
  assert (HdB : n_doses B1 = [the_dose s]) by (unfold B1; cbn [with_bio n_doses]; apply fnode_doses).
  rewrite HdB. cbn [filter]. rewrite Hadm. cbn [Nat.eqb negb app bind length]. unfold set_dose. cbn [fst].
  set (B2 := with_doses B1 []).
  set (A2 := with_doses A1 (n_doses A1 ++ [the_dose s])).
  assert (Hab : NTransit 1 <> first_name s).
  { unfold first_name. rewrite Ht. destruct (s_depot s); discriminate. }
  assert (IB : In (fnode s) (g_nodes g0)).
  { unfold g0. cbn [g_nodes]. apply in_or_app. left. apply (FG_in _ _ _ F). }
  assert (TC0 : two_char g0 (g_nodes g0) (NTransit 1) (first_name s) A0 (fnode s)).
  { split; [exact U0|]. split; [reflexivity|]. split; [apply n_name_fnode|]. split; [|reflexivity].
    intro nd. split.
    - intro H. destruct (name_eqb (n_name nd) (NTransit 1)) eqn:E1.
      + left. apply name_eqb_eq in E1. apply (nodup_map_inj n_name (g_nodes g0) nd A0 U0 H I1). exact E1.
      + destruct (name_eqb (n_name nd) (first_name s)) eqn:E2.
        * right. left. apply name_eqb_eq in E2. apply (nodup_map_inj n_name (g_nodes g0) nd (fnode s) U0 H IB).
          rewrite n_name_fnode. exact E2.
        * right. right. split; [exact H|]. split; intro X; rewrite X, name_eqb_refl in *; discriminate.
    - intros [->|[->|[H _]]]; auto. }
  pose proof (two_char_relabel_A g0 _ _ _ A0 (fnode s) A1 Hab TC0 eq_refl) as TC1.
  assert (NB1 : n_name B1 = first_name s) by (unfold B1; cbn [with_bio n_name]; apply n_name_fnode).
  pose proof (two_char_relabel_B _ _ _ _ A1 (fnode s) B1 Hab TC1 NB1) as TC2.
  pose proof (two_char_relabel_B _ _ _ _ A1 B1 B2 Hab TC2 NB1) as TC3.
  pose proof (two_char_relabel_A _ _ _ _ A1 B2 A2 Hab TC3 eq_refl) as TC4.
  match type of TC4 with two_char ?g _ _ _ _ _ => set (g4 := g) in * end.
  assert (EA2 : A2 = mkNode (NTransit 1) [the_dose s] (s_lag s) (s_bio s)).
  { unfold A2, A1, A0, with_doses, with_bio, plain. cbn [n_name n_doses n_lag n_bio app]. rewrite fnode_bio, Hl. reflexivity. }
  assert (EB2 : B2 = plain (first_name s)).
  { unfold B2, B1, with_doses, with_bio, plain. cbn [n_name n_doses n_lag n_bio]. rewrite n_name_fnode, fnode_lag, Hl. reflexivity. }
  destruct TC4 as [U4 [_ [_ [C4 L4]]]].
  assert (Hni : node_in g4 A1 = false).
  { apply not_true_is_false. intro X. apply node_in_In in X. apply C4 in X. destruct X as [X|[X|[_ [X _]]]].
    - apply (f_equal n_doses) in X. rewrite EA2 in X. discriminate X.
    - apply (f_equal n_name) in X. rewrite EB2 in X. apply Hab. exact X.
    - apply X. reflexivity. }
  unfold relabel at 1. rewrite Hni.
  assert (E4 : g_edges g4 = build_edges s ++ chain_edges n (first_name s) r).
  { unfold g4. rewrite !relabel_edges. reflexivity. }
  assert (K4 : g_kmfix g4 = g_kmfix (build (with_tr s n))).
  { unfold g4. rewrite !relabel_kmfix. reflexivity. }
  rewrite EA2, EB2 in C4. clearbody g4. clear TC0 TC1 TC2 TC3.
  set (s' := with_tr s n) in *.
  set (f := fun e : edge => if Nat.eqb (e_rid e) r then mkEdge (e_src e) (e_dst e) 2 false false else e).
  assert (Hcls : forall e, In e (g_edges g4) ->
            (In e (build_edges s) /\ e_rid e < r /\ e_rid e <> 2 /\ f e = e)
            \/ (exists j, 1 <= j <= n /\ e = mkEdge (NTransit j) (chain_dst n (first_name s) j) r false false
                          /\ f e = tedge s' j)).
  { intros e H. rewrite E4 in H. apply in_app_or in H. destruct H as [H|H].
    - left. pose proof (fresh_gt (build s) e H) as Hr. fold r in Hr.
      split; [exact H|]. split; [exact Hr|]. split; [apply (old_edge_rid s e Ht H)|].
      unfold f. destruct (Nat.eqb_spec (e_rid e) r); [lia|reflexivity].
    - right. apply in_chain_edges in H. destruct H as [j [Hj ->]]. exists j. split; [exact Hj|]. split; [reflexivity|].
      unfold f. cbn [e_rid e_src e_dst]. rewrite Nat.eqb_refl. unfold s'. rewrite tedge_with_tr by assumption. reflexivity. }
  assert (Hmk : forall x, mk_node s' x = if name_eqb x (NTransit 1) then mkNode x [the_dose s] (s_lag s) (s_bio s) else plain x)
    by (intro x; apply mk_node_with_tr; exact Hn1).
  apply (geqb_perm_edges g4 (build s') f).
  - (* nodes -> *)
    intros nd H. apply C4 in H. cbn [g_nodes build]. rewrite build_nodes_names. unfold s' at 2. rewrite names_with_tr by exact Ht.
    destruct H as [->|[->|[H [N1 N2]]]].
    + replace (mkNode (NTransit 1) [the_dose s] (s_lag s) (s_bio s)) with (mk_node s' (NTransit 1)) by (rewrite Hmk; reflexivity).
      apply in_map. apply in_or_app. left. apply in_map. apply in_seq. lia.
    + replace (plain (first_name s)) with (mk_node s' (first_name s)).
      2:{ rewrite Hmk. rewrite (name_eqb_neq (first_name s) (NTransit 1)); [reflexivity | intro X; apply Hab; symmetry; exact X]. }
      apply in_map. apply in_or_app. right. apply first_in_names.
    + unfold g0 in H. cbn [g_nodes] in H. apply in_app_or in H. destruct H as [H|H].
      * apply (fg_nodes _ _ _ F) in H. destruct H as [->|[H _]]; [exfalso; apply N2; apply n_name_fnode|].
        rewrite build_nodes_names in H. apply in_map_iff in H. destruct H as [x [<- Hx]].
        rewrite n_name_mk_node in N1, N2.
        replace (mk_node s x) with (mk_node s' x).
        2:{ rewrite Hmk. rewrite (name_eqb_neq _ _ N1). unfold mk_node. rewrite (name_eqb_neq _ _ N2). reflexivity. }
        apply in_map. apply in_or_app. right. exact Hx.
      * apply in_chain_nodes in H. destruct H as [j [Hj ->]]. cbn [plain n_name] in N1.
        replace (plain (NTransit j)) with (mk_node s' (NTransit j)) by (rewrite Hmk, (name_eqb_neq _ _ N1); reflexivity).
        apply in_map. apply in_or_app. left. apply in_map. apply in_seq. lia.
  - (* nodes <- *)
    intros nd H. apply C4. cbn [g_nodes build] in H. rewrite build_nodes_names in H. unfold s' at 2 in H.
    rewrite names_with_tr in H by exact Ht. apply in_map_iff in H. destruct H as [x [<- Hx]]. rewrite Hmk.
    apply in_app_or in Hx. destruct Hx as [Hx|Hx].
    + apply in_map_iff in Hx. destruct Hx as [j [<- Hj]]. apply in_seq in Hj.
      destruct (Nat.eq_dec j 1) as [->|Nj]; [left; reflexivity|].
      right. right. rewrite (name_eqb_neq (NTransit j) (NTransit 1)) by (intro X; injection X as X; lia).
      split; [|split].
      * unfold g0. cbn [g_nodes]. apply in_or_app. right. apply in_chain_nodes. exists j. split; [lia|reflexivity].
      * cbn. intro X; injection X as X; lia.
      * cbn. unfold first_name. rewrite Ht. destruct (s_depot s); discriminate.
    + pose proof (names_no_transit s x 1 Ht Hx) as Nx. rewrite (name_eqb_neq _ _ Nx).
      destruct (name_eqb x (first_name s)) eqn:Ef.
      * apply name_eqb_eq in Ef. subst x. right. left. reflexivity.
      * right. right. split; [|split].
        -- unfold g0. cbn [g_nodes]. apply in_or_app. left. apply (fg_nodes _ _ _ F). right.
           replace (plain x) with (mk_node s x) by (unfold mk_node; rewrite Ef; reflexivity).
           split; [rewrite build_nodes_names; apply in_map; exact Hx|]. rewrite n_name_mk_node.
           intro X. rewrite X, name_eqb_refl in Ef. discriminate.
        -- exact Nx.
        -- cbn. intro X. rewrite X, name_eqb_refl in Ef. discriminate.
  - (* number of nodes *)
    rewrite L4. unfold g0. cbn [g_nodes build]. rewrite app_length, (fg_len _ _ _ F), !build_nodes_names, !map_length, length_chain_nodes.
    unfold s'. rewrite names_with_tr by exact Ht. rewrite app_length, map_length, seq_length. lia.
  - (* number of edges *)
    rewrite E4. cbn [g_edges build]. unfold s'. rewrite build_edges_with_tr by exact Ht.
    rewrite !app_length, map_length, seq_length, length_chain_edges. lia.
  - (* edges -> *)
    intros e H. cbn [g_edges build]. unfold s' at 1. rewrite build_edges_with_tr by exact Ht. fold s'.
    destruct (Hcls e H) as [[Hin [_ [_ ->]]]|[j [Hj [_ ->]]]].
    + apply in_or_app. right. exact Hin.
    + apply in_or_app. left. apply in_map. apply in_seq. lia.
  - (* edges <- *)
    intros e' H. cbn [g_edges build] in H. unfold s' at 1 in H. rewrite build_edges_with_tr in H by exact Ht. fold s' in H.
    apply in_app_or in H. destruct H as [H|H].
    + apply in_map_iff in H. destruct H as [j [<- Hj]]. apply in_seq in Hj.
      exists (mkEdge (NTransit j) (chain_dst n (first_name s) j) r false false).
      assert (Hin : In (mkEdge (NTransit j) (chain_dst n (first_name s) j) r false false) (g_edges g4)).
      { rewrite E4. apply in_or_app. right. apply in_chain_edges. exists j. split; [lia|reflexivity]. }
      split; [exact Hin|]. unfold f. cbn [e_rid e_src e_dst]. rewrite Nat.eqb_refl. unfold s'.
      rewrite tedge_with_tr by (try assumption; lia). reflexivity.
    + exists e'. assert (Hin : In e' (g_edges g4)) by (rewrite E4; apply in_or_app; left; exact H).
      split; [exact Hin|]. pose proof (fresh_gt (build s) e' H) as Hr. fold r in Hr.
      unfold f. destruct (Nat.eqb_spec (e_rid e') r); [lia|reflexivity].
  - intro e. unfold f. destruct (Nat.eqb (e_rid e) r); split; reflexivity.
  - intros e H. destruct (Hcls e H) as [[_ [_ [_ ->]]]|[j [Hj [-> _]]]]; [apply edge_shape_refl|].
    unfold f. cbn [e_rid e_src e_dst]. rewrite Nat.eqb_refl. unfold edge_shape_eqb. cbn [e_src e_dst e_nonlin e_cl].
    rewrite !name_eqb_refl. reflexivity.
  - cbn [g_edges build]. rewrite build_edges_with. apply key_unique_edges_with; reflexivity.
  - intros a b Ha Hb.
    destruct (Hcls a Ha) as [[_ [Ra [Ra2 Fa]]]|[ja [_ [Ea Fa]]]]; destruct (Hcls b Hb) as [[_ [Rb [Rb2 Fb]]]|[jb [_ [Eb Fb]]]];
      rewrite Fa, Fb; subst; cbn [e_rid tedge] in *; split; intro; try lia; try reflexivity.
  - exact K4.
Qed.

(* ---- the theorem: keep_depot=False on a depot without transits, every n ---- *)
Theorem refines_transits_nodepot s n :
  s_depot s = true -> s_transits s = 0 -> refines (Transits n false) s = true.
Proof.
  intros Hd Ht. unfold refines.
  set (s0 := mkSk (drop_depot_abs (s_abs s)) 0 (s_periph s) (s_elim s) false (s_mat s) (s_popmdt s) (s_krates s) (s_elq s) false).
  assert (Hct : canon_transits s = 0) by (unfold canon_transits; rewrite Hd; exact Ht).
  assert (Hstep : step (Transits n false) s =
            if s_mat s && s_popmdt s then SCrash CDupParam
            else if Nat.eqb 0 n then SOk s0
            else if Nat.eqb n 1 && absk_eqb (s_abs s0) INST then SRefuse
            else SOk (with_tr s0 n)).
  { cbn [step]. unfold step_transits. rewrite Hct, Hd, Ht. cbn [negb andb orb Nat.eqb]. fold s0.
    destruct (s_mat s && s_popmdt s); [reflexivity|].
    destruct n as [|[|n']]; try reflexivity; unfold s0; destruct (s_abs s); reflexivity. }
  rewrite Hstep. clear Hstep. cbn [setter_graph]. unfold set_transit_compartments.
  rewrite dosing0_build. cbn [opt_res bind]. rewrite find_transits_build. cbn [opt_res bind].
  destruct (remove_lag_build s) as [gl [Hg _]]. rewrite Hg. cbn [bind]. rewrite find_depot_build. cbn [bind].
  unfold canon_depot. rewrite Hd.
  assert (Fn : first_name s = NDepot) by (unfold first_name; rewrite Hd, Ht; reflexivity).
  assert (Cn : cnode s = plain NCentral) by (unfold cnode, mk_node; rewrite Fn; reflexivity).
  replace (mk_node s NDepot) with (fnode s) by (unfold fnode; rewrite Fn; reflexivity).
  rewrite central_build. cbn [opt_res bind]. rewrite n_name_fnode, Fn, preds_depot, Hd, Ht. cbn [Nat.eqb negb andb].
  rewrite fnode_doses. cbn [hd_error opt_res bind]. unfold set_dose. cbn [fst bind].
  change (g_mat (build s)) with (s_mat s). change (g_popmdt (build s)) with (s_popmdt s).
  destruct (s_mat s && s_popmdt s); [reflexivity|]. cbn [bind].
  set (tc := with_doses (cnode s) [the_dose s]).
  assert (Htc : n_name tc = n_name (cnode s)) by reflexivity.
  rewrite (remove_relabel_comm (build s) (cnode s) tc (fnode s) Htc) by (rewrite n_name_cnode, n_name_fnode, Fn; discriminate).
  assert (Hd0 : s_depot s0 = false).
  { unfold s0, s_depot in *. cbn [s_abs]. destruct (s_abs s); try discriminate Hd; reflexivity. }
  assert (F0 : FG s0 (cnode s) (remove_compartment (build s) (fnode s))) by (apply FG_removed_depot; auto).
  assert (F1 : FG s0 tc (relabel (remove_compartment (build s) (fnode s)) (cnode s) tc)).
  { apply FG_relabel; [exact F0|]. rewrite Htc, n_name_cnode. symmetry. apply first_central; [exact Hd0|reflexivity]. }
  set (m := relabel (remove_compartment (build s) (fnode s)) (cnode s) tc) in *.
  assert (Ezo : s_zo s0 = s_zo s).
  { unfold s0, s_zo, s_depot in *. cbn [s_abs]. destruct (s_abs s); try discriminate Hd; reflexivity. }
  assert (Etc : tc = fnode s0).
  { unfold tc, fnode. rewrite Cn. unfold mk_node. rewrite name_eqb_refl, (first_central s0 Hd0 eq_refl). unfold the_dose. rewrite Ezo. reflexivity. }
  assert (Hinst : has_instantaneous_absorption m = absk_eqb (s_abs s0) INST).
  { unfold has_instantaneous_absorption. rewrite (FG_dosing0 s0 tc m F1) by reflexivity. rewrite (FG_central s0 tc m F1).
    unfold cen. rewrite (first_central s0 Hd0 eq_refl). cbn [name_eqb]. rewrite name_eqb_refl.
    unfold tc. cbn [with_doses n_doses andb]. unfold the_dose, s0, s_zo, s_depot in *. cbn [s_abs].
    destruct (s_abs s); try discriminate Hd; reflexivity. }
  rewrite length_transit_names, Hct. cbv zeta.
  destruct n as [|n'].
  - cbn [Nat.eqb]. apply (FG_geqb s0 s0 tc m F1); try reflexivity.
    + symmetry. exact Etc.
  - cbn [Nat.eqb]. rewrite Hinst.
    destruct (Nat.eqb n' 0 && absk_eqb (s_abs s0) INST); [reflexivity|].
    rewrite Etc in F1.
    exact (create_on_FG s0 m (S n') F1 eq_refl eq_refl ltac:(lia)).
Qed.
