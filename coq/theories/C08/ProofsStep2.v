(* PV.C08.ProofsStep2 — idempotence, undo, exactness of the refusal set (on skeletons). *)
From Coq Require Import List Bool Arith NArith Lia.
From PV Require Import Base.PyData C08.Model C08.ProofsStep.
Import ListNotations.
Local Open Scope nat_scope.

(* a state that already shows the requested transit configuration is a fixed point *)
Lemma transits_fixpoint n keep s :
  valid s = true -> canon_transits s = n -> (keep = true \/ s_depot s = false) -> s_lag s = false ->
  guard (Transits n keep) s = true /\ step (Transits n keep) s = SOk s.
Proof.
  intros Hv Hn Hk Hl. destruct s as [a tr per el lag mat pm kr eq bio].
  unfold_all. subst lag.
  destruct a; destruct keep; destruct bio; cbn [andb orb negb absk_eqb] in *;
    try (destruct Hk; discriminate);
    destruct tr as [|[|tr]]; scbn; try discriminate; subst n; scbn;
    rewrite ?Nat.eqb_refl; scbn; split; try reflexivity; solve_step.
Qed.

Definition idem_good (f : req) (s : sk) : Prop :=
  match step f s with SOk s' => guard f s' = true /\ step f s' = SOk s' | _ => True end.

Lemma idem_abs f s : is_abs f = true -> valid s = true -> guard f s = true -> idem_good f s.
Proof.
  intros Hf Hv Hg. destruct s as [a tr per el lag mat pm kr eq bio].
  unfold idem_good, guard, valid in *.
  destruct f; try discriminate Hf; destruct a; destruct tr as [|[|tr]]; destruct lag; destruct bio;
    cbn in *; try discriminate; repeat split; try reflexivity.
Qed.

Lemma idem_simple f s :
  match f with ElFO | ElZO | ElMM | ElMix | LagOn | LagOff | BioOn | BioOff => True | _ => False end ->
  valid s = true -> guard f s = true -> idem_good f s.
Proof.
  intros Hf Hv Hg. destruct s as [a tr per el lag mat pm kr eq bio].
  unfold idem_good. destruct f; try contradiction; destruct bio; cbn; split; reflexivity.
Qed.

Lemma idem_perset n s : valid s = true -> guard (PerSet n) s = true -> idem_good (PerSet n) s.
Proof.
  intros Hv Hg. destruct s as [a tr per el lag mat pm kr eq bio].
  unfold idem_good. unfold_all.
  destruct kr, eq, bio; cbn [andb orb negb] in *; solve_step.
Qed.

Lemma idem_transits n keep s :
  valid s = true -> guard (Transits n keep) s = true -> idem_good (Transits n keep) s.
Proof.
  intros Hv Hg. pose proof (step_ok_transits n keep s Hv Hg) as H.
  unfold idem_good, step_good in *.
  destruct (step (Transits n keep) s) as [s'| | |]; try exact I.
  destruct H as [Hv' [Hr Ho]].
  unfold request_detected in Hr. unfold others_unchanged in Ho.
  apply andb_true_iff in Hr. destruct Hr as [Hr1 Hr2]. apply Nat.eqb_eq in Hr1.
  apply andb_true_iff in Ho. destruct Ho as [Ho _].
  apply andb_true_iff in Ho. destruct Ho as [Ho _].
  apply andb_true_iff in Ho. destruct Ho as [_ Hlag]. apply negb_true_iff in Hlag.
  apply transits_fixpoint; try assumption.
  apply orb_true_iff in Hr2. destruct Hr2 as [Hk|Hd]; [left; exact Hk | right; apply negb_true_iff; exact Hd].
Qed.

Theorem step_idempotent_lemma f s :
  valid s = true -> guard f s = true -> is_incr f = false -> idem_good f s.
Proof.
  intros Hv Hg Hi. destruct f; try discriminate Hi;
    try (apply idem_abs; [reflexivity|assumption|assumption]);
    try (apply idem_simple; [exact I|assumption|assumption]).
  - apply idem_perset; assumption.
  - apply idem_transits; assumption.
Qed.

Definition undo_good (f : req) (s : sk) : Prop :=
  match undo_of f s, step f s with
  | Some f', SOk s' => guard f' s' = true -> step f' s' = SOk s
  | _, _ => True
  end.

Theorem step_undo_lemma f s : valid s = true -> guard f s = true -> undo_good f s.
Proof.
  intros Hv Hg. destruct s as [a tr per el lag mat pm kr eq bio].
  unfold undo_good, undo_of.
  destruct f; try exact I; cbn [s_lag s_periph s_elim s_abs s_transits].
  - (* AbsFO *) destruct a; destruct tr as [|[|tr]]; destruct lag; destruct bio; cbn in *; try exact I;
      intro Hg'; try discriminate Hg'; reflexivity.
  - (* AbsZO *) destruct a; destruct tr as [|[|tr]]; destruct lag; destruct bio; cbn in *; try exact I;
      intro Hg'; try discriminate Hg'; reflexivity.
  - (* AbsSeq *) destruct a; destruct tr as [|[|tr]]; destruct lag; destruct bio; cbn in *; try exact I;
      intro Hg'; try discriminate Hg'; reflexivity.
  - (* ElZO *) destruct el; cbn; try exact I; intros _; reflexivity.
  - (* ElMM *) destruct el; cbn; try exact I; intros _; reflexivity.
  - (* ElMix *) destruct el; cbn; try exact I; intros _; reflexivity.
  - (* LagOn *) destruct lag; cbn; try exact I; intros _; reflexivity.
  - (* BioOn *) destruct bio; cbn; try exact I; intros _; reflexivity.
  - (* PerAdd *)
    unfold_all. intro Hg'. destruct kr, eq, bio; cbn [andb orb negb] in *; solve_step.
  - (* PerSet *)
    unfold_all. destruct (Nat.ltb_spec per n) as [Hlt|Hge]; [|exact I].
    destruct kr, eq, bio; cbn [andb orb negb] in *; solve_step; intro Hg'; solve_step.
  - (* Transits n true, from a state without transits and without lag time *)
    destruct keep_depot; [|exact I].
    destruct tr as [|tr]; [|exact I]. destruct n as [|n]; [exact I|]. destruct lag; [exact I|].
    unfold_all.
    destruct a; destruct bio; cbn [andb orb negb absk_eqb] in *; destruct n as [|n]; scbn; try exact I; try discriminate;
      intro Hg'; try discriminate Hg'; reflexivity.
Qed.

(* the refusal set is exactly the documented one *)
Theorem refusal_exact_lemma f s :
  valid s = true -> guard f s = true -> (step f s = SRefuse <-> refusal_documented f s = true).
Proof.
  intros Hv Hg. pose proof (step_ok_lemma f s Hv Hg) as H. unfold step_good in H. split.
  - intro E. rewrite E in H. exact H.
  - intro R. destruct f; try discriminate R.
    destruct s as [a tr per el lag mat pm kr eq bio]. unfold_all.
    destruct n as [|[|n]]; try discriminate R.
    destruct a; destruct keep_depot; destruct lag; destruct mat; destruct pm; destruct bio;
      cbn [andb orb negb absk_eqb] in *; try discriminate;
      destruct tr as [|[|tr]]; scbn; try discriminate; reflexivity.
Qed.
