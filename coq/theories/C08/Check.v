(* PV.C08.Check — the comparison run inside Coq by the correspondence check.
   A case is one start model and a sequence of feature requests applied with the real setters; after
   every step the real compartmental system and the real detectors' answers were exported.
   verdict re-runs the model (detectors and the graph part of the setter) on every exported system,
   compares (correspondence tags 1..9), evaluates the property itself on the implementation's
   outputs (oracle tags 11..29) and reports which guard conjuncts are false (51..69).
   A code in the result is  100 * step + tag  (step 0 = the start model). *)
From Coq Require Import QArith List Bool Arith NArith PArith.
From PV Require Import Base.PyData Base.Expr Base.Interp Base.Stmts C08.Model.
Import ListNotations.
Local Open Scope nat_scope.

Record ostep := mkStep {
  o_req : req;
  o_res : res graph;                   (* real outcome; Crash CStmt = exception from the statement layers *)
  o_det : detected;                    (* the real detectors on the real result (when Ok) *)
  o_again : option (res graph);        (* the same request applied once more to the result *)
  o_undo : option (req * res graph);   (* an undo request applied to the result *)
  o_again_st : option (list stmt * list stmt)   (* model.statements of the result and of the result of the second application *)
}.
Record case := mkCase { c_g0 : graph; c_det0 : detected; c_steps : list ostep;
                        c_envs : list (list (id * Q)) (* sample points for comparing statements by evaluation *) }.

(* two statement lists that define the same symbols give every one of them the same value at the
   sample points (sequential execution, the ODE solution being a fixed function of the values of the
   system's right-hand-side symbols): 0 agree, 1 disagree, 2 inconclusive (too few defined points),
   3 not comparable this way: the second application renamed / re-created a parameter (add_lag_time
   twice gives MDT1 for MDT) — the same function only up to renaming *)
Definition same_function (envs : list (list (id * Q))) (l1 l2 : list stmt) : nat :=
  let d1 := flat_map defs l1 in
  let d2 := flat_map defs l2 in
  if negb (setp_eqb d1 d2) then 3
  else summarize 2 (flat_map (fun m => map (fun x => cmp_oq (run m l1 x) (run m l2 x)) (normp d1)) envs).

Definition oname_eqb (a b : option name) : bool :=
  match a, b with Some x, Some y => name_eqb x y | None, None => true | _, _ => false end.
Definition oabs_eqb (a b : option absk) : bool :=
  match a, b with Some x, Some y => absk_eqb x y | None, None => true | _, _ => false end.
Definition oel_eqb (a b : option elk) : bool :=
  match a, b with Some x, Some y => elk_eqb x y | None, None => true | _, _ => false end.
Definition det_eqb (a b : detected) : bool :=
  oabs_eqb (dt_abs a) (dt_abs b) && oel_eqb (dt_elim a) (dt_elim b)
  && Nat.eqb (dt_transits a) (dt_transits b) && oname_eqb (dt_depot a) (dt_depot b)
  && Nat.eqb (dt_periph a) (dt_periph b) && Bool.eqb (dt_lag a) (dt_lag b) && Bool.eqb (dt_bio a) (dt_bio b).

Definition tag (b : bool) (t : nat) : list nat := if b then [] else [t].

(* the model identifies compartments by name *)
Fixpoint names_unique (l : list node) : bool :=
  match l with
  | [] => true
  | nd :: tl => negb (existsb (fun x => name_eqb (n_name x) (n_name nd)) tl) && names_unique tl
  end.
Definition in_domain (g : graph) : bool :=
  names_unique (g_nodes g) && match central g with Some _ => true | None => false end
  && match dosing0 g with Some _ => true | None => false end.

Definition skeleton_of (g : graph) : option sk :=
  if in_domain g then match recognize g with Some s => if valid s then Some s else None | None => None end else None.

(* correspondence of the graph part of the setter: outcome class, and the system up to node order *)
Definition corr_setter (f : req) (g : graph) (real : res graph) : list nat :=
  match setter_graph f g, real with
  | _, Crash CStmt => []           (* the statement layers are not in the graph model *)
  | Ok m, Ok r => tag (geqb m r) 3
  | Refuse, Refuse => []
  | Crash c, Crash c' => tag (crash_eqb c c') 2
  | _, _ => [2]
  end.

(* correspondence of the closed form `step` (what the theorems are about) *)
Definition corr_step (f : req) (s : sk) (real : res graph) : list nat :=
  match step f s, real with
  | _, Crash CStmt => []
  | SOk s', Ok r => tag (geqb r (build s')) 4
  | SRefuse, Refuse => []
  | SCrash c, Crash c' => tag (crash_eqb c c') 4
  | SAnom, Ok r => tag (match skeleton_of r with None => true | Some _ => false end) 4
  | _, _ => [4]
  end.

(* (tags 51-54 and 62 belonged to conjuncts of defects that are fixed in /repo) *)
Definition guard_tags (f : req) (s : sk) : list nat :=
  tag (g_zo_depot_dosed f s) 55 ++ tag (g_fo_no_chain f s) 56
  ++ tag (g_fo_seq_chain f s) 57 ++ tag (g_fo_keeps_lag f s) 58 ++ tag (g_no_param_clash f s) 59
  ++ tag (g_transit_no_lag f s) 60 ++ tag (g_no_single_transit f s) 61
  ++ tag (g_rem_periph_rates f s) 63 ++ tag (g_keeps_bio f s) 64.

(* Environment conditions under which the STATEMENT layers (not modelled) are known to fail; they are
   not conjuncts of `guard` (the graph model has no counter-model for them), only tags that let the
   harness attribute an observed tag-12 exception to a listed finding:
   81  transits are created on a model without transits whose elimination rate is a left-over bare
       K symbol (NONMEM model after a transit round trip): update_source cannot renumber the rates *)
Definition env_transit_named_rates (f : req) (s : sk) : bool :=
  negb (match f with
        | Transits n _ => negb (Nat.eqb n 0) && Nat.eqb (s_transits s) 0 && negb (s_elq s) && elk_eqb (s_elim s) EFO
        | _ => false end).
Definition env_tags (f : req) (s : sk) : list nat := tag (env_transit_named_rates f s) 81.

(* the property itself, on the implementation's own outputs *)
Definition oracle (envs : list (list (id * Q))) (f : req) (g : graph) (s : sk) (o : ostep) : list nat :=
  match o_res o with
  | Crash c => if crash_eqb c CStmt then [12] else [11]
  | Refuse => tag (refusal_documented f s) 18
  | Ok r =>
      match skeleton_of r with
      | None => [13]
      | Some s' =>
          tag (request_detected f s s') 14 ++ tag (others_unchanged f s s') 15
          (* idempotence and undo are claimed only where the second request is itself guarded *)
          ++ (if is_incr f || negb (guard f s') then [] else
              match o_again o with
              | Some (Ok r2) => tag (geqb r2 r) 16
              | Some _ => [16]
              | None => []
              end
              ++ match o_again_st o with
                 | Some (l1, l2) => match same_function envs l1 l2 with 0 => [] | 1 => [19] | 2 => [91] | _ => [92] end
                 | None => []
                 end)
          ++ match o_undo o, undo_of f s with
             | Some (f', ur), Some f'' =>
                 if req_eqb f' f'' && guard f' s'
                 then match ur with Ok r3 => tag (geqb r3 g) 17 | _ => [17] end else []
             | _, _ => []
             end
      end
  end.

Definition step_verdict (envs : list (list (id * Q))) (g : graph) (o : ostep) : list nat :=
  let f := o_req o in
  (* the graph part of the setters is claimed (and compared) on skeleton-shaped systems — valid or
     not; on the anomalous systems that the defects produce only the detectors are compared: there
     compartments are no longer identified by their names and the numerator bookkeeping of transit
     rates (_update_numerators, not modelled) is no longer uniform *)
  (if in_domain g then match recognize g with Some _ => corr_setter f g (o_res o) | None => [72] end else [70])
  ++ match o_res o with
     | Ok r => if in_domain r then tag (det_eqb (detect r) (o_det o)) 1 else []
     | _ => []
     end
  ++ match skeleton_of g with
     | Some s => corr_step f s (o_res o) ++ oracle envs f g s o ++ guard_tags f s ++ env_tags f s
     | None => [71]
     end.

Fixpoint steps_verdict (envs : list (list (id * Q))) (i : nat) (g : graph) (l : list ostep) : list nat :=
  match l with
  | [] => []
  | o :: tl =>
      map (fun t => 100 * i + t) (step_verdict envs g o)
      ++ match o_res o with Ok r => steps_verdict envs (S i) r tl | _ => [] end
  end.

Definition verdict (c : case) : list nat :=
  (if in_domain (c_g0 c) then tag (det_eqb (detect (c_g0 c)) (c_det0 c)) 1 else [70])
  ++ steps_verdict (c_envs c) 1 (c_g0 c) (c_steps c).
