(* PV.C08.ProofsDomain — bounded closure (vm_compute) of "the graph part of every setter refines the
   closed form step" over every skeleton with at most 6 transits / 3 peripherals, and around 10 peripherals. *)
From Coq Require Import List Bool Arith NArith Lia.
From PV Require Import Base.PyData C08.Model.
Import ListNotations.
Local Open Scope nat_scope.

(* ------------------------------------------------------------------ finite domains *)
Definition all_abs : list absk := [INST; FO; ZO; SEQ].
Definition all_el : list elk := [EFO; EZO; EMM; EMIX].
Definition bools : list bool := [false; true].

Definition sks (maxtr maxper : nat) : list sk :=
  flat_map (fun a => flat_map (fun t => flat_map (fun p => flat_map (fun e => flat_map (fun l => flat_map (fun m =>
   flat_map (fun pm => flat_map (fun kr => map (fun eq => mkSk a t p e l m pm kr eq) bools) bools) bools) bools) bools) all_el)
     (seq 0 (S maxper))) (seq 0 (S maxtr))) all_abs.

Definition reqs (maxn maxp : nat) : list req :=
  [AbsInst; AbsFO; AbsZO; AbsSeq; ElFO; ElZO; ElMM; ElMix; LagOn; LagOff; PerAdd; PerRem]
  ++ map PerSet (seq 0 (S maxp)) ++ flat_map (fun n => [Transits n true; Transits n false]) (seq 0 (S maxn)).

Definition req_bounded (maxn maxp : nat) (f : req) : Prop :=
  match f with PerSet n => n <= maxp | Transits n _ => n <= maxn | _ => True end.

Lemma in_bools b : In b bools. Proof. destruct b; cbn; auto. Qed.
Lemma in_all_abs a : In a all_abs. Proof. destruct a; cbn; auto. Qed.
Lemma in_all_el e : In e all_el. Proof. destruct e; cbn; auto 6. Qed.

Lemma sks_complete maxtr maxper s :
  s_transits s <= maxtr -> s_periph s <= maxper -> In s (sks maxtr maxper).
Proof.
  intros Ht Hp. destruct s as [a tr per el lag mat pm kr eq]. cbn in Ht, Hp. unfold sks.
  apply in_flat_map. exists a. split; [apply in_all_abs|].
  apply in_flat_map. exists tr. split; [apply in_seq; lia|].
  apply in_flat_map. exists per. split; [apply in_seq; lia|].
  apply in_flat_map. exists el. split; [apply in_all_el|].
  apply in_flat_map. exists lag. split; [apply in_bools|].
  apply in_flat_map. exists mat. split; [apply in_bools|].
  apply in_flat_map. exists pm. split; [apply in_bools|].
  apply in_flat_map. exists kr. split; [apply in_bools|].
  apply in_map_iff. exists eq. split; [reflexivity | apply in_bools].
Qed.

Lemma reqs_complete maxn maxp f : req_bounded maxn maxp f -> In f (reqs maxn maxp).
Proof.
  intro H. unfold reqs. destruct f; cbn in H;
    try (apply in_or_app; left; cbn; tauto).
  - apply in_or_app. right. apply in_or_app. left. apply in_map. apply in_seq. lia.
  - apply in_or_app. right. apply in_or_app. right. apply in_flat_map. exists n.
    split; [apply in_seq; lia|]. destruct keep_depot; cbn; auto.
Qed.

Lemma forallb2_spec {A B} (P : A -> B -> bool) (la : list A) (lb : list B) :
  forallb (fun a => forallb (P a) lb) la = true -> forall a b, In a la -> In b lb -> P a b = true.
Proof.
  intros H a b Ha Hb. rewrite forallb_forall in H. specialize (H a Ha).
  rewrite forallb_forall in H. exact (H b Hb).
Qed.

(* the graph part of every setter, run on the graph of every skeleton with at most 6 transits and
   3 peripherals, does what the closed form `step` says (any request with counts up to 7 / 4) *)
Lemma refine_domain : forall s f, In s (sks 6 3) -> In f (reqs 7 4) -> refines f s = true.
Proof. apply (forallb2_spec (fun s f => refines f s)). vm_compute. reflexivity. Qed.

(* ... and around the place where the string order of PERIPHERAL9 / PERIPHERAL10 matters *)
Definition sks_periph : list sk :=
  flat_map (fun a => flat_map (fun t => flat_map (fun p => flat_map (fun kr =>
    map (fun eq => mkSk a t p EFO false false false kr eq) bools) bools) (seq 0 13)) [0; 2]) all_abs.
Definition reqs_periph : list req := [PerAdd; PerRem] ++ map PerSet (seq 0 13).
Lemma refine_domain_periph : forall s f, In s sks_periph -> In f reqs_periph -> refines f s = true.
Proof. apply (forallb2_spec (fun s f => refines f s)). vm_compute. reflexivity. Qed.
