(* PV.C08.ProofsDomain — bounded closure (vm_compute) of "the graph part of every setter refines the
   closed form step" over every skeleton with at most 6 transits / 3 peripherals, and around 10 peripherals. *)
From Coq Require Import List Bool Arith NArith Lia.
From PV Require Import Base.PyData C08.Model.
Import ListNotations.
Local Open Scope nat_scope.

(* ------------------------------------------------------------------ finite domains *)
Definition all_abs : list absk := [INST; FO; ZO; SEQ].
Definition all_el : list elk := [EFO; EZO; EMM; EMIX].
Definition bools : list bool := [false; true].
Definition flags := (bool * bool * bool * bool)%type.        (* mat, popmdt, krates, elq *)

Definition sksf (maxtr maxper : nat) (fl : list flags) : list sk :=
  flat_map (fun a => flat_map (fun t => flat_map (fun p => flat_map (fun e => flat_map (fun l => flat_map (fun b =>
    map (fun x : flags => let '(m, pm, kr, eq) := x in mkSk a t p e l m pm kr eq b) fl) bools) bools) all_el)
      (seq 0 (S maxper))) (seq 0 (S maxtr))) all_abs.

(* the environment flags are enumerated only for the requests that read them:
   MAT / POP_MDT by set_transit_compartments(keep_depot=False), K-rates / quotient elimination by
   the removal of peripherals; for the other requests they are at a fixed value *)
Definition fl_default : list flags := [(true, false, false, true)].
Definition fl_matmdt : list flags := map (fun x => (fst x, snd x, false, true)) (list_prod bools bools).
Definition fl_rates : list flags := map (fun x => (true, false, fst x, snd x)) (list_prod bools bools).

Definition env_default (f : req) (s : sk) : bool :=
  match f with
  | Transits _ false => negb (s_krates s) && s_elq s
  | PerRem | PerSet _ => s_mat s && negb (s_popmdt s)
  | _ => s_mat s && negb (s_popmdt s) && negb (s_krates s) && s_elq s
  end.

Definition reqs_plain (maxn : nat) : list req :=
  [AbsInst; AbsFO; AbsZO; AbsSeq; ElFO; ElZO; ElMM; ElMix; LagOn; LagOff; BioOn; BioOff; PerAdd]
  ++ map (fun n => Transits n true) (seq 0 (S maxn)).
Definition reqs_nodepot (maxn : nat) : list req := map (fun n => Transits n false) (seq 0 (S maxn)).
Definition reqs_perrem (maxp : nat) : list req := PerRem :: map PerSet (seq 0 (S maxp)).

Definition req_bounded (maxn maxp : nat) (f : req) : Prop :=
  match f with PerSet n => n <= maxp | Transits n _ => n <= maxn | _ => True end.

Lemma in_bools b : In b bools. Proof. destruct b; cbn; auto. Qed.
Lemma in_all_abs a : In a all_abs. Proof. destruct a; cbn; auto. Qed.
Lemma in_all_el e : In e all_el. Proof. destruct e; cbn; auto 6. Qed.

Lemma sksf_complete maxtr maxper fl s :
  s_transits s <= maxtr -> s_periph s <= maxper ->
  In (s_mat s, s_popmdt s, s_krates s, s_elq s) fl -> In s (sksf maxtr maxper fl).
Proof.
  intros Ht Hp Hf. destruct s as [a tr per el lag mat pm kr eq bio]. cbn in Ht, Hp, Hf. unfold sksf.
  apply in_flat_map. exists a. split; [apply in_all_abs|].
  apply in_flat_map. exists tr. split; [apply in_seq; lia|].
  apply in_flat_map. exists per. split; [apply in_seq; lia|].
  apply in_flat_map. exists el. split; [apply in_all_el|].
  apply in_flat_map. exists lag. split; [apply in_bools|].
  apply in_flat_map. exists bio. split; [apply in_bools|].
  apply in_map_iff. exists (mat, pm, kr, eq). split; [reflexivity | exact Hf].
Qed.

Lemma forallb2_spec {A B} (P : A -> B -> bool) (la : list A) (lb : list B) :
  forallb (fun a => forallb (P a) lb) la = true -> forall a b, In a la -> In b lb -> P a b = true.
Proof.
  intros H a b Ha Hb. rewrite forallb_forall in H. specialize (H a Ha).
  rewrite forallb_forall in H. exact (H b Hb).
Qed.

(* the graph part of every setter, run on the graph of every skeleton with at most 5 transits and
   3 peripherals, does what the closed form `step` says (requests with counts up to 6 / 4) *)
Lemma refine_plain : forall s f, In s (sksf 5 3 fl_default) -> In f (reqs_plain 6) -> refines f s = true.
Proof. apply (forallb2_spec (fun s f => refines f s)). vm_compute. reflexivity. Qed.
Lemma refine_nodepot : forall s f, In s (sksf 5 3 fl_matmdt) -> In f (reqs_nodepot 6) -> refines f s = true.
Proof. apply (forallb2_spec (fun s f => refines f s)). vm_compute. reflexivity. Qed.
Lemma refine_perrem : forall s f, In s (sksf 5 3 fl_rates) -> In f (reqs_perrem 4) -> refines f s = true.
Proof. apply (forallb2_spec (fun s f => refines f s)). vm_compute. reflexivity. Qed.

(* ... and around the place where the string order of PERIPHERAL9 / PERIPHERAL10 matters *)
Definition sks_periph : list sk :=
  flat_map (fun a => flat_map (fun p => map (fun x : flags => let '(m, pm, kr, eq) := x in mkSk a 0 p EFO false m pm kr eq false) fl_rates)
    (seq 8 5)) [INST; FO].
Definition reqs_periph : list req := [PerAdd; PerRem] ++ map PerSet [0; 1; 2; 8; 9; 10; 11; 12].
Lemma refine_domain_periph : forall s f, In s sks_periph -> In f reqs_periph -> refines f s = true.
Proof. apply (forallb2_spec (fun s f => refines f s)). vm_compute. reflexivity. Qed.

Theorem refine_domain s f :
  s_transits s <= 5 -> s_periph s <= 3 -> req_bounded 6 4 f -> env_default f s = true -> refines f s = true.
Proof.
  intros Ht Hp Hf He.
  assert (Hb : forall b1 b2 : bool, In (b1, b2) (list_prod bools bools)).
  { intros b1 b2. apply in_prod; apply in_bools. }
  destruct f; cbn in Hf, He;
    try (apply refine_plain;
         [apply sksf_complete; try assumption;
          destruct s as [a tr per el lag mat pm kr eq bio]; cbn in *; destruct mat, pm, kr, eq; try discriminate; cbn; auto
         | unfold reqs_plain; apply in_or_app; left; cbn; tauto]).
  - (* PerRem *)
    apply refine_perrem; [|cbn; auto].
    apply sksf_complete; try assumption.
    destruct s as [a tr per el lag mat pm kr eq bio]; cbn in *; destruct mat, pm; try discriminate.
    destruct kr, eq; cbn; tauto.
  - (* PerSet *)
    apply refine_perrem; [|right; apply in_map; apply in_seq; lia].
    apply sksf_complete; try assumption.
    destruct s as [a tr per el lag mat pm kr eq bio]; cbn in *; destruct mat, pm; try discriminate.
    destruct kr, eq; cbn; tauto.
  - (* Transits *)
    destruct keep_depot.
    + apply refine_plain;
        [apply sksf_complete; try assumption;
         destruct s as [a tr per el lag mat pm kr eq bio]; cbn in *; destruct mat, pm, kr, eq; try discriminate; cbn; auto
        | unfold reqs_plain; apply in_or_app; right; apply in_map_iff; exists n; split; [reflexivity | apply in_seq; lia]].
    + apply refine_nodepot; [|apply in_map_iff; exists n; split; [reflexivity | apply in_seq; lia]].
      apply sksf_complete; try assumption.
      destruct s as [a tr per el lag mat pm kr eq bio]; cbn in *; destruct kr, eq; try discriminate.
      destruct mat, pm; cbn; tauto.
Qed.
