(* PV.C08.ProofsRefine6 — detectors on the intermediate systems of the two-pass setters: a system with
   the edges of build s'' and its nodes, except that the dosing compartment has been relabelled
   (and therefore moved in the node order). *)
From Coq Require Import List Bool Arith NArith Lia.
From PV Require Import Base.PyData C08.Model C08.ProofsGraph C08.ProofsRefine C08.ProofsDecimal C08.ProofsRefine2
  C08.ProofsRefine3 C08.ProofsRefine4 C08.ProofsRefine5.
Import ListNotations.
Local Open Scope nat_scope.

Record FG (s : sk) (c : node) (g : graph) : Prop := mkFG {
  fg_uniq : uniq g;
  fg_edges : g_edges g = build_edges s;
  fg_km : g_kmfix g = g_kmfix (build s);
  fg_name : n_name c = first_name s;
  fg_nodes : forall nd, In nd (g_nodes g) <-> (nd = c \/ (In nd (build_nodes s) /\ n_name nd <> first_name s));
  fg_len : length (g_nodes g) = length (build_nodes s)
}.

Lemma in_build_first s : In (fnode s) (build_nodes s).
Proof. rewrite build_nodes_names. unfold fnode. apply in_map. apply first_in_names. Qed.

Lemma FG_build s : FG s (fnode s) (build s).
Proof.
  constructor; try reflexivity.
  - apply uniq_build.
  - unfold fnode. apply n_name_mk_node.
  - intro nd. cbn [g_nodes build]. split.
    + intro H. destruct (name_eqb (n_name nd) (first_name s)) eqn:E.
      * left. apply name_eqb_eq in E. apply (uniq_same_name (build s)); [apply uniq_build | apply in_build_first | exact H|].
        rewrite E. unfold fnode. symmetry. apply n_name_mk_node.
      * right. split; [exact H|]. intro X. rewrite X, name_eqb_refl in E. discriminate.
    + intros [->|[H _]]; [apply in_build_first | exact H].
Qed.

Lemma FG_in s c g : FG s c g -> In c (g_nodes g).
Proof. intro F. apply (fg_nodes _ _ _ F). left. reflexivity. Qed.

Lemma FG_relabel s c c2 g : FG s c g -> n_name c2 = first_name s -> FG s c2 (relabel g c c2).
Proof.
  intros F Hn. pose proof (FG_in _ _ _ F) as Hin.
  assert (Hn' : n_name c2 = n_name c) by (rewrite Hn; symmetry; apply (fg_name _ _ _ F)).
  constructor.
  - apply relabel_uniq; [apply (fg_uniq _ _ _ F) | exact Hin | exact Hn'].
  - rewrite relabel_edges. apply (fg_edges _ _ _ F).
  - rewrite relabel_kmfix. apply (fg_km _ _ _ F).
  - exact Hn.
  - intro nd. rewrite (relabel_in g c c2 (fg_uniq _ _ _ F) Hin Hn'). rewrite (fg_nodes _ _ _ F), (fg_name _ _ _ F). split.
    + intros [->|[[->|H] Hne]]; auto. exfalso. apply Hne. apply (fg_name _ _ _ F).
    + intros [->|[H Hne]]; auto.
  - rewrite relabel_length; [apply (fg_len _ _ _ F) | apply (fg_uniq _ _ _ F) | exact Hin].
Qed.

(* equivalence with the graph of a skeleton that differs in the dosing compartment only *)
Lemma FG_geqb s s' c g :
  FG s c g ->
  names s' = names s -> first_name s' = first_name s -> build_edges s' = build_edges s ->
  g_kmfix (build s') = g_kmfix (build s) ->
  mk_node s' (first_name s) = c ->
  (forall x, name_eqb x (first_name s) = false -> mk_node s' x = mk_node s x) ->
  geqb g (build s') = true.
Proof.
  intros F Hn Hf He Hk Hc Hoth.
  apply (geqb_map_edges _ _ (fun e => e)); cbn [g_nodes g_edges g_kmfix build].
  - intros nd H. apply (fg_nodes _ _ _ F) in H. rewrite !build_nodes_names in *. rewrite Hn.
    destruct H as [->|[H Hne]].
    + apply in_map_iff. exists (first_name s). split; [exact Hc | apply first_in_names].
    + apply in_map_iff in H. destruct H as [x [<- Hx]]. rewrite n_name_mk_node in Hne.
      apply in_map_iff. exists x. split; [apply Hoth; apply name_eqb_neq; exact Hne | exact Hx].
  - intros nd H. apply (fg_nodes _ _ _ F). rewrite !build_nodes_names in *. rewrite Hn in H.
    apply in_map_iff in H. destruct H as [x [<- Hx]].
    destruct (name_eqb x (first_name s)) eqn:Ex.
    + left. apply name_eqb_eq in Ex. subst x. exact Hc.
    + right. rewrite (Hoth x Ex). split; [apply in_map; exact Hx|]. rewrite n_name_mk_node. intro X. rewrite X, name_eqb_refl in Ex. discriminate.
  - rewrite (fg_len _ _ _ F), !build_nodes_names, !map_length, Hn. reflexivity.
  - rewrite (fg_edges _ _ _ F), He, map_id. reflexivity.
  - intro e. auto.
  - intros e _. apply edge_shape_refl.
  - rewrite He, build_edges_with. apply key_unique_edges_with; reflexivity.
  - tauto.
  - rewrite (fg_km _ _ _ F). symmetry. exact Hk.
Qed.

(* ---- detectors on such a system ---- *)
Lemma nodup_nodes g : uniq g -> NoDup (g_nodes g).
Proof. intro H. apply NoDup_map_inv in H. exact H. Qed.

Lemma filter_none_intro {A} (P : A -> bool) l : (forall z, In z l -> P z = false) -> filter P l = [].
Proof. induction l as [|y l IH]; intro H; [reflexivity|]. cbn. rewrite (H y (or_introl eq_refl)). apply IH. intros z Hz. apply H. right. exact Hz. Qed.

Lemma filter_unique {A} (P : A -> bool) l x :
  NoDup l -> In x l -> P x = true -> (forall y, In y l -> P y = true -> y = x) -> filter P l = [x].
Proof.
  induction l as [|y l IH]; intros Hu Hi Hp Hall; [contradiction|]. inversion Hu as [|? ? Hnot Hu']; subst. cbn.
  destruct Hi as [->|Hi].
  - rewrite Hp. f_equal. apply filter_none_intro. intros z Hz.
    destruct (P z) eqn:E; [|reflexivity]. exfalso. apply Hnot. rewrite <- (Hall z (or_intror Hz) E). exact Hz.
  - destruct (P y) eqn:E.
    + exfalso. apply Hnot. rewrite (Hall y (or_introl eq_refl) E). exact Hi.
    + apply IH; auto. intros z Hz. apply Hall. right. exact Hz.
Qed.

Lemma FG_has_edge s c g u v : FG s c g -> has_edge g u v = edge_spec s u v.
Proof.
  intro F. unfold has_edge. rewrite (fg_edges _ _ _ F).
  change (existsb (is_edge u v) (build_edges s)) with (has_edge (build s) u v). apply has_edge_build.
Qed.

Definition cen (s : sk) (c : node) : node := if name_eqb (first_name s) NCentral then c else cnode s.

Lemma edge_to_output s u : edge_spec s u NOutput = true -> u = NCentral.
Proof.
  destruct u; cbn; try discriminate; auto. intro H. apply andb_true_iff in H. destruct H as [_ H].
  exfalso. destruct (chain_next_cases s k) as [[_ E]|[[_ [_ E]]|[_ [_ E]]]]; rewrite E in H; discriminate.
Qed.

Lemma central_in_names s : In NCentral (names s).
Proof. unfold names. apply in_or_app. right. apply in_or_app. right. left. reflexivity. Qed.

Lemma FG_cen_in s c g : FG s c g -> In (cen s c) (g_nodes g) /\ n_name (cen s c) = NCentral.
Proof.
  intro F. unfold cen. destruct (name_eqb (first_name s) NCentral) eqn:E.
  - apply name_eqb_eq in E. split; [apply (FG_in _ _ _ F) | rewrite (fg_name _ _ _ F); exact E].
  - split; [|apply n_name_cnode]. apply (fg_nodes _ _ _ F). right. split.
    + rewrite build_nodes_names. unfold cnode. apply in_map. apply central_in_names.
    + rewrite n_name_cnode. intro X. rewrite <- X, name_eqb_refl in E. discriminate.
Qed.

Lemma FG_central s c g : FG s c g -> central g = Some (cen s c).
Proof.
  intro F. destruct (FG_cen_in _ _ _ F) as [Hin Hn].
  assert (P : preds g NOutput = [cen s c]).
  { unfold preds. apply filter_unique.
    - apply nodup_nodes. apply (fg_uniq _ _ _ F).
    - exact Hin.
    - rewrite (FG_has_edge _ _ _ _ _ F), Hn. reflexivity.
    - intros y Hy Hp. rewrite (FG_has_edge _ _ _ _ _ F) in Hp. apply edge_to_output in Hp.
      apply (uniq_same_name g); [apply (fg_uniq _ _ _ F) | exact Hin | exact Hy | rewrite Hp, Hn; reflexivity]. }
  unfold central. rewrite P. cbn [map last]. rewrite Hn. reflexivity.
Qed.

Lemma FG_dosing0 s c g : FG s c g -> has_doses c = true -> dosing0 g = Some c.
Proof.
  intros F Hd. unfold dosing0, dosing. rewrite (FG_central _ _ _ F).
  assert (D : filter has_doses (g_nodes g) = [c]).
  { apply filter_unique; [apply nodup_nodes; apply (fg_uniq _ _ _ F) | apply (FG_in _ _ _ F) | exact Hd |].
    intros y Hy Hp. apply (fg_nodes _ _ _ F) in Hy. destruct Hy as [->|[Hy Hne]]; [reflexivity|].
    exfalso. rewrite build_nodes_names in Hy. apply in_map_iff in Hy. destruct Hy as [x [<- Hx]].
    rewrite n_name_mk_node in Hne. rewrite has_doses_mk_node in Hp. apply name_eqb_eq in Hp. contradiction. }
  rewrite D. cbn [sort_nodes fold_left ins_node dosing_loop].
  destruct (negb (name_eqb (n_name c) (n_name (cen s c)))); reflexivity.
Qed.

Lemma FG_not_in s c g old : FG s c g -> n_name old = first_name s -> old <> c -> node_in g old = false.
Proof.
  intros F Hn Hne. apply not_true_is_false. intro X. apply node_in_In in X. apply (fg_nodes _ _ _ F) in X.
  destruct X as [X|[_ X]]; [contradiction | exact (X Hn)].
Qed.

(* ---- instantaneous -> zero order (any number of transits but one) ---- *)
Theorem refines_zo_from_inst s :
  s_abs s = INST -> s_transits s <> 1 -> refines AbsZO s = true.
Proof.
  intros Ha Ht. unfold refines.
  assert (Hstep : step AbsZO s = SOk (with_abs s ZO)).
  { cbn [step]. rewrite Ha. destruct (s_transits s) as [|[|tr]]; try reflexivity. contradiction. }
  rewrite Hstep. cbn [setter_graph].
  assert (Hd : s_depot s = false) by (unfold s_depot; rewrite Ha; reflexivity).
  unfold set_zero_order_absorption. rewrite dosing0_build. cbn [opt_res bind].
  unfold disallow_infusion, first_dose, has_seq_zo_fo_absorption. rewrite dosing0_build, fnode_doses, zo_build.
  unfold the_dose, s_zo. rewrite Ha. cbn [hd_error d_inf d_zo negb andb].
  rewrite find_depot_build. unfold canon_depot. rewrite Hd.
  replace (Nat.eqb (s_transits s) 1) with false by (symmetry; apply Nat.eqb_neq; exact Ht). cbn [bind].
  unfold sorted_doses. rewrite fnode_doses. cbn [length Nat.leb hd_error opt_res bind].
  rewrite zo_build. unfold s_zo. rewrite Ha.
  unfold add_zero_order_absorption. rewrite dosing0_build. cbn [opt_res bind]. rewrite fnode_doses.
  unfold the_dose, s_zo. rewrite Ha.
  cbn [d_admid bolus remove_first_dose dose_eqb d_zo d_inf Bool.eqb Nat.eqb andb opt_res bind set_dose fst].
  set (c1 := with_doses (fnode s) [mkDose true true 1]).
  assert (F1 : FG s c1 (relabel (build s) (fnode s) c1)).
  { apply FG_relabel; [apply FG_build | unfold c1; cbn [with_doses n_name]; unfold fnode; apply n_name_mk_node]. }
  assert (Ne : fnode s <> c1).
  { intro X. assert (Y : n_doses (fnode s) = n_doses c1) by (rewrite <- X; reflexivity).
    rewrite fnode_doses in Y. unfold c1 in Y. cbn in Y. unfold the_dose, s_zo in Y. rewrite Ha in Y. discriminate. }
  assert (M2 : (match Some (n_lag (fnode s)) with
                | Some true => Ok (fst (set_lag_time (relabel (build s) (fnode s) c1) (fnode s) true))
                | _ => Ok (relabel (build s) (fnode s) c1) end) = Ok (relabel (build s) (fnode s) c1)).
  { destruct (n_lag (fnode s)); [|reflexivity]. unfold set_lag_time. cbn [fst]. unfold relabel at 1.
    rewrite (FG_not_in s c1 _ (fnode s) F1); [reflexivity | unfold fnode; apply n_name_mk_node | exact Ne]. }
  rewrite M2. cbn [bind].
  rewrite (FG_dosing0 s c1 _ F1) by reflexivity. cbn [opt_res bind].
  unfold c1 at 1. cbn [with_doses n_doses length Nat.leb]. rewrite andb_false_r.
  apply (FG_geqb s (with_abs s ZO) c1 _ F1).
  - apply names_abs. unfold s_depot. cbn [with_abs s_abs]. rewrite Ha. reflexivity.
  - apply first_name_abs. unfold s_depot. cbn [with_abs s_abs]. rewrite Ha. reflexivity.
  - apply build_edges_abs. unfold s_depot. cbn [with_abs s_abs]. rewrite Ha. reflexivity.
  - reflexivity.
  - unfold c1, with_doses, fnode, mk_node.
    rewrite (first_name_abs s ZO) by (unfold s_depot; cbn [with_abs s_abs]; rewrite Ha; reflexivity).
    rewrite name_eqb_refl. reflexivity.
  - intros x Hx. unfold mk_node.
    rewrite (first_name_abs s ZO) by (unfold s_depot; cbn [with_abs s_abs]; rewrite Ha; reflexivity).
    rewrite Hx. reflexivity.
Qed.

(* ---- removing the (dosed) depot of a system without transits ---- *)
Lemma find_node_build s x : In x (names s) -> find_node (build s) x = Some (mk_node s x).
Proof.
  intro H. unfold find_node. cbn [g_nodes build]. rewrite build_nodes_names.
  pose proof (names_nodup s) as Hu. induction (names s) as [|y l IH]; [contradiction|].
  inversion Hu as [|? ? Hnot Hu']; subst. cbn [map find]. rewrite n_name_mk_node.
  destruct (name_eqb y x) eqn:E.
  - apply name_eqb_eq in E. subst. reflexivity.
  - destruct H as [->|H]; [rewrite name_eqb_refl in E; discriminate | apply IH; auto].
Qed.

Lemma remove_compartment_uniq g d : uniq g -> uniq (remove_compartment g d).
Proof.
  unfold uniq, remove_compartment. cbn [g_nodes]. rewrite map_name_drop. apply NoDup_filter.
Qed.

Lemma nodes_depot_only s : s_depot s = true -> s_transits s = 0 ->
  build_nodes s = fnode s :: cnode s :: map pnode (seq 1 (s_periph s)).
Proof. intros Hd Ht. unfold build_nodes, fnode, cnode, first_name. rewrite Hd, Ht. reflexivity. Qed.

Lemma edges_depot_only s : s_depot s = true -> s_transits s = 0 ->
  build_edges s = dedge :: eledge s :: map pedge1 (seq 1 (s_periph s)) ++ map pedge2 (seq 1 (s_periph s)).
Proof. intros Hd Ht. unfold build_edges. rewrite Hd, Ht. reflexivity. Qed.

Lemma FG_removed_depot s s'' :
  s_depot s = true -> s_transits s = 0 ->
  s_depot s'' = false -> s_transits s'' = 0 -> s_periph s'' = s_periph s -> s_elim s'' = s_elim s ->
  FG s'' (cnode s) (remove_compartment (build s) (fnode s)).
Proof.
  intros Hd Ht Hd' Ht' Hp' He'.
  assert (Fn : first_name s = NDepot) by (unfold first_name; rewrite Hd, Ht; reflexivity).
  assert (Fn' : first_name s'' = NCentral) by (apply first_central; assumption).
  assert (Cn : cnode s = plain NCentral).
  { unfold cnode, mk_node. rewrite Fn. reflexivity. }
  assert (Nodes : g_nodes (remove_compartment (build s) (fnode s)) = cnode s :: map pnode (seq 1 (s_periph s))).
  { unfold remove_compartment. cbn [g_nodes build]. unfold fnode. rewrite n_name_mk_node, Fn.
    rewrite nodes_depot_only by assumption. unfold drop_named. cbn [filter]. unfold fnode. rewrite !n_name_mk_node, Fn, n_name_cnode.
    cbn [name_eqb negb]. f_equal. apply filter_all. intros x Hx. apply in_map_iff in Hx. destruct Hx as [j [<- _]]. reflexivity. }
  constructor.
  - apply remove_compartment_uniq. apply uniq_build.
  - unfold remove_compartment. cbn [g_edges build]. unfold fnode. rewrite n_name_mk_node, Fn.
    rewrite edges_depot_only by assumption. cbn [filter dedge eledge e_src e_dst name_eqb negb andb].
    rewrite filter_app.
    rewrite (filter_all _ (map pedge1 _)) by (intros x Hx; apply in_map_iff in Hx; destruct Hx as [j [<- _]]; reflexivity).
    rewrite (filter_all _ (map pedge2 _)) by (intros x Hx; apply in_map_iff in Hx; destruct Hx as [j [<- _]]; reflexivity).
    unfold build_edges. rewrite Hd', Ht', Hp', He'. reflexivity.
  - unfold remove_compartment. cbn [g_kmfix build]. rewrite He'. reflexivity.
  - rewrite n_name_cnode. symmetry. exact Fn'.
  - intro nd. rewrite Nodes. rewrite nodes_no_chain by assumption. rewrite Fn', Hp'. cbn [In]. split.
    + intros [<-|H]; auto. right. split; [right; exact H|]. apply in_map_iff in H. destruct H as [j [<- _]]. discriminate.
    + intros [->|[[<-|H] Hne]]; auto. exfalso. apply Hne. unfold fnode. rewrite n_name_mk_node. exact Fn'.
  - rewrite Nodes. rewrite nodes_no_chain by assumption. rewrite Hp'. reflexivity.
Qed.

Lemma remove_relabel_comm g a b d :
  n_name b = n_name a -> n_name d <> n_name a ->
  remove_compartment (relabel g a b) d = relabel (remove_compartment g d) a b.
Proof.
  intros Hb Hd. unfold relabel.
  assert (Hin : node_in (remove_compartment g d) a = node_in g a).
  { unfold node_in, remove_compartment, drop_named. cbn [g_nodes].
    induction (g_nodes g) as [|y l IH]; [reflexivity|]. cbn [filter existsb].
    destruct (negb (name_eqb (n_name y) (n_name d))) eqn:E; cbn [existsb]; rewrite IH; [reflexivity|].
    destruct (node_eqb a y) eqn:Ey; [|reflexivity]. apply node_eqb_eq in Ey. subst y.
    apply negb_false_iff in E. apply name_eqb_eq in E. exfalso. apply Hd. symmetry. exact E. }
  rewrite Hin. destruct (node_in g a); [|reflexivity]. destruct (node_eqb a b); [reflexivity|].
  unfold remove_compartment, set_nodes. cbn [g_nodes g_edges g_kmfix g_mat g_popmdt g_krates g_elq]. f_equal.
  unfold drop_named. rewrite !filter_app. cbn [filter]. rewrite Hb.
  assert (X : negb (name_eqb (n_name a) (n_name d)) = true).
  { apply negb_true_iff. apply name_eqb_neq. intro E. apply Hd. symmetry. exact E. }
  rewrite X. f_equal.
  induction (g_nodes g) as [|y l IH]; [reflexivity|]. cbn [filter].
  destruct (negb (name_eqb (n_name y) (n_name a))) eqn:E1; destruct (negb (name_eqb (n_name y) (n_name d))) eqn:E2;
    cbn [filter]; rewrite ?E1, ?E2, IH; reflexivity.
Qed.

(* ---- first-order / sequential without transits -> instantaneous ---- *)
Theorem refines_inst_remove_depot s :
  s_depot s = true -> s_transits s = 0 -> refines AbsInst s = true.
Proof.
  intros Hd Ht. unfold refines.
  set (s' := with_biob (with_lagb (with_abs s INST) false) false).
  assert (Hstep : step AbsInst s = SOk s').
  { cbn [step]. rewrite Ht. unfold s_depot in Hd. destruct (s_abs s); try discriminate Hd; reflexivity. }
  rewrite Hstep. cbn [setter_graph].
  assert (E1 : first_name s' = NCentral).
  { unfold first_name, s', s_depot. cbn [with_biob with_lagb with_abs s_abs s_transits]. rewrite Ht. reflexivity. }
  assert (Fn : first_name s = NDepot) by (unfold first_name; rewrite Hd, Ht; reflexivity).
  assert (Cn : cnode s = plain NCentral) by (unfold cnode, mk_node; rewrite Fn; reflexivity).
  unfold set_instantaneous_absorption. rewrite dosing0_build. cbn [opt_res bind]. rewrite inst_build, Hd. cbn [negb andb].
  rewrite find_depot_build. unfold canon_depot. rewrite Hd. cbn [bind].
  replace (mk_node s NDepot) with (fnode s) by (unfold fnode; rewrite Fn; reflexivity).
  rewrite !n_name_fnode, Fn.
  rewrite out_edges_depot by exact Hd. cbn [hd_error opt_res bind dedge e_dst].
  rewrite (find_node_build s NCentral (central_in_names s)). cbn [opt_res bind]. fold (cnode s).
  rewrite fnode_doses. unfold set_dose. cbv beta iota zeta. cbn [fst snd].
  rewrite preds_depot, Hd, Ht. cbn [Nat.eqb negb andb fold_left].
  set (tc := with_doses (cnode s) [the_dose s]).
  assert (Htc : n_name tc = n_name (cnode s)) by reflexivity.
  rewrite (remove_relabel_comm (build s) (cnode s) tc (fnode s) Htc)
    by (rewrite n_name_cnode; unfold fnode; rewrite n_name_mk_node, Fn; discriminate).
  (* the system after the depot is gone *)
  set (s0 := with_biob (with_lagb (with_abs s (drop_depot_abs (s_abs s))) false) false).
  assert (Hd0 : s_depot s0 = false).
  { unfold s0, s_depot in *. cbn [with_biob with_lagb with_abs s_abs]. destruct (s_abs s); try discriminate Hd; reflexivity. }
  assert (F0 : FG s0 (cnode s) (remove_compartment (build s) (fnode s))).
  { apply FG_removed_depot; auto. }
  assert (F1 : FG s0 tc (relabel (remove_compartment (build s) (fnode s)) (cnode s) tc)).
  { apply FG_relabel; [exact F0|]. rewrite Htc, n_name_cnode. symmetry. apply first_central; [exact Hd0 | exact Ht]. }
  set (model := relabel (remove_compartment (build s) (fnode s)) (cnode s) tc) in *.
  assert (Hzo : has_zero_order_absorption model = s_zo s).
  { unfold has_zero_order_absorption, first_dose. rewrite (FG_dosing0 s0 tc model F1) by reflexivity.
    unfold tc. cbn [with_doses n_doses hd_error]. unfold the_dose. destruct (s_zo s); reflexivity. }
  cbn [bind]. rewrite Hzo.
  assert (Tc : tc = mkNode NCentral [the_dose s] false false) by (unfold tc; rewrite Cn; reflexivity).
  destruct (s_zo s) eqn:Ez.
  - (* sequential: the infusion is turned into a bolus on the updated system *)
    rewrite (FG_dosing0 s0 tc model F1) by reflexivity. cbn [opt_res bind].
    unfold sorted_doses. rewrite Tc. cbn [n_doses length Nat.leb hd_error opt_res bind set_dose fst].
    rewrite <- Tc.
    set (c2 := with_doses tc [bolus 1]).
    assert (F2 : FG s0 c2 (relabel model tc c2)).
    { apply FG_relabel; [exact F1|]. unfold c2. cbn [with_doses n_name]. apply (fg_name _ _ _ F1). }
    apply (FG_geqb s0 s' c2 _ F2); try reflexivity.
    + unfold names, s', s0, s_depot. cbn [with_biob with_lagb with_abs s_abs s_transits s_periph].
      unfold s_depot in Hd. destruct (s_abs s); try discriminate Hd; reflexivity.
    + unfold first_name, s', s0, s_depot. cbn [with_biob with_lagb with_abs s_abs s_transits].
      unfold s_depot in Hd. destruct (s_abs s); try discriminate Hd; reflexivity.
    + unfold build_edges, chain_next, s', s0, s_depot. cbn [with_biob with_lagb with_abs s_abs s_transits s_periph s_elim].
      unfold s_depot in Hd. destruct (s_abs s); try discriminate Hd; reflexivity.
    + rewrite (first_central s0 Hd0 Ht). unfold mk_node. rewrite E1. cbn [name_eqb]. unfold c2, with_doses. rewrite Tc. reflexivity.
    + intros x Hx. unfold mk_node. rewrite (first_central s0 Hd0 Ht) in Hx.
      rewrite E1, (first_central s0 Hd0 Ht), Hx. reflexivity.
  - (* first order *)
    apply (FG_geqb s0 s' tc _ F1); try reflexivity.
    + unfold names, s', s0, s_depot. cbn [with_biob with_lagb with_abs s_abs s_transits s_periph].
      unfold s_depot in Hd. destruct (s_abs s); try discriminate Hd; reflexivity.
    + unfold first_name, s', s0, s_depot. cbn [with_biob with_lagb with_abs s_abs s_transits].
      unfold s_depot in Hd. destruct (s_abs s); try discriminate Hd; reflexivity.
    + unfold build_edges, chain_next, s', s0, s_depot. cbn [with_biob with_lagb with_abs s_abs s_transits s_periph s_elim].
      unfold s_depot in Hd. destruct (s_abs s); try discriminate Hd; reflexivity.
    + rewrite (first_central s0 Hd0 Ht), Tc. unfold mk_node. rewrite E1. cbn [name_eqb]. unfold the_dose. rewrite Ez. reflexivity.
    + intros x Hx. unfold mk_node. rewrite (first_central s0 Hd0 Ht) in Hx.
      rewrite E1, (first_central s0 Hd0 Ht), Hx. reflexivity.
Qed.

(* ---- first-order / sequential without transits -> zero order ---- *)
Theorem refines_zo_remove_depot s :
  s_depot s = true -> s_transits s = 0 -> refines AbsZO s = true.
Proof.
  intros Hd Ht. unfold refines.
  set (s' := with_abs s ZO).
  assert (Hstep : step AbsZO s = SOk s').
  { cbn [step]. rewrite Ht. unfold s_depot in Hd. destruct (s_abs s); try discriminate Hd; reflexivity. }
  rewrite Hstep. cbn [setter_graph].
  assert (E1 : first_name s' = NCentral).
  { unfold first_name, s', s_depot. cbn [with_abs s_abs s_transits]. rewrite Ht. reflexivity. }
  assert (Fn : first_name s = NDepot) by (unfold first_name; rewrite Hd, Ht; reflexivity).
  assert (Cn : cnode s = plain NCentral) by (unfold cnode, mk_node; rewrite Fn; reflexivity).
  unfold set_zero_order_absorption. rewrite dosing0_build. cbn [opt_res bind].
  unfold disallow_infusion, first_dose, has_seq_zo_fo_absorption. rewrite dosing0_build, fnode_doses, zo_build, fo_build, Hd.
  assert (Di : d_inf (the_dose s) && negb (d_zo (the_dose s)) = false) by (unfold the_dose; destruct (s_zo s); reflexivity).
  cbn [hd_error orb]. rewrite Di.
  assert (Zz : s_zo s && negb (s_zo s && true) = false) by (destruct (s_zo s); reflexivity). rewrite Zz.
  rewrite find_depot_build. unfold canon_depot. rewrite Hd. cbn [bind].
  replace (mk_node s NDepot) with (fnode s) by (unfold fnode; rewrite Fn; reflexivity).
  unfold sorted_doses. rewrite fnode_doses. cbn [length Nat.leb hd_error opt_res bind].
  rewrite !n_name_fnode, Fn. rewrite out_edges_depot by exact Hd. cbn [hd_error opt_res bind dedge e_dst].
  rewrite (find_node_build s NCentral (central_in_names s)). cbn [opt_res bind]. fold (cnode s).
  unfold add_dose, set_lag_time, set_bioavailability. cbv beta iota zeta. cbn [fst snd].
  rewrite fnode_lag, fnode_bio.
  assert (Cd : n_doses (cnode s) = []) by (rewrite Cn; reflexivity). rewrite !Cd. cbn [app].
  set (tc1 := with_doses (cnode s) [the_dose s]).
  set (tc2 := with_lag tc1 (s_lag s)). set (tc3 := with_bio tc2 (s_bio s)).
  set (s0 := with_abs s (drop_depot_abs (s_abs s))).
  assert (Hd0 : s_depot s0 = false).
  { unfold s0, s_depot in *. cbn [with_abs s_abs]. destruct (s_abs s); try discriminate Hd; reflexivity. }
  assert (Fc : first_name s0 = NCentral) by (apply first_central; [exact Hd0 | exact Ht]).
  assert (F0 : FG s0 (cnode s) (remove_compartment (build s) (fnode s))) by (apply FG_removed_depot; auto).
  assert (F3 : FG s0 tc3 (relabel (relabel (relabel (remove_compartment (build s) (fnode s)) (cnode s) tc1) tc1 tc2) tc2 tc3)).
  { repeat apply FG_relabel; try exact F0; rewrite Fc; unfold tc3, tc2, tc1; cbn [with_bio with_lag with_doses n_name]; apply n_name_cnode. }
  set (model := relabel (relabel (relabel (remove_compartment (build s) (fnode s)) (cnode s) tc1) tc1 tc2) tc2 tc3) in *.
  cbn [bind].
  assert (T3 : tc3 = mkNode NCentral [the_dose s] (s_lag s) (s_bio s)).
  { unfold tc3, tc2, tc1. rewrite Cn. reflexivity. }
  assert (Hzo : has_zero_order_absorption model = s_zo s).
  { unfold has_zero_order_absorption, first_dose. rewrite (FG_dosing0 s0 tc3 model F3) by (rewrite T3; reflexivity).
    rewrite T3. cbn [n_doses hd_error]. unfold the_dose. destruct (s_zo s); reflexivity. }
  rewrite Hzo.
  assert (Final : forall c g, FG s0 c g -> c = mkNode NCentral [mkDose true true 1] (s_lag s) (s_bio s) -> geqb g (build s') = true).
  { intros c g F Hc. apply (FG_geqb s0 s' c g F).
    - unfold names, s', s0, s_depot. cbn [with_abs s_abs s_transits s_periph].
      unfold s_depot in Hd. destruct (s_abs s); try discriminate Hd; reflexivity.
    - rewrite E1, Fc. reflexivity.
    - unfold build_edges, chain_next, s', s0, s_depot. cbn [with_abs s_abs s_transits s_periph s_elim].
      unfold s_depot in Hd. destruct (s_abs s); try discriminate Hd; reflexivity.
    - reflexivity.
    - rewrite Fc, Hc. unfold mk_node. rewrite E1. reflexivity.
    - intros x Hx. rewrite Fc in Hx. unfold mk_node. rewrite E1, Fc, Hx. reflexivity. }
  destruct (s_zo s) eqn:Ez.
  - (* sequential: the infusion is already there *)
    cbn [bind]. rewrite (FG_dosing0 s0 tc3 model F3) by (rewrite T3; reflexivity). cbn [opt_res bind].
    rewrite T3 at 1. cbn [n_doses length Nat.leb]. rewrite andb_false_r.
    apply (Final tc3 model F3). rewrite T3. unfold the_dose. rewrite Ez. reflexivity.
  - (* first order: the bolus becomes an infusion *)
    unfold add_zero_order_absorption. rewrite (FG_dosing0 s0 tc3 model F3) by (rewrite T3; reflexivity). cbn [opt_res bind].
    assert (Nd : n_doses tc3 = [the_dose s]) by (rewrite T3; reflexivity). rewrite Nd.
    unfold the_dose. rewrite Ez.
    cbn [d_admid bolus remove_first_dose dose_eqb d_zo d_inf Bool.eqb Nat.eqb andb opt_res bind set_dose fst].
    set (c4 := with_doses tc3 [mkDose true true 1]).
    assert (F4 : FG s0 c4 (relabel model tc3 c4)).
    { apply FG_relabel; [exact F3|]. unfold c4. cbn [with_doses n_name]. apply (fg_name _ _ _ F3). }
    assert (Ne : tc3 <> c4).
    { intro X. assert (Y : n_doses tc3 = n_doses c4) by (rewrite <- X; reflexivity). rewrite Nd in Y. unfold c4 in Y. cbn in Y.
      unfold the_dose in Y. rewrite Ez in Y. discriminate. }
    assert (M2 : (if s_lag s then Ok (fst (set_lag_time (relabel model tc3 c4) tc3 true)) else Ok (relabel model tc3 c4))
                 = Ok (relabel model tc3 c4)).
    { destruct (s_lag s); [|reflexivity]. unfold set_lag_time. cbn [fst]. unfold relabel at 1.
      rewrite (FG_not_in s0 c4 _ tc3 F4); [reflexivity | apply (fg_name _ _ _ F3) | exact Ne]. }
    rewrite M2. cbn [bind].
    rewrite (FG_dosing0 s0 c4 _ F4) by reflexivity. cbn [opt_res bind].
    unfold c4 at 1. cbn [with_doses n_doses length Nat.leb]. rewrite andb_false_r.
    apply (Final c4 _ F4). unfold c4. rewrite T3. reflexivity.
Qed.

(* ---- zero order with a chain: set_zero_order_absorption changes nothing ---- *)
Theorem refines_zo_noop_chain s :
  s_abs s = ZO -> 2 <= s_transits s -> refines AbsZO s = true.
Proof.
  intros Ha Ht. unfold refines.
  assert (Hstep : step AbsZO s = SOk s).
  { cbn [step]. rewrite Ha. destruct (s_transits s) as [|[|tr]]; try lia. reflexivity. }
  rewrite Hstep. cbn [setter_graph].
  assert (Hd : s_depot s = false) by (unfold s_depot; rewrite Ha; reflexivity).
  unfold set_zero_order_absorption. rewrite dosing0_build. cbn [opt_res bind].
  unfold disallow_infusion, first_dose, has_seq_zo_fo_absorption. rewrite dosing0_build, fnode_doses, zo_build, fo_build, Hd.
  unfold the_dose, s_zo. rewrite Ha. cbn [hd_error d_inf d_zo negb andb orb].
  replace (Nat.eqb (s_transits s) 0) with false by (symmetry; apply Nat.eqb_neq; lia). cbn [negb andb].
  rewrite find_depot_build. unfold canon_depot. rewrite Hd.
  replace (Nat.eqb (s_transits s) 1) with false by (symmetry; apply Nat.eqb_neq; lia). cbn [bind].
  unfold sorted_doses. rewrite fnode_doses. cbn [length Nat.leb hd_error opt_res bind].
  rewrite zo_build. unfold s_zo. rewrite Ha. cbn [bind]. rewrite dosing0_build. cbn [opt_res bind].
  rewrite fnode_doses. cbn [length Nat.leb]. rewrite andb_false_r. apply geqb_refl_build.
Qed.

(* ---- instantaneous with a chain -> sequential: the infusion goes on TRANSIT1 (fix 2e21c7f) ---- *)
Theorem refines_seq_from_inst_chain s :
  s_abs s = INST -> 2 <= s_transits s -> refines AbsSeq s = true.
Proof.
  intros Ha Ht. unfold refines.
  assert (Hstep : step AbsSeq s = SOk (with_abs s ZO)).
  { cbn [step]. rewrite Ha. destruct (s_transits s) as [|[|tr]]; try lia. reflexivity. }
  rewrite Hstep. cbn [setter_graph].
  assert (Hd : s_depot s = false) by (unfold s_depot; rewrite Ha; reflexivity).
  assert (T0 : Nat.eqb (s_transits s) 0 = false) by (apply Nat.eqb_neq; lia).
  assert (T1 : Nat.eqb (s_transits s) 1 = false) by (apply Nat.eqb_neq; lia).
  unfold set_seq_zo_fo_absorption. rewrite dosing0_build. cbn [opt_res bind].
  unfold has_seq_zo_fo_absorption, disallow_infusion, first_dose. rewrite zo_build, dosing0_build, fnode_doses.
  unfold s_zo, the_dose, s_zo. rewrite Ha. cbn [andb hd_error d_inf d_zo negb opt_res bind].
  rewrite find_depot_build. unfold canon_depot. rewrite Hd, T1. cbn [bind].
  unfold set_first_order_absorption. rewrite dosing0_build. cbn [opt_res bind].
  unfold has_seq_zo_fo_absorption. rewrite fo_build, zo_build, Hd, T0. unfold s_zo. rewrite Ha. cbn [orb negb andb bind].
  rewrite find_depot_build. unfold canon_depot. rewrite Hd, T1. cbn [bind].
  rewrite dosing0_build.
  unfold add_zero_order_absorption. cbn [opt_res bind]. rewrite fnode_doses. unfold the_dose, s_zo. rewrite Ha.
  cbn [d_admid bolus remove_first_dose dose_eqb d_zo d_inf Bool.eqb Nat.eqb andb opt_res bind].
  rewrite dosing0_build. cbn [opt_res bind set_dose fst].
  set (c1 := with_doses (fnode s) [mkDose true true 1]).
  assert (F1 : FG s c1 (relabel (build s) (fnode s) c1)).
  { apply FG_relabel; [apply FG_build | unfold c1; cbn [with_doses n_name]; apply n_name_fnode]. }
  apply (FG_geqb s (with_abs s ZO) c1 _ F1).
  - apply names_abs. unfold s_depot. cbn [with_abs s_abs]. rewrite Ha. reflexivity.
  - apply first_name_abs. unfold s_depot. cbn [with_abs s_abs]. rewrite Ha. reflexivity.
  - apply build_edges_abs. unfold s_depot. cbn [with_abs s_abs]. rewrite Ha. reflexivity.
  - reflexivity.
  - unfold c1, with_doses, fnode, mk_node.
    rewrite (first_name_abs s ZO) by (unfold s_depot; cbn [with_abs s_abs]; rewrite Ha; reflexivity).
    rewrite name_eqb_refl. reflexivity.
  - intros x Hx. unfold mk_node.
    rewrite (first_name_abs s ZO) by (unfold s_depot; cbn [with_abs s_abs]; rewrite Ha; reflexivity).
    rewrite Hx. reflexivity.
Qed.
