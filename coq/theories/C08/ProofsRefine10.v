(* PV.C08.ProofsRefine10 — set_transit_compartments removing transits from the end of the chain
   (at least one transit stays). *)
From Coq Require Import List Bool Arith NArith Lia.
From PV Require Import Base.PyData C08.Model C08.ProofsGraph C08.ProofsRefine C08.ProofsDecimal C08.ProofsRefine2
  C08.ProofsRefine3 C08.ProofsRefine4 C08.ProofsRefine5 C08.ProofsRefine6 C08.ProofsRefine7 C08.ProofsRefine8
  C08.ProofsRefine9.
Import ListNotations.
Local Open Scope nat_scope.

Lemma get_edge_unique l e : key_unique l -> In e l -> find (is_edge (e_src e) (e_dst e)) l = Some e.
Proof.
  intros HU Hin.
  assert (H : forall l0, (forall x, In x l0 -> In x l) -> In e l0 ->
                         find (is_edge (e_src e) (e_dst e)) l0 = Some e).
  { induction l0 as [|x l0 IH]; intros Hs Hi; [contradiction|]. cbn.
    destruct (is_edge (e_src e) (e_dst e) x) eqn:E.
    - f_equal. apply (HU e x); auto. apply Hs. left. reflexivity.
    - destruct Hi as [->|Hi].
      + unfold is_edge in E. rewrite !name_eqb_refl in E. discriminate.
      + apply IH; auto. intros y Hy. apply Hs. right. exact Hy. }
  apply (H l); auto.
Qed.

Section Remove.
  Variable s : sk.
  Local Notation tr := (s_transits s).
  Local Notation dst := (if s_depot s then NDepot else NCentral).
  Local Notation rest := (build_edges (with_tr s 0)).
  Local Notation R := (names (with_tr s 0)).

  Definition st_nodes (j : nat) : list node := map (mk_node s) (map NTransit (seq 1 j) ++ R).
  Definition lastE (j : nat) : edge := mkEdge (NTransit j) dst 2 false false.
  Definition linkE (k : nat) : edge := mkEdge (NTransit k) (NTransit (S k)) 2 false false.
  Definition chainE (j : nat) : list edge := map linkE (seq 1 (j - 1)).

  Lemma tedge_last : tedge s tr = lastE tr.
  Proof. unfold tedge, chain_next, lastE. rewrite Nat.ltb_irrefl. reflexivity. Qed.
  Lemma tedge_link k : k < tr -> tedge s k = linkE k.
  Proof. intro H. unfold tedge, chain_next, linkE. destruct (Nat.ltb_spec k tr); [reflexivity|lia]. Qed.

  Lemma build_edges_split : 1 <= tr -> build_edges s = chainE tr ++ [lastE tr] ++ rest.
  Proof.
    intro H1.
    assert (A : map (fun k => mkEdge (NTransit k) (chain_next s k) 2 false false) (seq 1 tr) = chainE tr ++ [lastE tr]).
    { replace tr with ((tr - 1) + 1) at 1 by lia. rewrite seq_app, map_app. cbn [seq map].
      replace (1 + (tr - 1)) with tr by lia. f_equal.
      - unfold chainE. apply map_ext_in. intros k Hk. apply in_seq in Hk. apply (tedge_link k). lia.
      - f_equal. apply tedge_last. }
    unfold build_edges at 1. rewrite A, <- app_assoc. reflexivity.
  Qed.

  Lemma rest_src e j : In e rest -> e_src e <> NTransit j.
  Proof. intro H. exact (proj2 (old_edge_rid (with_tr s 0) e eq_refl H) j). Qed.
  Lemma rest_dst e j : In e rest -> e_dst e <> NTransit j.
  Proof.
    intro H. rewrite build_edges_with in H. apply in_edges_with in H.
    destruct H as [k Hk' ->| Hd ->| -> |j' Hj ->|j' Hj ->]; cbn; try discriminate. cbn in Hk'. lia.
  Qed.
  Lemma dst_not_transit j : dst <> NTransit j.
  Proof. destruct (s_depot s); discriminate. Qed.

  Lemma st_nodes_build : st_nodes tr = build_nodes s.
  Proof. rewrite build_nodes_names. reflexivity. Qed.

  Lemma drop_st_nodes j : 1 <= j -> drop_named (NTransit j) (st_nodes j) = st_nodes (j - 1).
  Proof.
    intro Hj. unfold st_nodes. rewrite drop_named_map. f_equal. rewrite filter_app. f_equal.
    - replace j with ((j - 1) + 1) at 1 by lia. rewrite seq_app, map_app, filter_app.
      cbn [seq map filter]. replace (1 + (j - 1)) with j by lia. rewrite name_eqb_refl. cbn [negb]. rewrite app_nil_r.
      apply filter_all. intros x H. apply in_map_iff in H. destruct H as [k [<- Hk]]. apply in_seq in Hk.
      cbn [name_eqb]. destruct (Nat.eqb_spec k j); [lia|reflexivity].
    - apply filter_all. intros x H. rewrite name_eqb_neq; [reflexivity|].
      exact (names_no_transit (with_tr s 0) x j eq_refl H).
  Qed.

  Lemma get_edge_link k : 1 <= k < tr -> get_edge (build s) (NTransit k) (NTransit (S k)) = Some (linkE k).
  Proof.
    intro Hk. unfold get_edge. cbn [g_edges build].
    change (NTransit k) with (e_src (linkE k)). change (NTransit (S k)) with (e_dst (linkE k)).
    apply get_edge_unique.
    - rewrite build_edges_with. apply key_unique_edges_with; reflexivity.
    - rewrite build_edges_split by lia. apply in_or_app. left. unfold chainE. apply in_map. apply in_seq. lia.
  Qed.

  Lemma remove_step k j cb X1 X2 :
    2 <= j -> j <= tr ->
    g_nodes cb = st_nodes j -> g_edges cb = chainE j ++ X1 ++ [lastE j] ++ X2 -> X1 ++ X2 = rest ->
    exists cb', remove_transits (S k) (build s) cb (NTransit j) dst = remove_transits k (build s) cb' (NTransit (j - 1)) dst
      /\ g_nodes cb' = st_nodes (j - 1) /\ g_edges cb' = chainE (j - 1) ++ rest ++ [lastE (j - 1)] ++ []
      /\ g_kmfix cb' = g_kmfix cb.
  Proof.
    intros Hk Hj Hn He HX.
    remember (remove_transits (S k) (build s) cb (NTransit j) dst) as g' eqn:Hg'. symmetry in Hg'.
    cbn [remove_transits] in Hg'. rewrite preds_transit in Hg' by lia. unfold tnode in Hg'. rewrite n_name_mk_node in Hg'.
      assert (Hge : get_edge (build s) (NTransit (j - 1)) (NTransit j) = Some (linkE (j - 1))).
      { replace (NTransit j) with (NTransit (S (j - 1))) by (f_equal; lia). apply get_edge_link. lia. }
      rewrite Hge in Hg'. unfold add_flow_like in Hg'. cbn [linkE e_rid e_nonlin e_cl] in Hg'. unfold add_flow in Hg'.
      assert (InX : forall e, In e X1 \/ In e X2 -> In e rest).
      { intros e H. rewrite <- HX. apply in_or_app. exact H. }
      assert (Hno : has_edge cb (NTransit (j - 1)) dst = false).
      { unfold has_edge. apply not_true_is_false. intro X. apply existsb_exists in X. destruct X as [e [Hin E]].
        unfold is_edge in E. apply andb_true_iff in E. destruct E as [E1 E2]. apply name_eqb_eq in E1, E2.
        rewrite He in Hin. rewrite !in_app_iff in Hin. destruct Hin as [Hin|[Hin|[Hin|Hin]]].
        - apply in_map_iff in Hin. destruct Hin as [i [<- _]]. cbn in E2. symmetry in E2. exact (dst_not_transit _ E2).
        - exact (rest_src e _ (InX e (or_introl Hin)) E1).
        - destruct Hin as [<-|[]]. cbn in E1. injection E1 as E1. lia.
        - exact (rest_src e _ (InX e (or_intror Hin)) E1). }
      rewrite Hno in Hg'.
      set (cb' := remove_compartment _ _) in Hg'.
      assert (Hn' : g_nodes cb' = st_nodes (j - 1)).
      { unfold cb', remove_compartment. cbn [g_nodes set_edges plain n_name]. rewrite Hn. apply drop_st_nodes. lia. }
      assert (He' : g_edges cb' = chainE (j - 1) ++ rest ++ [lastE (j - 1)] ++ []).
      { unfold cb', remove_compartment. cbn [g_edges set_edges plain n_name]. rewrite He.
        assert (Hc : chainE j = chainE (j - 1) ++ [linkE (j - 1)]).
        { unfold chainE. replace (j - 1) with ((j - 1 - 1) + 1) at 1 by lia. rewrite seq_app, map_app. cbn [seq map].
          replace (1 + (j - 1 - 1)) with (j - 1) by lia. reflexivity. }
        rewrite Hc, !filter_app. cbn [filter linkE lastE e_src e_dst name_eqb].
        replace (S (j - 1)) with j by lia. rewrite !Nat.eqb_refl. cbn [negb andb app].
        destruct (Nat.eqb_spec (j - 1) j); [lia|]. cbn [negb andb].
        rewrite (name_eqb_neq _ _ (dst_not_transit j)). cbn [negb app]. rewrite app_nil_r.
        rewrite <- HX.
        assert (F1 : forall l, (forall e, In e l -> In e rest) ->
                     filter (fun e => negb (name_eqb (e_src e) (NTransit j)) && negb (name_eqb (e_dst e) (NTransit j))) l = l).
        { intros l Hl. apply filter_all. intros e H. rewrite (name_eqb_neq _ _ (rest_src e j (Hl e H))), (name_eqb_neq _ _ (rest_dst e j (Hl e H))). reflexivity. }
        rewrite (F1 X1) by (intros e H; apply InX; left; exact H).
        rewrite (F1 X2) by (intros e H; apply InX; right; exact H).
        rewrite <- !app_assoc. f_equal.
        apply filter_all. intros e H. apply in_map_iff in H. destruct H as [i [<- Hi]]. apply in_seq in Hi.
        cbn [linkE e_src e_dst name_eqb]. destruct (Nat.eqb_spec i j); [lia|]. destruct (Nat.eqb_spec (S i) j); [lia|]. reflexivity. }
      exists cb'. split; [symmetry; exact Hg'|]. split; [exact Hn'|]. split; [exact He'|]. reflexivity.
  Qed.

  Lemma remove_transits_spec k : forall j cb X1 X2,
    k < j -> j <= tr ->
    g_nodes cb = st_nodes j -> g_edges cb = chainE j ++ X1 ++ [lastE j] ++ X2 -> X1 ++ X2 = rest ->
    forall g', remove_transits k (build s) cb (NTransit j) dst = g' ->
    g_nodes g' = st_nodes (j - k)
    /\ (exists Y1 Y2, Y1 ++ Y2 = rest /\ g_edges g' = chainE (j - k) ++ Y1 ++ [lastE (j - k)] ++ Y2)
    /\ g_kmfix g' = g_kmfix cb.
  Proof.
    induction k as [|k IH]; intros j cb X1 X2 Hk Hj Hn He HX g' Hg'.
    - cbn [remove_transits] in Hg'. subst g'. rewrite Nat.sub_0_r. split; [exact Hn|]. split; [exists X1, X2; split; assumption | reflexivity].
    - destruct (remove_step k j cb X1 X2 ltac:(lia) Hj Hn He HX) as [cb' [E [Hn' [He' Hk']]]]. rewrite E in Hg'.
      destruct (IH (j - 1) cb' rest [] ltac:(lia) ltac:(lia) Hn' He' (app_nil_r _) g' Hg') as [G1 [G2 G3]].
      replace (j - S k) with (j - 1 - k) by lia. split; [exact G1|]. split; [exact G2|]. rewrite G3. exact Hk'.
  Qed.

  (* all transits go: the last step finds no inflow of TRANSIT1 *)
  Lemma remove_last_step cb X1 X2 :
    1 <= tr ->
    g_nodes cb = st_nodes 1 -> g_edges cb = chainE 1 ++ X1 ++ [lastE 1] ++ X2 -> X1 ++ X2 = rest ->
    let g' := remove_transits 1 (build s) cb (NTransit 1) dst in
    g_nodes g' = st_nodes 0 /\ g_edges g' = rest /\ g_kmfix g' = g_kmfix cb.
  Proof.
    intros H1 Hn He HX. cbn [remove_transits]. rewrite preds_transit1. cbn zeta.
    unfold remove_compartment. cbn [g_nodes g_edges g_kmfix plain n_name]. split; [|split; [|reflexivity]].
    - rewrite Hn. apply (drop_st_nodes 1). lia.
    - rewrite He. cbn [chainE seq map app Nat.sub]. rewrite !filter_app. cbn [filter lastE e_src e_dst name_eqb Nat.eqb negb andb app].
      rewrite <- HX.
      assert (F1 : forall l, (forall e, In e l -> In e rest) ->
                   filter (fun e => negb (name_eqb (e_src e) (NTransit 1)) && negb (name_eqb (e_dst e) (NTransit 1))) l = l).
      { intros l Hl. apply filter_all. intros e H. rewrite (name_eqb_neq _ _ (rest_src e 1 (Hl e H))), (name_eqb_neq _ _ (rest_dst e 1 (Hl e H))). reflexivity. }
      rewrite (F1 X1), (F1 X2); [reflexivity | |]; intros e H; rewrite <- HX; apply in_or_app; auto.
  Qed.

  Lemma remove_transits_all k : forall j cb X1 X2,
    k = j -> 1 <= j -> j <= tr ->
    g_nodes cb = st_nodes j -> g_edges cb = chainE j ++ X1 ++ [lastE j] ++ X2 -> X1 ++ X2 = rest ->
    forall g', remove_transits k (build s) cb (NTransit j) dst = g' ->
    g_nodes g' = st_nodes 0 /\ g_edges g' = rest /\ g_kmfix g' = g_kmfix cb.
  Proof.
    induction k as [|k IH]; intros j cb X1 X2 Hk H1 Hj Hn He HX g' Hg'; [lia|].
    destruct (Nat.eq_dec j 1) as [->|Nj].
    - injection Hk as ->. subst g'. apply (remove_last_step cb X1 X2); auto.
    - destruct (remove_step k j cb X1 X2 ltac:(lia) Hj Hn He HX) as [cb' [E [Hn' [He' Hk']]]]. rewrite E in Hg'.
      destruct (IH (j - 1) cb' rest [] ltac:(lia) ltac:(lia) ltac:(lia) Hn' He' (app_nil_r _) g' Hg') as [G1 [G2 G3]].
      split; [exact G1|]. split; [exact G2|]. rewrite G3. exact Hk'.
  Qed.
End Remove.

(* a chain in front: the dose is not given to the central compartment *)
Lemma FG_not_inst s c g : FG s c g -> has_doses c = true -> 1 <= s_transits s -> has_instantaneous_absorption g = false.
Proof.
  intros F Hd H1. unfold has_instantaneous_absorption. rewrite (FG_dosing0 _ _ _ F Hd), (FG_central _ _ _ F).
  destruct (FG_cen_in _ _ _ F) as [_ Hn]. rewrite Hn, (fg_name _ _ _ F).
  unfold first_name. destruct (s_transits s); [lia|reflexivity].
Qed.

(* ---- the theorem: transits are removed from the end of the chain, at least one stays ---- *)
Theorem refines_transits_remove s n keep :
  valid s = true -> (keep = true \/ s_depot s = false) ->
  1 <= n -> n < s_transits s ->
  refines (Transits n keep) s = true.
Proof.
  intros Hv Hk H1 Hlt. unfold refines.
  assert (Hnd : negb (s_depot s) && Nat.eqb (s_transits s) 1 = false).
  { unfold valid in Hv. apply negb_true_iff in Hv. exact Hv. }
  assert (Hct : canon_transits s = s_transits s).
  { unfold canon_transits. destruct (s_depot s); [reflexivity|]. cbn [negb andb] in Hnd. rewrite Hnd. reflexivity. }
  assert (Htn : transit_names s = map NTransit (seq 1 (s_transits s))).
  { unfold transit_names. rewrite Hnd. reflexivity. }
  assert (Hstep : step (Transits n keep) s = SOk (with_tr s n)).
  { cbn [step]. unfold step_transits. rewrite Hct, Hnd.
    replace (negb keep && (s_depot s || false)) with false.
    2:{ destruct Hk as [->| ->]; [reflexivity | destruct keep; reflexivity]. }
    destruct (Nat.eqb_spec (s_transits s) n); [lia|].
    destruct (Nat.eqb_spec (s_transits s) 0); [lia|]. rewrite andb_false_r.
    destruct (Nat.ltb_spec n (s_transits s)); [|lia]. destruct (Nat.eqb_spec n 0); [lia|]. reflexivity. }
  rewrite Hstep. cbn [setter_graph]. unfold set_transit_compartments.
  rewrite dosing0_build. cbn [opt_res bind]. rewrite find_transits_build. cbn [opt_res bind].
  destruct (remove_lag_build s) as [gl [Hg [_ Fgl]]]. rewrite Hg. cbn [bind]. rewrite find_depot_build. cbn [bind].
  pose proof (no_depot_block s keep Hv Hk) as Nb.
  rewrite length_transit_names, Hct, Htn.
  match goal with |- context [bind ?M ?K] => assert (HM : M = Ok (gl, build s)) end.
  { destruct (canon_depot s); [destruct keep; [|contradiction]|]; reflexivity. }
  rewrite HM. clear HM Nb. cbn [bind]. cbv zeta.
  destruct (Nat.eqb_spec (s_transits s) n); [lia|].
  replace (Nat.eqb n 1 && has_instantaneous_absorption gl) with false.
  2:{ destruct (Nat.eqb_spec n 1); [|reflexivity]. cbn [andb]. symmetry.
      apply (FG_not_inst s _ gl Fgl); [|lia]. unfold has_doses. cbn [with_lag n_doses]. rewrite fnode_doses. reflexivity. }
  destruct (Nat.eqb_spec (s_transits s) 0); [lia|].
  destruct (Nat.ltb_spec n (s_transits s)) as [_|]; [|lia].
  rewrite find_last_build by lia. cbn [bind].
  destruct (Nat.eqb_spec n 0); [lia|].
  rewrite tedge_last. cbn [lastE e_dst].
  set (tr := s_transits s) in *. set (s' := with_tr s n).
  destruct (remove_transits_spec s (tr - n) tr (build s) [] (build_edges (with_tr s 0))) with (g' := remove_transits (tr - n) (build s) (build s) (NTransit tr) (if s_depot s then NDepot else NCentral))
    as [G1 [[Y1 [Y2 [HY G2]]] G3]]; try reflexivity; try lia.
  { symmetry. apply st_nodes_build. }
  { cbn [g_edges build]. apply build_edges_split. lia. }
  set (g' := remove_transits _ _ _ _ _) in *. clearbody g'.
  replace (tr - (tr - n)) with n in * by lia.
  assert (Hf1 : first_name s = NTransit 1) by (unfold first_name; fold tr; destruct tr; [lia|reflexivity]).
  assert (Hmk : forall x, mk_node s' x = mk_node s x).
  { intro x. unfold mk_node. replace (first_name s') with (NTransit 1); [rewrite Hf1; reflexivity|].
    unfold first_name, s'. cbn [with_tr s_transits]. destruct n; [lia|reflexivity]. }
  assert (Hbn' : build_nodes s' = g_nodes g').
  { rewrite G1, build_nodes_names. unfold st_nodes. apply map_ext. exact Hmk. }
  assert (HE' : build_edges s' = chainE n ++ [lastE s n] ++ build_edges (with_tr s 0)).
  { apply (build_edges_split s'). cbn. lia. }
  assert (Hchar : forall e, In e (g_edges g') <-> In e (build_edges s')).
  { intro e. rewrite G2, HE', <- HY, !in_app_iff. tauto. }
  apply (geqb_perm_edges g' (build s') (fun e => e)).
  - cbn [g_nodes build]. rewrite Hbn'. auto.
  - cbn [g_nodes build]. rewrite Hbn'. auto.
  - cbn [g_nodes build]. rewrite Hbn'. reflexivity.
  - cbn [g_edges build]. rewrite G2, HE', <- HY, !app_length. cbn [length]. lia.
  - intros e Hin. apply Hchar. exact Hin.
  - intros e' Hin. exists e'. split; [apply Hchar; exact Hin | reflexivity].
  - intro e. split; reflexivity.
  - intros e _. apply edge_shape_refl.
  - cbn [g_edges build]. rewrite build_edges_with. apply key_unique_edges_with; reflexivity.
  - intros a b _ _. reflexivity.
  - rewrite G3. reflexivity.
Qed.

(* ---- the theorem: all transits are removed, the dose goes to the compartment behind the chain ---- *)
Theorem refines_transits_remove_all s keep :
  valid s = true -> (keep = true \/ s_depot s = false) ->
  1 <= s_transits s ->
  refines (Transits 0 keep) s = true.
Proof.
  intros Hv Hk H1. unfold refines.
  assert (Hnd : negb (s_depot s) && Nat.eqb (s_transits s) 1 = false).
  { unfold valid in Hv. apply negb_true_iff in Hv. exact Hv. }
  assert (Hct : canon_transits s = s_transits s).
  { unfold canon_transits. destruct (s_depot s); [reflexivity|]. cbn [negb andb] in Hnd. rewrite Hnd. reflexivity. }
  assert (Htn : transit_names s = map NTransit (seq 1 (s_transits s))).
  { unfold transit_names. rewrite Hnd. reflexivity. }
  assert (Hstep : step (Transits 0 keep) s = SOk (with_biob (with_lagb (with_tr s 0) false) false)).
  { cbn [step]. unfold step_transits. rewrite Hct, Hnd.
    replace (negb keep && (s_depot s || false)) with false.
    2:{ destruct Hk as [->| ->]; [reflexivity | destruct keep; reflexivity]. }
    destruct (Nat.eqb_spec (s_transits s) 0); [lia|]. cbn [Nat.eqb andb].
    destruct (Nat.ltb_spec 0 (s_transits s)); [|lia]. reflexivity. }
  rewrite Hstep. cbn [setter_graph]. unfold set_transit_compartments.
  rewrite dosing0_build. cbn [opt_res bind]. rewrite find_transits_build. cbn [opt_res bind].
  destruct (remove_lag_build s) as [gl [Hg [_ Fgl]]]. rewrite Hg. cbn [bind]. rewrite find_depot_build. cbn [bind].
  pose proof (no_depot_block s keep Hv Hk) as Nb.
  rewrite length_transit_names, Hct, Htn.
  match goal with |- context [bind ?M ?K] => assert (HM : M = Ok (gl, build s)) end.
  { destruct (canon_depot s); [destruct keep; [|contradiction]|]; reflexivity. }
  rewrite HM. clear HM Nb. cbn [bind]. cbv zeta.
  destruct (Nat.eqb_spec (s_transits s) 0); [lia|]. cbn [Nat.eqb andb].
  destruct (Nat.ltb_spec 0 (s_transits s)) as [_|]; [|lia].
  rewrite find_last_build by lia. cbn [bind].
  rewrite dosing0_build. cbn [opt_res bind]. rewrite fnode_doses. cbn [hd_error opt_res bind].
  rewrite tedge_last. cbn [lastE e_dst]. rewrite Nat.sub_0_r.
  set (tr := s_transits s) in *. set (dst := if s_depot s then NDepot else NCentral).
  set (R := names (with_tr s 0)).
  set (s0 := with_biob (with_lagb (with_tr s 0) false) false).
  assert (Hf1 : first_name s = NTransit 1) by (unfold first_name; fold tr; destruct tr; [lia|reflexivity]).
  assert (HdR : In dst R).
  { unfold R, names, dst. cbn [with_tr s_transits seq map app]. change (s_depot (with_tr s 0)) with (s_depot s).
    destruct (s_depot s); left; reflexivity. }
  assert (HRs : forall x, In x R -> In x (names s)).
  { intros x Hx. unfold names. apply in_or_app. right. exact Hx. }
  assert (HRt : forall x j, In x R -> x <> NTransit j).
  { intros x j Hx. exact (names_no_transit (with_tr s 0) x j eq_refl Hx). }
  assert (Hpl : forall x, In x R -> mk_node s x = plain x).
  { intros x Hx. unfold mk_node. rewrite Hf1, (name_eqb_neq _ _ (HRt x 1 Hx)). reflexivity. }
  rewrite (find_node_build s dst (HRs _ HdR)), (Hpl _ HdR). cbn [opt_res bind]. unfold set_dose. cbn [fst].
  destruct (remove_transits_all s tr tr (build s) [] (build_edges (with_tr s 0)))
    with (g' := remove_transits tr (build s) (build s) (NTransit tr) dst) as [G1 [G2 G3]]; try reflexivity; try lia.
  { symmetry. apply st_nodes_build. }
  { cbn [g_edges build]. apply build_edges_split. lia. }
  set (g' := remove_transits _ _ _ _ _) in *. clearbody g'.
  set (b := with_doses (plain dst) [the_dose s]).
  assert (G1' : g_nodes g' = map plain R).
  { rewrite G1. unfold st_nodes. cbn [seq map app]. apply map_ext_in. exact Hpl. }
  assert (U : uniq g').
  { unfold uniq. rewrite G1', map_map. cbn [plain n_name]. rewrite map_id. apply names_nodup. }
  assert (Ia : In (plain dst) (g_nodes g')) by (rewrite G1'; apply in_map; exact HdR).
  pose proof (relabel_in g' (plain dst) b U Ia eq_refl) as C.
  assert (Hmk0 : forall x, mk_node s0 x = if name_eqb x dst then mkNode x [the_dose s] false false else plain x).
  { intro x. reflexivity. }
  assert (Hb : b = mk_node s0 dst) by (rewrite Hmk0, name_eqb_refl; reflexivity).
  assert (Hbn0 : build_nodes s0 = map (mk_node s0) R) by (rewrite build_nodes_names; reflexivity).
  apply (geqb_perm_edges _ (build s0) (fun e => e)).
  - intros nd H. apply C in H. cbn [g_nodes build]. rewrite Hbn0. destruct H as [->|[H Hne]].
    + rewrite Hb. apply in_map. exact HdR.
    + rewrite G1' in H. apply in_map_iff in H. destruct H as [x [<- Hx]]. cbn [plain n_name] in Hne.
      replace (plain x) with (mk_node s0 x) by (rewrite Hmk0, (name_eqb_neq _ _ Hne); reflexivity). apply in_map. exact Hx.
  - intros nd H. apply C. cbn [g_nodes build] in H. rewrite Hbn0 in H. apply in_map_iff in H. destruct H as [x [<- Hx]].
    rewrite Hmk0. destruct (name_eqb x dst) eqn:E.
    + left. apply name_eqb_eq in E. subst x. reflexivity.
    + right. split; [rewrite G1'; apply in_map; exact Hx|]. cbn [plain n_name]. intro X. rewrite X, name_eqb_refl in E. discriminate.
  - rewrite relabel_length by (auto; reflexivity). cbn [g_nodes build]. rewrite G1', Hbn0, !map_length. reflexivity.
  - rewrite relabel_edges, G2. reflexivity.
  - intros e H. rewrite relabel_edges, G2 in H. exact H.
  - intros e' H. exists e'. split; [|reflexivity]. rewrite relabel_edges, G2. exact H.
  - intro e. split; reflexivity.
  - intros e _. apply edge_shape_refl.
  - cbn [g_edges build]. rewrite build_edges_with. apply key_unique_edges_with; reflexivity.
  - intros x y _ _. reflexivity.
  - rewrite relabel_kmfix, G3. reflexivity.
Qed.
