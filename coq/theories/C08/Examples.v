(* PV.C08.Examples — non-vacuity: concrete non-trivial instances of every hypothesis / guard. *)
From Coq Require Import List Bool Arith.
From PV Require Import Base.PyData C08.Model C08.ProofsDomain C08.ProofsRefineAll C08.Properties.
Import ListNotations.

(* first-order absorption, 2 peripherals, lag time, NONMEM-like environment *)
Definition ex1 : sk := mkSk FO 0 2 EFO true true false false true false.
(* a bolus transit chain of 3 without depot, mixed elimination *)
Definition ex2 : sk := mkSk INST 3 1 EMIX false false true true true true.

(* valid, guarded, and the step really does something: 3 transits in front of the depot after
   removing the lag time is NOT guarded (stale lag), without lag it is *)
Example guard_nontrivial :
  valid ex1 = true /\ guard (Transits 3 true) ex1 = false
  /\ guard (Transits 3 true) (with_lagb ex1 false) = true
  /\ step (Transits 3 true) (with_lagb ex1 false) = SOk (with_tr (with_lagb ex1 false) 3).
Proof. repeat split; vm_compute; reflexivity. Qed.

Example guard_all_conjuncts_can_hold :
  forallb (fun f => guard f ex2)
    [AbsInst; AbsFO; AbsZO; ElFO; ElZO; ElMM; ElMix; LagOn; LagOff; BioOn; BioOff; PerAdd; PerSet 3; Transits 5 true; Transits 5 false] = true
  /\ guard (Transits 0 true) ex2 = false /\ guard (Transits 0 true) (with_biob ex2 false) = true.
Proof. repeat split; vm_compute; reflexivity. Qed.

(* the build of a non-trivial skeleton and what the detectors say about it *)
Example detect_example :
  detect (build ex2) = mkDet (Some FO) (Some EMIX) 3 None 1 false true
  /\ length (g_nodes (build ex2)) = 5 /\ length (g_edges (build ex2)) = 6.
Proof. repeat split; vm_compute; reflexivity. Qed.

(* one transit in front of a depot is a transit; in front of central it is read as the depot *)
Example single_transit_reading :
  detect (build (mkSk FO 1 0 EFO false true true false true false)) = mkDet (Some FO) (Some EFO) 1 (Some NDepot) 0 false false
  /\ detect (build (mkSk INST 1 0 EFO false true true false true false)) = mkDet (Some FO) (Some EFO) 0 (Some (NTransit 1)) 0 false false
  /\ valid (mkSk INST 1 0 EFO false true true false true false) = false.
Proof. repeat split; vm_compute; reflexivity. Qed.

(* idempotence hypothesis: a feature request (not an increment), with a real effect *)
Example idempotent_nontrivial :
  is_incr AbsSeq = false /\ guard AbsSeq (with_lagb ex1 false) = true
  /\ step AbsSeq (with_lagb ex1 false) = SOk (with_abs (with_lagb ex1 false) SEQ)
  /\ step AbsSeq (with_abs (with_lagb ex1 false) SEQ) = SOk (with_abs (with_lagb ex1 false) SEQ).
Proof. repeat split; vm_compute; reflexivity. Qed.

(* undo hypothesis: there are requests with an undo, and the undo is guarded *)
Example undo_nontrivial :
  undo_of (Transits 3 true) (with_lagb ex1 false) = Some (Transits 0 true)
  /\ guard (Transits 0 true) (with_tr (with_lagb ex1 false) 3) = true
  /\ step (Transits 0 true) (with_tr (with_lagb ex1 false) 3) = SOk (with_lagb ex1 false)
  /\ undo_of PerAdd ex2 = Some PerRem /\ guard PerRem (with_per ex2 2) = false
  /\ guard PerRem (with_per (mkSk INST 3 1 EMIX false false true false true false) 2) = true.
Proof. repeat split; vm_compute; reflexivity. Qed.

(* the documented refusal is reachable under the guard *)
Example refusal_nontrivial :
  valid (mkSk INST 0 1 EFO false false false false true false) = true
  /\ guard (Transits 1 true) (mkSk INST 0 1 EFO false false false false true false) = true
  /\ step (Transits 1 true) (mkSk INST 0 1 EFO false false false false true false) = SRefuse
  /\ setter_graph (Transits 1 true) (build (mkSk INST 0 1 EFO false false false false true false)) = Refuse
  /\ step (Transits 1 false) (mkSk FO 0 0 EFO false true false false true false) = SRefuse.
Proof. repeat split; vm_compute; reflexivity. Qed.

(* the bounded domain of setter_refines_partial is not trivial *)
Definition ex3 : sk := mkSk SEQ 4 3 EZO false true true false true true.
Example domain_nontrivial :
  s_transits ex3 <= 5 /\ s_periph ex3 <= 3 /\ req_bounded 6 4 (Transits 6 false)
  /\ env_default (Transits 6 false) ex3 = true /\ valid ex3 = true
  /\ refines (Transits 6 false) ex3 = true /\ step (Transits 6 false) ex3 = SCrash CDupParam
  /\ env_default AbsSeq (mkSk FO 0 2 EFO true true false false true false) = true
  /\ refines AbsSeq (mkSk FO 0 2 EFO true true false false true false) = true.
Proof. repeat split; try (vm_compute; reflexivity); cbn; repeat constructor. Qed.

(* setter_refines is used beyond every bound of the vm_compute closure: 40 transits, 25 peripherals *)
Definition ex_big : sk := mkSk SEQ 40 25 EZO true true true false true true.
Example all_counts_nontrivial :
  refines_proved ElMix ex_big = true /\ refines_proved PerAdd ex_big = true /\ refines_proved PerRem ex_big = true
  /\ refines_proved (PerSet 3) ex_big = true /\ refines_proved (PerSet 26) ex_big = true
  /\ refines_proved (PerSet 27) ex_big = false /\ refines_proved AbsSeq ex_big = true
  /\ refines_proved AbsInst (mkSk ZO 30 2 EFO true false true false true true) = true
  /\ refines_proved AbsInst (mkSk SEQ 0 7 EMM false true true false true false) = true
  /\ refines_proved AbsZO (mkSk FO 0 7 EMM true true true false true true) = true
  /\ refines_proved AbsFO (mkSk ZO 0 12 EFO true false true false true true) = true
  /\ refines_proved (Transits 3 true) ex_big = true /\ refines_proved (Transits 0 true) ex_big = true
  /\ refines_proved (Transits 77 true) ex_big = true /\ refines_proved (Transits 40 true) ex_big = true
  /\ refines_proved (Transits 3 false) ex_big = true /\ refines_proved (Transits 55 false) ex_big = true
  /\ refines_proved (Transits 17 false) (mkSk SEQ 0 6 EMM true false true true false true) = true
  /\ open_case (Transits 17 false) (mkSk SEQ 0 6 EMM true false true true false true) = false
  /\ refines_proved (Transits 12 false) (mkSk ZO 0 9 EMM false false true false true true) = true
  /\ refines_proved (Transits 1 true) (mkSk INST 0 9 EMM true false true false true true) = true
  /\ refines_proved (Transits 2 true) (mkSk INST 0 9 EMM true false true false true true) = true
  /\ refines_proved_for_all_counts PerRem = true
  /\ refines_proved (Transits 30 true) (mkSk FO 0 9 EMM true false true false true true) = true
  /\ step (Transits 30 true) (mkSk FO 0 9 EMM true false true false true true) = SAnom
  /\ guard (Transits 30 true) (mkSk FO 0 9 EMM true false true false true true) = false
  /\ open_case (Transits 3 true) ex_big = false /\ guard (Transits 0 true) (mkSk FO 33 8 EMIX false true true false true false) = true
  /\ open_case (Transits 0 true) (mkSk FO 33 8 EMIX false true true false true false) = false
  /\ open_case (Transits 3 false) ex_big = false /\ open_case AbsInst ex_big = false /\ refines_proved AbsInst ex_big = true /\ open_case (PerSet 27) ex_big = true
  /\ open_case AbsSeq (mkSk INST 0 2 EFO false false false false false false) = true
  /\ valid ex_big = true /\ guard PerAdd ex_big = true /\ guard (PerSet 3) ex_big = true /\ guard ElMix ex_big = true
  /\ guard AbsSeq ex_big = true.
Proof. repeat split; vm_compute; reflexivity. Qed.
