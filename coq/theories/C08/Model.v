(* PV.C08.Model — executable model of the GRAPH part of pharmpy's structural feature setters
   (pharmpy.modeling.odes) and of the detectors they are judged by
   (CompartmentalSystem.central_compartment / dosing_compartments / find_transit_compartments /
   find_depot / find_peripheral_compartments, has_X_absorption, has_X_elimination, has_lag_time,
   get_number_of_X), mirroring the Python statement by statement — including the places where the
   Python keeps working on a stale copy of the system.  No proofs in this file.

   Abstractions (validated by the correspondence, see Check.v):
   * a rate expression is kept as  rid     : identity class of  before_odes.full_expression(rate)
                                  nonlin  : odes.t in rate.free_symbols
                                  cl      : Symbol('CL') in rate.free_symbols
   * a dose is kept as (zo = odes._dose_zo(model, dose), inf = isinstance(dose, Infusion), admid)
   * lag time / bioavailability are kept as "is not 0" / "is not 1"
   * of the parameters/statements only four facts are kept: peripheral rates are bare symbols (g_krates), POP_KM exists and is fixed (g_kmfix),
     an assignment of MAT exists (g_mat), a parameter POP_MDT exists once the lag time is removed (g_popmdt)
   * compartments are identified by name (the networkx graph identifies them by content); the one
     place where the Python creates a second compartment with an existing name is reported as
     the outcome  Crash CDupName. *)
From Coq Require Import List Bool Arith NArith Lia.
From PV Require Import Base.PyData.
Import ListNotations.
Local Open Scope nat_scope.

(* ------------------------------------------------------------------ names *)
Inductive name :=
| NOutput | NCentral | NDepot
| NTransit (k : nat) | NPeriph (k : nat)
| NOther (c : list N).

Definition codes_eqb (a b : list N) : bool := list_eqb N.eqb a b.

Definition name_eqb (a b : name) : bool :=
  match a, b with
  | NOutput, NOutput | NCentral, NCentral | NDepot, NDepot => true
  | NTransit i, NTransit j => Nat.eqb i j
  | NPeriph i, NPeriph j => Nat.eqb i j
  | NOther c, NOther d => codes_eqb c d
  | _, _ => false
  end.

(* the Python string of a name (compartments are sorted by it) *)
Fixpoint uint_codes (u : Decimal.uint) : list N :=
  match u with
  | Decimal.Nil => []
  | Decimal.D0 u => 48%N :: uint_codes u | Decimal.D1 u => 49%N :: uint_codes u
  | Decimal.D2 u => 50%N :: uint_codes u | Decimal.D3 u => 51%N :: uint_codes u
  | Decimal.D4 u => 52%N :: uint_codes u | Decimal.D5 u => 53%N :: uint_codes u
  | Decimal.D6 u => 54%N :: uint_codes u | Decimal.D7 u => 55%N :: uint_codes u
  | Decimal.D8 u => 56%N :: uint_codes u | Decimal.D9 u => 57%N :: uint_codes u
  end.
Definition nat_codes (n : nat) : list N := uint_codes (Nat.to_uint n).

Definition s_CENTRAL : list N := [67;69;78;84;82;65;76]%N.
Definition s_DEPOT : list N := [68;69;80;79;84]%N.
Definition s_TRANSIT : list N := [84;82;65;78;83;73;84]%N.
Definition s_PERIPHERAL : list N := [80;69;82;73;80;72;69;82;65;76]%N.
Definition s_OUTPUT : list N := [79;85;84;80;85;84]%N.
Definition s_METABOLITE : list N := [77;69;84;65;66;79;76;73;84;69]%N.
Definition s_EFFECT : list N := [69;70;70;69;67;84]%N.
Definition s_COMPLEX : list N := [67;79;77;80;76;69;88]%N.
Definition s_RESPONSE : list N := [82;69;83;80;79;78;83;69]%N.

Definition name_str (x : name) : list N :=
  match x with
  | NOutput => s_OUTPUT | NCentral => s_CENTRAL | NDepot => s_DEPOT
  | NTransit k => s_TRANSIT ++ nat_codes k
  | NPeriph k => s_PERIPHERAL ++ nat_codes k
  | NOther c => c
  end.

(* Python str <= : lexicographic on code points, a proper prefix is smaller *)
Fixpoint lex_leb (a b : list N) : bool :=
  match a, b with
  | [], _ => true
  | _ :: _, [] => false
  | x :: a', y :: b' => if N.ltb x y then true else if N.ltb y x then false else lex_leb a' b'
  end.
Definition name_leb (a b : name) : bool := lex_leb (name_str a) (name_str b).

(* ------------------------------------------------------------------ graphs *)
Record dose := mkDose { d_zo : bool; d_inf : bool; d_admid : nat }.
Definition bolus (admid : nat) : dose := mkDose false false admid.
Definition dose_eqb (a b : dose) : bool :=
  Bool.eqb (d_zo a) (d_zo b) && Bool.eqb (d_inf a) (d_inf b) && Nat.eqb (d_admid a) (d_admid b).

Record node := mkNode { n_name : name; n_doses : list dose; n_lag : bool; n_bio : bool }.
Definition node_eqb (a b : node) : bool :=
  name_eqb (n_name a) (n_name b) && list_eqb dose_eqb (n_doses a) (n_doses b)
  && Bool.eqb (n_lag a) (n_lag b) && Bool.eqb (n_bio a) (n_bio b).
Definition plain (x : name) : node := mkNode x [] false false.       (* Compartment.create(name) *)

Record edge := mkEdge { e_src : name; e_dst : name; e_rid : nat; e_nonlin : bool; e_cl : bool }.

Record graph := mkGraph {
  g_nodes : list node;       (* in the node order of the frozen networkx graph, output left out *)
  g_edges : list edge;
  g_kmfix : bool;            (* 'POP_KM' in model.parameters and model.parameters['POP_KM'].fix *)
  g_mat : bool;              (* statements.find_assignment('MAT') is not None *)
  g_popmdt : bool;           (* 'POP_MDT' in remove_lag_time(model).parameters *)
  g_krates : bool;           (* some peripheral -> central rate r has r.as_numer_denom()[1] == 1 (a bare K symbol) *)
  g_elq : bool               (* the elimination rate r has r.as_numer_denom()[1] != 1 *)
}.

Definition set_nodes (g : graph) (l : list node) : graph :=
  mkGraph l (g_edges g) (g_kmfix g) (g_mat g) (g_popmdt g) (g_krates g) (g_elq g).
Definition set_edges (g : graph) (l : list edge) : graph :=
  mkGraph (g_nodes g) l (g_kmfix g) (g_mat g) (g_popmdt g) (g_krates g) (g_elq g).
Definition set_kmfix (g : graph) (b : bool) : graph :=
  mkGraph (g_nodes g) (g_edges g) b (g_mat g) (g_popmdt g) (g_krates g) (g_elq g).

Inductive crash :=
| CIndex        (* IndexError *)
| CAttr         (* AttributeError: attribute of None *)
| CDupName      (* a second compartment with an existing name: NetworkXUnfeasible in relabel_nodes,
                   or a system with two compartments of the same name *)
| CListRemove   (* ValueError: list.remove(x): x not in list *)
| CDupParam     (* ValueError: Parameter names must be unique *)
| CNoEdge       (* NetworkXError: edge not in graph *)
| CAssert       (* AssertionError *)
| CValue        (* another undocumented ValueError raised below the setter *)
| CFuel         (* the model ran out of fuel (the Python would not terminate) *)
| CStmt.        (* OBSERVATIONS ONLY: an exception raised below the setter by the statement / parameter /
                   code-generation layers (Model.replace validation, update_source); never returned by the model *)

Inductive res (A : Type) :=
| Ok (a : A)
| Refuse              (* documented refusal: ValueError / ModelError raised by the setter itself *)
| Crash (c : crash).
Arguments Ok {A} a. Arguments Refuse {A}. Arguments Crash {A} c.

Definition bind {A B} (r : res A) (f : A -> res B) : res B :=
  match r with Ok a => f a | Refuse => Refuse | Crash c => Crash c end.
Notation "'do' x <- r ; k" := (bind r (fun x => k)) (at level 200, x pattern, r at level 100, k at level 200).

(* ---- CompartmentalSystemBuilder operations ------------------------------------------------- *)
Definition find_node (g : graph) (x : name) : option node :=
  find (fun nd => name_eqb (n_name nd) x) (g_nodes g).
Definition node_in (g : graph) (nd : node) : bool := existsb (node_eqb nd) (g_nodes g).
Definition drop_named (x : name) (l : list node) : list node :=
  filter (fun nd => negb (name_eqb (n_name nd) x)) l.

(* add_compartment: networkx add_node; an equal compartment is already there -> nothing happens *)
Definition add_compartment (g : graph) (nd : node) : res graph :=
  match find_node g (n_name nd) with
  | None => Ok (set_nodes g (g_nodes g ++ [nd]))
  | Some old => if node_eqb old nd then Ok g else Crash CDupName
  end.

Definition remove_compartment (g : graph) (nd : node) : graph :=
  let x := n_name nd in
  mkGraph (drop_named x (g_nodes g))
          (filter (fun e => negb (name_eqb (e_src e) x) && negb (name_eqb (e_dst e) x)) (g_edges g))
          (g_kmfix g) (g_mat g) (g_popmdt g) (g_krates g) (g_elq g).

Definition is_edge (u v : name) (e : edge) : bool := name_eqb (e_src e) u && name_eqb (e_dst e) v.
Definition has_edge (g : graph) (u v : name) : bool := existsb (is_edge u v) (g_edges g).
Definition get_edge (g : graph) (u v : name) : option edge := find (is_edge u v) (g_edges g).

(* add_flow: networkx add_edge (an existing edge only gets the new rate) *)
Definition add_flow (g : graph) (u v : name) (rid : nat) (nonlin cl : bool) : graph :=
  let e := mkEdge u v rid nonlin cl in
  if has_edge g u v
  then set_edges g (map (fun e0 => if is_edge u v e0 then e else e0) (g_edges g))
  else set_edges g (g_edges g ++ [e]).
Definition add_flow_like (g : graph) (u v : name) (e : edge) : graph :=
  add_flow g u v (e_rid e) (e_nonlin e) (e_cl e).

Definition remove_flow (g : graph) (u v : name) : res graph :=
  if has_edge g u v then Ok (set_edges g (filter (fun e => negb (is_edge u v e)) (g_edges g)))
  else Crash CNoEdge.

(* nx.relabel_nodes(g, {old: new}, copy=False): ignored when old is not (any more) in the graph,
   nothing happens when new == old, otherwise the node moves to the end of the node order *)
Definition relabel (g : graph) (old new : node) : graph :=
  if node_in g old
  then if node_eqb old new then g
       else set_nodes g (drop_named (n_name old) (g_nodes g) ++ [new])
  else g.

Definition with_doses (nd : node) (ds : list dose) : node := mkNode (n_name nd) ds (n_lag nd) (n_bio nd).
Definition with_lag (nd : node) (b : bool) : node := mkNode (n_name nd) (n_doses nd) b (n_bio nd).
Definition with_bio (nd : node) (b : bool) : node := mkNode (n_name nd) (n_doses nd) (n_lag nd) b.

(* each returns the graph and the new compartment object, like the Python *)
Definition set_dose (g : graph) (nd : node) (ds : list dose) : graph * node :=
  (relabel g nd (with_doses nd ds), with_doses nd ds).
Definition add_dose (g : graph) (nd : node) (ds : list dose) : graph * node :=
  (relabel g nd (with_doses nd (n_doses nd ++ ds)), with_doses nd (n_doses nd ++ ds)).
Definition remove_dose (g : graph) (nd : node) (admid : nat) : graph * node :=
  let ds := if Nat.eqb admid 0 then [] else filter (fun d => negb (Nat.eqb (d_admid d) admid)) (n_doses nd) in
  (relabel g nd (with_doses nd ds), with_doses nd ds).
Definition set_lag_time (g : graph) (nd : node) (b : bool) : graph * node :=
  (relabel g nd (with_lag nd b), with_lag nd b).
Definition set_bioavailability (g : graph) (nd : node) (b : bool) : graph * node :=
  (relabel g nd (with_bio nd b), with_bio nd b).

(* move_dose(source, destination, admid) with a non-zero admid: one relabel with two entries.
   The two relabels are independent unless the label sets overlap (same name, see CDupName). *)
Definition move_dose (g : graph) (src dst : node) (admid : nat) : res graph :=
  match n_doses src with
  | [] => Crash CValue
  | _ =>
      let keep := filter (fun d => negb (Nat.eqb (d_admid d) admid)) (n_doses src) in
      let moved := filter (fun d => Nat.eqb (d_admid d) admid) (n_doses src) in
      Ok (relabel (relabel g src (with_doses src keep)) dst (with_doses dst (n_doses dst ++ moved)))
  end.

(* ---- CompartmentalSystem queries ------------------------------------------------------------- *)
(* predecessors are listed in node order (the frozen system is a copy; copying re-inserts the edges
   in node order), successors in edge order *)
Definition preds (g : graph) (x : name) : list node :=
  filter (fun nd => has_edge g (n_name nd) x) (g_nodes g).
Definition out_edges (g : graph) (x : name) : list edge :=
  filter (fun e => name_eqb (e_src e) x) (g_edges g).
Definition in_degree (g : graph) (x : name) : nat :=
  length (filter (fun e => name_eqb (e_dst e) x) (g_edges g)).
Definition out_degree (g : graph) (x : name) : nat := length (out_edges g x).

Definition special_name (x : name) : bool :=
  match x with
  | NOther c => codes_eqb c s_METABOLITE || codes_eqb c s_EFFECT || codes_eqb c s_COMPLEX || codes_eqb c s_RESPONSE
  | _ => false
  end.

(* central_compartment: list(predecessors(output))[-1], by name for metabolite/effect systems;
   None = ValueError('Cannot find central compartment') *)
Definition central (g : graph) : option node :=
  match last (map Some (preds g NOutput)) None with
  | None => None
  | Some c => if special_name (n_name c) then find_node g NCentral else Some c
  end.

(* sorted(comps, key=name) — insertion sort, stable *)
Fixpoint ins_node (x : node) (l : list node) : list node :=
  match l with
  | [] => [x]
  | y :: tl => if name_leb (n_name y) (n_name x) then y :: ins_node x tl else x :: l
  end.
Definition sort_nodes (l : list node) : list node := fold_left (fun acc x => ins_node x acc) l [].

(* sorted(peripherals, key=lambda comp: (len(comp.name), comp.name)) — the numbering order (6f6df8b) *)
Definition name_len_leb (a b : name) : bool :=
  let la := length (name_str a) in
  let lb := length (name_str b) in
  if la <? lb then true else if lb <? la then false else lex_leb (name_str a) (name_str b).
Fixpoint ins_node_len (x : node) (l : list node) : list node :=
  match l with
  | [] => [x]
  | y :: tl => if name_len_leb (n_name y) (n_name x) then y :: ins_node_len x tl else x :: l
  end.
Definition sort_nodes_len (l : list node) : list node := fold_left (fun acc x => ins_node_len x acc) l [].

Definition has_doses (nd : node) : bool := match n_doses nd with [] => false | _ => true end.

Fixpoint dosing_loop (cname : name) (l : list node) (acc : list node) : list node :=
  match l with
  | [] => acc
  | nd :: tl =>
      let acc' :=
        if negb (name_eqb (n_name nd) cname)
        then if 2 <=? length acc then removelast acc ++ [nd] ++ [last acc nd] else nd :: acc
        else acc ++ [nd] in
      dosing_loop cname tl acc'
  end.
(* dosing_compartments; None = ValueError (no central / no dosing compartment) *)
Definition dosing (g : graph) : option (list node) :=
  match central g with
  | None => None
  | Some c =>
      match dosing_loop (n_name c) (sort_nodes (filter has_doses (g_nodes g))) [] with
      | [] => None
      | l => Some l
      end
  end.
Definition dosing0 (g : graph) : option node :=
  match dosing g with Some (nd :: _) => Some nd | _ => None end.

(* find_transit_compartments *)
Fixpoint transit_walk (fuel : nat) (g : graph) (comp : name) (rid : nat) (acc : list name) : option (list name) :=
  match fuel with
  | 0 => None
  | S fuel' =>
      if negb (Nat.eqb (length (preds g comp)) 1) then Some acc
      else match out_edges g comp with
           | [e] => if negb (Nat.eqb rid (e_rid e)) then Some acc
                    else transit_walk fuel' g (e_dst e) rid (acc ++ [comp])
           | _ => Some acc
           end
  end.

Definition find_transits (g : graph) : option (list name) :=
  match dosing0 g, central g with
  | Some d, Some c =>
      if negb (Nat.eqb (length (preds g (n_name d))) 0) then Some []
      else match out_edges g (n_name d) with
           | [e] =>
               match transit_walk (S (length (g_nodes g))) g (e_dst e) (e_rid e) [n_name d] with
               | None => None
               | Some tr =>
                   match tr with
                   | [t0] => if has_edge g t0 (n_name c) || name_eqb t0 (n_name c) then Some [] else Some tr
                   | _ => Some tr
                   end
               end
           | _ => Some []
           end
  | _, _ => None
  end.

(* _find_depot: first predecessor of central that has exactly one outflow and no inflow from
   central.  (A predecessor with two outflows stops the search unless a METABOLITE compartment
   takes the second one — no such compartment in the modelled systems; three or more outflows is
   the AssertionError.) *)
Fixpoint find_depot_loop (g : graph) (c : name) (l : list node) : res (option node) :=
  match l with
  | [] => Ok None
  | nd :: tl =>
      let k := out_degree g (n_name nd) in
      if negb (Nat.eqb k 1 || Nat.eqb k 2) then Crash CAssert
      else if Nat.eqb k 2 then Ok None
      else if has_edge g c (n_name nd) then find_depot_loop g c tl
      else Ok (Some nd)
  end.
Definition memname (x : name) (l : list name) : bool := existsb (name_eqb x) l.
Definition find_depot (g : graph) : res (option node) :=
  match find_transits g, central g with
  | Some tr, Some c =>
      do d <- find_depot_loop g (n_name c) (preds g (n_name c));
      match d with
      | Some nd => if memname (n_name nd) tr then Ok None else Ok (Some nd)
      | None => Ok None
      end
  | None, Some _ => Crash CFuel
  | _, None => Crash CValue
  end.

(* find_peripheral_compartments() *)
Definition find_peripherals (g : graph) : list node :=
  match central g with
  | None => []
  | Some c =>
      sort_nodes_len (filter (fun nd =>
        Nat.eqb (out_degree g (n_name nd)) 1 && Nat.eqb (in_degree g (n_name nd)) 1
        && has_edge g (n_name nd) (n_name c) && has_edge g (n_name c) (n_name nd)) (g_nodes g))
  end.

(* ---- detectors of pharmpy.modeling.odes ------------------------------------------------------- *)
Definition first_dose (g : graph) : option dose :=
  match dosing0 g with Some nd => hd_error (n_doses nd) | None => None end.
Definition has_zero_order_absorption (g : graph) : bool :=
  match first_dose g with Some d => d_zo d | None => false end.
Definition has_first_order_absorption (g : graph) : bool :=
  match dosing0 g, central g with
  | Some d, Some c =>
      if name_eqb (n_name d) (n_name c) then false
      else
        let uni := filter (fun nd => negb (has_edge g (n_name c) (n_name nd))) (preds g (n_name c)) in
        Nat.eqb (length uni) 1
  | _, _ => false
  end.
Definition has_instantaneous_absorption (g : graph) : bool :=
  match dosing0 g, central g with
  | Some d, Some c =>
      name_eqb (n_name d) (n_name c) && match n_doses d with dd :: _ => negb (d_inf dd) | [] => false end
  | _, _ => false
  end.
Definition has_seq_zo_fo_absorption (g : graph) : bool :=
  has_zero_order_absorption g && has_first_order_absorption g.
Definition has_lag_time (g : graph) : bool :=
  match dosing0 g with Some d => n_lag d | None => false end.

(* no pharmpy function by that name: dosing_compartments[0].bioavailability != 1 *)
Definition has_bioavailability (g : graph) : bool :=
  match dosing0 g with Some d => n_bio d | None => false end.

Definition elim_edge (g : graph) : option edge :=
  match central g with Some c => get_edge g (n_name c) NOutput | None => None end.
Definition el_nonlin (g : graph) : bool := match elim_edge g with Some e => e_nonlin e | None => false end.
Definition el_cl (g : graph) : bool := match elim_edge g with Some e => e_cl e | None => false end.
Definition has_first_order_elimination (g : graph) : bool := negb (el_nonlin g).
Definition has_michaelis_menten_elimination (g : graph) : bool := el_nonlin g && negb (g_kmfix g) && negb (el_cl g).
Definition has_zero_order_elimination (g : graph) : bool := el_nonlin g && g_kmfix g && negb (el_cl g).
Definition has_mixed_mm_fo_elimination (g : graph) : bool := el_nonlin g && negb (g_kmfix g) && el_cl g.

Inductive absk := INST | FO | ZO | SEQ.
Inductive elk := EFO | EZO | EMM | EMIX.
Definition absk_eqb (a b : absk) : bool :=
  match a, b with INST, INST | FO, FO | ZO, ZO | SEQ, SEQ => true | _, _ => false end.
Definition elk_eqb (a b : elk) : bool :=
  match a, b with EFO, EFO | EZO, EZO | EMM, EMM | EMIX, EMIX => true | _, _ => false end.

(* what get_model_features reads off a model, category by category *)
Record detected := mkDet {
  dt_abs : option absk;      (* SEQ-ZO-FO / ZO / FO / INST in this order of precedence *)
  dt_elim : option elk;      (* MIX-FO-MM / ZO / FO / MM in this order of precedence *)
  dt_transits : nat;         (* get_number_of_transit_compartments *)
  dt_depot : option name;    (* find_depot *)
  dt_periph : nat;           (* get_number_of_peripheral_compartments *)
  dt_lag : bool;             (* has_lag_time *)
  dt_bio : bool              (* dosing_compartments[0].bioavailability != 1 *)
}.

Definition detect_abs (g : graph) : option absk :=
  if has_seq_zo_fo_absorption g then Some SEQ
  else if has_zero_order_absorption g then Some ZO
  else if has_first_order_absorption g then Some FO
  else if has_instantaneous_absorption g then Some INST else None.
Definition detect_elim (g : graph) : option elk :=
  if has_mixed_mm_fo_elimination g then Some EMIX
  else if has_zero_order_elimination g then Some EZO
  else if has_first_order_elimination g then Some EFO
  else if has_michaelis_menten_elimination g then Some EMM else None.
Definition detect (g : graph) : detected :=
  mkDet (detect_abs g) (detect_elim g)
        (match find_transits g with Some l => length l | None => 0 end)
        (match find_depot g with Ok (Some nd) => Some (n_name nd) | _ => None end)
        (length (find_peripherals g)) (has_lag_time g) (has_bioavailability g).

(* ---- helpers of the setters ------------------------------------------------------------------ *)
Definition fresh (g : graph) : nat := S (fold_left Nat.max (map e_rid (g_edges g)) 0).

(* _sorted_doses: zero-order doses first (sorted(..., reverse=True) is stable) *)
Definition sorted_doses (nd : node) : list dose :=
  if 2 <=? length (n_doses nd)
  then filter d_zo (n_doses nd) ++ filter (fun d => negb (d_zo d)) (n_doses nd)
  else n_doses nd.

(* _disallow_infusion: an infusion whose rate/duration is a data column *)
Definition disallow_infusion (g : graph) : bool :=
  match first_dose g with Some d => d_inf d && negb (d_zo d) | None => false end.

Fixpoint remove_first_dose (d : dose) (l : list dose) : option (list dose) :=
  match l with
  | [] => None
  | x :: tl => if dose_eqb x d then Some tl
               else match remove_first_dose d tl with Some r => Some (x :: r) | None => None end
  end.

Definition opt_res {A} (o : option A) (c : crash) : res A :=
  match o with Some a => Ok a | None => Crash c end.

(* _add_zero_order_absorption(model, old_dose, to_comp, parameter_name, lag_time);
   to_comp = None is the AttributeError *)
Definition add_zero_order_absorption (g : graph) (old_dose : dose) (to_comp : option node) (lag : option bool) : res graph :=
  do tc <- opt_res to_comp CAttr;
  let new_dose := mkDose true true (d_admid old_dose) in
  do rest <- opt_res (remove_first_dose old_dose (new_dose :: n_doses tc)) CListRemove;
  do d0 <- opt_res (dosing0 g) CValue;
  let g1 := fst (set_dose g tc rest) in
  match lag with
  | Some true => Ok (fst (set_lag_time g1 d0 true))      (* d0 is the object of the system before set_dose *)
  | _ => Ok g1
  end.

(* _add_first_order_absorption(model, dose, to_comp, lag_time, bioavailability, remove_dose) *)
Definition add_first_order_absorption (g : graph) (d : dose) (to_comp : node) (lag bio : bool) (remove_dose : bool) : res graph :=
  let depot := mkNode NDepot [d] lag bio in
  do g1 <- add_compartment g depot;
  let '(g2, tc2) := if remove_dose then set_dose g1 to_comp [] else (g1, to_comp) in
  let '(g3, tc3) := set_lag_time g2 tc2 false in
  let '(g4, tc4) := set_bioavailability g3 tc3 false in
  Ok (add_flow g4 NDepot (n_name tc4) (fresh g4) false false).

(* ---- absorption setters ------------------------------------------------------------------------ *)
Definition remove_lag_time (g : graph) : res graph :=
  do d0 <- opt_res (dosing0 g) CValue;
  if n_lag d0 then Ok (fst (set_lag_time g d0 false)) else Ok g.

Definition add_lag_time (g : graph) : res graph :=
  do d0 <- opt_res (dosing0 g) CValue;
  Ok (fst (set_lag_time g d0 true)).

(* add_bioavailability(model): only when the bioavailability is still a number *)
Definition add_bioavailability (g : graph) : res graph :=
  do d0 <- opt_res (dosing0 g) CValue;
  if n_bio d0 then Ok g else Ok (fst (set_bioavailability g d0 true)).
(* remove_bioavailability(model) *)
Definition remove_bioavailability (g : graph) : res graph :=
  do d0 <- opt_res (dosing0 g) CValue;
  Ok (fst (set_bioavailability g d0 false)).

(* (since the fixes 3342873 / decea79: the dose is moved only when the depot carries one, the inflows
   of the removed depot are reconnected, and the zero-order block works on the UPDATED system) *)
Definition set_instantaneous_absorption (cs : graph) : res graph :=
  do _d <- opt_res (dosing0 cs) CValue;
  if has_instantaneous_absorption cs then Ok cs
  else
    do depot <- find_depot cs;
    do model <-
      match depot with
      | Some d =>
          do e <- opt_res (hd_error (out_edges cs (n_name d))) CIndex;
          do to_comp <- opt_res (find_node cs (e_dst e)) CValue;
          let '(cb, tc) := match n_doses d with
                           | dd :: _ => set_dose cs to_comp [dd]
                           | [] => (cs, to_comp)
                           end in
          let cb2 := fold_left (fun acc from =>
                       match get_edge cs (n_name from) (n_name d) with
                       | Some e0 => add_flow_like acc (n_name from) (n_name tc) e0
                       | None => acc end) (preds cs (n_name d)) cb in
          Ok (remove_compartment cb2 d)
      | None => Ok cs
      end;
    if has_zero_order_absorption model then
      do dose_comp <- opt_res (dosing0 model) CValue;
      do sd <- opt_res (hd_error (sorted_doses dose_comp)) CIndex;
      let new_dose := bolus 1 in
      let ds := if 2 <=? length (n_doses dose_comp) then new_dose :: tl (sorted_doses dose_comp) else [new_dose] in
      Ok (fst (set_dose model dose_comp ds))
    else Ok model.

Definition set_zero_order_absorption (odes : graph) : res graph :=
  do dose_comp <- opt_res (dosing0 odes) CValue;
  if disallow_infusion odes then Refuse
  else if has_zero_order_absorption odes && negb (has_seq_zo_fo_absorption odes) then Ok odes
  else
    do depot <- find_depot odes;
    do dose <- opt_res (hd_error (sorted_doses dose_comp)) CIndex;
    let lag := n_lag dose_comp in
    do model <-
      match depot with
      | Some d =>
          do e <- opt_res (hd_error (out_edges odes (n_name d))) CIndex;
          do to_comp <- opt_res (find_node odes (e_dst e)) CValue;
          let cb := remove_compartment odes d in
          let '(cb1, tc1) := add_dose cb to_comp [dose] in
          let '(cb2, tc2) := set_lag_time cb1 tc1 (n_lag d) in
          Ok (fst (set_bioavailability cb2 tc2 (n_bio d)))
      | None => Ok odes
      end;
    do model2 <-
      if has_zero_order_absorption model then Ok model
      else add_zero_order_absorption model dose (dosing0 model) (Some lag);
    do d2 <- opt_res (dosing0 model2) CValue;
    if lag && (2 <=? length (n_doses d2)) then
      do m3 <- remove_lag_time model2; add_lag_time m3
    else Ok model2.

Definition set_first_order_absorption (cs : graph) : res graph :=
  do dose_comp <- opt_res (dosing0 cs) CValue;
  if has_first_order_absorption cs && negb (has_seq_zo_fo_absorption cs) then Ok cs
  else
    do depot <- find_depot cs;
    do dose0 <- opt_res (hd_error (n_doses dose_comp)) CIndex;
    let lag := n_lag dose_comp in
    let bio := n_bio dose_comp in
    match depot with
    | Some d =>
        if node_eqb d dose_comp then
          let '(cb1, dc1) := remove_dose cs dose_comp (d_admid dose0) in
          let '(cb2, dc2) := set_dose cb1 dc1 [bolus 1] in
          Ok (fst (set_lag_time cb2 dc2 false))
        else Ok cs
    | None =>
        do sd <- opt_res (hd_error (sorted_doses dose_comp)) CIndex;
        let dose_admid := d_admid sd in
        let single := Nat.eqb (length (n_doses dose_comp)) 1 in
        let '(cb1, dc1) := if single then set_dose cs dose_comp [bolus 1]
                           else set_dose cs dose_comp (tl (sorted_doses dose_comp)) in
        add_first_order_absorption cb1 (bolus dose_admid) dc1 lag bio single
    end.

Definition set_seq_zo_fo_absorption (cs : graph) : res graph :=
  do dose_comp <- opt_res (dosing0 cs) CValue;
  if has_seq_zo_fo_absorption cs then Ok cs
  else if disallow_infusion cs then Refuse
  else
    do depot <- find_depot cs;
    do dose0 <- opt_res (hd_error (n_doses dose_comp)) CIndex;
    let have_zo := has_zero_order_absorption cs in
    match depot, have_zo with
    | Some d, false => add_zero_order_absorption cs dose0 (Some dose_comp) None      (* e1c4639: on the dosing compartment *)
    | None, true =>
        if Nat.eqb (length (n_doses dose_comp)) 1
        then add_first_order_absorption cs dose0 dose_comp false false true
        else
          do sd <- opt_res (hd_error (sorted_doses dose_comp)) CIndex;
          let '(cb1, dc1) := set_dose cs dose_comp (tl (sorted_doses dose_comp)) in
          add_first_order_absorption cb1 sd dc1 false false false
    | None, false =>
        do m1 <- set_first_order_absorption cs;
        do depot1 <- find_depot m1;
        (* 2e21c7f: a chain without depot gets the zero-order dose on its first compartment *)
        add_zero_order_absorption m1 (bolus 1) (match depot1 with Some d => Some d | None => dosing0 m1 end) None
    | Some _, true => Ok cs
    end.

(* ---- elimination setters (graph part: the rate of central -> output, POP_KM fixed or not) ---- *)
Definition set_elim (g : graph) (nonlin cl kmfix : bool) (newrate : bool) : res graph :=
  match central g with
  | None => Crash CValue
  | Some c =>
      match get_edge g (n_name c) NOutput with
      | None => Crash CValue
      | Some e =>
          let rid := if newrate then fresh g else e_rid e in
          Ok (set_kmfix (add_flow g (n_name c) NOutput rid nonlin cl) kmfix)
      end
  end.

Definition set_first_order_elimination (g : graph) : res graph :=
  if has_first_order_elimination g then Ok g
  else if has_zero_order_elimination g || has_michaelis_menten_elimination g then set_elim g false true false true
  else if has_mixed_mm_fo_elimination g then set_elim g false true false true
  else Ok g.
Definition set_zero_order_elimination (g : graph) : res graph :=
  if has_zero_order_elimination g then Ok g
  else if has_michaelis_menten_elimination g then Ok (set_kmfix g true)
  else if has_mixed_mm_fo_elimination g then set_elim g true false true true
  else set_elim g true false true true.
Definition set_michaelis_menten_elimination (g : graph) : res graph :=
  if has_michaelis_menten_elimination g then Ok g
  else if has_zero_order_elimination g then Ok (set_kmfix g false)
  else if has_mixed_mm_fo_elimination g then set_elim g true false (g_kmfix g) true
  else set_elim g true false false true.
Definition set_mixed_mm_fo_elimination (g : graph) : res graph :=
  if has_mixed_mm_fo_elimination g then Ok g
  else if has_michaelis_menten_elimination g || has_zero_order_elimination g then set_elim g true true false true
  else set_elim g true true false true.

(* ---- peripheral compartments ------------------------------------------------------------------ *)
Definition add_peripheral_compartment (g : graph) : res graph :=
  do c <- opt_res (central g) CValue;
  let n := S (length (find_peripherals g)) in
  do g1 <- add_compartment g (plain (NPeriph n));
  let g2 := add_flow g1 (n_name c) (NPeriph n) (fresh g1) false false in
  Ok (add_flow g2 (NPeriph n) (n_name c) (fresh g2) false false).

(* with two peripherals (and with one, when the elimination rate is a quotient) the new initial
   estimates are computed from qp, vp = rate.as_numer_denom(); _find_noncov_theta(model, vp) raises
   ValueError('Could not find theta connected to 1') for vp = 1 *)
Definition remove_peripheral_compartment (g : graph) : res graph :=
  match find_peripherals g with
  | [] => Ok g
  | l => if g_krates g && (Nat.eqb (length l) 2 || (Nat.eqb (length l) 1 && g_elq g)) then Crash CValue
         else Ok (remove_compartment g (last l (plain NOutput)))
  end.

Fixpoint iter_res (k : nat) (f : graph -> res graph) (g : graph) : res graph :=
  match k with 0 => Ok g | S k' => do g1 <- f g; iter_res k' f g1 end.
Definition set_peripheral_compartments (g : graph) (n : nat) : res graph :=
  let per := length (find_peripherals g) in
  if per <? n then iter_res (n - per) add_peripheral_compartment g
  else if n <? per then iter_res (per - n) remove_peripheral_compartment g
  else Ok g.

(* ---- set_transit_compartments ------------------------------------------------------------------- *)
(* _find_last_transit: the transit whose outflow leaves the set *)
Definition find_last_transit (cs : graph) (transits : list name) : res (name * edge) :=
  match filter (fun t => match out_edges cs t with e :: _ => negb (memname (e_dst e) transits) | [] => false end) transits with
  | t :: _ => match out_edges cs t with e :: _ => Ok (t, e) | [] => Crash CIndex end
  | [] => if existsb (fun t => match out_edges cs t with [] => true | _ => false end) transits
          then Crash CIndex else Crash CValue
  end.

(* the `while nremove > 0` loop: inflows are read from cs, the edits go to cb *)
Fixpoint remove_transits (k : nat) (cs cb : graph) (trans : name) (destination : name) : graph :=
  match k with
  | 0 => cb
  | S k' =>
      match preds cs trans with
      | from :: _ =>
          let cb1 := match get_edge cs (n_name from) trans with
                     | Some e => add_flow_like cb (n_name from) destination e
                     | None => cb end in
          remove_transits k' cs (remove_compartment cb1 (plain trans)) (n_name from) destination
      | [] => remove_transits k' cs (remove_compartment cb (plain trans)) trans destination
      end
  end.

(* the `while nadd > 0` loop *)
Fixpoint add_transits (nadd : nat) (n : nat) (cb : graph) (last : name) (rate : edge) : res graph :=
  match nadd with
  | 0 => Ok cb
  | S k =>
      let nm := NTransit (n - nadd + 1) in
      do cb1 <- add_compartment cb (plain nm);
      add_transits k n (add_flow_like cb1 last nm rate) nm rate
  end.
Definition last_added (nadd n : nat) (last : name) : name :=
  match nadd with 0 => last | _ => NTransit n end.

(* the `while n > 0` loop of the branch that creates a chain in front of the dosing compartment *)
Fixpoint create_chain (k : nat) (cb : graph) (comp : name) (rid : nat) : res (graph * name) :=
  match k with
  | 0 => Ok (cb, comp)
  | S k' =>
      do cb1 <- add_compartment cb (plain (NTransit k));
      create_chain k' (add_flow cb1 (NTransit k) comp rid false false) (NTransit k) rid
  end.

Definition set_transit_compartments (cs0 : graph) (n : nat) (keep_depot : bool) : res graph :=
  do _d <- opt_res (dosing0 cs0) CValue;
  do transits <- opt_res (find_transits cs0) CFuel;
  do model0 <- remove_lag_time cs0;
  do depot <- find_depot cs0;                   (* of the system before the lag time was removed *)
  do mc <-
    match depot, keep_depot with
    | Some d, false =>
        do central <- opt_res (central cs0) CValue;
        let cb :=
          match preds cs0 (n_name d) with
          | [innode] =>
              match get_edge cs0 (n_name innode) (n_name d) with
              | Some e => Ok (add_flow_like cs0 (n_name innode) (n_name central) e)
              | None => Crash CValue end
          | _ => do dd <- opt_res (hd_error (n_doses d)) CIndex; Ok (fst (set_dose cs0 central [dd]))
          end in
        do cb1 <- cb;
        if g_mat cs0 && g_popmdt cs0 then Crash CDupParam       (* _rename_parameter(model, 'MAT', 'MDT') *)
        else let m := remove_compartment cb1 d in Ok (m, m)
    | _, _ => Ok (model0, cs0)
    end;
  let '(model, cs) := mc in
  let nt := length transits in
  if Nat.eqb nt n then Ok model
  else if Nat.eqb n 1 && has_instantaneous_absorption model then Refuse
  else if Nat.eqb nt 0 then
    do dosing_comp <- opt_res (dosing0 cs) CValue;
    do cc <- create_chain n cs (n_name dosing_comp) (fresh cs);
    let '(cb, cname) := cc in
    do comp <- opt_res (find_node cb cname) CValue;
    let '(cb1, comp1) := set_bioavailability cb comp (n_bio dosing_comp) in
    let '(cb2, dc2) := set_bioavailability cb1 dosing_comp false in
    let '(cb3, dc3) :=
      match n_doses dc2 with
      | [d] => if Nat.eqb (d_admid d) 2 then set_dose cb2 dc2 [mkDose (d_zo d) (d_inf d) 1] else (cb2, dc2)
      | _ => (cb2, dc2)
      end in
    do cb4 <- move_dose cb3 dc3 comp1 1;
    if Nat.eqb (length (n_doses dc3)) 1 then Ok (fst (set_dose cb4 comp1 (n_doses dc3)))
    else
      do sd <- opt_res (hd_error (sorted_doses dc3)) CIndex;
      let '(cb5, _) := add_dose cb4 comp1 [sd] in
      Ok (fst (set_dose cb5 dc3 (tl (sorted_doses dc3))))
  else if n <? nt then
    do lt <- find_last_transit cs transits;
    let '(trans, e) := lt in
    let cb := remove_transits (nt - n) cs cs trans (e_dst e) in
    if Nat.eqb n 0 then
      do d0 <- opt_res (dosing0 cs) CValue;
      do dd <- opt_res (hd_error (n_doses d0)) CIndex;
      do dest <- opt_res (find_node cs (e_dst e)) CValue;
      Ok (fst (set_dose cb dest [dd]))
    else Ok cb
  else
    do lt <- find_last_transit cs transits;
    let '(lastt, e) := lt in
    do cb0 <- remove_flow cs lastt (e_dst e);
    do cb1 <- add_transits (n - nt) n cb0 lastt e;
    Ok (add_flow_like cb1 (last_added (n - nt) n lastt) (e_dst e) e).

(* ---- requests ------------------------------------------------------------------------------------ *)
Inductive req :=
| AbsInst | AbsFO | AbsZO | AbsSeq
| ElFO | ElZO | ElMM | ElMix
| LagOn | LagOff | BioOn | BioOff
| PerAdd | PerRem | PerSet (n : nat)
| Transits (n : nat) (keep_depot : bool).

Definition setter_graph (f : req) (g : graph) : res graph :=
  match f with
  | AbsInst => set_instantaneous_absorption g
  | AbsFO => set_first_order_absorption g
  | AbsZO => set_zero_order_absorption g
  | AbsSeq => set_seq_zo_fo_absorption g
  | ElFO => set_first_order_elimination g
  | ElZO => set_zero_order_elimination g
  | ElMM => set_michaelis_menten_elimination g
  | ElMix => set_mixed_mm_fo_elimination g
  | LagOn => add_lag_time g
  | LagOff => remove_lag_time g
  | BioOn => add_bioavailability g
  | BioOff => remove_bioavailability g
  | PerAdd => add_peripheral_compartment g
  | PerRem => remove_peripheral_compartment g
  | PerSet n => set_peripheral_compartments g n
  | Transits n k => set_transit_compartments g n k
  end.

(* ================================================================== skeletons *)
Record sk := mkSk {
  s_abs : absk;        (* INST: bolus, no depot; FO: bolus into DEPOT; ZO: infusion, no depot; SEQ: infusion into DEPOT *)
  s_transits : nat;    (* TRANSIT1 .. TRANSITn in front of DEPOT / CENTRAL *)
  s_periph : nat;      (* PERIPHERAL1 .. PERIPHERALm *)
  s_elim : elk;
  s_lag : bool;        (* lag time on the dosing compartment *)
  s_mat : bool;        (* environment: a MAT assignment exists *)
  s_popmdt : bool;     (* environment: a POP_MDT parameter exists (once the lag time is removed) *)
  s_krates : bool;     (* environment: the peripheral rates are bare K symbols *)
  s_elq : bool;        (* environment: the elimination rate is a quotient *)
  s_bio : bool         (* bioavailability F (not 1) on the dosing compartment *)
}.
Definition s_depot (s : sk) : bool := match s_abs s with FO | SEQ => true | _ => false end.
Definition s_zo (s : sk) : bool := match s_abs s with ZO | SEQ => true | _ => false end.

(* rate classes of build: 1 depot->central, 2 the transit chain, 3 elimination, 2j+2 / 2j+3 peripheral j *)
Definition chain_next (s : sk) (k : nat) : name :=
  if k <? s_transits s then NTransit (S k) else if s_depot s then NDepot else NCentral.
Definition first_name (s : sk) : name :=
  match s_transits s with 0 => if s_depot s then NDepot else NCentral | _ => NTransit 1 end.
Definition the_dose (s : sk) : dose := if s_zo s then mkDose true true 1 else bolus 1.
Definition mk_node (s : sk) (x : name) : node :=
  if name_eqb x (first_name s) then mkNode x [the_dose s] (s_lag s) (s_bio s) else plain x.

Definition build_nodes (s : sk) : list node :=
  map (fun k => mk_node s (NTransit k)) (seq 1 (s_transits s))
  ++ (if s_depot s then [mk_node s NDepot] else [])
  ++ [mk_node s NCentral]
  ++ map (fun j => plain (NPeriph j)) (seq 1 (s_periph s)).

Definition elim_flags (e : elk) : bool * bool * bool :=     (* nonlin, cl, kmfix *)
  match e with
  | EFO => (false, true, false) | EMM => (true, false, false)
  | EZO => (true, false, true) | EMIX => (true, true, false)
  end.

Definition build_edges (s : sk) : list edge :=
  map (fun k => mkEdge (NTransit k) (chain_next s k) 2 false false) (seq 1 (s_transits s))
  ++ (if s_depot s then [mkEdge NDepot NCentral 1 false false] else [])
  ++ [mkEdge NCentral NOutput 3 (fst (fst (elim_flags (s_elim s)))) (snd (fst (elim_flags (s_elim s))))]
  ++ map (fun j => mkEdge NCentral (NPeriph j) (2 * j + 2) false false) (seq 1 (s_periph s))
  ++ map (fun j => mkEdge (NPeriph j) NCentral (2 * j + 3) false false) (seq 1 (s_periph s)).

Definition build (s : sk) : graph :=
  mkGraph (build_nodes s) (build_edges s) (snd (elim_flags (s_elim s))) (s_mat s) (s_popmdt s) (s_krates s) (s_elq s).

(* what the detectors report on build s: the documented feature interactions
   - a transit chain without depot reads as first-order absorption
   - an infusion into a chain or a depot reads as sequential zero-order first-order absorption
   - a single transit directly in front of central is not a transit but the depot *)
Definition canon_abs (s : sk) : absk :=
  match s_abs s, s_transits s with
  | INST, 0 => INST | INST, _ => FO
  | ZO, 0 => ZO | ZO, _ => SEQ
  | FO, _ => FO | SEQ, _ => SEQ
  end.
Definition canon_transits (s : sk) : nat :=
  if s_depot s then s_transits s else if Nat.eqb (s_transits s) 1 then 0 else s_transits s.
Definition canon_depot (s : sk) : option name :=
  if s_depot s then Some NDepot else if Nat.eqb (s_transits s) 1 then Some (NTransit 1) else None.
Definition canon (s : sk) : detected :=
  mkDet (Some (canon_abs s)) (Some (s_elim s)) (canon_transits s) (canon_depot s) (s_periph s) (s_lag s) (s_bio s).

Definition with_abs (s : sk) (a : absk) : sk := mkSk a (s_transits s) (s_periph s) (s_elim s) (s_lag s) (s_mat s) (s_popmdt s) (s_krates s) (s_elq s) (s_bio s).
Definition with_tr (s : sk) (n : nat) : sk := mkSk (s_abs s) n (s_periph s) (s_elim s) (s_lag s) (s_mat s) (s_popmdt s) (s_krates s) (s_elq s) (s_bio s).
Definition with_per (s : sk) (n : nat) : sk := mkSk (s_abs s) (s_transits s) n (s_elim s) (s_lag s) (s_mat s) (s_popmdt s) (s_krates s) (s_elq s) (s_bio s).
Definition with_el (s : sk) (e : elk) : sk := mkSk (s_abs s) (s_transits s) (s_periph s) e (s_lag s) (s_mat s) (s_popmdt s) (s_krates s) (s_elq s) (s_bio s).
Definition with_lagb (s : sk) (b : bool) : sk := mkSk (s_abs s) (s_transits s) (s_periph s) (s_elim s) b (s_mat s) (s_popmdt s) (s_krates s) (s_elq s) (s_bio s).
Definition with_biob (s : sk) (b : bool) : sk := mkSk (s_abs s) (s_transits s) (s_periph s) (s_elim s) (s_lag s) (s_mat s) (s_popmdt s) (s_krates s) (s_elq s) b.

(* ================================================================== comparison up to node order *)
Definition dose_key_eqb := dose_eqb.
Definition node_mem (nd : node) (l : list node) : bool := existsb (node_eqb nd) l.
(* an edge without its rate class; the CL flag only matters for a non-linear rate *)
Definition edge_shape_eqb (a b : edge) : bool :=
  name_eqb (e_src a) (e_src b) && name_eqb (e_dst a) (e_dst b) && Bool.eqb (e_nonlin a) (e_nonlin b)
  && Bool.eqb (e_nonlin a && e_cl a) (e_nonlin b && e_cl b).
Definition edge_mem (e : edge) (l : list edge) : bool := existsb (edge_shape_eqb e) l.
Definition rid_of (l : list edge) (u v : name) : option nat :=
  match find (is_edge u v) l with Some e => Some (e_rid e) | None => None end.
Definition onat_eqb (a b : option nat) : bool :=
  match a, b with Some x, Some y => Nat.eqb x y | None, None => true | _, _ => false end.
(* the two systems identify the same pairs of flows as having equal rates *)
Definition same_partition (l1 l2 : list edge) : bool :=
  let pairs := map (fun a => (e_rid a, rid_of l2 (e_src a) (e_dst a))) l1 in
  forallb (fun p => forallb (fun q =>
    Bool.eqb (Nat.eqb (fst p) (fst q)) (onat_eqb (snd p) (snd q))) pairs) pairs.

(* without rate identity *)
Definition geqb_shape (g1 g2 : graph) : bool :=
  Nat.eqb (length (g_nodes g1)) (length (g_nodes g2))
  && forallb (fun nd => node_mem nd (g_nodes g2)) (g_nodes g1)
  && forallb (fun nd => node_mem nd (g_nodes g1)) (g_nodes g2)
  && Nat.eqb (length (g_edges g1)) (length (g_edges g2))
  && forallb (fun e => edge_mem e (g_edges g2)) (g_edges g1)
  && forallb (fun e => edge_mem e (g_edges g1)) (g_edges g2)
  && Bool.eqb (g_kmfix g1) (g_kmfix g2).

Definition geqb (g1 g2 : graph) : bool :=
  Nat.eqb (length (g_nodes g1)) (length (g_nodes g2))
  && forallb (fun nd => node_mem nd (g_nodes g2)) (g_nodes g1)
  && forallb (fun nd => node_mem nd (g_nodes g1)) (g_nodes g2)
  && Nat.eqb (length (g_edges g1)) (length (g_edges g2))
  && forallb (fun e => edge_mem e (g_edges g2)) (g_edges g1)
  && forallb (fun e => edge_mem e (g_edges g1)) (g_edges g2)
  && same_partition (g_edges g1) (g_edges g2)
  && Bool.eqb (g_kmfix g1) (g_kmfix g2).

(* the only skeleton a graph can be the build of *)
Definition is_transit (x : name) : bool := match x with NTransit _ => true | _ => false end.
Definition is_periph (x : name) : bool := match x with NPeriph _ => true | _ => false end.
Definition guess (g : graph) : sk :=
  let zo := has_zero_order_absorption g in
  let dep := match find_node g NDepot with Some _ => true | None => false end in
  mkSk (match zo, dep with false, false => INST | false, true => FO | true, false => ZO | true, true => SEQ end)
       (length (filter (fun nd => is_transit (n_name nd)) (g_nodes g)))
       (length (filter (fun nd => is_periph (n_name nd)) (g_nodes g)))
       (match detect_elim g with Some e => e | None => EFO end)
       (has_lag_time g) (g_mat g) (g_popmdt g) (g_krates g) (g_elq g) (has_bioavailability g).
Definition recognize (g : graph) : option sk := if geqb g (build (guess g)) then Some (guess g) else None.

(* ================================================================== the setters on skeletons *)
Inductive sres := SOk (s : sk) | SRefuse | SCrash (c : crash) | SAnom.

Definition drop_depot_abs (a : absk) : absk := match a with FO => INST | SEQ => ZO | x => x end.

Definition step_transits (s : sk) (n : nat) (keep : bool) : sres :=
  let tr := s_transits s in
  let t1_is_depot := negb (s_depot s) && Nat.eqb tr 1 in
  let dt0 := canon_transits s in
  if negb keep && (s_depot s || t1_is_depot) then
    if s_mat s && s_popmdt s then SCrash CDupParam
    else
      let s1 := if s_depot s
                then mkSk (drop_depot_abs (s_abs s)) tr (s_periph s) (s_elim s)
                          (if Nat.eqb tr 0 then false else s_lag s) (s_mat s) (s_popmdt s) (s_krates s) (s_elq s)
                          (if Nat.eqb tr 0 then false else s_bio s)     (* lag and F go with the removed depot *)
                else with_biob (with_lagb (with_tr s 0) false) false in
      if Nat.eqb dt0 n then SOk s1
      else if Nat.eqb n 1 && absk_eqb (s_abs s1) INST && Nat.eqb (s_transits s1) 0 then SRefuse
      else if Nat.eqb dt0 0 then SOk (with_tr s1 n)
      else if n <? dt0 then SOk (if Nat.eqb n 0 then with_biob (with_lagb (with_tr s1 0) false) false else with_tr s1 n)
      else SOk (with_tr s1 n)
  else
    if Nat.eqb dt0 n then SOk (with_lagb s false)
    else if Nat.eqb n 1 && absk_eqb (s_abs s) INST && Nat.eqb tr 0 then SRefuse
    else if Nat.eqb dt0 0 then
      if Nat.eqb tr 1 then SCrash CDupName
      else if s_lag s then SAnom else SOk (with_tr s n)
    else if n <? dt0 then SOk (if Nat.eqb n 0 then with_biob (with_lagb (with_tr s 0) false) false else with_tr s n)
    else SOk (with_tr s n).

Definition step (f : req) (s : sk) : sres :=
  let tr := s_transits s in
  match f with
  | AbsInst =>
      match s_abs s, tr with
      | INST, 1 => SOk (with_biob (with_lagb (with_tr s 0) false) false)
      | INST, _ => SOk s
      | FO, 0 => SOk (with_biob (with_lagb (with_abs s INST) false) false)
      | FO, _ => SOk (with_abs s INST)                      (* depot removed, chain reconnected *)
      | ZO, 1 => SOk (with_biob (with_lagb (with_tr (with_abs s INST) 0) false) false)
      | ZO, _ => SOk (with_abs s INST)
      | SEQ, 0 => SOk (with_biob (with_lagb (with_abs s INST) false) false)
      | SEQ, _ => SOk (with_abs s INST)
      end
  | AbsFO =>
      match s_abs s, tr with
      | INST, 0 => SOk (with_abs s FO)
      | INST, _ => SOk s
      | FO, _ => SOk s
      | ZO, 0 => SOk (with_abs s FO)
      | ZO, 1 => SOk (with_lagb (with_abs s INST) false)
      | ZO, _ => SAnom
      | SEQ, 0 => SOk (with_lagb (with_abs s FO) false)
      | SEQ, _ => SOk s
      end
  | AbsZO =>
      match s_abs s, tr with
      | INST, 1 => SOk (with_tr (with_abs s ZO) 0)
      | INST, _ => SOk (with_abs s ZO)
      | FO, 0 => SOk (with_abs s ZO)
      | FO, _ => SAnom
      | ZO, 1 => SOk (with_tr s 0)
      | ZO, _ => SOk s
      | SEQ, 0 => SOk (with_abs s ZO)
      | SEQ, _ => SAnom
      end
  | AbsSeq =>
      match s_abs s, tr with
      | INST, 0 => SOk (with_abs s SEQ)
      | INST, _ => SOk (with_abs s ZO)                      (* infusion on TRANSIT1: reads SEQ *)
      | FO, _ => SOk (with_abs s SEQ)
      | ZO, 0 => SOk (with_biob (with_lagb (with_abs s SEQ) false) false)
      | ZO, _ => SOk s
      | SEQ, _ => SOk s
      end
  | ElFO => SOk (with_el s EFO)
  | ElZO => SOk (with_el s EZO)
  | ElMM => SOk (with_el s EMM)
  | ElMix => SOk (with_el s EMIX)
  | LagOn => SOk (with_lagb s true)
  | LagOff => SOk (with_lagb s false)
  | BioOn => SOk (with_biob s true)
  | BioOff => SOk (with_biob s false)
  | PerAdd => SOk (with_per s (S (s_periph s)))
  | PerRem => if s_krates s && (Nat.eqb (s_periph s) 2 || (Nat.eqb (s_periph s) 1 && s_elq s)) then SCrash CValue
              else SOk (with_per s (pred (s_periph s)))
  | PerSet n => if s_krates s && (((n <=? 1) && (2 <=? s_periph s)) || (Nat.eqb n 0 && (1 <=? s_periph s) && s_elq s)) then SCrash CValue
                else SOk (with_per s n)
  | Transits n keep => step_transits s n keep
  end.

Definition crash_eqb (a b : crash) : bool :=
  match a, b with
  | CIndex, CIndex | CAttr, CAttr | CDupName, CDupName | CListRemove, CListRemove
  | CDupParam, CDupParam | CNoEdge, CNoEdge | CAssert, CAssert | CValue, CValue | CFuel, CFuel
  | CStmt, CStmt => true
  | _, _ => false
  end.

(* does the graph model, run on build s, do what the closed form says? *)
Definition refines (f : req) (s : sk) : bool :=
  match step f s, setter_graph f (build s) with
  | SOk s', Ok g' => geqb g' (build s')
  | SRefuse, Refuse => true
  | SCrash c, Crash c' => crash_eqb c c'
  | SAnom, Ok g' => match recognize g' with None => true | Some _ => false end
  | _, _ => false
  end.

(* ================================================================== validity, guards, the property on skeletons *)
(* One transit directly in front of central cannot be told from a depot (find_transit_compartments
   says so); set_transit_compartments refuses to create it from instantaneous absorption.  Such a
   skeleton is not a state of the search space. *)
Definition valid (s : sk) : bool := negb (negb (s_depot s) && Nat.eqb (s_transits s) 1).

Definition is_abs (f : req) : bool := match f with AbsInst | AbsFO | AbsZO | AbsSeq => true | _ => false end.
Definition is_transits (f : req) : bool := match f with Transits _ _ => true | _ => false end.

(* guard conjuncts: each is false exactly on a family of (request, state) pairs on which the CODE fails *)
Definition g_zo_depot_dosed (f : req) (s : sk) : bool :=         (* depot removed, chain left dangling *)
  negb (match f with AbsZO => s_depot s && negb (Nat.eqb (s_transits s) 0) | _ => false end).
Definition g_fo_no_chain (f : req) (s : sk) : bool :=            (* DEPOT put in front of TRANSIT1 *)
  negb (match f, s_abs s with AbsFO, ZO => negb (Nat.eqb (s_transits s) 0) | _, _ => false end).
Definition g_fo_seq_chain (f : req) (s : sk) : bool :=           (* silently does nothing *)
  negb (match f, s_abs s with AbsFO, SEQ => negb (Nat.eqb (s_transits s) 0) | _, _ => false end).
Definition g_fo_keeps_lag (f : req) (s : sk) : bool :=           (* lag time silently dropped *)
  negb (match f, s_abs s with AbsFO, SEQ => Nat.eqb (s_transits s) 0 && s_lag s | _, _ => false end).
Definition g_no_param_clash (f : req) (s : sk) : bool :=         (* MAT renamed to an existing MDT *)
  negb (match f with Transits _ false => s_depot s && s_mat s && s_popmdt s | _ => false end).
Definition g_transit_no_lag (f : req) (s : sk) : bool :=         (* stale system after remove_lag_time *)
  negb (match f with
        | Transits n keep =>
            s_lag s && negb (Nat.eqb n 0)
            && (if negb keep && s_depot s then negb (Nat.eqb (s_transits s) 0)
                else negb (Nat.eqb (canon_transits s) n)
                     && negb (Nat.eqb n 1 && absk_eqb (s_abs s) INST && Nat.eqb (s_transits s) 0))
        | _ => false end).
Definition g_no_single_transit (f : req) (s : sk) : bool :=      (* produces the indistinguishable single transit *)
  negb (match f with
        | Transits 1 keep => negb (s_depot s && keep) && negb (Nat.eqb (s_transits s) 0 && absk_eqb (drop_depot_abs (s_abs s)) INST)
        | AbsInst => s_depot s && Nat.eqb (s_transits s) 1     (* the depot behind one transit is removed *)
        | _ => false end).
Definition g_rem_periph_rates (f : req) (s : sk) : bool :=       (* _find_noncov_theta(model, 1) *)
  negb (match f with
        | PerRem => s_krates s && (Nat.eqb (s_periph s) 2 || (Nat.eqb (s_periph s) 1 && s_elq s))
        | PerSet n => s_krates s && (((n <=? 1) && (2 <=? s_periph s)) || (Nat.eqb n 0 && (1 <=? s_periph s) && s_elq s))
        | _ => false end).

Definition g_keeps_bio (f : req) (s : sk) : bool :=              (* F dropped with the removed dosing compartment *)
  negb (s_bio s && match f with
                   | BioOff => false
                   | _ => match step f s with SOk s' => negb (s_bio s') | _ => false end
                   end).

Definition guard (f : req) (s : sk) : bool :=
  g_zo_depot_dosed f s && g_fo_no_chain f s && g_fo_seq_chain f s && g_fo_keeps_lag f s
  && g_no_param_clash f s && g_transit_no_lag f s && g_no_single_transit f s
  && g_rem_periph_rates f s && g_keeps_bio f s.

(* "the corresponding detector reports exactly that feature", read through canon *)
Definition request_detected (f : req) (s s' : sk) : bool :=
  match f with
  | AbsInst => absk_eqb (s_abs s') INST || absk_eqb (canon_abs s') INST
  | AbsFO => absk_eqb (s_abs s') FO || absk_eqb (canon_abs s') FO
  | AbsZO => absk_eqb (s_abs s') ZO || absk_eqb (canon_abs s') ZO
  | AbsSeq => absk_eqb (s_abs s') SEQ || absk_eqb (canon_abs s') SEQ
  | ElFO => elk_eqb (s_elim s') EFO | ElZO => elk_eqb (s_elim s') EZO
  | ElMM => elk_eqb (s_elim s') EMM | ElMix => elk_eqb (s_elim s') EMIX
  | LagOn => s_lag s' | LagOff => negb (s_lag s')
  | BioOn => s_bio s' | BioOff => negb (s_bio s')
  | PerAdd => Nat.eqb (s_periph s') (S (s_periph s))
  | PerRem => Nat.eqb (s_periph s') (pred (s_periph s))
  | PerSet n => Nat.eqb (s_periph s') n
  | Transits n keep => Nat.eqb (canon_transits s') n && (keep || negb (s_depot s'))
  end.

(* "the other feature categories are unchanged" — up to the documented interactions:
   instantaneous and sequential absorption do not support a lag time (it is dropped);
   set_transit_compartments removes the lag time; keep_depot=False turns FO into INST and SEQ into ZO *)
Definition others_unchanged (f : req) (s s' : sk) : bool :=
  let same_abs := absk_eqb (s_abs s') (s_abs s) in
  let same_tr := Nat.eqb (s_transits s') (s_transits s) in
  let same_per := Nat.eqb (s_periph s') (s_periph s) in
  let same_el := elk_eqb (s_elim s') (s_elim s) in
  let same_lag := Bool.eqb (s_lag s') (s_lag s) in
  let same_bio := Bool.eqb (s_bio s') (s_bio s) in
  match f with
  | AbsInst | AbsSeq => same_tr && same_per && same_el && (same_lag || negb (s_lag s')) && same_bio
  | AbsFO | AbsZO => same_tr && same_per && same_el && same_lag && same_bio
  | ElFO | ElZO | ElMM | ElMix => same_abs && same_tr && same_per && same_lag && same_bio
  | LagOn | LagOff => same_abs && same_tr && same_per && same_el && same_bio
  | BioOn | BioOff => same_abs && same_tr && same_per && same_el && same_lag
  | PerAdd | PerRem | PerSet _ => same_abs && same_tr && same_el && same_lag && same_bio
  | Transits _ keep =>
      same_per && same_el && negb (s_lag s') && same_bio
      && (same_abs || (negb keep && absk_eqb (s_abs s') (drop_depot_abs (s_abs s))))
  end.

(* the one documented refusal among the modelled requests *)
Definition refusal_documented (f : req) (s : sk) : bool :=
  match f with
  | Transits 1 keep => Nat.eqb (s_transits s) 0 && absk_eqb (if keep then s_abs s else drop_depot_abs (s_abs s)) INST
  | _ => false
  end.

(* add / remove one peripheral are increments, not feature requests: idempotence is not claimed for them *)
Definition is_incr (f : req) : bool := match f with PerAdd | PerRem => true | _ => false end.

Definition req_eqb (a b : req) : bool :=
  match a, b with
  | AbsInst, AbsInst | AbsFO, AbsFO | AbsZO, AbsZO | AbsSeq, AbsSeq
  | ElFO, ElFO | ElZO, ElZO | ElMM, ElMM | ElMix, ElMix | LagOn, LagOn | LagOff, LagOff
  | BioOn, BioOn | BioOff, BioOff
  | PerAdd, PerAdd | PerRem, PerRem => true
  | PerSet n, PerSet m => Nat.eqb n m
  | Transits n k, Transits m j => Nat.eqb n m && Bool.eqb k j
  | _, _ => false
  end.

(* the request that takes a feature back, when f really added something in state s *)
Definition undo_of (f : req) (s : sk) : option req :=
  match f with
  | LagOn => if s_lag s then None else Some LagOff
  | BioOn => if s_bio s then None else Some BioOff
  | PerAdd => Some PerRem
  | PerSet n => if s_periph s <? n then Some (PerSet (s_periph s)) else None
  | ElZO | ElMM | ElMix => if elk_eqb (s_elim s) EFO then Some ElFO else None
  | AbsFO | AbsZO => if absk_eqb (s_abs s) INST && Nat.eqb (s_transits s) 0 && negb (s_lag s) then Some AbsInst else None
  | AbsSeq => if absk_eqb (s_abs s) FO && Nat.eqb (s_transits s) 0 && negb (s_lag s) then Some AbsFO else None
  | Transits n true => if Nat.eqb (s_transits s) 0 && negb (Nat.eqb n 0) && negb (s_lag s) then Some (Transits 0 true) else None
  | _ => None
  end.
