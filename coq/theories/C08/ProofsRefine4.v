(* PV.C08.ProofsRefine4 — absorption setters that relabel the dosing compartment only. *)
From Coq Require Import List Bool Arith NArith Lia.
From PV Require Import Base.PyData C08.Model C08.ProofsGraph C08.ProofsRefine C08.ProofsDecimal C08.ProofsRefine2 C08.ProofsRefine3.
Import ListNotations.
Local Open Scope nat_scope.

(* two relabellings of the same compartment in a row *)
Lemma node_in_relabel g a b : node_in g a = true -> node_in (relabel g a b) b = true.
Proof.
  intro H. unfold relabel. rewrite H. destruct (node_eqb a b) eqn:E.
  - apply node_eqb_eq in E. subst. exact H.
  - unfold node_in, set_nodes. cbn [g_nodes]. rewrite existsb_app. cbn. rewrite node_eqb_refl. apply orb_true_r.
Qed.

Lemma drop_named_app x l1 l2 : drop_named x (l1 ++ l2) = drop_named x l1 ++ drop_named x l2.
Proof. unfold drop_named. apply filter_app. Qed.
Lemma drop_named_idem x l : drop_named x (drop_named x l) = drop_named x l.
Proof.
  unfold drop_named. induction l as [|y l IH]; [reflexivity|]. cbn.
  destruct (negb (name_eqb (n_name y) x)) eqn:E; cbn; rewrite ?E, IH; reflexivity.
Qed.

(* the node list after relabelling the dosing compartment of build s, whether or not it changed,
   is equivalent to the list with that compartment moved to the end *)
Definition moved (s : sk) (new : node) : graph :=
  set_nodes (build s) (drop_named (first_name s) (build_nodes s) ++ [new]).

Lemma geqb_moved s s' new :
  names s' = names s -> first_name s' = first_name s -> build_edges s' = build_edges s ->
  g_kmfix (build s') = g_kmfix (build s) ->
  mk_node s' (first_name s) = new ->
  (forall x, name_eqb x (first_name s) = false -> mk_node s' x = mk_node s x) ->
  geqb (moved s new) (build s') = true.
Proof.
  intros Hn Hf He Hk Hnew Hoth.
  apply (geqb_map_edges _ _ (fun e => e)); unfold moved, set_nodes; cbn [g_nodes g_edges g_kmfix build].
  - intros nd H. apply in_app_or in H. rewrite !build_nodes_names in *. rewrite Hn.
    destruct H as [H|[<-|[]]].
    + rewrite drop_named_map in H.
      apply in_map_iff in H. destruct H as [x [<- Hx]]. apply filter_In in Hx. destruct Hx as [Hx Hne].
      apply negb_true_iff in Hne. apply in_map_iff. exists x. split; [apply Hoth; exact Hne | exact Hx].
    + apply in_map_iff. exists (first_name s). split; [exact Hnew | apply first_in_names].
  - intros nd H. rewrite !build_nodes_names in *. rewrite Hn in H. apply in_map_iff in H. destruct H as [x [<- Hx]].
    apply in_or_app. destruct (name_eqb x (first_name s)) eqn:Ex.
    + right. left. apply name_eqb_eq in Ex. subst x. symmetry. exact Hnew.
    + left. rewrite drop_named_map. apply in_map_iff. exists x.
      split; [symmetry; apply Hoth; exact Ex|]. apply filter_In. split; [exact Hx|]. rewrite Ex. reflexivity.
  - rewrite app_length, !build_nodes_names. rewrite drop_named_map, !map_length, Hn.
    cbn [length]. rewrite Nat.add_1_r. apply names_without_first.
  - rewrite He, map_id. reflexivity.
  - intro e. auto.
  - intros e _. apply edge_shape_refl.
  - rewrite He, build_edges_with. apply key_unique_edges_with; reflexivity.
  - tauto.
  - symmetry. exact Hk.
Qed.

(* a chain of relabellings of the dosing compartment ends in `moved` or in build s itself *)
Lemma relabel_first_changed s new :
  n_name new = first_name s -> node_eqb (fnode s) new = false ->
  relabel (build s) (fnode s) new = moved s new.
Proof.
  intros Hn Hne. unfold relabel.
  assert (Hin : node_in (build s) (fnode s) = true).
  { unfold node_in. apply existsb_exists. exists (fnode s). split; [|apply node_eqb_refl].
    cbn [g_nodes build]. rewrite build_nodes_names. unfold fnode. apply in_map. apply first_in_names. }
  rewrite Hin, Hne. unfold moved, fnode. rewrite n_name_mk_node. reflexivity.
Qed.

Lemma relabel_moved s a b :
  n_name a = first_name s -> n_name b = first_name s ->
  relabel (moved s a) a b = moved s b.
Proof.
  intros Ha Hb. unfold relabel.
  assert (Hin : node_in (moved s a) a = true).
  { unfold node_in, moved, set_nodes. cbn [g_nodes]. rewrite existsb_app. cbn. rewrite node_eqb_refl. apply orb_true_r. }
  rewrite Hin. destruct (node_eqb a b) eqn:E.
  - apply node_eqb_eq in E. subst. reflexivity.
  - unfold moved, set_nodes. cbn [g_nodes g_edges g_kmfix g_mat g_popmdt g_krates g_elq]. f_equal.
    rewrite Ha, drop_named_app, drop_named_idem. cbn [drop_named filter]. rewrite Ha, name_eqb_refl. cbn. rewrite app_nil_r. reflexivity.
Qed.

Lemma first_name_abs s a : s_depot (with_abs s a) = s_depot s -> first_name (with_abs s a) = first_name s.
Proof. intro H. unfold first_name. rewrite H. reflexivity. Qed.
Lemma names_abs s a : s_depot (with_abs s a) = s_depot s -> names (with_abs s a) = names s.
Proof. intro H. unfold names. rewrite H. reflexivity. Qed.
Lemma build_edges_abs s a : s_depot (with_abs s a) = s_depot s -> build_edges (with_abs s a) = build_edges s.
Proof.
  intro H. unfold build_edges. rewrite H. cbn [with_abs s_transits s_periph s_elim]. f_equal.
  apply map_ext. intro k. unfold chain_next. rewrite H. reflexivity.
Qed.

(* first-order -> sequential: the dose of the dosing compartment becomes an infusion (any number of transits) *)
Theorem refines_seq_from_fo s : s_abs s = FO -> refines AbsSeq s = true.
Proof.
  intro Ha. unfold refines. cbn [step setter_graph]. rewrite Ha.
  assert (St : (match s_transits s with 0 => SOk (with_abs s SEQ) | S _ => SOk (with_abs s SEQ) end) = SOk (with_abs s SEQ))
    by (destruct (s_transits s); reflexivity).
  unfold set_seq_zo_fo_absorption. rewrite dosing0_build. cbn [opt_res bind].
  unfold has_seq_zo_fo_absorption, disallow_infusion, first_dose. rewrite zo_build, dosing0_build, fnode_doses.
  unfold s_zo, the_dose, s_zo. rewrite Ha. cbn [andb hd_error d_inf d_zo negb opt_res bind].
  rewrite find_depot_build. unfold canon_depot, s_depot. rewrite Ha. cbn [bind].
  unfold add_zero_order_absorption. cbn [opt_res bind]. rewrite fnode_doses. unfold the_dose, s_zo. rewrite Ha.
  cbn [remove_first_dose dose_eqb d_zo d_inf d_admid bolus Bool.eqb Nat.eqb andb opt_res bind].
  rewrite dosing0_build. cbn [opt_res bind set_dose fst].
  rewrite relabel_first_changed.
  - destruct (s_transits s); apply geqb_moved; try reflexivity;
      try (apply names_abs; unfold s_depot; cbn [with_abs s_abs]; rewrite Ha; reflexivity);
      try (apply first_name_abs; unfold s_depot; cbn [with_abs s_abs]; rewrite Ha; reflexivity);
      try (apply build_edges_abs; unfold s_depot; cbn [with_abs s_abs]; rewrite Ha; reflexivity).
    all: try (unfold with_doses, fnode, mk_node;
              rewrite (first_name_abs s SEQ) by (unfold s_depot; cbn [with_abs s_abs]; rewrite Ha; reflexivity);
              rewrite name_eqb_refl; reflexivity).
    all: intros x Hx; unfold mk_node;
         rewrite (first_name_abs s SEQ) by (unfold s_depot; cbn [with_abs s_abs]; rewrite Ha; reflexivity);
         rewrite Hx; reflexivity.
  - unfold with_doses, fnode. cbn [n_name]. apply n_name_mk_node.
  - unfold node_eqb, with_doses. rewrite fnode_doses. unfold the_dose, s_zo. rewrite Ha. cbn. rewrite name_eqb_refl. reflexivity.
Qed.

(* sequential -> first-order *)
Theorem refines_fo_from_seq s : s_abs s = SEQ -> refines AbsFO s = true.
Proof.
  intro Ha. unfold refines. cbn [step setter_graph]. rewrite Ha.
  unfold set_first_order_absorption. rewrite dosing0_build. cbn [opt_res bind].
  unfold has_seq_zo_fo_absorption. rewrite fo_build, zo_build. unfold s_zo, s_depot. rewrite Ha.
  cbn [orb andb negb]. rewrite find_depot_build. unfold canon_depot, s_depot. rewrite Ha. cbn [bind].
  rewrite fnode_doses. cbn [hd_error opt_res bind].
  destruct (s_transits s) as [|tr] eqn:Et.
  - (* the depot is the dosing compartment *)
    assert (Ef : fnode s = mk_node s NDepot).
    { unfold fnode, first_name, s_depot. rewrite Et, Ha. reflexivity. }
    rewrite <- Ef, node_eqb_refl.
    unfold remove_dose, set_dose, set_lag_time, the_dose, s_zo. rewrite Ha. cbn [d_admid Nat.eqb fst snd].
    rewrite fnode_doses. unfold the_dose, s_zo. rewrite Ha. cbn [filter d_admid Nat.eqb negb].
    rewrite relabel_first_changed.
    + rewrite !relabel_moved by (cbn [with_doses with_lag n_name]; unfold fnode; apply n_name_mk_node).
      apply geqb_moved; try reflexivity.
      * apply names_abs. unfold s_depot. cbn [with_abs s_abs with_lagb]. rewrite Ha. reflexivity.
      * apply first_name_abs. unfold s_depot. cbn [with_abs s_abs]. rewrite Ha. reflexivity.
      * apply build_edges_abs. unfold s_depot. cbn [with_abs s_abs]. rewrite Ha. reflexivity.
      * unfold with_doses, with_lag, fnode, mk_node.
        assert (E : first_name (with_lagb (with_abs s FO) false) = first_name s).
        { unfold first_name, s_depot. cbn [with_lagb with_abs s_abs s_transits]. rewrite Ha. reflexivity. }
        rewrite E, !name_eqb_refl. reflexivity.
      * intros x Hx. unfold mk_node.
        assert (E : first_name (with_lagb (with_abs s FO) false) = first_name s).
        { unfold first_name, s_depot. cbn [with_lagb with_abs s_abs s_transits]. rewrite Ha. reflexivity. }
        rewrite E, Hx. reflexivity.
    + cbn [with_doses n_name]. unfold fnode. apply n_name_mk_node.
    + unfold node_eqb, with_doses. rewrite fnode_doses. unfold the_dose, s_zo. rewrite Ha. cbn. rewrite name_eqb_refl. reflexivity.
  - (* transits in front of the depot: nothing happens *)
    assert (Ne : node_eqb (mk_node s NDepot) (fnode s) = false).
    { unfold node_eqb. rewrite !n_name_mk_node. unfold fnode. rewrite n_name_mk_node.
      unfold first_name. rewrite Et. reflexivity. }
    rewrite Ne. apply geqb_refl_build.
Qed.
