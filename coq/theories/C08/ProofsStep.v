(* PV.C08.ProofsStep — the property on skeletons: totality, request detected, other categories unchanged. *)
From Coq Require Import List Bool Arith NArith Lia.
From PV Require Import Base.PyData C08.Model.
Import ListNotations.
Local Open Scope nat_scope.

(* ================================================================== the property on skeletons *)
Lemma absk_eqb_refl a : absk_eqb a a = true. Proof. destruct a; reflexivity. Qed.
Lemma elk_eqb_refl a : elk_eqb a a = true. Proof. destruct a; reflexivity. Qed.

Ltac nat_cases :=
  repeat (match goal with
  | H : context [Nat.eqb ?a ?b] |- _ => destruct (Nat.eqb_spec a b)
  | |- context [Nat.eqb ?a ?b] => destruct (Nat.eqb_spec a b)
  | H : context [Nat.leb ?a ?b] |- _ => destruct (Nat.leb_spec a b)
  | |- context [Nat.leb ?a ?b] => destruct (Nat.leb_spec a b)
  | H : context [Nat.ltb ?a ?b] |- _ => destruct (Nat.ltb_spec a b)
  | |- context [Nat.ltb ?a ?b] => destruct (Nat.ltb_spec a b)
  end; try (exfalso; lia); cbn [andb orb negb] in *; try discriminate).
Ltac scbn := cbn -[Nat.eqb Nat.leb Nat.ltb] in *.
Ltac solve_step :=
  repeat (nat_cases; scbn); try discriminate; try lia; try contradiction;
  rewrite ?Nat.eqb_refl, ?elk_eqb_refl, ?absk_eqb_refl, ?eqb_reflx in *; scbn;
  repeat split; try reflexivity; try assumption; try discriminate; try lia;
  try (apply Nat.eqb_eq; lia).

Definition step_good (f : req) (s : sk) : Prop :=
  match step f s with
  | SOk s' => valid s' = true /\ request_detected f s s' = true /\ others_unchanged f s s' = true
  | SRefuse => refusal_documented f s = true
  | _ => False
  end.

Ltac unfold_all :=
  unfold step_good, guard, g_zo_depot_dosed,
    g_fo_no_chain, g_fo_seq_chain, g_fo_keeps_lag, g_no_param_clash, g_transit_no_lag, g_no_single_transit,
    g_rem_periph_rates, g_keeps_bio, valid, step, step_transits, request_detected, others_unchanged,
    refusal_documented, with_abs, with_tr, with_per, with_el, with_lagb, with_biob, canon_transits, canon_abs, s_depot,
    drop_depot_abs in *;
  cbn [s_abs s_transits s_periph s_elim s_lag s_mat s_popmdt s_krates s_elq s_bio] in *.

Lemma step_ok_abs f s : is_abs f = true -> valid s = true -> guard f s = true -> step_good f s.
Proof.
  intros Hf Hv Hg. destruct s as [a tr per el lag mat pm kr eq bio].
  unfold step_good, guard, valid in *.
  destruct f; try discriminate Hf; destruct a; destruct tr as [|[|tr]]; destruct lag; destruct bio;
    cbn in *; try discriminate; rewrite ?Nat.eqb_refl, ?elk_eqb_refl; repeat split; try reflexivity.
Qed.

Lemma step_ok_simple f s :
  match f with ElFO | ElZO | ElMM | ElMix | LagOn | LagOff | BioOn | BioOff | PerAdd => True | _ => False end ->
  valid s = true -> guard f s = true -> step_good f s.
Proof.
  intros Hf Hv Hg. destruct s as [a tr per el lag mat pm kr eq bio].
  unfold step_good, valid in *.
  destruct f; try contradiction; cbn in *;
    rewrite ?Nat.eqb_refl, ?elk_eqb_refl, ?absk_eqb_refl, ?eqb_reflx; repeat split; try reflexivity; try exact Hv.
Qed.

Lemma step_ok_per f s :
  match f with PerRem | PerSet _ => True | _ => False end ->
  valid s = true -> guard f s = true -> step_good f s.
Proof.
  intros Hf Hv Hg. destruct s as [a tr per el lag mat pm kr eq bio].
  destruct f; try contradiction; unfold_all; clear Hf.
  - destruct kr, eq, bio; cbn [andb orb negb] in *; solve_step.
  - destruct kr, eq, bio; cbn [andb orb negb] in *; solve_step.
Qed.

Lemma step_ok_transits n keep s :
  valid s = true -> guard (Transits n keep) s = true -> step_good (Transits n keep) s.
Proof.
  intros Hv Hg. destruct s as [a tr per el lag mat pm kr eq bio].
  unfold_all.
  destruct a; destruct keep; destruct lag; destruct mat; destruct pm; destruct bio;
    cbn [andb orb negb absk_eqb] in *; try discriminate;
    destruct tr as [|[|tr]]; destruct n as [|[|n]]; scbn; try discriminate; solve_step.
Qed.

Theorem step_ok_lemma f s : valid s = true -> guard f s = true -> step_good f s.
Proof.
  intros Hv Hg. destruct f;
    try (apply step_ok_abs; [reflexivity|assumption|assumption]);
    try (apply step_ok_simple; [exact I|assumption|assumption]);
    try (apply step_ok_per; [exact I|assumption|assumption]).
  apply step_ok_transits; assumption.
Qed.

