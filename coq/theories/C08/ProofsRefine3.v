(* PV.C08.ProofsRefine3 — absorption setters, all counts, on the states where the Python takes a single
   pass over the system: the requested absorption is already detected (no-op), or the dose of the
   dosing compartment is turned into a bolus (zero order -> instantaneous). *)
From Coq Require Import List Bool Arith NArith Lia.
From PV Require Import Base.PyData C08.Model C08.ProofsGraph C08.ProofsRefine C08.ProofsDecimal C08.ProofsRefine2.
Import ListNotations.
Local Open Scope nat_scope.

Definition abs_case_proved (f : req) (s : sk) : bool :=
  match f, s_abs s with
  | AbsInst, INST => negb (Nat.eqb (s_transits s) 1)
  | AbsInst, ZO => negb (Nat.eqb (s_transits s) 1)
  | AbsFO, INST => negb (Nat.eqb (s_transits s) 0)
  | AbsFO, FO => true
  | AbsZO, ZO => Nat.eqb (s_transits s) 0
  | AbsSeq, ZO => negb (Nat.eqb (s_transits s) 0)
  | AbsSeq, SEQ => true
  | _, _ => false
  end.

Lemma with_abs_same s : build (with_abs s (s_abs s)) = build s.
Proof. destruct s. reflexivity. Qed.

Lemma geqb_same s a : s_abs s = a -> geqb (build s) (build (with_abs s a)) = true.
Proof. intros <-. rewrite with_abs_same. apply geqb_refl_build. Qed.

Lemma geqb_zo_to_inst s :
  s_abs s = ZO ->
  geqb (relabel (build s) (fnode s) (with_doses (fnode s) [bolus 1])) (build (with_abs s INST)) = true.
Proof.
  intro Ha. apply geqb_relabel_first.
  - unfold names, s_depot. cbn [with_abs s_abs s_transits s_periph]. rewrite Ha. reflexivity.
  - unfold first_name, s_depot. cbn [with_abs s_abs s_transits]. rewrite Ha. reflexivity.
  - unfold build_edges, chain_next, s_depot. cbn [with_abs s_abs s_transits s_periph s_elim]. rewrite Ha. reflexivity.
  - reflexivity.
  - unfold fnode, mk_node, first_name, the_dose, s_zo, s_depot. cbn [with_abs s_abs s_transits s_lag s_bio]. rewrite Ha.
    destruct (s_transits s); rewrite name_eqb_refl; reflexivity.
  - intros x Hx. unfold mk_node. 
    assert (E : first_name (with_abs s INST) = first_name s).
    { unfold first_name, s_depot. cbn [with_abs s_abs s_transits]. rewrite Ha. reflexivity. }
    rewrite E, Hx. reflexivity.
Qed.

Theorem refines_abs_single_pass f s : abs_case_proved f s = true -> refines f s = true.
Proof.
  intro H. unfold refines, abs_case_proved in *.
  destruct f; try discriminate H; destruct (s_abs s) eqn:Ha; try discriminate H; cbn [step setter_graph]; rewrite Ha.
  - (* AbsInst on INST, not one transit *)
    unfold set_instantaneous_absorption. rewrite dosing0_build. cbn [opt_res bind]. rewrite inst_build.
    unfold s_depot, s_zo. rewrite Ha. cbn [negb andb].
    destruct (s_transits s) as [|[|tr]] eqn:Et; try discriminate H.
    + cbn [Nat.eqb]. apply geqb_refl_build.
    + cbn [Nat.eqb]. rewrite find_depot_build. unfold canon_depot, s_depot. rewrite Ha, Et. cbn [Nat.eqb bind].
      rewrite zo_build. unfold s_zo. rewrite Ha. apply geqb_refl_build.
  - (* AbsInst on ZO, not one transit *)
    unfold set_instantaneous_absorption. rewrite dosing0_build. cbn [opt_res bind]. rewrite inst_build.
    unfold s_depot, s_zo. rewrite Ha. cbn [negb andb]. rewrite andb_false_r.
    rewrite find_depot_build. unfold canon_depot, s_depot. rewrite Ha.
    destruct (Nat.eqb (s_transits s) 1) eqn:E1; [discriminate H|]. cbn [bind].
    rewrite zo_build. unfold s_zo. rewrite Ha. rewrite dosing0_build. cbn [opt_res bind].
    unfold sorted_doses. rewrite fnode_doses. cbn [length Nat.leb hd_error opt_res bind set_dose fst].
    assert (T : (match s_transits s with 1 => SOk (with_biob (with_lagb (with_tr (with_abs s INST) 0) false) false)
                                    | _ => SOk (with_abs s INST) end) = SOk (with_abs s INST)).
    { destruct (s_transits s) as [|[|tr]]; try reflexivity. discriminate E1. }
    rewrite T. apply geqb_zo_to_inst. exact Ha.
  - (* AbsFO on INST with a chain *)
    unfold set_first_order_absorption. rewrite dosing0_build. cbn [opt_res bind].
    unfold has_seq_zo_fo_absorption. rewrite fo_build, zo_build. unfold s_depot, s_zo. rewrite Ha.
    destruct (s_transits s) as [|tr] eqn:Et; [discriminate H|]. cbn [Nat.eqb negb andb orb]. apply geqb_refl_build.
  - (* AbsFO on FO *)
    unfold set_first_order_absorption. rewrite dosing0_build. cbn [opt_res bind].
    unfold has_seq_zo_fo_absorption. rewrite fo_build, zo_build. unfold s_depot, s_zo. rewrite Ha.
    cbn [negb andb orb]. apply geqb_refl_build.
  - (* AbsZO on ZO without chain *)
    unfold set_zero_order_absorption. rewrite dosing0_build. cbn [opt_res bind].
    unfold disallow_infusion, first_dose, has_seq_zo_fo_absorption. rewrite dosing0_build, fnode_doses, fo_build, zo_build.
    unfold the_dose, s_zo, s_depot. rewrite Ha. cbn [hd_error d_inf d_zo negb andb orb].
    destruct (s_transits s) as [|tr] eqn:Et; [|discriminate H]. cbn [Nat.eqb negb andb]. apply geqb_refl_build.
  - (* AbsSeq on ZO with a chain *)
    unfold set_seq_zo_fo_absorption. rewrite dosing0_build. cbn [opt_res bind].
    unfold has_seq_zo_fo_absorption. rewrite fo_build, zo_build. unfold s_depot, s_zo. rewrite Ha.
    destruct (s_transits s) as [|tr] eqn:Et; [discriminate H|]. cbn [Nat.eqb negb andb orb]. apply geqb_refl_build.
  - (* AbsSeq on SEQ *)
    unfold set_seq_zo_fo_absorption. rewrite dosing0_build. cbn [opt_res bind].
    unfold has_seq_zo_fo_absorption. rewrite fo_build, zo_build. unfold s_depot, s_zo. rewrite Ha.
    cbn [negb andb orb]. apply geqb_refl_build.
Qed.
