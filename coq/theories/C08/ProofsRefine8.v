(* PV.C08.ProofsRefine8 — set_transit_compartments creating a chain in front of the dosing compartment
   of a system without transits (no depot removal, no lag time). *)
From Coq Require Import List Bool Arith NArith Lia.
From PV Require Import Base.PyData C08.Model C08.ProofsGraph C08.ProofsRefine C08.ProofsDecimal C08.ProofsRefine2
  C08.ProofsRefine3 C08.ProofsRefine4 C08.ProofsRefine5 C08.ProofsRefine6 C08.ProofsRefine7.
Import ListNotations.
Local Open Scope nat_scope.

Fixpoint chain_edges (k : nat) (comp : name) (r : nat) : list edge :=
  match k with
  | 0 => []
  | S k' => mkEdge (NTransit k) comp r false false :: chain_edges k' (NTransit k) r
  end.
Fixpoint chain_nodes (k : nat) : list node :=
  match k with 0 => [] | S k' => plain (NTransit k) :: chain_nodes k' end.

Definition no_transit_upto (k : nat) (g : graph) : Prop :=
  (forall nd j, In nd (g_nodes g) -> n_name nd = NTransit j -> k < j)
  /\ (forall e j, In e (g_edges g) -> e_src e = NTransit j -> k < j).

Lemma create_chain_spec k : forall g comp r,
  (forall nd j, In nd (g_nodes g) -> n_name nd = NTransit j -> k < j) ->
  (forall e j, In e (g_edges g) -> e_src e = NTransit j -> k < j) ->
  create_chain k g comp r
  = Ok (mkGraph (g_nodes g ++ chain_nodes k) (g_edges g ++ chain_edges k comp r)
                (g_kmfix g) (g_mat g) (g_popmdt g) (g_krates g) (g_elq g),
        match k with 0 => comp | _ => NTransit 1 end).
Proof.
  induction k as [|k IH]; intros g comp r Hn He.
  - cbn. rewrite !app_nil_r. destruct g; reflexivity.
  - cbn [create_chain]. unfold add_compartment. cbn [plain n_name].
    rewrite (find_node_none_in g (NTransit (S k))).
    2:{ intros nd Hin E. specialize (Hn nd (S k) Hin E). lia. }
    cbn [bind].
    assert (Hno : has_edge (set_nodes g (g_nodes g ++ [plain (NTransit (S k))])) (NTransit (S k)) comp = false).
    { apply has_edge_false_src. cbn [g_edges set_nodes]. intros e Hin E. specialize (He e (S k) Hin E). lia. }
    unfold add_flow. rewrite Hno.
    rewrite IH.
    + cbn [g_nodes g_edges g_kmfix g_mat g_popmdt g_krates g_elq set_nodes set_edges chain_nodes chain_edges].
      rewrite <- !app_assoc. cbn [app].
      destruct k; reflexivity.
    + cbn [g_nodes set_edges set_nodes]. intros nd j Hin E. apply in_app_or in Hin. destruct Hin as [Hin|[<-|[]]].
      * specialize (Hn nd j Hin E). lia.
      * cbn in E. injection E as <-. lia.
    + cbn [g_edges set_edges set_nodes]. intros e j Hin E. apply in_app_or in Hin. destruct Hin as [Hin|[<-|[]]].
      * specialize (He e j Hin E). lia.
      * cbn in E. injection E as <-. lia.
Qed.

(* two distinguished compartments (by name) of a graph are relabelled; everything else stays *)
Definition two_char (g : graph) (L0 : list node) (na nb : name) (A B : node) : Prop :=
  uniq g /\ n_name A = na /\ n_name B = nb
  /\ (forall nd, In nd (g_nodes g) <-> (nd = A \/ nd = B \/ (In nd L0 /\ n_name nd <> na /\ n_name nd <> nb)))
  /\ length (g_nodes g) = length L0.

Lemma two_char_relabel_A g L0 na nb A B A' :
  na <> nb -> two_char g L0 na nb A B -> n_name A' = na -> two_char (relabel g A A') L0 na nb A' B.
Proof.
  intros Hab [U [Na [Nb [Hc Hl]]]] Na'.
  assert (Ia : In A (g_nodes g)) by (apply Hc; left; reflexivity).
  assert (Hn : n_name A' = n_name A) by congruence.
  split; [apply relabel_uniq; auto|]. split; [exact Na'|]. split; [exact Nb|]. split.
  - intro nd. rewrite (relabel_in g A A' U Ia Hn), Hc, Na. split.
    + intros [->|[[->|[->|H]] Hne]]; auto. exfalso. apply Hne. exact Na.
    + intros [->|[->|H]]; auto.
      * right. split; [auto|]. rewrite Nb. intro X. apply Hab. symmetry. exact X.
      * right. split; [auto|]. destruct H as [_ [H _]]. exact H.
  - rewrite relabel_length; auto.
Qed.

Lemma two_char_relabel_B g L0 na nb A B B' :
  na <> nb -> two_char g L0 na nb A B -> n_name B' = nb -> two_char (relabel g B B') L0 na nb A B'.
Proof.
  intros Hab [U [Na [Nb [Hc Hl]]]] Nb'.
  assert (Ib : In B (g_nodes g)) by (apply Hc; right; left; reflexivity).
  assert (Hn : n_name B' = n_name B) by congruence.
  split; [apply relabel_uniq; auto|]. split; [exact Na|]. split; [exact Nb'|]. split.
  - intro nd. rewrite (relabel_in g B B' U Ib Hn), Hc, Nb. split.
    + intros [->|[[->|[->|H]] Hne]]; auto. exfalso. apply Hne. exact Nb.
    + intros [->|[->|H]]; auto.
      * right. split; [auto|]. rewrite Na. exact Hab.
      * right. split; [auto|]. destruct H as [_ [_ H]]. exact H.
  - rewrite relabel_length; auto.
Qed.

Lemma two_char_edges g A A' : g_edges (relabel g A A') = g_edges g.
Proof. apply relabel_edges. Qed.

Lemma in_chain_nodes n nd : In nd (chain_nodes n) <-> exists j, 1 <= j <= n /\ nd = plain (NTransit j).
Proof.
  induction n as [|n IH]; cbn [chain_nodes In].
  - split; [contradiction | intros [j [H _]]; lia].
  - rewrite IH. split.
    + intros [<-|[j [Hj ->]]]; [exists (S n); split; [lia|reflexivity] | exists j; split; [lia|reflexivity]].
    + intros [j [Hj ->]]. destruct (Nat.eq_dec j (S n)) as [->|N]; [left; reflexivity | right; exists j; split; [lia|reflexivity]].
Qed.

Definition chain_dst (n : nat) (comp : name) (j : nat) : name := if Nat.eqb j n then comp else NTransit (S j).

Lemma in_chain_edges n : forall comp r e,
  In e (chain_edges n comp r) <-> exists j, 1 <= j <= n /\ e = mkEdge (NTransit j) (chain_dst n comp j) r false false.
Proof.
  induction n as [|n IH]; intros comp r e; cbn [chain_edges In].
  - split; [contradiction | intros [j [H _]]; lia].
  - rewrite IH. split.
    + intros [<-|[j [Hj ->]]].
      * exists (S n). split; [lia|]. unfold chain_dst. rewrite Nat.eqb_refl. reflexivity.
      * exists j. split; [lia|]. unfold chain_dst.
        destruct (Nat.eqb_spec j (S n)); [lia|]. destruct (Nat.eqb_spec j n) as [E|N]; [rewrite E|]; reflexivity.
    + intros [j [Hj ->]]. destruct (Nat.eq_dec j (S n)) as [->|N].
      * left. unfold chain_dst. rewrite Nat.eqb_refl. reflexivity.
      * right. exists j. split; [lia|]. unfold chain_dst.
        destruct (Nat.eqb_spec j (S n)); [lia|]. destruct (Nat.eqb_spec j n) as [E|N2]; [rewrite E|]; reflexivity.
Qed.

Lemma length_chain_nodes n : length (chain_nodes n) = n.
Proof. induction n; cbn; auto. Qed.
Lemma length_chain_edges n comp r : length (chain_edges n comp r) = n.
Proof. revert comp. induction n; intro comp; cbn; auto. Qed.

Lemma names_no_transit s x j : s_transits s = 0 -> In x (names s) -> x <> NTransit j.
Proof.
  intros Ht H. unfold names in H. rewrite Ht in H. cbn [seq map app] in H.
  apply in_app_or in H. destruct H as [H|H].
  - destruct (s_depot s); [destruct H as [<-|[]]; discriminate | contradiction].
  - destruct H as [<-|H]; [discriminate|]. apply in_map_iff in H. destruct H as [i [<- _]]. discriminate.
Qed.

Lemma create_chain_spec1 k g comp r :
  1 <= k ->
  (forall nd j, In nd (g_nodes g) -> n_name nd = NTransit j -> k < j) ->
  (forall e j, In e (g_edges g) -> e_src e = NTransit j -> k < j) ->
  create_chain k g comp r
  = Ok (mkGraph (g_nodes g ++ chain_nodes k) (g_edges g ++ chain_edges k comp r)
                (g_kmfix g) (g_mat g) (g_popmdt g) (g_krates g) (g_elq g), NTransit 1).
Proof. intros H1 Hn He. rewrite create_chain_spec by assumption. destruct k; [lia|reflexivity]. Qed.

Lemma nodup_map_inj {A B} (f : A -> B) l a b :
  NoDup (map f l) -> In a l -> In b l -> f a = f b -> a = b.
Proof.
  induction l as [|x l IH]; [contradiction|]. cbn [map]. intros Hu Ha Hb E. inversion Hu as [|? ? Hnot Hu']; subst.
  destruct Ha as [<-|Ha]; destruct Hb as [<-|Hb]; auto.
  - exfalso. apply Hnot. rewrite E. apply in_map. exact Hb.
  - exfalso. apply Hnot. rewrite <- E. apply in_map. exact Ha.
Qed.

Lemma find_node_uniq g nd : uniq g -> In nd (g_nodes g) -> find_node g (n_name nd) = Some nd.
Proof.
  unfold uniq, find_node. induction (g_nodes g) as [|y l IH]; [contradiction|]. cbn [map find]. intros Hu Hin.
  inversion Hu as [|? ? Hnot Hu']; subst.
  destruct (name_eqb (n_name y) (n_name nd)) eqn:E.
  - apply name_eqb_eq in E. destruct Hin as [->|Hin]; [reflexivity|]. exfalso. apply Hnot. rewrite E. apply in_map. exact Hin.
  - destruct Hin as [->|Hin]; [rewrite name_eqb_refl in E; discriminate | auto].
Qed.

Lemma chain_names_nodup n : NoDup (map n_name (chain_nodes n)).
Proof.
  induction n as [|n IH]; cbn [chain_nodes map]; constructor; [|exact IH].
  intro H. apply in_map_iff in H. destruct H as [nd [E H]]. apply in_chain_nodes in H. destruct H as [j [Hj ->]].
  cbn in E. injection E as E. lia.
Qed.

(* ---- the skeleton with n transits in front of a skeleton without transits ---- *)
Lemma names_with_tr s n : s_transits s = 0 -> names (with_tr s n) = map NTransit (seq 1 n) ++ names s.
Proof. intro Ht. unfold names. rewrite Ht. reflexivity. Qed.

Lemma mk_node_with_tr s n x : 1 <= n ->
  mk_node (with_tr s n) x
  = if name_eqb x (NTransit 1) then mkNode x [the_dose s] (s_lag s) (s_bio s) else plain x.
Proof. intro H. unfold mk_node, first_name. cbn [s_transits with_tr]. destruct n; [lia|reflexivity]. Qed.

Lemma build_edges_with_tr s n : s_transits s = 0 ->
  build_edges (with_tr s n) = map (tedge (with_tr s n)) (seq 1 n) ++ build_edges s.
Proof. intro Ht. unfold build_edges. cbn [with_tr s_transits]. rewrite Ht. reflexivity. Qed.

Lemma tedge_with_tr s n j : s_transits s = 0 -> 1 <= j <= n ->
  tedge (with_tr s n) j = mkEdge (NTransit j) (chain_dst n (first_name s) j) 2 false false.
Proof.
  intros Ht Hj. unfold tedge, chain_next, chain_dst, first_name. cbn [with_tr s_transits]. rewrite Ht.
  destruct (Nat.ltb_spec j n); destruct (Nat.eqb_spec j n); try lia; reflexivity.
Qed.

Lemma old_edge_rid s e : s_transits s = 0 -> In e (build_edges s) -> e_rid e <> 2 /\ (forall j, e_src e <> NTransit j).
Proof.
  intros Ht Hin. rewrite build_edges_with in Hin. apply in_edges_with in Hin.
  destruct Hin as [k Hk ->| Hd ->| -> |j' Hj ->|j' Hj ->]; cbn; try (split; [lia | intros; discriminate]). lia.
Qed.

(* ---- the theorem: n transits are created in front of the dosing compartment ---- *)
Theorem refines_transits_create s n keep :
  s_transits s = 0 -> s_lag s = false -> (keep = true \/ s_depot s = false) ->
  1 <= n -> (n <> 1 \/ s_abs s <> INST) ->
  refines (Transits n keep) s = true.
Proof.
  intros Ht Hl Hk Hn1 Hnr. unfold refines.
  assert (Hv : valid s = true) by (unfold valid; rewrite Ht; cbn; rewrite andb_false_r; reflexivity).
  assert (Hct : canon_transits s = 0) by (unfold canon_transits; rewrite Ht; destruct (s_depot s); reflexivity).
  assert (Hstep : step (Transits n keep) s = SOk (with_tr s n)).
  { cbn [step]. unfold step_transits. rewrite Hct, Ht, Hl.
    replace (negb keep && (s_depot s || negb (s_depot s) && (0 =? 1))) with false.
    2:{ destruct Hk as [->| ->]; [reflexivity | destruct keep; reflexivity]. }
    destruct (Nat.eqb_spec 0 n); [lia|].
    replace (Nat.eqb n 1 && absk_eqb (s_abs s) INST && (0=?0)) with false.
    2:{ destruct (Nat.eqb_spec n 1); [|reflexivity]. destruct Hnr as [?|Hd]; [lia|].
        destruct (s_abs s); try reflexivity. contradiction. }
    reflexivity. }
  rewrite Hstep. cbn [setter_graph]. unfold set_transit_compartments.
  rewrite dosing0_build. cbn [opt_res bind]. rewrite find_transits_build. cbn [opt_res bind].
  assert (Hrl : remove_lag_time (build s) = Ok (build s)).
  { unfold remove_lag_time. rewrite dosing0_build. cbn [opt_res bind]. rewrite fnode_lag, Hl. reflexivity. }
  rewrite Hrl. cbn [bind]. rewrite find_depot_build. cbn [bind].
  pose proof (no_depot_block s keep Hv Hk) as Nb.
  rewrite length_transit_names, Hct.
  match goal with |- context [bind ?M ?K] => assert (HM : M = Ok (build s, build s)) end.
  { destruct (canon_depot s); [destruct keep; [|contradiction]|]; reflexivity. }
  rewrite HM. clear HM Nb. cbn [bind]. cbv zeta.
  destruct (Nat.eqb_spec 0 n) as [|_]; [lia|].
  rewrite inst_build, Ht.
  replace (Nat.eqb n 1 && (negb (s_depot s) && (0 =? 0) && negb (s_zo s))) with false.
  2:{ destruct (Nat.eqb_spec n 1); [|reflexivity]. destruct Hnr as [?|Hd]; [lia|].
      unfold s_depot, s_zo. destruct (s_abs s); try reflexivity. contradiction. }
  cbn [Nat.eqb]. rewrite dosing0_build. cbn [opt_res bind]. rewrite n_name_fnode.
  rewrite (create_chain_spec1 n (build s) (first_name s) (fresh (build s)) Hn1).
  2:{ intros nd j Hin E. exfalso. cbn [g_nodes build] in Hin. rewrite build_nodes_names in Hin.
      apply in_map_iff in Hin. destruct Hin as [x [<- Hx]]. rewrite n_name_mk_node in E.
      exact (names_no_transit s x j Ht Hx E). }
  2:{ intros e j Hin E. exfalso. cbn [g_edges build] in Hin. rewrite build_edges_with in Hin.
      apply in_edges_with in Hin. destruct Hin as [k Hk' ->| Hd ->| -> |j' Hj ->|j' Hj ->]; try discriminate E. lia. }
  cbn [bind].
  match goal with |- context [find_node ?g _] => set (g0 := g) end.
  assert (U0 : uniq g0).
  { unfold uniq, g0. cbn [g_nodes]. rewrite map_app. apply nodup_app; [apply uniq_build | apply chain_names_nodup|].
    intros x H1 H2. apply in_map_iff in H2. destruct H2 as [nd [<- H2]]. apply in_chain_nodes in H2.
    destruct H2 as [j [_ ->]]. cbn [g_nodes build] in H1. rewrite build_nodes_names, map_map in H1.
    apply in_map_iff in H1. destruct H1 as [y [E Hy]]. rewrite n_name_mk_node in E. subst y.
    exact (names_no_transit s _ j Ht Hy eq_refl). }
  assert (I1 : In (plain (NTransit 1)) (g_nodes g0)).
  { unfold g0. cbn [g_nodes]. apply in_or_app. right. apply in_chain_nodes. exists 1. split; [lia|reflexivity]. }
  assert (Hf : find_node g0 (NTransit 1) = Some (plain (NTransit 1))) by (apply (find_node_uniq g0 (plain (NTransit 1)) U0 I1)).
  rewrite Hf. cbn [opt_res bind]. unfold set_bioavailability. cbn [with_bio plain n_name n_doses n_lag n_bio].
  rewrite fnode_doses.
  assert (Hadm : d_admid (the_dose s) = 1) by (unfold the_dose; destruct (s_zo s); reflexivity).
  rewrite Hadm. cbn [Nat.eqb]. unfold move_dose.
  set (r := fresh (build s)) in *.
  set (A0 := plain (NTransit 1)) in *.
  set (A1 := with_bio A0 (n_bio (fnode s))).
  set (B1 := with_bio (fnode s) false).
  assert (HdB : n_doses B1 = [the_dose s]) by (unfold B1; cbn [with_bio n_doses]; apply fnode_doses).
  rewrite HdB. cbn [filter]. rewrite Hadm. cbn [Nat.eqb negb app bind length]. unfold set_dose. cbn [fst].
  set (B2 := with_doses B1 []).
  set (A2 := with_doses A1 (n_doses A1 ++ [the_dose s])).
  assert (Hab : NTransit 1 <> first_name s).
  { unfold first_name. rewrite Ht. destruct (s_depot s); discriminate. }
  assert (IB : In (fnode s) (g_nodes g0)).
  { unfold g0. cbn [g_nodes build]. apply in_or_app. left. rewrite build_nodes_names. unfold fnode. apply in_map. apply first_in_names. }
  assert (TC0 : two_char g0 (g_nodes g0) (NTransit 1) (first_name s) A0 (fnode s)).
  { split; [exact U0|]. split; [reflexivity|]. split; [apply n_name_fnode|]. split; [|reflexivity].
    intro nd. split.
    - intro H. destruct (name_eqb (n_name nd) (NTransit 1)) eqn:E1.
      + left. apply name_eqb_eq in E1. apply (nodup_map_inj n_name (g_nodes g0) nd A0 U0 H I1). exact E1.
      + destruct (name_eqb (n_name nd) (first_name s)) eqn:E2.
        * right. left. apply name_eqb_eq in E2. apply (nodup_map_inj n_name (g_nodes g0) nd (fnode s) U0 H IB).
          rewrite n_name_fnode. exact E2.
        * right. right. split; [exact H|]. split; intro X; rewrite X, name_eqb_refl in *; discriminate.
    - intros [->|[->|[H _]]]; auto. }
  pose proof (two_char_relabel_A g0 _ _ _ A0 (fnode s) A1 Hab TC0 eq_refl) as TC1.
  assert (NB1 : n_name B1 = first_name s) by (unfold B1; cbn [with_bio n_name]; apply n_name_fnode).
  pose proof (two_char_relabel_B _ _ _ _ A1 (fnode s) B1 Hab TC1 NB1) as TC2.
  pose proof (two_char_relabel_B _ _ _ _ A1 B1 B2 Hab TC2 NB1) as TC3.
  pose proof (two_char_relabel_A _ _ _ _ A1 B2 A2 Hab TC3 eq_refl) as TC4.
  match type of TC4 with two_char ?g _ _ _ _ _ => set (g4 := g) in * end.
  assert (EA2 : A2 = mkNode (NTransit 1) [the_dose s] (s_lag s) (s_bio s)).
  { unfold A2, A1, A0, with_doses, with_bio, plain. cbn [n_name n_doses n_lag n_bio app]. rewrite fnode_bio, Hl. reflexivity. }
  assert (EB2 : B2 = plain (first_name s)).
  { unfold B2, B1, with_doses, with_bio, plain. cbn [n_name n_doses n_lag n_bio]. rewrite n_name_fnode, fnode_lag, Hl. reflexivity. }
  destruct TC4 as [U4 [_ [_ [C4 L4]]]].
  assert (Hni : node_in g4 A1 = false).
  { apply not_true_is_false. intro X. apply node_in_In in X. apply C4 in X. destruct X as [X|[X|[_ [X _]]]].
    - apply (f_equal n_doses) in X. rewrite EA2 in X. discriminate X.
    - apply (f_equal n_name) in X. rewrite EB2 in X. apply Hab. exact X.
    - apply X. reflexivity. }
  unfold relabel at 1. rewrite Hni.
  assert (E4 : g_edges g4 = build_edges s ++ chain_edges n (first_name s) r).
  { unfold g4. rewrite !relabel_edges. reflexivity. }
  assert (K4 : g_kmfix g4 = g_kmfix (build (with_tr s n))).
  { unfold g4. rewrite !relabel_kmfix. reflexivity. }
  rewrite EA2, EB2 in C4. clearbody g4. clear TC0 TC1 TC2 TC3.
  set (s' := with_tr s n) in *.
  set (f := fun e : edge => if Nat.eqb (e_rid e) r then mkEdge (e_src e) (e_dst e) 2 false false else e).
  assert (Hcls : forall e, In e (g_edges g4) ->
            (In e (build_edges s) /\ e_rid e < r /\ e_rid e <> 2 /\ f e = e)
            \/ (exists j, 1 <= j <= n /\ e = mkEdge (NTransit j) (chain_dst n (first_name s) j) r false false
                          /\ f e = tedge s' j)).
  { intros e H. rewrite E4 in H. apply in_app_or in H. destruct H as [H|H].
    - left. pose proof (fresh_gt (build s) e H) as Hr. fold r in Hr.
      split; [exact H|]. split; [exact Hr|]. split; [apply (old_edge_rid s e Ht H)|].
      unfold f. destruct (Nat.eqb_spec (e_rid e) r); [lia|reflexivity].
    - right. apply in_chain_edges in H. destruct H as [j [Hj ->]]. exists j. split; [exact Hj|]. split; [reflexivity|].
      unfold f. cbn [e_rid e_src e_dst]. rewrite Nat.eqb_refl. unfold s'. rewrite tedge_with_tr by assumption. reflexivity. }
  assert (Hmk : forall x, mk_node s' x = if name_eqb x (NTransit 1) then mkNode x [the_dose s] (s_lag s) (s_bio s) else plain x)
    by (intro x; apply mk_node_with_tr; exact Hn1).
  apply (geqb_perm_edges g4 (build s') f).
  - (* nodes -> *)
    intros nd H. apply C4 in H. cbn [g_nodes build]. rewrite build_nodes_names. unfold s' at 2. rewrite names_with_tr by exact Ht.
    destruct H as [->|[->|[H [N1 N2]]]].
    + replace (mkNode (NTransit 1) [the_dose s] (s_lag s) (s_bio s)) with (mk_node s' (NTransit 1)) by (rewrite Hmk; reflexivity).
      apply in_map. apply in_or_app. left. apply in_map. apply in_seq. lia.
    + replace (plain (first_name s)) with (mk_node s' (first_name s)).
      2:{ rewrite Hmk. rewrite (name_eqb_neq (first_name s) (NTransit 1)); [reflexivity | intro X; apply Hab; symmetry; exact X]. }
      apply in_map. apply in_or_app. right. apply first_in_names.
    + unfold g0 in H. cbn [g_nodes build] in H. apply in_app_or in H. destruct H as [H|H].
      * rewrite build_nodes_names in H. apply in_map_iff in H. destruct H as [x [<- Hx]].
        rewrite n_name_mk_node in N1, N2.
        replace (mk_node s x) with (mk_node s' x).
        2:{ rewrite Hmk. rewrite (name_eqb_neq _ _ N1). unfold mk_node. rewrite (name_eqb_neq _ _ N2). reflexivity. }
        apply in_map. apply in_or_app. right. exact Hx.
      * apply in_chain_nodes in H. destruct H as [j [Hj ->]]. cbn [plain n_name] in N1.
        replace (plain (NTransit j)) with (mk_node s' (NTransit j)) by (rewrite Hmk, (name_eqb_neq _ _ N1); reflexivity).
        apply in_map. apply in_or_app. left. apply in_map. apply in_seq. lia.
  - (* nodes <- *)
    intros nd H. apply C4. cbn [g_nodes build] in H. rewrite build_nodes_names in H. unfold s' at 2 in H.
    rewrite names_with_tr in H by exact Ht. apply in_map_iff in H. destruct H as [x [<- Hx]]. rewrite Hmk.
    apply in_app_or in Hx. destruct Hx as [Hx|Hx].
    + apply in_map_iff in Hx. destruct Hx as [j [<- Hj]]. apply in_seq in Hj.
      destruct (Nat.eq_dec j 1) as [->|Nj]; [left; reflexivity|].
      right. right. rewrite (name_eqb_neq (NTransit j) (NTransit 1)) by (intro X; injection X as X; lia).
      split; [|split].
      * unfold g0. cbn [g_nodes]. apply in_or_app. right. apply in_chain_nodes. exists j. split; [lia|reflexivity].
      * cbn. intro X; injection X as X; lia.
      * cbn. unfold first_name. rewrite Ht. destruct (s_depot s); discriminate.
    + pose proof (names_no_transit s x 1 Ht Hx) as Nx. rewrite (name_eqb_neq _ _ Nx).
      destruct (name_eqb x (first_name s)) eqn:Ef.
      * apply name_eqb_eq in Ef. subst x. right. left. reflexivity.
      * right. right. split; [|split].
        -- unfold g0. cbn [g_nodes build]. apply in_or_app. left. rewrite build_nodes_names.
           replace (plain x) with (mk_node s x) by (unfold mk_node; rewrite Ef; reflexivity). apply in_map. exact Hx.
        -- exact Nx.
        -- cbn. intro X. rewrite X, name_eqb_refl in Ef. discriminate.
  - (* number of nodes *)
    rewrite L4. unfold g0. cbn [g_nodes build]. rewrite !build_nodes_names, app_length, !map_length, length_chain_nodes.
    unfold s'. rewrite names_with_tr by exact Ht. rewrite app_length, map_length, seq_length. lia.
  - (* number of edges *)
    rewrite E4. cbn [g_edges build]. unfold s'. rewrite build_edges_with_tr by exact Ht.
    rewrite !app_length, map_length, seq_length, length_chain_edges. lia.
  - (* edges -> *)
    intros e H. cbn [g_edges build]. unfold s' at 1. rewrite build_edges_with_tr by exact Ht. fold s'.
    destruct (Hcls e H) as [[Hin [_ [_ ->]]]|[j [Hj [_ ->]]]].
    + apply in_or_app. right. exact Hin.
    + apply in_or_app. left. apply in_map. apply in_seq. lia.
  - (* edges <- *)
    intros e' H. cbn [g_edges build] in H. unfold s' at 1 in H. rewrite build_edges_with_tr in H by exact Ht. fold s' in H.
    apply in_app_or in H. destruct H as [H|H].
    + apply in_map_iff in H. destruct H as [j [<- Hj]]. apply in_seq in Hj.
      exists (mkEdge (NTransit j) (chain_dst n (first_name s) j) r false false).
      assert (Hin : In (mkEdge (NTransit j) (chain_dst n (first_name s) j) r false false) (g_edges g4)).
      { rewrite E4. apply in_or_app. right. apply in_chain_edges. exists j. split; [lia|reflexivity]. }
      split; [exact Hin|]. unfold f. cbn [e_rid e_src e_dst]. rewrite Nat.eqb_refl. unfold s'.
      rewrite tedge_with_tr by (try assumption; lia). reflexivity.
    + exists e'. assert (Hin : In e' (g_edges g4)) by (rewrite E4; apply in_or_app; left; exact H).
      split; [exact Hin|]. pose proof (fresh_gt (build s) e' H) as Hr. fold r in Hr.
      unfold f. destruct (Nat.eqb_spec (e_rid e') r); [lia|reflexivity].
  - intro e. unfold f. destruct (Nat.eqb (e_rid e) r); split; reflexivity.
  - intros e H. destruct (Hcls e H) as [[_ [_ [_ ->]]]|[j [Hj [-> _]]]]; [apply edge_shape_refl|].
    unfold f. cbn [e_rid e_src e_dst]. rewrite Nat.eqb_refl. unfold edge_shape_eqb. cbn [e_src e_dst e_nonlin e_cl].
    rewrite !name_eqb_refl. reflexivity.
  - cbn [g_edges build]. rewrite build_edges_with. apply key_unique_edges_with; reflexivity.
  - intros a b Ha Hb.
    destruct (Hcls a Ha) as [[_ [Ra [Ra2 Fa]]]|[ja [_ [Ea Fa]]]]; destruct (Hcls b Hb) as [[_ [Rb [Rb2 Fb]]]|[jb [_ [Eb Fb]]]];
      rewrite Fa, Fb; subst; cbn [e_rid tedge] in *; split; intro; try lia; try reflexivity.
  - exact K4.
Qed.
