(* PV.C08.ProofsRefine2 — remove_peripheral_compartment / set_peripheral_compartments refine the closed
   form for every transit and peripheral count. *)
From Coq Require Import List Bool Arith NArith Lia.
From PV Require Import Base.PyData C08.Model C08.ProofsGraph C08.ProofsRefine C08.ProofsDecimal.
Import ListNotations.
Local Open Scope nat_scope.

Lemma geqb_refl_build s : geqb (build s) (build s) = true.
Proof.
  apply (geqb_map_edges _ _ (fun e => e)); cbn [g_nodes g_edges g_kmfix build]; auto.
  - rewrite map_id. reflexivity.
  - intro e. auto.
  - intros e _. apply edge_shape_refl.
  - rewrite build_edges_with. apply key_unique_edges_with; reflexivity.
  - tauto.
Qed.

(* ---- the peripherals come out in numbering order ---- *)
Lemma ins_at_end x l :
  (forall y, In y l -> name_len_leb (n_name y) (n_name x) = true) -> ins_node_len x l = l ++ [x].
Proof.
  induction l as [|y l IH]; intro H; [reflexivity|]. cbn. rewrite (H y) by (left; reflexivity).
  f_equal. apply IH. intros z Hz. apply H. right. exact Hz.
Qed.

Lemma sort_periph m : sort_nodes_len (map pnode (seq 1 m)) = map pnode (seq 1 m).
Proof.
  induction m as [|m IH]; [reflexivity|].
  rewrite seq_S, map_app. cbn [map]. unfold sort_nodes_len in *. rewrite fold_left_app. cbn [fold_left].
  rewrite IH. apply ins_at_end. intros y Hy. apply in_map_iff in Hy. destruct Hy as [j [<- Hj]].
  apply in_seq in Hj. cbn [pnode plain n_name]. apply periph_order. lia.
Qed.

Lemma find_peripherals_list s : find_peripherals (build s) = map pnode (seq 1 (s_periph s)).
Proof.
  unfold find_peripherals. rewrite central_build, n_name_cnode.
  change (sort_nodes_len (filter (fun nd => periph_cond s (n_name nd)) (g_nodes (build s))) = map pnode (seq 1 (s_periph s))).
  cbn [g_nodes build]. rewrite (filter_nodes s (periph_cond s)).
  rewrite (tnodes_none s (periph_cond s)).
  2:{ intros k Hk. unfold periph_cond. rewrite (has_edge_build s NCentral). cbn [edge_spec]. apply andb_false_r. }
  rewrite (pnodes_all s (periph_cond s)).
  2:{ intros j Hj. unfold periph_cond. rewrite out_degree_periph, in_degree_periph by exact Hj.
      rewrite !has_edge_build. cbn [edge_spec Nat.eqb andb]. rewrite range_true_m by exact Hj. reflexivity. }
  assert (Hd : periph_cond s NDepot = false).
  { unfold periph_cond. rewrite (has_edge_build s NCentral). cbn [edge_spec]. apply andb_false_r. }
  assert (Hc : periph_cond s NCentral = false).
  { unfold periph_cond. rewrite (has_edge_build s NCentral). cbn [edge_spec]. apply andb_false_r. }
  rewrite Hd, Hc, andb_false_r. cbn [app]. apply sort_periph.
Qed.

(* ---- removing the last peripheral of build s gives LITERALLY the build of one peripheral less ---- *)
Lemma filter_seq_last {A} (f : nat -> A) (P : A -> bool) m :
  (forall j, 1 <= j <= m -> P (f j) = true) -> P (f (S m)) = false ->
  filter P (map f (seq 1 (S m))) = map f (seq 1 m).
Proof.
  intros Hk Hl. rewrite seq_S, map_app, filter_app. change (1 + m) with (S m). cbn [map filter]. rewrite Hl, app_nil_r.
  apply filter_all. intros x Hx. apply in_map_iff in Hx. destruct Hx as [j [<- Hj]]. apply in_seq in Hj. apply Hk. lia.
Qed.

Lemma build_nodes_with_per s m :
  build_nodes (with_per s m)
  = map (fun k => mk_node s (NTransit k)) (seq 1 (s_transits s)) ++ (if s_depot s then [mk_node s NDepot] else [])
    ++ [mk_node s NCentral] ++ map (fun j => plain (NPeriph j)) (seq 1 m).
Proof. reflexivity. Qed.
Lemma build_edges_with_per s m :
  build_edges (with_per s m)
  = map (fun k => mkEdge (NTransit k) (chain_next s k) 2 false false) (seq 1 (s_transits s))
    ++ (if s_depot s then [mkEdge NDepot NCentral 1 false false] else [])
    ++ [mkEdge NCentral NOutput 3 (fst (fst (elim_flags (s_elim s)))) (snd (fst (elim_flags (s_elim s))))]
    ++ map (fun j => mkEdge NCentral (NPeriph j) (2 * j + 2) false false) (seq 1 m)
    ++ map (fun j => mkEdge (NPeriph j) NCentral (2 * j + 3) false false) (seq 1 m).
Proof. reflexivity. Qed.

Lemma remove_last_periph s m :
  s_periph s = S m ->
  remove_compartment (build s) (pnode (S m)) = build (with_per s m).
Proof.
  intro Hm. unfold remove_compartment, build. cbn [g_nodes g_edges g_kmfix g_mat g_popmdt g_krates g_elq pnode plain n_name].
  rewrite build_nodes_with_per, build_edges_with_per.
  change (s_elim (with_per s m)) with (s_elim s). change (s_mat (with_per s m)) with (s_mat s).
  change (s_popmdt (with_per s m)) with (s_popmdt s). change (s_krates (with_per s m)) with (s_krates s).
  change (s_elq (with_per s m)) with (s_elq s).
  f_equal.
  - unfold drop_named, build_nodes. rewrite Hm.
    rewrite !filter_app. f_equal; [|f_equal; [|f_equal]].
    + apply filter_all. intros x Hx. apply in_map_iff in Hx. destruct Hx as [k [<- _]]. rewrite n_name_mk_node. reflexivity.
    + destruct (s_depot s); [|reflexivity]. cbn [filter]. rewrite n_name_mk_node. reflexivity.
    + cbn [filter]. rewrite n_name_mk_node. reflexivity.
    + apply (filter_seq_last (fun j => plain (NPeriph j))).
      * intros j Hj. cbn. destruct (Nat.eqb_spec j (S m)); [lia|reflexivity].
      * cbn. rewrite Nat.eqb_refl. reflexivity.
  - unfold build_edges. rewrite Hm. rewrite !filter_app.
    set (P := fun e : edge => negb (name_eqb (e_src e) (NPeriph (S m))) && negb (name_eqb (e_dst e) (NPeriph (S m)))).
    assert (A1 : filter P (map (fun k => mkEdge (NTransit k) (chain_next s k) 2 false false) (seq 1 (s_transits s)))
                 = map (fun k => mkEdge (NTransit k) (chain_next s k) 2 false false) (seq 1 (s_transits s))).
    { apply filter_all. intros x Hx. apply in_map_iff in Hx. destruct Hx as [k [<- _]]. unfold P. cbn [e_src e_dst name_eqb negb andb].
      destruct (chain_next_cases s k) as [[_ E]|[[_ [_ E]]|[_ [_ E]]]]; rewrite E; reflexivity. }
    assert (A2 : filter P (if s_depot s then [mkEdge NDepot NCentral 1 false false] else [])
                 = (if s_depot s then [mkEdge NDepot NCentral 1 false false] else [])).
    { destruct (s_depot s); reflexivity. }
    assert (A4 : filter P (map (fun j => mkEdge NCentral (NPeriph j) (2 * j + 2) false false) (seq 1 (S m)))
                 = map (fun j => mkEdge NCentral (NPeriph j) (2 * j + 2) false false) (seq 1 m)).
    { apply (filter_seq_last (fun j => mkEdge NCentral (NPeriph j) (2 * j + 2) false false)).
      - intros j Hj. unfold P. cbn. destruct (Nat.eqb_spec j (S m)); [lia|reflexivity].
      - unfold P. cbn. rewrite Nat.eqb_refl. reflexivity. }
    assert (A5 : filter P (map (fun j => mkEdge (NPeriph j) NCentral (2 * j + 3) false false) (seq 1 (S m)))
                 = map (fun j => mkEdge (NPeriph j) NCentral (2 * j + 3) false false) (seq 1 m)).
    { apply (filter_seq_last (fun j => mkEdge (NPeriph j) NCentral (2 * j + 3) false false)).
      - intros j Hj. unfold P. cbn. destruct (Nat.eqb_spec j (S m)); [lia|reflexivity].
      - unfold P. cbn. rewrite Nat.eqb_refl. reflexivity. }
    rewrite A1, A2, A4, A5. reflexivity.
Qed.

Lemma with_per_same s : build (with_per s (s_periph s)) = build s.
Proof. destruct s. reflexivity. Qed.

Definition rem_crash (s : sk) (m : nat) : bool :=
  s_krates s && (Nat.eqb m 2 || (Nat.eqb m 1 && s_elq s)).

Lemma remove_peripheral_build s :
  remove_peripheral_compartment (build s)
  = match s_periph s with
    | 0 => Ok (build s)
    | S m => if rem_crash s (S m) then Crash CValue else Ok (build (with_per s m))
    end.
Proof.
  unfold remove_peripheral_compartment. rewrite find_peripherals_list.
  destruct (s_periph s) as [|m] eqn:Em; [reflexivity|].
  rewrite seq_S, map_app. change (1 + m) with (S m). cbn [map].
  destruct (map pnode (seq 1 m) ++ [pnode (S m)]) eqn:El.
  { apply app_eq_nil in El. destruct El as [_ El]. discriminate. }
  rewrite <- El. rewrite app_length, map_length, seq_length. cbn [length g_krates g_elq build].
  rewrite last_last. unfold rem_crash. replace (m + 1) with (S m) by lia.
  destruct (s_krates s && ((S m =? 2) || (S m =? 1) && s_elq s)); [reflexivity|].
  rewrite (remove_last_periph s m Em). reflexivity.
Qed.

Theorem refines_perrem s : refines PerRem s = true.
Proof.
  unfold refines. cbn [step setter_graph]. rewrite remove_peripheral_build.
  destruct (s_periph s) as [|m] eqn:Em.
  - cbn [Nat.eqb andb orb]. rewrite andb_false_r. cbn [pred].
    replace (with_per s 0) with (with_per s (s_periph s)) by (rewrite Em; reflexivity).
    rewrite with_per_same. apply geqb_refl_build.
  - unfold rem_crash. destruct (s_krates s && ((S m =? 2) || (S m =? 1) && s_elq s)); [reflexivity|].
    cbn [pred]. apply geqb_refl_build.
Qed.

(* ---- set_peripheral_compartments ---- *)
Fixpoint iter_crash (s : sk) (n k : nat) : bool :=
  match k with 0 => false | S k' => rem_crash s (S (n + k')) || iter_crash s n k' end.

Lemma iter_remove k : forall s n, s_periph s = n + k ->
  iter_res k remove_peripheral_compartment (build s)
  = if iter_crash s n k then Crash CValue else Ok (build (with_per s n)).
Proof.
  induction k as [|k IH]; intros s n Hm.
  - cbn. rewrite Nat.add_0_r in Hm. rewrite <- Hm, with_per_same. reflexivity.
  - cbn [iter_res iter_crash]. rewrite remove_peripheral_build.
    replace (s_periph s) with (S (n + k)) by lia.
    destruct (rem_crash s (S (n + k))) eqn:Ec; [reflexivity|]. cbn [bind orb].
    rewrite (IH (with_per s (n + k)) n) by reflexivity.
    assert (E : forall j q, iter_crash (with_per s j) n q = iter_crash s n q).
    { intros j q. induction q as [|q IHq]; [reflexivity|]. cbn [iter_crash]. rewrite IHq. reflexivity. }
    rewrite E. reflexivity.
Qed.

Definition perset_crash (s : sk) (n : nat) : bool :=
  s_krates s && (((n <=? 1) && (2 <=? s_periph s)) || (Nat.eqb n 0 && (1 <=? s_periph s) && s_elq s)).

Ltac bool_nat :=
  repeat match goal with
  | |- context [Nat.eqb ?a ?b] => destruct (Nat.eqb_spec a b)
  | |- context [Nat.leb ?a ?b] => destruct (Nat.leb_spec a b)
  end; cbn [andb orb]; try reflexivity; try lia.

Lemma iter_crash_spec s n k : s_periph s = n + S k -> iter_crash s n (S k) = perset_crash s n.
Proof.
  intro Hm. unfold perset_crash. rewrite Hm. clear Hm.
  induction k as [|k IH].
  - cbn [iter_crash]. unfold rem_crash. rewrite orb_false_r, Nat.add_0_r.
    destruct (s_krates s), (s_elq s); cbn [andb]; try reflexivity; bool_nat.
  - cbn [iter_crash] in *. rewrite IH. unfold rem_crash.
    destruct (s_krates s), (s_elq s); cbn [andb orb]; try reflexivity; bool_nat.
Qed.

Lemma bind_ok (r : res graph) : bind r (fun g1 => Ok g1) = r.
Proof. destruct r; reflexivity. Qed.

(* every target count at most one above the present one (one add, or any number of removals) *)
Theorem refines_perset n s : n <= S (s_periph s) -> refines (PerSet n) s = true.
Proof.
  intro Hn. unfold refines. cbn [step setter_graph]. unfold set_peripheral_compartments.
  rewrite find_peripherals_build.
  destruct (Nat.ltb_spec (s_periph s) n) as [H1|H1].
  - (* one peripheral is added *)
    assert (n = S (s_periph s)) by lia. subst n.
    replace (S (s_periph s) - s_periph s) with 1 by lia. cbn [iter_res]. rewrite bind_ok.
    assert (C : s_krates s && ((S (s_periph s) <=? 1) && (2 <=? s_periph s)
                 || Nat.eqb (S (s_periph s)) 0 && (1 <=? s_periph s) && s_elq s) = false).
    { destruct (s_krates s); [|reflexivity]. cbn [andb]. bool_nat. }
    rewrite C. pose proof (refines_peradd s) as R. unfold refines in R. cbn [step setter_graph] in R. exact R.
  - destruct (Nat.ltb_spec n (s_periph s)) as [H2|H2].
    + (* peripherals are removed *)
      destruct (s_periph s - n) as [|k] eqn:Ek; [lia|].
      rewrite (iter_remove (S k) s n) by lia.
      rewrite (iter_crash_spec s n k) by lia.
      fold (perset_crash s n). destruct (perset_crash s n); [reflexivity | apply geqb_refl_build].
    + assert (n = s_periph s) by lia. subst n.
      assert (C : s_krates s && ((s_periph s <=? 1) && (2 <=? s_periph s)
                   || Nat.eqb (s_periph s) 0 && (1 <=? s_periph s) && s_elq s) = false).
      { destruct (s_krates s); [|reflexivity]. cbn [andb]. bool_nat. }
      rewrite C, with_per_same. apply geqb_refl_build.
Qed.
