(* PV.C08.Refuted — one counter-model per guard conjunct (open findings) and regression examples of the
   repaired behaviour for the five findings fixed in /repo.  Counter-models: a valid state and a request on which the
   conjunct is false, the graph part of the setter (run on build s) agrees with the closed form,
   and the property fails.  Each is a known finding (known_findings.d/C08.json), reproduced on the
   real code by the stored call sequence. *)
From Coq Require Import List Bool Arith.
From PV Require Import Base.PyData C08.Model C08.ProofsStep.
Import ListNotations.

Definition sk0 (a : absk) (tr per : nat) (lag : bool) : sk := mkSk a tr per EFO lag true true false true false.

Definition fails (f : req) (s : sk) : Prop := refines f s = true /\ ~ step_good f s.

Ltac refute := split; [vm_compute; reflexivity | unfold step_good; vm_compute; intuition discriminate].

(* ---- regression examples of defects that are FIXED in /repo (a recurrence is a VIOLATION of the check) ---- *)
Definition repaired (f : req) (s s' : sk) : Prop :=
  valid s = true /\ guard f s = true /\ refines f s = true /\ step f s = SOk s' /\ valid s' = true.

(* C08-INST-TRANSIT-DEPOT (3342873): was IndexError; the depot is removed and the chain reconnected *)
Example inst_depot_dosed_fixed :
  repaired AbsInst (sk0 FO 2 0 false) (with_abs (sk0 FO 2 0 false) INST)
  /\ canon_abs (with_abs (sk0 FO 2 0 false) INST) = FO.
Proof. unfold repaired. repeat split; vm_compute; reflexivity. Qed.

(* C08-INST-STALE-SYSTEM (decea79): was the old system coming back (FO); now instantaneous *)
Example inst_not_stale_fixed :
  repaired AbsInst (sk0 SEQ 0 0 false) (with_abs (sk0 SEQ 0 0 false) INST)
  /\ repaired AbsInst (sk0 SEQ 3 1 false) (with_abs (sk0 SEQ 3 1 false) INST).
Proof. unfold repaired. repeat split; vm_compute; reflexivity. Qed.

(* C08-SEQ-NO-DEPOT (2e21c7f): was AttributeError on None; the infusion goes on TRANSIT1 and reads SEQ *)
Example seq_has_depot_fixed :
  repaired AbsSeq (sk0 INST 2 0 false) (with_abs (sk0 INST 2 0 false) ZO)
  /\ canon_abs (with_abs (sk0 INST 2 0 false) ZO) = SEQ.
Proof. unfold repaired. repeat split; vm_compute; reflexivity. Qed.

(* C08-SEQ-TRANSIT-DEPOT (e1c4639): was list.remove(x); the infusion goes on the dosing compartment *)
Example seq_depot_dosed_fixed :
  repaired AbsSeq (sk0 FO 1 0 false) (with_abs (sk0 FO 1 0 false) SEQ).
Proof. unfold repaired. repeat split; vm_compute; reflexivity. Qed.

(* C08-ZO-TRANSIT-DEPOT: the chain is left dangling — not a skeleton graph *)
Theorem zo_depot_dosed_refuted :
  exists s, valid s = true /\ g_zo_depot_dosed AbsZO s = false /\ fails AbsZO s /\ step AbsZO s = SAnom.
Proof. exists (sk0 FO 1 0 false). repeat split; try (vm_compute; reflexivity). unfold step_good. vm_compute. auto. Qed.

(* C08-FO-ZO-TRANSITS: DEPOT in front of TRANSIT1 — not a skeleton graph *)
Theorem fo_no_chain_refuted :
  exists s, valid s = true /\ g_fo_no_chain AbsFO s = false /\ fails AbsFO s /\ step AbsFO s = SAnom.
Proof. exists (sk0 ZO 2 0 false). repeat split; try (vm_compute; reflexivity). unfold step_good. vm_compute. auto. Qed.

(* C08-FO-SEQ-TRANSITS-NOOP: nothing happens, sequential absorption is still detected *)
Theorem fo_seq_chain_refuted :
  exists s, valid s = true /\ g_fo_seq_chain AbsFO s = false /\ fails AbsFO s /\ step AbsFO s = SOk s
            /\ canon_abs s = SEQ.
Proof. exists (sk0 SEQ 1 0 false). repeat split; try (vm_compute; reflexivity). unfold step_good. vm_compute. intuition discriminate. Qed.

(* C08-FO-DROPS-LAG: the lag time is gone *)
Theorem fo_keeps_lag_refuted :
  exists s, valid s = true /\ g_fo_keeps_lag AbsFO s = false /\ fails AbsFO s
            /\ step AbsFO s = SOk (with_lagb (with_abs s FO) false).
Proof. exists (sk0 SEQ 0 0 true). repeat split; try (vm_compute; reflexivity). unfold step_good. vm_compute. intuition discriminate. Qed.

(* C08-NODEPOT-MDT-CLASH: duplicate parameter POP_MDT *)
Theorem no_param_clash_refuted :
  exists s, valid s = true /\ g_no_param_clash (Transits 0 false) s = false /\ fails (Transits 0 false) s
            /\ setter_graph (Transits 0 false) (build s) = Crash CDupParam.
Proof. exists (sk0 FO 1 0 false). repeat split; try (vm_compute; reflexivity). unfold step_good. vm_compute. auto. Qed.

(* C08-TRANSIT-STALE-LAG: the lag time stays on the old dosing compartment — not a skeleton graph;
   and with an existing chain it simply stays although set_transit_compartments removes lag time *)
Theorem transit_no_lag_refuted :
  exists s, valid s = true /\ g_transit_no_lag (Transits 2 true) s = false /\ fails (Transits 2 true) s
            /\ step (Transits 2 true) s = SAnom.
Proof. exists (sk0 FO 0 0 true). repeat split; try (vm_compute; reflexivity). unfold step_good. vm_compute. auto. Qed.
Theorem transit_no_lag_refuted_chain :
  exists s, valid s = true /\ g_transit_no_lag (Transits 2 true) s = false /\ fails (Transits 2 true) s
            /\ step (Transits 2 true) s = SOk (with_tr s 2).
Proof. exists (sk0 INST 3 0 true). repeat split; try (vm_compute; reflexivity). unfold step_good. vm_compute. intuition discriminate. Qed.

(* C08-SINGLE-TRANSIT: the removal branch produces the single transit that the creation branch refuses *)
Theorem no_single_transit_refuted :
  exists s, valid s = true /\ g_no_single_transit (Transits 1 true) s = false /\ fails (Transits 1 true) s
            /\ step (Transits 1 true) s = SOk (with_tr s 1) /\ valid (with_tr s 1) = false.
Proof. exists (sk0 INST 2 0 false). repeat split; try (vm_compute; reflexivity). unfold step_good. vm_compute. intuition discriminate. Qed.

(* the repaired set_instantaneous_absorption is one more way into it: depot behind ONE transit *)
Theorem no_single_transit_refuted_inst :
  exists s, valid s = true /\ g_no_single_transit AbsInst s = false /\ fails AbsInst s
            /\ step AbsInst s = SOk (with_abs s INST) /\ valid (with_abs s INST) = false.
Proof. exists (sk0 FO 1 0 false). repeat split; try (vm_compute; reflexivity). unfold step_good. vm_compute. intuition discriminate. Qed.

(* C08-PERIPH-STRING-ORDER (6f6df8b): was PERIPHERAL9 removed instead of PERIPHERAL10 *)
Example periph_order_fixed :
  repaired PerRem (sk0 INST 0 10 false) (with_per (sk0 INST 0 10 false) 9)
  /\ map n_name (find_peripherals (build (sk0 INST 0 10 false)))
     = [NPeriph 1; NPeriph 2; NPeriph 3; NPeriph 4; NPeriph 5; NPeriph 6; NPeriph 7; NPeriph 8; NPeriph 9; NPeriph 10]
  /\ refines (PerSet 8) (sk0 FO 1 11 false) = true.
Proof. unfold repaired. repeat split; vm_compute; reflexivity. Qed.

(* C08-DROPS-BIOAVAILABILITY: F goes away with the removed depot *)
Theorem keeps_bio_refuted :
  exists s, valid s = true /\ g_keeps_bio AbsInst s = false /\ fails AbsInst s
            /\ step AbsInst s = SOk (with_biob (with_lagb (with_abs s INST) false) false) /\ s_bio s = true.
Proof.
  exists (mkSk FO 0 0 EFO false true false false true true).
  repeat split; try (vm_compute; reflexivity). unfold step_good. vm_compute. intuition discriminate.
Qed.
Theorem keeps_bio_refuted_transits :
  exists s, valid s = true /\ g_keeps_bio (Transits 0 true) s = false /\ fails (Transits 0 true) s /\ s_bio s = true.
Proof.
  exists (mkSk FO 2 0 EFO false true true false true true).
  repeat split; try (vm_compute; reflexivity). unfold step_good. vm_compute. intuition discriminate.
Qed.

(* C08-REMOVE-PERIPH-KRATES: ValueError('Could not find theta connected to 1') *)
Theorem rem_periph_rates_refuted :
  exists s, valid s = true /\ g_rem_periph_rates PerRem s = false /\ fails PerRem s
            /\ setter_graph PerRem (build s) = Crash CValue.
Proof.
  exists (mkSk INST 3 2 EFO false false true true false false).
  repeat split; try (vm_compute; reflexivity). unfold step_good. vm_compute. auto.
Qed.
