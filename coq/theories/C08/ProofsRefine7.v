(* PV.C08.ProofsRefine7 — set_transit_compartments when the requested number of transits is already
   detected and no depot has to be removed (only the lag time goes), and the documented refusal. *)
From Coq Require Import List Bool Arith NArith Lia.
From PV Require Import Base.PyData C08.Model C08.ProofsGraph C08.ProofsRefine C08.ProofsDecimal C08.ProofsRefine2
  C08.ProofsRefine3 C08.ProofsRefine4 C08.ProofsRefine5 C08.ProofsRefine6.
Import ListNotations.
Local Open Scope nat_scope.

Lemma remove_lag_build s :
  exists g, remove_lag_time (build s) = Ok g /\ geqb g (build (with_lagb s false)) = true
            /\ FG s (with_lag (fnode s) false) g.
Proof.
  unfold remove_lag_time. rewrite dosing0_build. cbn [opt_res bind]. rewrite fnode_lag.
  destruct (s_lag s) eqn:El.
  - eexists. split; [reflexivity|]. unfold set_lag_time. cbn [fst]. split; [apply geqb_lag|].
    apply FG_relabel; [apply FG_build | cbn [with_lag n_name]; apply n_name_fnode].
  - exists (build s). split; [reflexivity|]. split.
    + rewrite <- (relabel_id (build s) (fnode s)) at 1.
      replace (fnode s) with (with_lag (fnode s) false) at 2; [apply geqb_lag|].
      unfold fnode, with_lag. rewrite mk_node_first. cbn. rewrite El. reflexivity.
    + replace (with_lag (fnode s) false) with (fnode s); [apply FG_build|].
      unfold fnode, with_lag. rewrite mk_node_first. cbn. rewrite El. reflexivity.
Qed.

Lemma no_depot_block s keep :
  valid s = true -> (keep = true \/ s_depot s = false) ->
  match canon_depot s, keep with Some _, false => False | _, _ => True end.
Proof.
  intros Hv Hk. unfold canon_depot. destruct Hk as [->|Hd].
  - destruct (s_depot s); [exact I|]. destruct (Nat.eqb (s_transits s) 1); exact I.
  - rewrite Hd. unfold valid in Hv. rewrite Hd in Hv. cbn [negb andb] in Hv.
    destruct (Nat.eqb (s_transits s) 1); [discriminate Hv|]. destruct keep; exact I.
Qed.

Theorem refines_transits_same s n keep :
  valid s = true -> canon_transits s = n -> (keep = true \/ s_depot s = false) ->
  refines (Transits n keep) s = true.
Proof.
  intros Hv Hn Hk. unfold refines.
  assert (Hstep : step (Transits n keep) s = SOk (with_lagb s false)).
  { cbn [step]. unfold step_transits. rewrite Hn, Nat.eqb_refl.
    destruct Hk as [->|Hd]; [reflexivity|]. rewrite Hd. cbn [negb orb andb].
    unfold valid in Hv. rewrite Hd in Hv. cbn [negb andb] in Hv.
    destruct (Nat.eqb (s_transits s) 1); [discriminate Hv|]. rewrite andb_false_r. reflexivity. }
  rewrite Hstep. cbn [setter_graph]. unfold set_transit_compartments.
  rewrite dosing0_build. cbn [opt_res bind]. rewrite find_transits_build. cbn [opt_res bind].
  destruct (remove_lag_build s) as [g [Hg [Geq _]]]. rewrite Hg. cbn [bind].
  rewrite find_depot_build. cbn [bind].
  pose proof (no_depot_block s keep Hv Hk) as Nb.
  rewrite length_transit_names, Hn, Nat.eqb_refl.
  destruct (canon_depot s) as [x|]; [destruct keep; [|contradiction]|]; cbn [bind]; exact Geq.
Qed.

(* the documented refusal: one transit on instantaneous absorption without transits *)
Theorem refines_transits_refusal s keep :
  s_abs s = INST -> s_transits s = 0 -> refines (Transits 1 keep) s = true.
Proof.
  intros Ha Ht. unfold refines.
  assert (Hd : s_depot s = false) by (unfold s_depot; rewrite Ha; reflexivity).
  assert (Hstep : step (Transits 1 keep) s = SRefuse).
  { cbn [step]. unfold step_transits, canon_transits. rewrite Hd, Ht, Ha. cbn. rewrite andb_false_r. reflexivity. }
  rewrite Hstep. cbn [setter_graph]. unfold set_transit_compartments.
  rewrite dosing0_build. cbn [opt_res bind]. rewrite find_transits_build. cbn [opt_res bind].
  destruct (remove_lag_build s) as [g [Hg [_ F]]]. rewrite Hg. cbn [bind].
  rewrite find_depot_build. unfold canon_depot. rewrite Hd, Ht. cbn [Nat.eqb bind].
  rewrite length_transit_names. unfold canon_transits. rewrite Hd, Ht. cbn [Nat.eqb andb].
  assert (Hi : has_instantaneous_absorption g = true).
  { unfold has_instantaneous_absorption.
    rewrite (FG_dosing0 s _ g F) by (unfold with_lag; rewrite fnode_doses; reflexivity).
    rewrite (FG_central s _ g F). unfold cen. rewrite (first_central s Hd Ht). cbn [name_eqb].
    rewrite name_eqb_refl. cbn [with_lag n_doses]. rewrite fnode_doses. unfold the_dose, s_zo. rewrite Ha. reflexivity. }
  destruct keep; rewrite Hi; reflexivity.
Qed.
