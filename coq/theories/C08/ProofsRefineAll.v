(* PV.C08.ProofsRefineAll — which (request, state) pairs have the all-counts refinement, and the dispatch. *)
From Coq Require Import List Bool Arith NArith Lia.
From PV Require Import Base.PyData C08.Model C08.ProofsGraph C08.ProofsStep C08.Proofs C08.ProofsRefine C08.ProofsDecimal
  C08.ProofsRefine2 C08.ProofsRefine3 C08.ProofsRefine4 C08.ProofsRefine5 C08.ProofsRefine6 C08.ProofsRefine7
  C08.ProofsRefine8 C08.ProofsRefine9 C08.ProofsRefine10 C08.ProofsRefine11 C08.ProofsRefine12 C08.ProofsRefine13 C08.ProofsRefine14.
Import ListNotations.
Local Open Scope nat_scope.

Definition abs_proved (f : req) (s : sk) : bool :=
  let tr := s_transits s in
  match f, s_abs s with
  | AbsInst, INST | AbsInst, ZO => negb (Nat.eqb tr 1)
  | AbsInst, FO | AbsInst, SEQ => true
  | AbsFO, INST | AbsFO, FO | AbsFO, SEQ => true
  | AbsFO, ZO => Nat.eqb tr 0
  | AbsZO, INST => negb (Nat.eqb tr 1)
  | AbsZO, ZO => negb (Nat.eqb tr 1)
  | AbsZO, FO | AbsZO, SEQ => Nat.eqb tr 0
  | AbsSeq, INST => 2 <=? tr
  | AbsSeq, FO | AbsSeq, ZO | AbsSeq, SEQ => true
  | _, _ => false
  end.

Lemma abs_refines f s : is_abs f = true -> abs_proved f s = true -> refines f s = true.
Proof.
  intros Hf H. unfold abs_proved in H.
  destruct f; try discriminate Hf; destruct (s_abs s) eqn:Ha; try discriminate H.
  - (* AbsInst INST *) apply refines_abs_single_pass. unfold abs_case_proved. rewrite Ha. exact H.
  - destruct (Nat.eq_dec (s_transits s) 0) as [Et|Nt].
    + apply refines_inst_remove_depot; [unfold s_depot; rewrite Ha; reflexivity | exact Et].
    + apply refines_inst_depot_chain; [unfold s_depot; rewrite Ha; reflexivity | lia].
  - apply refines_abs_single_pass. unfold abs_case_proved. rewrite Ha. exact H.
  - destruct (Nat.eq_dec (s_transits s) 0) as [Et|Nt].
    + apply refines_inst_remove_depot; [unfold s_depot; rewrite Ha; reflexivity | exact Et].
    + apply refines_inst_depot_chain; [unfold s_depot; rewrite Ha; reflexivity | lia].
  - (* AbsFO INST *) destruct (Nat.eqb (s_transits s) 0) eqn:Et.
    + apply refines_fo_insert_depot; [unfold s_depot; rewrite Ha; reflexivity | apply Nat.eqb_eq; exact Et].
    + apply refines_abs_single_pass. unfold abs_case_proved. rewrite Ha, Et. reflexivity.
  - apply refines_abs_single_pass. unfold abs_case_proved. rewrite Ha. reflexivity.
  - apply refines_fo_insert_depot; [unfold s_depot; rewrite Ha; reflexivity | apply Nat.eqb_eq; exact H].
  - apply refines_fo_from_seq. exact Ha.
  - (* AbsZO INST *) apply refines_zo_from_inst; [exact Ha | apply Nat.eqb_neq; apply negb_true_iff; exact H].
  - apply refines_zo_remove_depot; [unfold s_depot; rewrite Ha; reflexivity | apply Nat.eqb_eq; exact H].
  - (* AbsZO ZO *) destruct (Nat.eqb (s_transits s) 0) eqn:Et.
    + apply refines_abs_single_pass. unfold abs_case_proved. rewrite Ha, Et. reflexivity.
    + apply refines_zo_noop_chain; [exact Ha|]. apply negb_true_iff in H. apply Nat.eqb_neq in H. apply Nat.eqb_neq in Et. lia.
  - apply refines_zo_remove_depot; [unfold s_depot; rewrite Ha; reflexivity | apply Nat.eqb_eq; exact H].
  - (* AbsSeq INST *) apply refines_seq_from_inst_chain; [exact Ha | apply Nat.leb_le; exact H].
  - apply refines_seq_from_fo. exact Ha.
  - destruct (Nat.eqb (s_transits s) 0) eqn:Et.
    + apply refines_seq_insert_depot; [exact Ha | apply Nat.eqb_eq; exact Et].
    + apply refines_abs_single_pass. unfold abs_case_proved. rewrite Ha, Et. reflexivity.
  - apply refines_abs_single_pass. unfold abs_case_proved. rewrite Ha. reflexivity.
Qed.

(* set_transit_compartments: EVERY valid state, every n, both keep_depot values.  The depot stays (or there
   is none): same count, refusal, creation (with a lag time set: the recorded anomaly, result is no
   skeleton graph), addition, removal.  keep_depot=False on a depot: without transits (dose to central,
   depot removed, chain created in front of central) and behind a chain (last transit connected to
   central, depot removed, then the loops on that system). *)
Definition transits_proved (n : nat) (keep : bool) (s : sk) : bool := valid s.

Lemma transits_kept_refines n keep s :
  valid s = true -> (keep = true \/ s_depot s = false) -> refines (Transits n keep) s = true.
Proof.
  intros Hv Hk.
  destruct (Nat.eqb_spec (canon_transits s) n) as [E|N]; [apply refines_transits_same; assumption|].
  destruct (Nat.eqb_spec (s_transits s) 0) as [Et|Nt].
  - assert (Hc : canon_transits s = 0) by (unfold canon_transits; rewrite Et; destruct (s_depot s); reflexivity).
    assert (Hcase : (n = 1 /\ s_abs s = INST) \/ (n <> 1 \/ s_abs s <> INST)).
    { destruct (Nat.eq_dec n 1) as [->|N1]; [|right; left; exact N1].
      destruct (s_abs s); [left; split; reflexivity | right; right; discriminate ..]. }
    destruct Hcase as [[-> Ha]|Hnr]; [apply refines_transits_refusal; assumption|].
    destruct (s_lag s) eqn:El.
    + apply refines_transits_create_lag; try assumption. lia.
    + apply refines_transits_create; try assumption. lia.
  - destruct (Nat.lt_trichotomy (s_transits s) n) as [L|[E|G]].
    + apply refines_transits_add; try assumption; lia.
    + exfalso. apply N. rewrite <- E. unfold canon_transits. unfold valid in Hv. apply negb_true_iff in Hv.
      destruct (s_depot s); [reflexivity|]. cbn [negb andb] in Hv. rewrite Hv. reflexivity.
    + destruct n as [|n'].
      * apply refines_transits_remove_all; try assumption; lia.
      * apply refines_transits_remove; try assumption; lia.
Qed.

Lemma transits_refines n keep s : transits_proved n keep s = true -> refines (Transits n keep) s = true.
Proof.
  unfold transits_proved. intro Hv.
  destruct (negb keep && s_depot s) eqn:H.
  - apply andb_true_iff in H. destruct H as [Hk Hd].
    destruct keep; [discriminate Hk|].
    destruct (Nat.eq_dec (s_transits s) 0) as [Et|Nt]; [apply refines_transits_nodepot; assumption|].
    destruct (Nat.lt_trichotomy (s_transits s) n) as [L|[E|G]].
    + apply refines_transits_nodepot_add; try assumption; lia.
    + rewrite <- E. apply refines_transits_nodepot_same; [assumption | lia].
    + destruct n as [|n'].
      * apply refines_transits_nodepot_remove_all; [assumption | lia].
      * apply refines_transits_nodepot_remove; try assumption; lia.
  - apply transits_kept_refines; [exact Hv|]. destruct keep; [left; reflexivity | right]. exact H.
Qed.

Definition refines_proved (f : req) (s : sk) : bool :=
  match f with
  | ElFO | ElZO | ElMM | ElMix | LagOn | LagOff | BioOn | BioOff | PerAdd | PerRem => true
  | PerSet n => n <=? S (s_periph s)
  | AbsInst | AbsFO | AbsZO | AbsSeq => abs_proved f s
  | Transits n keep => transits_proved n keep s
  end.

(* the request forms covered on every state *)
Definition refines_proved_for_all_counts (f : req) : bool :=
  match f with
  | ElFO | ElZO | ElMM | ElMix | LagOn | LagOff | BioOn | BioOff | PerAdd | PerRem => true
  | _ => false
  end.

Lemma setter_refines_lemma f s : refines_proved f s = true -> refines f s = true.
Proof.
  intro H. destruct f; cbn [refines_proved] in H; try discriminate H;
    try (apply refines_elim; reflexivity); try (apply refines_label; reflexivity);
    try (apply abs_refines; [reflexivity | exact H]).
  - apply refines_peradd.
  - apply refines_perrem.
  - apply refines_perset. apply Nat.leb_le. exact H.
  - apply transits_refines. exact H.
Qed.

Lemma sound_all_counts_lemma f s :
  refines_proved f s = true -> valid s = true -> guard f s = true -> sound_on_graph f s.
Proof. intros H Hv Hg. apply refines_sound; [apply setter_refines_lemma; exact H | exact Hv | exact Hg]. Qed.

(* ------------------------------------------------------------------ what is left without all-counts refinement *)
(* the residual (request, state) classes: everything else on valid states within the guard is covered *)
Definition open_case (f : req) (s : sk) : bool :=
  match f with
  | AbsSeq => absk_eqb (s_abs s) INST && Nat.eqb (s_transits s) 0      (* two passes through set_first_order_absorption *)
  | PerSet n => S (s_periph s) <? n                                    (* two or more additions *)
  | _ => false
  end.

Lemma abs_covered f s :
  is_abs f = true -> valid s = true -> guard f s = true -> open_case f s = false -> abs_proved f s = true.
Proof.
  intros Hf Hv Hg Ho. destruct s as [a tr per el lag mat pm kr eq bio].
  destruct f; try discriminate Hf; destruct a; destruct tr as [|[|tr]];
    unfold abs_proved, open_case, valid, guard, s_depot in *; cbn in *; try reflexivity; try discriminate;
    destruct lag, bio; cbn in *; try reflexivity; try discriminate.
Qed.

Lemma transits_covered n keep s :
  valid s = true -> guard (Transits n keep) s = true -> open_case (Transits n keep) s = false ->
  transits_proved n keep s = true.
Proof. intros Hv _ _. exact Hv. Qed.

Lemma covered_proved f s :
  valid s = true -> guard f s = true -> open_case f s = false -> refines_proved f s = true.
Proof.
  intros Hv Hg Ho. destruct f; cbn [refines_proved]; try reflexivity;
    try (apply abs_covered; [reflexivity | exact Hv | exact Hg | exact Ho]).
  - cbn [open_case] in Ho. apply Nat.leb_le. apply Nat.ltb_ge in Ho. exact Ho.
  - apply transits_covered; assumption.
Qed.

Lemma sound_covered_lemma f s :
  valid s = true -> guard f s = true -> open_case f s = false -> sound_on_graph f s.
Proof. intros Hv Hg Ho. apply sound_all_counts_lemma; [apply covered_proved; assumption | exact Hv | exact Hg]. Qed.
