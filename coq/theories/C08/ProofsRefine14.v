(* PV.C08.ProofsRefine14 — set_transit_compartments creating a chain while a lag time is set (the depot
   stays or there is none): the result keeps the lag time on the OLD dosing compartment, which has no
   dose any more — no skeleton graph has such a compartment (the model of finding C08-TRANSIT-STALE-LAG,
   for every count). *)
From Coq Require Import List Bool Arith NArith Lia.
From PV Require Import Base.PyData C08.Model C08.ProofsGraph C08.ProofsRefine C08.ProofsDecimal C08.ProofsRefine2
  C08.ProofsRefine3 C08.ProofsRefine4 C08.ProofsRefine5 C08.ProofsRefine6 C08.ProofsRefine7 C08.ProofsRefine8.
Import ListNotations.
Local Open Scope nat_scope.

(* every compartment of a skeleton graph either has a dose or has no lag time *)
Lemma build_node_shape s nd : In nd (build_nodes s) -> n_doses nd <> [] \/ n_lag nd = false.
Proof.
  intro H. rewrite build_nodes_names in H. apply in_map_iff in H. destruct H as [x [<- _]].
  unfold mk_node. destruct (name_eqb x (first_name s)); [left; discriminate | right; reflexivity].
Qed.

Lemma not_a_build g nd : In nd (g_nodes g) -> n_doses nd = [] -> n_lag nd = true -> recognize g = None.
Proof.
  intros Hin Hd Hl. unfold recognize.
  assert (E : forallb (fun x => node_mem x (g_nodes (build (guess g)))) (g_nodes g) = false).
  { apply not_true_is_false. intro X. rewrite forallb_forall in X. specialize (X nd Hin).
    unfold node_mem in X. apply existsb_exists in X. destruct X as [y [Hy E]]. apply node_eqb_eq in E. subst y.
    destruct (build_node_shape _ _ Hy) as [H|H]; [contradiction | rewrite Hl in H; discriminate]. }
  unfold geqb. rewrite E, andb_false_r. reflexivity.
Qed.

Lemma FG_inst_value s c g : FG s c g -> has_doses c = true ->
  has_instantaneous_absorption g
  = name_eqb (first_name s) NCentral && match n_doses c with dd :: _ => negb (d_inf dd) | [] => false end.
Proof.
  intros F Hd. unfold has_instantaneous_absorption. rewrite (FG_dosing0 _ _ _ F Hd), (FG_central _ _ _ F).
  destruct (FG_cen_in _ _ _ F) as [_ Hn]. rewrite Hn, (fg_name _ _ _ F). reflexivity.
Qed.

Theorem refines_transits_create_lag s n keep :
  s_transits s = 0 -> s_lag s = true -> (keep = true \/ s_depot s = false) ->
  1 <= n -> (n <> 1 \/ s_abs s <> INST) ->
  refines (Transits n keep) s = true.
Proof.
  intros Ht Hl Hk Hn1 Hnr. unfold refines.
  assert (Hv : valid s = true) by (unfold valid; rewrite Ht; cbn; rewrite andb_false_r; reflexivity).
  assert (Hct : canon_transits s = 0) by (unfold canon_transits; rewrite Ht; destruct (s_depot s); reflexivity).
  assert (Hstep : step (Transits n keep) s = SAnom).
  { cbn [step]. unfold step_transits. rewrite Hct, Ht, Hl.
    replace (negb keep && (s_depot s || negb (s_depot s) && (0 =? 1))) with false.
    2:{ destruct Hk as [->| ->]; [reflexivity | destruct keep; reflexivity]. }
    destruct (Nat.eqb_spec 0 n); [lia|].
    replace (Nat.eqb n 1 && absk_eqb (s_abs s) INST && (0=?0)) with false.
    2:{ destruct (Nat.eqb_spec n 1); [|reflexivity]. destruct Hnr as [?|Hd]; [lia|].
        destruct (s_abs s); try reflexivity. contradiction. }
    reflexivity. }
  rewrite Hstep. cbn [setter_graph]. unfold set_transit_compartments.
  rewrite dosing0_build. cbn [opt_res bind]. rewrite find_transits_build. cbn [opt_res bind].
  destruct (remove_lag_build s) as [gl [Hrl [_ Fgl]]].
  rewrite Hrl. cbn [bind]. rewrite find_depot_build. cbn [bind].
  pose proof (no_depot_block s keep Hv Hk) as Nb.
  rewrite length_transit_names, Hct.
  match goal with |- context [bind ?M ?K] => assert (HM : M = Ok (gl, build s)) end.
  { destruct (canon_depot s); [destruct keep; [|contradiction]|]; reflexivity. }
  rewrite HM. clear HM Nb. cbn [bind]. cbv zeta.
  destruct (Nat.eqb_spec 0 n) as [|_]; [lia|].
  replace (Nat.eqb n 1 && has_instantaneous_absorption gl) with false.
  2:{ destruct (Nat.eqb_spec n 1); [|reflexivity]. destruct Hnr as [?|Hd]; [lia|]. cbn [andb]. symmetry.
      rewrite (FG_inst_value s _ gl Fgl) by (unfold has_doses; cbn [with_lag n_doses]; rewrite fnode_doses; reflexivity).
      cbn [with_lag n_doses]. rewrite fnode_doses. unfold first_name, the_dose, s_depot, s_zo. rewrite Ht.
      destruct (s_abs s); try reflexivity. contradiction. }
  cbn [Nat.eqb]. rewrite dosing0_build. cbn [opt_res bind]. rewrite n_name_fnode.
  rewrite (create_chain_spec1 n (build s) (first_name s) (fresh (build s)) Hn1).
  2:{ intros nd j Hin E. exfalso. cbn [g_nodes build] in Hin. rewrite build_nodes_names in Hin.
      apply in_map_iff in Hin. destruct Hin as [x [<- Hx]]. rewrite n_name_mk_node in E.
      exact (names_no_transit s x j Ht Hx E). }
  2:{ intros e j Hin E. exfalso. cbn [g_edges build] in Hin. rewrite build_edges_with in Hin.
      apply in_edges_with in Hin. destruct Hin as [k Hk' ->| Hd ->| -> |j' Hj ->|j' Hj ->]; try discriminate E. lia. }
  cbn [bind].
  match goal with |- context [find_node ?g _] => set (g0 := g) end.
  assert (U0 : uniq g0).
  { unfold uniq, g0. cbn [g_nodes]. rewrite map_app. apply nodup_app; [apply uniq_build | apply chain_names_nodup|].
    intros x H1 H2. apply in_map_iff in H2. destruct H2 as [nd [<- H2]]. apply in_chain_nodes in H2.
    destruct H2 as [j [_ ->]]. cbn [g_nodes build] in H1. rewrite build_nodes_names, map_map in H1.
    apply in_map_iff in H1. destruct H1 as [y [E Hy]]. rewrite n_name_mk_node in E. subst y.
    exact (names_no_transit s _ j Ht Hy eq_refl). }
  assert (I1 : In (plain (NTransit 1)) (g_nodes g0)).
  { unfold g0. cbn [g_nodes]. apply in_or_app. right. apply in_chain_nodes. exists 1. split; [lia|reflexivity]. }
  assert (Hf : find_node g0 (NTransit 1) = Some (plain (NTransit 1))) by (apply (find_node_uniq g0 (plain (NTransit 1)) U0 I1)).
  rewrite Hf. cbn [opt_res bind]. unfold set_bioavailability. cbn [with_bio plain n_name n_doses n_lag n_bio].
  rewrite fnode_doses.
  assert (Hadm : d_admid (the_dose s) = 1) by (unfold the_dose; destruct (s_zo s); reflexivity).
  rewrite Hadm. cbn [Nat.eqb]. unfold move_dose.
  set (r := fresh (build s)) in *.
  set (A0 := plain (NTransit 1)) in *.
  set (A1 := with_bio A0 (n_bio (fnode s))).
  set (B1 := with_bio (fnode s) false).
  assert (HdB : n_doses B1 = [the_dose s]) by (unfold B1; cbn [with_bio n_doses]; apply fnode_doses).
  rewrite HdB. cbn [filter]. rewrite Hadm. cbn [Nat.eqb negb app bind length]. unfold set_dose. cbn [fst].
  set (B2 := with_doses B1 []).
  set (A2 := with_doses A1 (n_doses A1 ++ [the_dose s])).
  assert (Hab : NTransit 1 <> first_name s).
  { unfold first_name. rewrite Ht. destruct (s_depot s); discriminate. }
  assert (IB : In (fnode s) (g_nodes g0)).
  { unfold g0. cbn [g_nodes build]. apply in_or_app. left. rewrite build_nodes_names. unfold fnode. apply in_map. apply first_in_names. }
  assert (TC0 : two_char g0 (g_nodes g0) (NTransit 1) (first_name s) A0 (fnode s)).
  { split; [exact U0|]. split; [reflexivity|]. split; [apply n_name_fnode|]. split; [|reflexivity].
    intro nd. split.
    - intro H. destruct (name_eqb (n_name nd) (NTransit 1)) eqn:E1.
      + left. apply name_eqb_eq in E1. apply (nodup_map_inj n_name (g_nodes g0) nd A0 U0 H I1). exact E1.
      + destruct (name_eqb (n_name nd) (first_name s)) eqn:E2.
        * right. left. apply name_eqb_eq in E2. apply (nodup_map_inj n_name (g_nodes g0) nd (fnode s) U0 H IB).
          rewrite n_name_fnode. exact E2.
        * right. right. split; [exact H|]. split; intro X; rewrite X, name_eqb_refl in *; discriminate.
    - intros [->|[->|[H _]]]; auto. }
  pose proof (two_char_relabel_A g0 _ _ _ A0 (fnode s) A1 Hab TC0 eq_refl) as TC1.
  assert (NB1 : n_name B1 = first_name s) by (unfold B1; cbn [with_bio n_name]; apply n_name_fnode).
  pose proof (two_char_relabel_B _ _ _ _ A1 (fnode s) B1 Hab TC1 NB1) as TC2.
  pose proof (two_char_relabel_B _ _ _ _ A1 B1 B2 Hab TC2 NB1) as TC3.
  pose proof (two_char_relabel_A _ _ _ _ A1 B2 A2 Hab TC3 eq_refl) as TC4.
  match type of TC4 with two_char ?g _ _ _ _ _ => set (g4 := g) in * end.
  assert (EA2 : A2 = mkNode (NTransit 1) [the_dose s] false (s_bio s)).
  { unfold A2, A1, A0, with_doses, with_bio, plain. cbn [n_name n_doses n_lag n_bio app]. rewrite fnode_bio. reflexivity. }
  assert (EB2 : B2 = mkNode (first_name s) [] true false).
  { unfold B2, B1, with_doses, with_bio, plain. cbn [n_name n_doses n_lag n_bio]. rewrite n_name_fnode, fnode_lag, Hl. reflexivity. }
  destruct TC4 as [U4 [_ [_ [C4 L4]]]].
  assert (Hni : node_in g4 A1 = false).
  { apply not_true_is_false. intro X. apply node_in_In in X. apply C4 in X. destruct X as [X|[X|[_ [X _]]]].
    - apply (f_equal n_doses) in X. rewrite EA2 in X. discriminate X.
    - apply (f_equal n_name) in X. rewrite EB2 in X. apply Hab. exact X.
    - apply X. reflexivity. }
  unfold relabel at 1. rewrite Hni.
  assert (IB2 : In B2 (g_nodes g4)) by (apply C4; right; left; reflexivity).
  rewrite (not_a_build g4 B2 IB2); [reflexivity | rewrite EB2; reflexivity | rewrite EB2; reflexivity].
Qed.

(* the same, spelled out: the closed form says "anomaly", the setter succeeds, and its result is the build of no skeleton *)
Lemma stale_lag_anomaly s n keep :
  s_transits s = 0 -> s_lag s = true -> (keep = true \/ s_depot s = false) ->
  1 <= n -> (n <> 1 \/ s_abs s <> INST) ->
  step (Transits n keep) s = SAnom
  /\ exists g', setter_graph (Transits n keep) (build s) = Ok g' /\ recognize g' = None.
Proof.
  intros Ht Hl Hk Hn1 Hnr.
  assert (Hct : canon_transits s = 0) by (unfold canon_transits; rewrite Ht; destruct (s_depot s); reflexivity).
  assert (Hstep : step (Transits n keep) s = SAnom).
  { cbn [step]. unfold step_transits. rewrite Hct, Ht, Hl.
    replace (negb keep && (s_depot s || negb (s_depot s) && (0 =? 1))) with false.
    2:{ destruct Hk as [->| ->]; [reflexivity | destruct keep; reflexivity]. }
    destruct (Nat.eqb_spec 0 n); [lia|].
    replace (Nat.eqb n 1 && absk_eqb (s_abs s) INST && (0=?0)) with false.
    2:{ destruct (Nat.eqb_spec n 1); [|reflexivity]. destruct Hnr as [?|Hd]; [lia|].
        destruct (s_abs s); try reflexivity. contradiction. }
    reflexivity. }
  split; [exact Hstep|].
  pose proof (refines_transits_create_lag s n keep Ht Hl Hk Hn1 Hnr) as R. unfold refines in R. rewrite Hstep in R.
  destruct (setter_graph (Transits n keep) (build s)) as [g'| |c]; try discriminate R.
  exists g'. split; [reflexivity|]. destruct (recognize g'); [discriminate R | reflexivity].
Qed.
