(* PV.C08.ProofsRefine5 — nodes of a graph as a set under the builder operations; the absorption
   setters that insert a DEPOT in front of CENTRAL. *)
From Coq Require Import List Bool Arith NArith Lia FinFun.
From PV Require Import Base.PyData C08.Model C08.ProofsGraph C08.ProofsRefine C08.ProofsDecimal C08.ProofsRefine2 C08.ProofsRefine3 C08.ProofsRefine4.
Import ListNotations.
Local Open Scope nat_scope.

Definition uniq (g : graph) : Prop := NoDup (map n_name (g_nodes g)).

Lemma nodup_app {A} (l1 l2 : list A) :
  NoDup l1 -> NoDup l2 -> (forall x, In x l1 -> In x l2 -> False) -> NoDup (l1 ++ l2).
Proof.
  induction l1 as [|y l1 IH]; intros H1 H2 Hd; [exact H2|]. cbn. inversion H1 as [|? ? Hn H1']; subst.
  constructor.
  - intro H. apply in_app_or in H. destruct H as [H|H]; [contradiction | apply (Hd y); [left; reflexivity | exact H]].
  - apply IH; auto. intros x Hx1 Hx2. apply (Hd x); [right; exact Hx1 | exact Hx2].
Qed.

Lemma node_in_In g a : node_in g a = true <-> In a (g_nodes g).
Proof.
  unfold node_in. rewrite existsb_exists. split.
  - intros [x [Hx E]]. apply node_eqb_eq in E. subst. exact Hx.
  - intro H. exists a. split; [exact H | apply node_eqb_refl].
Qed.

Lemma in_drop_named x nd l : In nd (drop_named x l) <-> In nd l /\ n_name nd <> x.
Proof.
  unfold drop_named. rewrite filter_In, negb_true_iff. split; intros [H1 H2]; split; auto.
  - intro E. subst. rewrite name_eqb_refl in H2. discriminate.
  - apply name_eqb_neq. exact H2.
Qed.

Lemma uniq_same_name g a nd : uniq g -> In a (g_nodes g) -> In nd (g_nodes g) -> n_name nd = n_name a -> nd = a.
Proof.
  unfold uniq. induction (g_nodes g) as [|y l IH]; intros Hu Ha Hn E; [contradiction|].
  cbn in Hu. inversion Hu as [|? ? Hnot Hu']; subst.
  destruct Ha as [->|Ha]; destruct Hn as [->|Hn]; auto.
  - exfalso. apply Hnot. rewrite <- E. apply in_map. exact Hn.
  - exfalso. apply Hnot. rewrite E. apply in_map. exact Ha.
Qed.

Lemma relabel_in g a b : uniq g -> In a (g_nodes g) -> n_name b = n_name a ->
  forall nd, In nd (g_nodes (relabel g a b)) <-> (nd = b \/ (In nd (g_nodes g) /\ n_name nd <> n_name a)).
Proof.
  intros Hu Ha Hn nd. unfold relabel. rewrite (proj2 (node_in_In g a) Ha).
  destruct (node_eqb a b) eqn:E.
  - apply node_eqb_eq in E. subst b. split.
    + intro H. destruct (name_eqb (n_name nd) (n_name a)) eqn:En.
      * left. apply name_eqb_eq in En. apply (uniq_same_name g); auto.
      * right. split; [exact H|]. intro X. rewrite X, name_eqb_refl in En. discriminate.
    + intros [->|[H _]]; auto.
  - unfold set_nodes. cbn [g_nodes]. rewrite in_app_iff, in_drop_named. cbn [In]. split.
    + intros [H|[<-|[]]]; auto.
    + intros [->|H]; auto.
Qed.

Lemma length_drop_named x l : NoDup (map n_name l) -> In x (map n_name l) -> S (length (drop_named x l)) = length l.
Proof.
  induction l as [|y l IH]; intros Hu Hi; [contradiction|]. cbn in Hu. inversion Hu as [|? ? Hnot Hu']; subst.
  unfold drop_named in *. cbn [filter map In length] in *.
  destruct (name_eqb (n_name y) x) eqn:E; cbn [negb length].
  - apply name_eqb_eq in E. subst x. f_equal.
    assert (F : filter (fun nd => negb (name_eqb (n_name nd) (n_name y))) l = l).
    { apply filter_all. intros z Hz. apply negb_true_iff. apply name_eqb_neq. intro X.
      apply Hnot. rewrite <- X. apply in_map. exact Hz. }
    rewrite F. reflexivity.
  - f_equal. apply IH; auto. destruct Hi as [X|Hi]; [subst; rewrite name_eqb_refl in E; discriminate | exact Hi].
Qed.

Lemma relabel_length g a b : uniq g -> In a (g_nodes g) -> length (g_nodes (relabel g a b)) = length (g_nodes g).
Proof.
  intros Hu Ha. unfold relabel. rewrite (proj2 (node_in_In g a) Ha). destruct (node_eqb a b); [reflexivity|].
  unfold set_nodes. cbn [g_nodes]. rewrite app_length. cbn [length]. rewrite Nat.add_1_r.
  apply length_drop_named; [exact Hu | apply in_map; exact Ha].
Qed.

Lemma map_name_drop x l :
  map n_name (drop_named x l) = filter (fun y => negb (name_eqb y x)) (map n_name l).
Proof.
  unfold drop_named. induction l as [|y l IH]; [reflexivity|]. cbn.
  destruct (negb (name_eqb (n_name y) x)); cbn; rewrite IH; reflexivity.
Qed.

Lemma relabel_uniq g a b : uniq g -> In a (g_nodes g) -> n_name b = n_name a -> uniq (relabel g a b).
Proof.
  intros Hu Ha Hn. unfold relabel. rewrite (proj2 (node_in_In g a) Ha). destruct (node_eqb a b); [exact Hu|].
  unfold uniq, set_nodes. cbn [g_nodes]. rewrite map_app. cbn [map].
  rewrite map_name_drop. apply nodup_app; [apply NoDup_filter; exact Hu | repeat constructor; auto |].
  intros x Hx [<-|[]]. apply filter_In in Hx. destruct Hx as [_ Hx]. rewrite Hn, name_eqb_refl in Hx. discriminate.
Qed.

Lemma relabel_edges g a b : g_edges (relabel g a b) = g_edges g.
Proof. unfold relabel. destruct (node_in g a); [destruct (node_eqb a b)|]; reflexivity. Qed.
Lemma relabel_kmfix g a b : g_kmfix (relabel g a b) = g_kmfix g.
Proof. unfold relabel. destruct (node_in g a); [destruct (node_eqb a b)|]; reflexivity. Qed.

Lemma in_relabel_new g a b : In a (g_nodes g) -> In b (g_nodes (relabel g a b)).
Proof.
  intro Ha. unfold relabel. rewrite (proj2 (node_in_In g a) Ha). destruct (node_eqb a b) eqn:E.
  - apply node_eqb_eq in E. subst. exact Ha.
  - unfold set_nodes. cbn [g_nodes]. apply in_or_app. right. left. reflexivity.
Qed.

Lemma names_nodup s : NoDup (names s).
Proof.
  unfold names.
  assert (T : NoDup (map NTransit (seq 1 (s_transits s)))).
  { apply Injective_map_NoDup; [intros x y E; injection E; auto | apply seq_NoDup]. }
  assert (P : NoDup (map NPeriph (seq 1 (s_periph s)))).
  { apply Injective_map_NoDup; [intros x y E; injection E; auto | apply seq_NoDup]. }
  apply nodup_app; [exact T | |].
  - apply nodup_app; [destruct (s_depot s); repeat constructor; auto | |].
    + apply nodup_app; [repeat constructor; auto | exact P |].
      intros x [<-|[]] H. apply in_map_iff in H. destruct H as [j [E _]]. discriminate.
    + intros x Hx H. apply in_app_or in H.
      destruct (s_depot s); [destruct Hx as [<-|[]] | contradiction].
      destruct H as [[E|[]]|H]; [discriminate|]. apply in_map_iff in H. destruct H as [j [E _]]. discriminate.
  - intros x Hx H. apply in_map_iff in Hx. destruct Hx as [k [<- _]].
    apply in_app_or in H. destruct H as [H|H].
    + destruct (s_depot s); [destruct H as [E|[]]; discriminate | contradiction].
    + apply in_app_or in H. destruct H as [[E|[]]|H]; [discriminate|]. apply in_map_iff in H. destruct H as [j [E _]]. discriminate.
Qed.

Lemma uniq_build s : uniq (build s).
Proof.
  unfold uniq. cbn [g_nodes build]. rewrite build_nodes_names, map_map.
  rewrite (map_ext _ (fun x => x)) by (intro x; apply n_name_mk_node). rewrite map_id. apply names_nodup.
Qed.

(* ---- inserting a DEPOT in front of CENTRAL (no transits, no depot before) ---- *)
Lemma find_node_none_in g x : (forall nd, In nd (g_nodes g) -> n_name nd <> x) -> find_node g x = None.
Proof.
  intro H. unfold find_node. induction (g_nodes g) as [|y l IH]; [reflexivity|]. cbn.
  destruct (name_eqb (n_name y) x) eqn:E.
  - apply name_eqb_eq in E. exfalso. apply (H y); [left; reflexivity | exact E].
  - apply IH. intros nd Hn. apply H. right. exact Hn.
Qed.

Lemma has_edge_false_src g u v : (forall e, In e (g_edges g) -> e_src e <> u) -> has_edge g u v = false.
Proof.
  intro H. unfold has_edge. apply not_true_is_false. intro X. apply existsb_exists in X. destruct X as [e [He E]].
  unfold is_edge in E. apply andb_true_iff in E. destruct E as [E _]. apply name_eqb_eq in E. exact (H e He E).
Qed.

Section AddDepot.
  Variables (s s' : sk) (g1 : graph) (c1 : node) (d : dose) (lg bi : bool).
  Hypothesis Hnd : s_depot s = false.
  Hypothesis Htr : s_transits s = 0.
  Hypothesis Hu : uniq g1.
  Hypothesis He : g_edges g1 = build_edges s.
  Hypothesis Hk : g_kmfix g1 = g_kmfix (build s).
  Hypothesis Hc1 : n_name c1 = NCentral.
  Hypothesis Hnodes : forall nd, In nd (g_nodes g1) <-> (nd = c1 \/ In nd (map pnode (seq 1 (s_periph s)))).
  Hypothesis Hlen : length (g_nodes g1) = S (s_periph s).
  Hypothesis Hs'tr : s_transits s' = 0.
  Hypothesis Hs'd : s_depot s' = true.
  Hypothesis Hs'p : s_periph s' = s_periph s.
  Hypothesis Hs'e : s_elim s' = s_elim s.
  Hypothesis Hs'dose : the_dose s' = d.
  Hypothesis Hs'lag : s_lag s' = lg.
  Hypothesis Hs'bio : s_bio s' = bi.

  Let Dn : node := mkNode NDepot [d] lg bi.
  Let c4 : node := mkNode NCentral [] false false.

  Lemma in_c1 : In c1 (g_nodes g1). Proof. apply Hnodes. left. reflexivity. Qed.

  Lemma no_depot_name : forall nd, In nd (g_nodes g1) -> n_name nd <> NDepot.
  Proof.
    intros nd H. apply Hnodes in H. destruct H as [->|H]; [rewrite Hc1; discriminate|].
    apply in_map_iff in H. destruct H as [j [<- _]]. discriminate.
  Qed.

  Lemma add_depot_result :
    exists g6, add_first_order_absorption g1 d c1 lg bi true = Ok g6 /\ geqb g6 (build s') = true.
  Proof.
    unfold add_first_order_absorption, add_compartment. cbn [n_name].
    rewrite (find_node_none_in g1 NDepot no_depot_name). cbn [bind].
    set (g2 := set_nodes g1 (g_nodes g1 ++ [Dn])).
    assert (U2 : uniq g2).
    { unfold uniq, g2, set_nodes. cbn [g_nodes]. rewrite map_app. cbn [map]. apply nodup_app; [exact Hu | repeat constructor; auto |].
      intros x Hx [<-|[]]. apply in_map_iff in Hx. destruct Hx as [nd [E Hn]]. exact (no_depot_name nd Hn E). }
    assert (I2 : In c1 (g_nodes g2)) by (unfold g2, set_nodes; cbn [g_nodes]; apply in_or_app; left; exact in_c1).
    cbv beta iota zeta delta [set_dose set_lag_time set_bioavailability fst snd].
    change (set_nodes g1 (g_nodes g1 ++ [{| n_name := NDepot; n_doses := [d]; n_lag := lg; n_bio := bi |}])) with g2.
    set (c2 := with_doses c1 []). set (g3 := relabel g2 c1 c2).
    set (c3 := with_lag c2 false). set (g4 := relabel g3 c2 c3).
    set (c5 := with_bio c3 false). set (g5 := relabel g4 c3 c5).
    assert (N2 : n_name c2 = n_name c1) by reflexivity.
    assert (N3 : n_name c3 = n_name c2) by reflexivity.
    assert (N5 : n_name c5 = n_name c3) by reflexivity.
    assert (U3 : uniq g3) by (apply relabel_uniq; auto).
    assert (I3 : In c2 (g_nodes g3)) by (apply in_relabel_new; exact I2).
    assert (U4 : uniq g4) by (apply relabel_uniq; auto).
    assert (I4 : In c3 (g_nodes g4)) by (apply in_relabel_new; exact I3).
    assert (E5 : c5 = c4). { unfold c5, c3, c2, with_bio, with_lag, with_doses, c4. cbn. rewrite Hc1. reflexivity. }
    assert (Ed : g_edges g5 = build_edges s).
    { unfold g5, g4, g3. rewrite !relabel_edges. exact He. }
    assert (Hno : has_edge g5 NDepot (n_name c5) = false).
    { apply has_edge_false_src. intros e Hin. rewrite Ed, build_edges_with in Hin. apply in_edges_with in Hin.
      destruct Hin as [k Hk' ->| Hd' ->| -> |j Hj ->|j Hj ->]; cbn; try discriminate.
      rewrite Hnd in Hd'. discriminate. }
    unfold add_flow. rewrite Hno.
    eexists. split; [reflexivity|].
    set (r := fresh g5). set (e6 := mkEdge NDepot (n_name c5) r false false).
    assert (StepChar : forall g a b, uniq g -> In a (g_nodes g) -> n_name a = NCentral -> n_name b = NCentral ->
              (forall nd, In nd (g_nodes g) <-> (nd = a \/ nd = Dn \/ In nd (map pnode (seq 1 (s_periph s))))) ->
              (forall nd, In nd (g_nodes (relabel g a b)) <-> (nd = b \/ nd = Dn \/ In nd (map pnode (seq 1 (s_periph s)))))).
    { intros g a b Ug Ia Na Nb Hg nd. rewrite (relabel_in g a b Ug Ia) by congruence. rewrite Hg, Na. split.
      - intros [->|[[->|[->|H]] Hne]]; auto. exfalso. apply Hne. exact Na.
      - intros [->|[->|H]]; auto.
        + right. split; [auto | discriminate].
        + right. split; [auto|]. apply in_map_iff in H. destruct H as [j [<- _]]. discriminate. }
    assert (Nodes2 : forall nd, In nd (g_nodes g2) <-> (nd = c1 \/ nd = Dn \/ In nd (map pnode (seq 1 (s_periph s))))).
    { intro nd. unfold g2, set_nodes. cbn [g_nodes]. rewrite in_app_iff, Hnodes. cbn [In]. split.
      - intros [[->|H]|[<-|[]]]; auto.
      - intros [->|[->|H]]; auto. }
    assert (Nodes5 : forall nd, In nd (g_nodes g5) <-> (nd = c4 \/ nd = Dn \/ In nd (map pnode (seq 1 (s_periph s))))).
    { assert (Nc2 : n_name c2 = NCentral) by exact Hc1.
      assert (Nc3 : n_name c3 = NCentral) by exact Hc1.
      assert (Nc5 : n_name c5 = NCentral) by exact Hc1.
      rewrite <- E5. unfold g5. apply (StepChar g4 c3 c5 U4 I4 Nc3 Nc5).
      unfold g4. apply (StepChar g3 c2 c3 U3 I3 Nc2 Nc3).
      unfold g3. apply (StepChar g2 c1 c2 U2 I2 Hc1 Nc2). exact Nodes2. }
    assert (Len5 : length (g_nodes g5) = S (S (s_periph s))).
    { unfold g5, g4, g3. rewrite !relabel_length by auto. unfold g2, set_nodes. cbn [g_nodes]. rewrite app_length, Hlen. cbn. lia. }
    (* the target *)
    assert (Nm' : names s' = NDepot :: NCentral :: map NPeriph (seq 1 (s_periph s))).
    { unfold names. rewrite Hs'tr, Hs'd, Hs'p. reflexivity. }
    assert (Fn' : first_name s' = NDepot) by (unfold first_name; rewrite Hs'tr, Hs'd; reflexivity).
    assert (Nodes' : forall nd, In nd (build_nodes s') <-> (nd = c4 \/ nd = Dn \/ In nd (map pnode (seq 1 (s_periph s))))).
    { intro nd. rewrite build_nodes_names, Nm'. cbn [map In]. unfold mk_node. rewrite Fn'. cbn [name_eqb].
      rewrite Hs'dose, Hs'lag, Hs'bio. rewrite map_map. fold Dn. unfold plain at 1. fold c4.
      rewrite (map_ext (fun x => if name_eqb (NPeriph x) NDepot then mkNode (NPeriph x) [d] lg bi else plain (NPeriph x)) pnode) by reflexivity.
      split; [intros [<-|[<-|H]]; auto | intros [->|[->|H]]; auto]. }
    set (f := fun e : edge => if is_edge NDepot NCentral e then dedge else e).
    assert (Ee' : build_edges s' = dedge :: build_edges s).
    { unfold build_edges. rewrite Hs'tr, Hs'd, Hs'p, Hs'e, Htr, Hnd. reflexivity. }
    assert (Fold : forall e, In e (build_edges s) -> f e = e /\ 3 <= e_rid e).
    { intros e Hin. rewrite build_edges_with in Hin. apply in_edges_with in Hin. unfold f.
      destruct Hin as [k Hk' ->| Hd' ->| -> |j Hj ->|j Hj ->]; cbn; try (split; [reflexivity|lia]).
      rewrite Hnd in Hd'. discriminate. }
    assert (F6 : f e6 = dedge). { unfold f, e6, is_edge. cbn [e_src e_dst]. rewrite E5. reflexivity. }
    apply (geqb_perm_edges _ _ f); unfold set_edges; cbn [g_nodes g_edges g_kmfix build].
    - intros nd H. apply Nodes'. apply Nodes5. exact H.
    - intros nd H. apply Nodes5. apply Nodes'. exact H.
    - rewrite Len5, build_nodes_names, map_length, Nm'. cbn [length]. rewrite map_length, seq_length. reflexivity.
    - rewrite app_length, Ed, Ee'. cbn [length]. lia.
    - intros e Hin. rewrite Ee'. apply in_app_or in Hin. destruct Hin as [Hin|[<-|[]]].
      + rewrite Ed in Hin. destruct (Fold e Hin) as [-> _]. right. exact Hin.
      + rewrite F6. left. reflexivity.
    - intros e' Hin. rewrite Ee' in Hin. destruct Hin as [<-|Hin].
      + exists e6. split; [apply in_or_app; right; left; reflexivity | exact F6].
      + exists e'. split; [apply in_or_app; left; rewrite Ed; exact Hin | apply Fold; exact Hin].
    - intro e. unfold f. destruct (is_edge NDepot NCentral e) eqn:E; [|auto].
      unfold is_edge in E. apply andb_true_iff in E. destruct E as [A B]. apply name_eqb_eq in A. apply name_eqb_eq in B.
      rewrite A, B. auto.
    - intros e Hin. apply in_app_or in Hin. destruct Hin as [Hin|[<-|[]]].
      + rewrite Ed in Hin. destruct (Fold e Hin) as [-> _]. apply edge_shape_refl.
      + rewrite F6. unfold edge_shape_eqb, e6, dedge. cbn [e_src e_dst e_nonlin e_cl]. rewrite E5. reflexivity.
    - rewrite build_edges_with. apply key_unique_edges_with; reflexivity.
    - intros a b Ha Hb. apply in_app_or in Ha. apply in_app_or in Hb.
      assert (Rr : forall e, In e (build_edges s) -> e_rid e < r).
      { intros e Hin. apply (fresh_gt g5). rewrite Ed. exact Hin. }
      destruct Ha as [Ha|[<-|[]]]; destruct Hb as [Hb|[<-|[]]]; rewrite ?Ed in *;
        try (destruct (Fold a Ha) as [Fa Ra]; pose proof (Rr a Ha));
        try (destruct (Fold b Hb) as [Fb Rb]; pose proof (Rr b Hb));
        rewrite ?Fa, ?Fb, ?F6; cbn [dedge e_rid e6]; split; intro; try lia; reflexivity.
    - unfold g5, g4, g3. rewrite !relabel_kmfix. unfold g2. cbn [g_kmfix set_nodes]. rewrite Hk.
      cbn [g_kmfix build]. rewrite Hs'e. reflexivity.
  Qed.
End AddDepot.

Lemma nodes_no_chain s : s_depot s = false -> s_transits s = 0 ->
  build_nodes s = fnode s :: map pnode (seq 1 (s_periph s)).
Proof.
  intros Hd Ht. unfold build_nodes, fnode, first_name. rewrite Hd, Ht. reflexivity.
Qed.
Lemma first_central s : s_depot s = false -> s_transits s = 0 -> first_name s = NCentral.
Proof. intros Hd Ht. unfold first_name. rewrite Hd, Ht. reflexivity. Qed.

(* the graph after the first set_dose of the dosing compartment CENTRAL *)
Lemma relabelled_central s c1 :
  s_depot s = false -> s_transits s = 0 -> n_name c1 = NCentral ->
  let g1 := relabel (build s) (fnode s) c1 in
  uniq g1 /\ g_edges g1 = build_edges s /\ g_kmfix g1 = g_kmfix (build s)
  /\ (forall nd, In nd (g_nodes g1) <-> (nd = c1 \/ In nd (map pnode (seq 1 (s_periph s)))))
  /\ length (g_nodes g1) = S (s_periph s).
Proof.
  intros Hd Ht Hc g1.
  assert (Hin : In (fnode s) (g_nodes (build s))).
  { cbn [g_nodes build]. rewrite nodes_no_chain by assumption. left. reflexivity. }
  assert (Hn : n_name c1 = n_name (fnode s)).
  { rewrite Hc. unfold fnode. rewrite n_name_mk_node. symmetry. apply first_central; assumption. }
  split; [apply relabel_uniq; [apply uniq_build | exact Hin | exact Hn]|].
  split; [apply relabel_edges|]. split; [apply relabel_kmfix|]. split.
  - intro nd. unfold g1. rewrite (relabel_in _ _ _ (uniq_build s) Hin Hn). cbn [g_nodes build].
    rewrite nodes_no_chain by assumption. cbn [In]. rewrite <- Hn, Hc. split.
    + intros [->|[[<-|H] Hne]]; auto. exfalso. apply Hne. rewrite Hn in Hc. exact Hc.
    + intros [->|H]; auto. right. split; [right; exact H|]. apply in_map_iff in H. destruct H as [j [<- _]]. discriminate.
  - unfold g1. rewrite relabel_length by (try apply uniq_build; exact Hin). cbn [g_nodes build].
    rewrite nodes_no_chain by assumption. cbn [length]. rewrite map_length, seq_length. reflexivity.
Qed.

(* instantaneous / zero order without transits -> first order *)
Theorem refines_fo_insert_depot s :
  s_depot s = false -> s_transits s = 0 -> refines AbsFO s = true.
Proof.
  intros Hd Ht. unfold refines. cbn [step setter_graph].
  assert (Hstep : step AbsFO s = SOk (with_abs s FO)).
  { cbn [step]. unfold s_depot in Hd. rewrite Ht. destruct (s_abs s); try discriminate Hd; reflexivity. }
  cbn [step] in Hstep. rewrite Hstep.
  unfold set_first_order_absorption. rewrite dosing0_build. cbn [opt_res bind].
  unfold has_seq_zo_fo_absorption. rewrite fo_build, Hd, Ht. cbn [orb Nat.eqb negb andb].
  rewrite find_depot_build. unfold canon_depot. rewrite Hd, Ht. cbn [Nat.eqb bind].
  rewrite fnode_doses. cbn [hd_error opt_res bind].
  unfold sorted_doses. rewrite fnode_doses. cbn [length Nat.leb hd_error opt_res bind Nat.eqb].
  assert (Adm : d_admid (the_dose s) = 1) by (unfold the_dose; destruct (s_zo s); reflexivity).
  rewrite Adm. unfold set_dose. cbn [fst snd]. cbv beta iota zeta.
  rewrite fnode_lag, fnode_bio.
  set (c1 := with_doses (fnode s) [bolus 1]).
  assert (Hc1 : n_name c1 = NCentral).
  { unfold c1, with_doses, fnode. cbn [n_name]. rewrite n_name_mk_node. apply first_central; assumption. }
  destruct (relabelled_central s c1 Hd Ht Hc1) as [U [E [K [N L]]]].
  destruct (add_depot_result s (with_abs s FO) (relabel (build s) (fnode s) c1) c1 (bolus 1) (s_lag s) (s_bio s))
    as [g6 [R G]]; try assumption; try reflexivity.
  rewrite R. exact G.
Qed.

(* zero order without transits -> sequential *)
Theorem refines_seq_insert_depot s :
  s_abs s = ZO -> s_transits s = 0 -> refines AbsSeq s = true.
Proof.
  intros Ha Ht. unfold refines. cbn [step setter_graph]. rewrite Ha, Ht.
  assert (Hd : s_depot s = false) by (unfold s_depot; rewrite Ha; reflexivity).
  unfold set_seq_zo_fo_absorption. rewrite dosing0_build. cbn [opt_res bind].
  unfold has_seq_zo_fo_absorption, disallow_infusion, first_dose. rewrite fo_build, zo_build, dosing0_build, fnode_doses, Hd, Ht.
  unfold s_zo, the_dose, s_zo. rewrite Ha. cbn [orb Nat.eqb negb andb hd_error d_inf d_zo].
  rewrite find_depot_build. unfold canon_depot. rewrite Hd, Ht. cbn [Nat.eqb bind opt_res].
  rewrite ?fnode_doses. cbn [length Nat.eqb].
  assert (Hc1 : n_name (fnode s) = NCentral).
  { unfold fnode. rewrite n_name_mk_node. apply first_central; assumption. }
  destruct (relabelled_central s (fnode s) Hd Ht Hc1) as [U [E [K [N L]]]]. rewrite relabel_id in *.
  destruct (add_depot_result s (with_biob (with_lagb (with_abs s SEQ) false) false) (build s) (fnode s)
              (mkDose true true 1) false false) as [g6 [R G]]; try assumption; try reflexivity.
  rewrite R. exact G.
Qed.
