(* PV.C08.Proofs — lemmas behind Properties.v (ProofsGraph: detectors on build; ProofsStep/ProofsStep2:
   the property on skeletons; here: the graph part of the setters refines the skeleton-level step). *)
From Coq Require Import List Bool Arith NArith Lia.
From PV Require Import Base.PyData C08.Model C08.ProofsGraph C08.ProofsStep C08.ProofsStep2 C08.ProofsDomain.
Import ListNotations.
Local Open Scope nat_scope.

Theorem setter_refines_bounded s f :
  s_transits s <= 5 -> s_periph s <= 3 -> req_bounded 6 4 f -> env_default f s = true -> refines f s = true.
Proof. exact (refine_domain s f). Qed.

(* what a request does to the real graph of a valid, guarded skeleton state *)
Definition sound_on_graph (f : req) (s : sk) : Prop :=
  match setter_graph f (build s) with
  | Ok g' => exists s', geqb g' (build s') = true /\ valid s' = true /\ detect (build s') = canon s'
                        /\ request_detected f s s' = true /\ others_unchanged f s s' = true
  | Refuse => refusal_documented f s = true
  | Crash _ => False
  end.

Theorem refines_sound f s :
  refines f s = true -> valid s = true -> guard f s = true -> sound_on_graph f s.
Proof.
  intros Hr Hv Hg. pose proof (step_ok_lemma f s Hv Hg) as Hs.
  unfold step_good in Hs. unfold refines in Hr. unfold sound_on_graph.
  destruct (step f s) as [s'| | |]; try contradiction.
  - destruct (setter_graph f (build s)) as [g'| |]; try discriminate.
    exists s'. destruct Hs as [H1 [H2 H3]]. repeat split; try assumption. apply detect_build_lemma.
  - destruct (setter_graph f (build s)) as [g'| |]; try discriminate. exact Hs.
Qed.
