(* PV.C03.Refuted — after the six fix: commits (the last two: 1f66dfa set_option, f53bbd9 remove_option) no statement of C03 is refuted; earlier: after the four fix: commits in /repo (19afc56 replace_all in place, 62f6c0f update_abbr_record keeps
   matching REPLACE records, a3ce367 update_sizes finds / places $SIZES before $PROBLEM) no statement of C03 is refuted
   any more; the former counter-model witnesses are kept as regression examples of the repaired behaviour. *)
From Coq Require Import String Ascii.
From Coq Require Import List Bool NArith PArith Arith.
From PV Require Import Base.PyData C03.Model C03.Check C03.Proofs6.
Import ListNotations.

(* records with identity, name and text *)
Definition xrec := (positive * text * text)%type.
Definition xname (r : xrec) : text := snd (fst r).
Definition xstr (r : xrec) : text := snd r.
Definition xid (r : xrec) : positive := fst (fst r).
Definition xorder := t_order static_tables.

(* formerly C03-REPLACE-ALL-REGROUP: $THETA / $OMEGA / $THETA was regrouped by replace_all('THETA', <the same records>) *)
Definition regroup_stream : list xrec :=
  [ (1%positive, T "THETA", T "$THETA (0,1) ; A
"); (2%positive, T "OMEGA", T "$OMEGA 0.1
"); (3%positive, T "THETA", T "$THETA (0,2) ; B
") ].

Example replace_all_self_fixed :
  contiguous xrec xname (T "THETA") regroup_stream = false /\
  replace_all xrec xname xorder regroup_stream (T "THETA") (filter (name_is xrec xname (T "THETA")) regroup_stream)
  = Some regroup_stream.
Proof. split; vm_compute; reflexivity. Qed.

(* new records of the same number take the places of the old ones *)
Example replace_all_in_place_fixed :
  option_map (map xid) (replace_all xrec xname xorder regroup_stream (T "THETA")
                          [(8%positive, T "THETA", T "$THETA 1
"); (9%positive, T "THETA", T "$THETA 2
")]) = Some [8; 2; 9]%positive.
Proof. vm_compute. reflexivity. Qed.

(* formerly C03-ABBR-REWRITE: '$ABBREV REPLACE ETA_CL=ETA(1)' + blank line was dropped and re-created as '$ABBR ...' *)
Definition abbr_stream : list xrec :=
  [ (1%positive, T "PROBLEM", T "$PROBLEM x
"); (2%positive, T "INPUT", T "$INPUT ID DV
");
    (3%positive, T "ABBREVIATED", T "$ABBREV REPLACE ETA_CL=ETA(1)

");
    (4%positive, T "PK", T "$PK
CL = THETA(1)*EXP(ETA_CL)
") ].
(* translate_to_pharmpy_names of record 3: {'ETA(1)': 'ETA_CL'} *)
Definition abbr_rmap (r : xrec) : list (text * text) :=
  if Pos.eqb (xid r) 3 then [(T "ETA(1)", T "ETA_CL")] else [].
Definition abbr_mk (kv : text * text) : xrec := (9%positive, T "ABBREVIATED", T "$ABBR REPLACE " ++ fst kv ++ T "=" ++ snd kv ++ [10%N]).

Example update_abbr_rewrite_fixed :
  (* unmodified: the model needs ETA_CL = ETA(1), the record says so: kept, nothing created *)
  update_abbr_record xrec xname xorder s_ABBR abbr_rmap abbr_stream [(T "ETA_CL", T "ETA(1)")] abbr_mk = Some abbr_stream /\
  (* the eta was renumbered: the record is dropped and a new one created *)
  option_map (map xid) (update_abbr_record xrec xname xorder s_ABBR abbr_rmap abbr_stream [(T "ETA_CL", T "ETA(2)")] abbr_mk)
  = Some [1; 2; 9; 4]%positive.
Proof. split; vm_compute; reflexivity. Qed.

(* formerly C03-ABBR-THETA-DROP: '$ABBR REPLACE THETA(CL)=THETA(1)' was deleted although $PK uses THETA(CL) *)
Definition abbr_theta_stream : list xrec :=
  [ (1%positive, T "PROBLEM", T "$PROBLEM x
"); (2%positive, T "INPUT", T "$INPUT ID DV
");
    (3%positive, T "ABBREVIATED", T "$ABBR REPLACE THETA(CL)=THETA(1)
");
    (4%positive, T "PK", T "$PK
CL = THETA(CL)
") ].
Definition abbr_theta_rmap (r : xrec) : list (text * text) :=
  if Pos.eqb (xid r) 3 then [(T "THETA(1)", T "THETA_CL")] else [].

Example update_abbr_drop_fixed :
  update_abbr_record xrec xname xorder s_ABBR abbr_theta_rmap abbr_theta_stream [] abbr_mk = Some abbr_theta_stream.
Proof. vm_compute. reflexivity. Qed.

(* formerly C03-SIZES-APPEND: 101 thetas with '$SIZES LTH=101' on top got a second $SIZES after the last record *)
Definition sizes_stream : list xrec :=
  [ (1%positive, T "SIZES", T "$SIZES LTH=101
"); (2%positive, T "PROBLEM", T "$PROBLEM x
"); (3%positive, T "PRED", T "$PRED
Y = THETA(101)
"); (4%positive, T "THETA", T "$THETA 0.1
") ].
Definition sizes_new : xrec := (5%positive, T "SIZES", T "$SIZES LTH=101
").

Example sizes_append_fixed :
  sizes_opts static_sizes 101 0 false = Some [OptLTH 101] /\
  (* the existing record is found and replaced by the (textually identical) updated one *)
  option_map (flat_map xstr) (update_sizes_records xrec xname xid xorder sizes_stream true sizes_new) = Some (flat_map xstr sizes_stream) /\
  (* without a $SIZES record a new one is put before $PROBLEM, not after the last record *)
  option_map (map xid) (update_sizes_records xrec xname xid xorder (tl sizes_stream) true sizes_new) = Some [5; 2; 3; 4]%positive /\
  option_map (fun l => sizes_ok_names false (map xname l)) (update_sizes_records xrec xname xid xorder (tl sizes_stream) true sizes_new) = Some true.
Proof. repeat split; vm_compute; reflexivity. Qed.

(* ------------------------------------------------------------------------------------------------
   Former findings of the option-record layer (fixed by 1f66dfa and f53bbd9).  Rule ids: option 10, KEY 11, VALUE 12, EQUAL 13, WS 1. *)
Definition opt_est : list node :=          (* root children of '$ESTIMATION METHOD=1 INTER' *)
  [ Tok 1 None (T " ");
    Tree 10 None [Tok 11 None (T "METHOD"); Tok 13 None (T "="); Tok 12 None (T "1")];
    Tok 1 None (T " ");
    Tree 10 None [Tok 11 None (T "INTER")] ].

(* formerly C03-SETOPTION-VALUELESS: set_option('INTER', 'x') returned the record unchanged *)
Example set_option_valueless_fixed :
  option_map (flat_map str) (set_option 10 11 12 13 1 opt_est (T "INTER") (T "x")) = Some (T " METHOD=1 INTER=x").
Proof. vm_compute. reflexivity. Qed.

(* formerly C03-REMOVE-OPTION-FIRST: '$INPUT(A) ID' — removing the option that is the first child raised IndexError *)
Example remove_option_first_fixed :
  option_map (flat_map str)
    (remove_option 10 11 1 [Tree 10 None [Tok 11 None (T "(A)")]; Tok 1 None (T " "); Tree 10 None [Tok 11 None (T "ID")]; Tok 3 None (T "
")] (T "(A)")) = Some (T " ID
").
Proof. vm_compute. reflexivity. Qed.
