(* PV.C03.Refuted — counter-models: one per guard conjunct that exists because the CODE fails
   (= open known findings of C03), with computed witnesses. *)
From Coq Require Import String Ascii.
From Coq Require Import List Bool NArith PArith Arith.
From PV Require Import Base.PyData C03.Model C03.Check.
Import ListNotations.

(* records with identity, name and text *)
Definition xrec := (positive * text * text)%type.
Definition xname (r : xrec) : text := snd (fst r).
Definition xstr (r : xrec) : text := snd r.
Definition xorder := t_order static_tables.

(* C03-REPLACE-ALL-REGROUP: update_source always calls replace_all('OMEGA' / 'SIGMA' / 'THETA', <the existing
   records>) (and replace_all('ABBREVIATED', kept)); when the records of that kind are not contiguous the call
   moves them together, so regenerating an unmodified model reorders the control stream.
   Witness: $THETA / $OMEGA / $THETA. *)
Definition regroup_stream : list xrec :=
  [ (1%positive, T "THETA", T "$THETA (0,1) ; A
"); (2%positive, T "OMEGA", T "$OMEGA 0.1
"); (3%positive, T "THETA", T "$THETA (0,2) ; B
") ].

Theorem replace_all_self_refuted :
  exists (l : list xrec) (n : text),
    contiguous xrec xname n l = false /\
    exists l', replace_all xrec xname xorder l n (filter (name_is xrec xname n) l) = Some l' /\
               flat_map xstr l' <> flat_map xstr l.
Proof.
  exists regroup_stream, (T "THETA"). split; [vm_compute; reflexivity|].
  eexists. split; [vm_compute; reflexivity|]. vm_compute. discriminate.
Qed.

(* C03-ABBR-REWRITE: update_abbr_record drops every $ABBREVIATED REPLACE record (keep = false) and re-creates the
   eta ones with the spelling '$ABBR REPLACE name=ETA(n)\n': the raw record name, trailing blank lines and comments
   of an UNMODIFIED model change.  Witness: the pheno example's '$ABBREV REPLACE ETA_CL=ETA(1)' + blank line. *)
Definition abbr_stream : list xrec :=
  [ (1%positive, T "PROBLEM", T "$PROBLEM x
"); (2%positive, T "INPUT", T "$INPUT ID DV
");
    (3%positive, T "ABBREVIATED", T "$ABBREV REPLACE ETA_CL=ETA(1)

");
    (4%positive, T "PK", T "$PK
CL = THETA(1)*EXP(ETA_CL)
") ].
Definition abbr_new : list xrec := [ (5%positive, T "ABBREVIATED", T "$ABBR REPLACE ETA_CL=ETA(1)
") ].

Theorem update_abbr_rewrite_refuted :
  exists (l new : list xrec) (keep : xrec -> bool),
    filter keep (get_records xrec xname l s_ABBR 0) <> filter (name_is xrec xname s_ABBR) l /\
    exists l', update_abbr xrec xname xorder s_ABBR l keep new = Some l' /\
               flat_map xstr l' <> flat_map xstr l.
Proof.
  exists abbr_stream, abbr_new, (fun _ => false). split; [vm_compute; discriminate|].
  eexists. split; [vm_compute; reflexivity|]. vm_compute. discriminate.
Qed.

(* C03-ABBR-THETA-DROP: a REPLACE record that does not rename an eta (e.g. THETA(CL)=THETA(1)) is dropped and nothing
   is re-created for it: the record disappears although $PK still uses the abbreviation.
   Witness: '$ABBR REPLACE THETA(CL)=THETA(1)' of tests/testdata/nonmem/pheno_abbr.mod. *)
Definition abbr_theta_stream : list xrec :=
  [ (1%positive, T "PROBLEM", T "$PROBLEM x
"); (2%positive, T "INPUT", T "$INPUT ID DV
");
    (3%positive, T "ABBREVIATED", T "$ABBR REPLACE THETA(CL)=THETA(1)
");
    (4%positive, T "PK", T "$PK
CL = THETA(CL)
") ].

Theorem update_abbr_drop_refuted :
  exists (l : list xrec) (keep : xrec -> bool),
    filter keep (get_records xrec xname l s_ABBR 0) <> filter (name_is xrec xname s_ABBR) l /\
    exists l', update_abbr xrec xname xorder s_ABBR l keep [] = Some l' /\
               length (filter (name_is xrec xname s_ABBR) l') < length (filter (name_is xrec xname s_ABBR) l).
Proof.
  exists abbr_theta_stream, (fun _ => false). split; [vm_compute; discriminate|].
  eexists. split; [vm_compute; reflexivity|]. vm_compute. apply le_n.
Qed.

(* C03-SIZES-APPEND: a model that needs a $SIZES record (guard sizes_opts = [] false) has it, correctly, before
   $PROBLEM; get_records('SIZES') looks only inside problem 0 and finds nothing, a second record is created and
   insert_record — nothing of the default order precedes SIZES — appends it after the last record: the stream of an
   UNMODIFIED model changes and is refused by the parser's own SIZES-after-PROBLEM test.
   Witness: 101 thetas, '$SIZES LTH=101' on top. *)
Definition sizes_stream : list xrec :=
  [ (1%positive, T "SIZES", T "$SIZES LTH=101
"); (2%positive, T "PROBLEM", T "$PROBLEM x
"); (3%positive, T "PRED", T "$PRED
Y = THETA(101)
"); (4%positive, T "THETA", T "$THETA 0.1
") ].
Definition sizes_new : xrec := (5%positive, T "SIZES", T "$SIZES LTH=101 
").

Theorem sizes_append_refuted :
  exists (nth ncomp : nat) (cs : bool) (l : list xrec) (new : xrec),
    sizes_opts static_sizes nth ncomp cs <> Some [] /\
    let l' := update_sizes_records xrec xname (fun r => fst (fst r)) xorder l true new in
    flat_map xstr l' <> flat_map xstr l /\
    sizes_ok_names false (map xname l) = true /\ sizes_ok_names false (map xname l') = false.
Proof.
  exists 101, 0, false, sizes_stream, sizes_new. split; [vm_compute; discriminate|].
  split; [vm_compute; discriminate|]. split; vm_compute; reflexivity.
Qed.
