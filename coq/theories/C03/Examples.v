(* PV.C03.Examples — non-vacuity: concrete NON-TRIVIAL instances of the hypotheses / guards of the theorems,
   and documented behaviours of the model on edge inputs. *)
From Coq Require Import String Ascii.
From Coq Require Import List Bool NArith PArith Arith.
From PV Require Import Base.PyData C03.Model C03.Check C03.Proofs C03.Proofs4 C03.Refuted.
Import ListNotations.

(* splitting: text before the first record, an indented record, a last record without final newline *)
Definition ex_text : text := T " x
 $PK
A=1
$THETA 1".
Example split_example :
  split_records ex_text = (T " x
", [(T " $", T "PK
A=1
"); (T "$", T "THETA 1")]).
Proof. vm_compute. reflexivity. Qed.

(* a '$' that is not at the start of a line does not split; CR alone is not a line end for '^' *)
Example split_no_split : snd (split_records (T "$PROBLEM a $b
;$c")) = [(T "$", T "PROBLEM a $b
;$c")].
Proof. vm_compute. reflexivity. Qed.

Example name_split_example :
  split_raw_record_name (T "	$estimation METHOD=1") = Some (T "	$estimation", T " METHOD=1") /\
  canonical_name static_tables (T "	$estimation") = Some (T "ESTIMATION") /\
  canonical_name static_tables (T "$SUBS") = Some (T "SUBROUTINES") /\
  canonical_name static_tables (T "$INFI") = Some (T "DATA") /\
  canonical_name static_tables (T "$PK") = Some (T "PK") /\
  canonical_name static_tables (T "$TH") = None /\
  canonical_name static_tables (T "$PRIOR") = None /\
  split_raw_record_name (T "$ 1") = None.
Proof. repeat split; vm_compute; reflexivity. Qed.

(* tokenizer: WS, COMMENT, NEWLINE, CONT; a lone CR and a letter make the Python assert fire *)
Example tokenize_example :
  tok_list 0 (T "  ; c
& x
") = Some [mkTok KWS 0 2 (T "  "); mkTok KCOMMENT 2 5 (T "; c"); mkTok KNEWLINE 5 6 (T "
");
           mkTok KCONT 6 9 (T "& x"); mkTok KNEWLINE 9 10 (T "
")] /\
  tok_list 5 [13%N] = None /\ tok_list 0 (T "a") = None /\ tok_list 0 [59; 13; 10]%N <> None.
Proof. repeat split; vm_compute; try reflexivity. discriminate. Qed.

(* hypothesis of interleave_roundtrip: the real lark tree of the THETA content "  (0,1) ; c\n" *)
Definition ex_src : text := T "  (0,1) ; c
".
Definition ex_tree : node :=
  Tree 10 (Some (2, 7)%N)
    [Tree 11 (Some (2, 7)%N)
       [Tok 12 (Some (2, 3)%N) (T "("); Tree 13 (Some (3, 4)%N) [Tok 14 (Some (3, 4)%N) (T "0")];
        Tok 15 (Some (4, 5)%N) (T ","); Tree 16 (Some (5, 6)%N) [Tok 14 (Some (5, 6)%N) (T "1")];
        Tok 17 (Some (6, 7)%N) (T ")")]].
Example interleave_example :
  lark_contract ex_src ex_tree = true /\
  exists t', with_ignored ex_src ex_tree = Some t' /\ str t' = ex_src /\
             match t' with Tree _ _ ch => length ch = 5 | _ => False end.
Proof. split; [vm_compute; reflexivity|]. eexists. split; [vm_compute; reflexivity|]. split; vm_compute; reflexivity. Qed.

(* a position that lies about the source violates the contract *)
Example contract_detects_wrong_position :
  lark_contract ex_src (Tree 10 (Some (2, 3)%N) [Tok 12 (Some (2, 3)%N) (T ",")]) = false.
Proof. vm_compute. reflexivity. Qed.

(* '$ERROR ()' : the empty pseudo_statement subtree has no position; the real code raises AttributeError
   (observed), the model returns None *)
Definition err_src : text := T " ()
".
Definition err_tree : node :=
  Tree 10 (Some (1, 4)%N)
    [Tree 20 (Some (1, 4)%N)
       [Tok 12 (Some (1, 2)%N) (T "("); Tree 21 None []; Tok 17 (Some (2, 3)%N) (T ")"); Tok 3 (Some (3, 4)%N) (T "
")]].
Example empty_subtree_raises : lark_contract err_src err_tree = true /\ with_ignored err_src err_tree = None.
Proof. split; vm_compute; reflexivity. Qed.

(* cover_contract: the ProblemRecordParser tree of " hello\n" after InsertMissing *)
Example cover_example :
  cover_contract (T " hello
") (Tree 10 None [Tok 1 (Some (0, 1)%N) (T " ");
                  Tree 30 None [Tok 31 None []; Tok 32 (Some (1, 6)%N) (T "hello")]; Tok 3 (Some (6, 7)%N) (T "
")]) = true.
Proof. vm_compute. reflexivity. Qed.

(* steps: the ThetaRecordParser pipeline *)
Example steps_example :
  steps_ok [StepInsertMissing [[(T "comment", [(1, T "COMMENT")])]]; StepInitOrLow; StepInterleave] = true /\
  has_interleave [StepInsertMissing []; StepInitOrLow; StepInterleave] = true /\
  steps_ok [StepInterleave; StepInitOrLow] = false.
Proof. repeat split; vm_compute; reflexivity. Qed.

(* hypotheses of record_roundtrip with a toy engine: every grammar with %ignore accepts, returning an empty root *)
Definition toy_steps (p : text) : list step :=
  match find (fun x => text_eqb (fst x) p) (t_parsers static_tables) with
  | Some x => map (fun k => match k with 0 => StepInsertMissing [] | 1 => StepInitOrLow | _ => StepInterleave end) (snd x)
  | None => []
  end.
Definition toy_lark (p c : text) : option node :=
  if has_interleave (toy_steps p) then Some (Tree 10 None []) else None.
Example record_roundtrip_nonvacuous :
  (forall p c t0, toy_lark p c = Some t0 ->
     (if has_interleave (toy_steps p) then lark_contract c t0 else cover_contract c t0) = true) /\
  parse static_tables toy_lark toy_steps (fun _ => 9%positive) is_token_name 5 6 7 8 9
        (T ";; header
$THETA ; c
 $FOO bar
") =
  Ok [RawRec [] [] (T ";; header
");
      ParsedRec (T "THETA") (T "$THETA") (Tree 10 None [Tok 1 None (T " "); Tok 2 None (T "; c"); Tok 3 None (T "
")]);
      RawRec (T "$FOO") (T " $FOO") (T " bar
")].
Proof.
  split.
  - intros p c t0 H. unfold toy_lark in H. destruct (has_interleave (toy_steps p)); [|discriminate].
    injection H as <-. reflexivity.
  - vm_compute. reflexivity.
Qed.

(* SIZES after PROBLEM is refused *)
Example sizes_after_problem :
  parse static_tables toy_lark toy_steps (fun _ => 9%positive) is_token_name 5 6 7 8 9 (T "$XPROB a
$SIZES
") <> Err ESizesOrder /\
  sizes_ok false [RawRec s_PROBLEM [] []; RawRec s_SIZES [] []] = false.
Proof. split; vm_compute; [discriminate | reflexivity]. Qed.

(* edits *)
Definition e1 : list erec := [(1%positive, T "PROBLEM"); (2%positive, T "INPUT"); (3%positive, T "THETA");
                              (4%positive, T "OMEGA"); (5%positive, T "THETA"); (6%positive, T "ESTIMATION")].
Example insert_examples :
  (* after the last record of the same kind *)
  map fst (insert_record erec snd e_order e1 (9%positive, T "THETA") None 0) = [1; 2; 3; 4; 5; 9; 6]%positive /\
  (* by the default order when the kind is absent: SIGMA goes after the last THETA/OMEGA/... *)
  map fst (insert_record erec snd e_order e1 (9%positive, T "SIGMA") None 0) = [1; 2; 3; 4; 5; 9; 6]%positive /\
  (* at_index = 0 inserts at the front (`is not None` since a3ce367) *)
  map fst (insert_record erec snd e_order e1 (9%positive, T "TABLE") (Some 0) 0) = [9; 1; 2; 3; 4; 5; 6]%positive /\
  map fst (insert_record erec snd e_order e1 (9%positive, T "TABLE") (Some 2) 0) = [1; 2; 9; 3; 4; 5; 6]%positive /\
  (* nothing of the default order precedes SIZES: insert_record alone would append it; update_sizes passes at_index *)
  map fst (insert_record erec snd e_order e1 (9%positive, T "SIZES") None 0) = [1; 2; 3; 4; 5; 6; 9]%positive.
Proof. repeat split; vm_compute; reflexivity. Qed.

Example replace_all_examples :
  option_map (map fst) (replace_all erec snd e_order e1 (T "THETA") [(8%positive, T "THETA")]) = Some [1; 2; 8; 4; 6]%positive /\
  option_map (map fst) (replace_all erec snd e_order e1 (T "SIGMA") [(8%positive, T "SIGMA")]) = Some [1; 2; 3; 4; 5; 8; 6]%positive /\
  (* a kind that is neither present nor in default_record_order: ValueError *)
  replace_all erec snd e_order e1 (T "SIMULATION") [(8%positive, T "SIMULATION")] = None /\
  replace_all erec snd e_order e1 (T "SIMULATION") [] = Some e1 /\
  (* same number of records: in place, although the THETA records are not contiguous *)
  contiguous erec snd (T "THETA") e1 = false /\
  option_map (map fst) (replace_all erec snd e_order e1 (T "THETA") [(8%positive, T "THETA"); (7%positive, T "THETA")])
  = Some [1; 2; 8; 4; 7; 6]%positive.
Proof. repeat split; vm_compute; reflexivity. Qed.

Example replace_remove_examples :
  map fst (replace_records erec fst e1 [(3%positive, T "THETA"); (5%positive, T "THETA")] [(8%positive, T "THETA")]) = [1; 2; 8; 4; 6]%positive /\
  map fst (replace_records erec fst e1 [(7%positive, T "THETA")] [(8%positive, T "THETA")]) = [1; 2; 3; 4; 5; 6]%positive /\
  map fst (remove_records erec fst e1 [(4%positive, T "OMEGA")]) = [1; 2; 3; 5; 6]%positive.
Proof. repeat split; vm_compute; reflexivity. Qed.

(* guard of update_abbr_identity: a kept non-REPLACE record *)
Example update_abbr_identity_example :
  let l := [(1%positive, T "PROBLEM", T "$PROBLEM
"); (2%positive, T "ABBREVIATED", T "$ABBR COMRES=2
"); (3%positive, T "PK", T "$PK
")] in
  filter (fun _ => true) (get_records xrec xname l s_ABBR 0) = filter (name_is xrec xname s_ABBR) l /\
  update_abbr xrec xname xorder s_ABBR l (fun _ => true) [] = Some l.
Proof. repeat split; vm_compute; reflexivity. Qed.

(* update_statements: children [blank; stmt a; comment; stmt b], old statements a, b; new statements a, c:
   the diff keeps a, deletes b, inserts c.  The blank, the comment and a's node survive. *)
Example update_example :
  let children := [1; 2; 3; 4] in
  let index := [(1, 2, 0, 1); (3, 4, 1, 2)] in
  let script := [(DKeep, 10); (DDel, 11); (DIns, 12)] in
  wf_index 1 index = true /\
  update_children nat nat (fun s => [100 + s]) children index 1 script = Some [1; 2; 3; 112] /\
  in_index index 0 = false /\ in_index index 2 = false /\
  update_children nat nat (fun s => [100 + s]) children index 1 [(DKeep, 10); (DKeep, 11)] = Some children.
Proof. repeat split; vm_compute; reflexivity. Qed.

(* sizes: the boundaries *)
Example sizes_boundaries :
  sizes_opts static_sizes 100 30 true = Some [] /\ sizes_opts static_sizes 101 30 true = Some [OptLTH 101] /\
  sizes_opts static_sizes 100 31 true = Some [OptPC 31] /\ sizes_opts static_sizes 101 31 true = Some [OptPC 31; OptLTH 101] /\
  sizes_opts static_sizes 5 40 false = Some [] /\ sizes_opts static_sizes 5 100 true = None.
Proof. repeat split; vm_compute; reflexivity. Qed.

(* update_statements stores an index that points at the NEW positions: children [blank; a; comment; b], insert z before a *)
Example update_index_example :
  let children := [1; 2; 3; 4] in
  let index := [(1, 2, 0, 1); (3, 4, 1, 2)] in
  let script := [(DIns, 9); (DKeep, 10); (DKeep, 11)] in
  update_statements_children nat nat (fun _ => [0]) children [false; false; false; false] index script = Some [1; 0; 2; 3; 4] /\
  update_statements_index nat nat (fun _ => [0]) children [false; false; false; false] index script =
    Some [(1, 2, 0, 1); (2, 3, 1, 2); (4, 5, 2, 3)].
Proof. split; vm_compute; reflexivity. Qed.

(* edit_frame: a program of calls within K = {THETA, SIZES} plus one text-neutral regeneration of $OMEGA *)
Example edit_frame_example :
  let l := [(1%positive, T "PROBLEM", T "$PROBLEM x
"); (2%positive, T "THETA", T "$THETA 1
"); (3%positive, T "OMEGA", T "$OMEGA 0.1 ; c
"); (4%positive, T "THETA", T "$THETA 2
")] in
  let cs := [EAll xrec (T "OMEGA") [(7%positive, T "OMEGA", T "$OMEGA 0.1 ; c
")];                                                       (* new object, same text: neutral *)
             EAll xrec (T "THETA") [(8%positive, T "THETA", T "$THETA 1.5
"); (4%positive, T "THETA", T "$THETA 2
")];
             EIns xrec (9%positive, T "SIZES", T "$SIZES LTH=101
") (Some 0)] in
  calls_ok xrec xname xid xstr xorder [T "THETA"; T "SIZES"] l cs = true /\
  option_map (map xid) (run_calls xrec xname xid xorder l cs) = Some [9; 1; 8; 7; 4]%positive /\
  calls_ok xrec xname xid xstr xorder [T "THETA"] l cs = false.
Proof. repeat split; vm_compute; reflexivity. Qed.

(* parse without the engine: no record at all (NUL, lone CR, '$' inside a line), unknown records only, '$' at the end *)
From PV Require Import C03.Proofs5.
Example parse_malformed_examples :
  has_record ([0; 13; 32]%N ++ T "x $y
; $z") = false /\
  raw_only static_tables (T "text
$FOO " ++ [0%N; 13%N] ++ T " bar
 $PRIOR x") = true /\
  raw_only static_tables (T "$THETA 1") = false /\
  parse static_tables toy_lark toy_steps (fun _ => 9%positive) is_token_name 5 6 7 8 9 (T "$FOO a
  $") = Err EBadName.
Proof. repeat split; vm_compute; reflexivity. Qed.

(* option-record edits on the children of '$ESTIMATION METHOD=1 INTER' (Refuted.opt_est) *)
From PV Require Import C03.Proofs6.
Example option_edit_examples :
  (* set an existing value in place *)
  option_map (flat_map str) (set_option 10 11 12 13 1 opt_est (T "METHOD") (T "COND")) = Some (T " METHOD=COND INTER") /\
  (* a new option goes behind the last option *)
  option_map (flat_map str) (set_option 10 11 12 13 1 opt_est (T "MAXEVAL") (T "9")) = Some (T " METHOD=1 INTER MAXEVAL=9") /\
  (* an option without a value gets one, in place *)
  option_map (flat_map str) (set_option 10 11 12 13 1 opt_est (T "INTER") (T "1")) = Some (T " METHOD=1 INTER=1") /\
  (* remove takes the blank before the option with it; hypothesis of remove_option_total: every option has a KEY *)
  forallb (fun n => match is_target 10 11 (T "INTER") n with Some _ => true | None => false end) opt_est = true /\
  option_map (flat_map str) (remove_option 10 11 1 opt_est (T "INTER")) = Some (T " METHOD=1") /\
  option_map (flat_map str) (remove_option 10 11 1 (Tok 2 None (T ";c") :: opt_est) (T "METHOD")) = Some (T ";c INTER") /\
  option_map (flat_map str) (append_option 10 11 12 13 1 3 (opt_est ++ [Tok 3 None [10%N]]) (T "POSTHOC") None)
    = Some (T " METHOD=1 INTER POSTHOC
") /\
  flat_map str (prepend_option 10 11 12 13 1 opt_est (T "A") (Some (T "1"))) = T " A=1 METHOD=1 INTER" /\
  option_map (flat_map str) (replace_option 10 11 12 opt_est (T "INTER") (T "INTERACTION")) = Some (T " METHOD=1 INTERACTION").
Proof.
  repeat split; vm_compute; reflexivity.
Qed.

(* remove_nth_option on ' METHOD=1 INTER METH=2': key METHOD matches the options METHOD and METH (prefix rule) *)
From PV Require Import C03.Proofs7.
Example remove_nth_examples :
  let ch := opt_est ++ [Tok 1 None (T " "); Tree 10 None [Tok 11 None (T "METH"); Tok 13 None (T "="); Tok 12 None (T "2")]] in
  nmatches 10 11 (T "METHOD") ch = 2 /\
  option_map (flat_map str) (remove_nth_option 10 11 1 ch (T "METHOD") 0) = Some (T " INTER METH=2") /\
  option_map (flat_map str) (remove_nth_option 10 11 1 ch (T "METHOD") 1) = Some (T " METHOD=1 INTER") /\
  remove_nth_option 10 11 1 ch (T "METHOD") 2 = Some ch /\
  forallb (fun nd => match nth_match 10 11 (T "METHOD") nd with Some _ => true | None => false end) ch = true.
Proof. repeat split; vm_compute; reflexivity. Qed.
