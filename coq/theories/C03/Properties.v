(* PV.C03.Properties — the property theorems of C03 and nothing else.
   Text = list of code points; None / Err = the Python code raises.  All statements are universally
   quantified over texts, trees, record lists and diff scripts of any size. *)
From Coq Require Import String Ascii.
From Coq Require Import List Bool NArith PArith Arith.
From PV Require Import Base.PyData C03.Model C03.Check C03.Proofs C03.Proofs2 C03.Proofs3 C03.Proofs4 C03.Proofs5 C03.Proofs6 C03.Proofs7.
Import ListNotations.

(* ---- 1. NMTranParser.parse: record splitting ------------------------------------------------ *)

(* Splitting loses nothing: the text before the first record followed by all chunks (separator + body)
   is the input, for every text. *)
Theorem split_concat : forall t : text, split_str (split_records t) = t.
Proof. exact split_concat_lemma. Qed.

(* Every separator is blanks/tabs followed by one '$' (what r'^([ \t]*\$)' captures). *)
Theorem split_separators : forall t : text,
  Forall (fun c => exists bl, fst c = bl ++ [36%N] /\ forallb is_blank bl = true) (snd (split_records t)).
Proof. intro t. exact (group_seps (lines t)). Qed.

(* split_raw_record_name cuts a chunk in two without losing a character. *)
Theorem name_split_concat : forall chunk rn content,
  split_raw_record_name chunk = Some (rn, content) -> rn ++ content = chunk.
Proof. exact split_name_concat. Qed.

(* Every abbreviation (three letters or more) of every known record name is resolved to that record:
   finite statement over the table regenerated from factory.py, closed by computation. *)
Theorem abbreviations_resolve : abbrev_ok static_tables = true /\ parsers_ok static_tables = true.
Proof. split; vm_compute; reflexivity. Qed.

(* ---- 2. _tokenize_ignored_characters ------------------------------------------------------------ *)

(* When the tokenizer succeeds, the tokens concatenate to the slice, their positions are contiguous from the
   start offset, and every token has the shape of its type. *)
Theorem tokenize_concat : forall (off : N) (l : text) (ts : list itok),
  tok_list off l = Some ts -> itoks_str ts = l /\ starts_ok off ts /\ Forall tok_shape ts.
Proof. intros off l ts. unfold tok_list. apply tok_fuel_sound. Qed.

Theorem tokenize_slice : forall (s : text) (i j : N) (ts : list itok),
  (i <= j)%N -> tokenize s i j = Some ts -> itoks_str ts = sub s i j.
Proof. exact tokenize_str. Qed.

(* The tokenizer raises (assert) exactly on the texts outside the language
   ( [ \0\t] | (;|&)[^\r\n]* | \r\n | \n )*  recognised by the two-state automaton `accept`:
   a CR that is not followed by LF, or a character outside a comment that is not WS ; & CR LF.
   In particular running out of fuel never happens. *)
Theorem tokenize_fails_only_on : forall (off : N) (l : text),
  (exists ts, tok_list off l = Some ts) <-> accept false l = true.
Proof. intros off l. unfold tok_list. apply tok_fuel_accept. apply le_n. Qed.

(* ---- 3. with_ignored_tokens -------------------------------------------------------------------- *)

(* Interleaving the ignored characters back into ANY tree that satisfies the lark position contract gives a
   tree whose string is the source, whenever the Python code does not raise. *)
Theorem interleave_roundtrip :
  forall (src : text) (t t' : node), lark_contract src t = true -> with_ignored src t = Some t' -> str t' = src.
Proof. exact with_ignored_str. Qed.

(* A tree of a grammar without %ignore whose tokens tile the source prints as the source. *)
Theorem cover_roundtrip : forall (src : text) (n : node), cover_contract src n = true -> str n = src.
Proof. exact cover_roundtrip_lemma. Qed.

(* GenericParser.parse with any post_process tuple in which with_ignored_tokens can only be last
   (InsertMissing and InitOrLow in any number and order before it). *)
Theorem pipeline_roundtrip :
  forall (rule_id : text -> positive) (is_token_name : text -> bool) (r_theta r_init r_up r_low r_iol : positive)
         (src : text) (ss : list step) (t0 t : node),
    steps_ok ss = true ->
    (if has_interleave ss then lark_contract src t0 else cover_contract src t0) = true ->
    run_steps rule_id is_token_name r_theta r_init r_up r_low r_iol src t0 ss = Some t -> str t = src.
Proof. exact Proofs2.pipeline_roundtrip. Qed.

(* ---- 4. str(parse(T)) == T ---------------------------------------------------------------------- *)

(* For every text accepted by the parser, printing the record list reproduces the text.  lark is an
   arbitrary function (the engine) that is only assumed to respect the position contract. *)
Theorem record_roundtrip :
  forall (tb : tables) (lark : text -> text -> option node) (steps_of : text -> list step)
         (rule_id : text -> positive) (is_token_name : text -> bool) (r_theta r_init r_up r_low r_iol : positive),
    (forall p, steps_ok (steps_of p) = true) ->
    (forall p c t0, lark p c = Some t0 ->
       (if has_interleave (steps_of p) then lark_contract c t0 else cover_contract c t0) = true) ->
    forall (t : text) (rs : list record),
      parse tb lark steps_of rule_id is_token_name r_theta r_init r_up r_low r_iol t = Ok rs -> stream_str rs = t.
Proof. exact parse_roundtrip. Qed.

(* ---- 5. NMTranControlStream edits: frames ------------------------------------------------------ *)

(* insert_record only inserts: the old records are all there, unchanged and in order. *)
Theorem insert_record_frame :
  forall (A : Type) (rname : A -> text) (order : list text) (l : list A) (r : A) (at_index : option nat) (active : nat),
    exists pre post, pre ++ post = l /\ insert_record A rname order l r at_index active = pre ++ r :: post.
Proof. exact insert_record_split. Qed.

(* ... and without at_index it goes directly behind the last record of the same kind of the active problem. *)
Theorem insert_record_after_same_kind :
  forall (A : Type) (rname : A -> text) (order : list text) (l : list A) (r : A) (active i : nat),
    last_in_problem A rname (name_is A rname (rname r)) active 0 0 l None = Some i ->
    insert_record A rname order l r None active = firstn (S i) l ++ r :: skipn (S i) l /\
    exists x, nth_error l i = Some x /\ rname x = rname r.
Proof. exact insert_after_same_name. Qed.

(* remove_records removes exactly the given record objects ... *)
Theorem remove_records_exact :
  forall (A : Type) (rid : A -> positive) (l old : list A) (r : A),
    In r (remove_records A rid l old) <-> In r l /\ mem_id A rid r old = false.
Proof. exact remove_records_in. Qed.

(* ... so when they are all of kind n, the records of every other kind are untouched and in order. *)
Theorem remove_records_frame :
  forall (A : Type) (rname : A -> text) (rid : A -> positive) (l old : list A) (n : text),
    (forall r, In r l -> mem_id A rid r old = true -> name_is A rname n r = true) ->
    filter (other A rname n) (remove_records A rid l old) = filter (other A rname n) l.
Proof. exact remove_records_other. Qed.

(* replace_records: everything that is not in `old` is kept in order; `new` is spliced in once, at the place of
   the first old record (and silently dropped when no old record is present). *)
Theorem replace_records_frame :
  forall (A : Type) (rid : A -> positive) (old new l : list A),
    exists pre post, pre ++ post = remove_records A rid l old /\
      ((existsb (fun r => mem_id A rid r old) l = true /\ replace_records A rid l old new = pre ++ new ++ post) \/
       (existsb (fun r => mem_id A rid r old) l = false /\ replace_records A rid l old new = l /\ pre ++ post = l)).
Proof. exact replace_records_split. Qed.

(* replace_all (both branches): the records of every other kind are unchanged and in order, and the records of kind n
   are exactly the new ones, in order.  (`new` consists of records of kind n — what every caller passes.) *)
Theorem replace_all_frame :
  forall (A : Type) (rname : A -> text) (order : list text) (l : list A) (n : text) (new res : list A),
    forallb (name_is A rname n) new = true ->
    replace_all A rname order l n new = Some res ->
    filter (other A rname n) res = filter (other A rname n) l /\ filter (name_is A rname n) res = new.
Proof. exact replace_all_frame_lemma. Qed.

(* when the number of records of kind n does not change, no record of another kind changes its POSITION
   (repaired C03-REPLACE-ALL-REGROUP, commit 19afc56) ... *)
Theorem replace_all_in_place :
  forall (A : Type) (rname : A -> text) (order : list text) (l : list A) (n : text) (new : list A),
    length new = length (filter (name_is A rname n) l) -> forallb (name_is A rname n) new = true ->
    exists res, replace_all A rname order l n new = Some res /\ map (slot A rname n) res = map (slot A rname n) l.
Proof. exact replace_all_in_place_lemma. Qed.

(* ... otherwise the new records form one block at the place of the first old one (or by the default order). *)
Theorem replace_all_regroups_only_on_count_change :
  forall (A : Type) (rname : A -> text) (order : list text) (l : list A) (n : text) (new res : list A),
    Nat.eqb (length new) (length (filter (name_is A rname n) l)) = false ->
    replace_all A rname order l n new = Some res ->
    exists pre post, res = pre ++ new ++ post /\ pre ++ post = filter (other A rname n) l.
Proof. exact replace_all_split. Qed.

(* Regenerating nothing changes nothing — for every record list (the `contiguous` guard is gone). *)
Theorem replace_all_self :
  forall (A : Type) (rname : A -> text) (order : list text) (n : text) (l : list A),
    replace_all A rname order l n (filter (name_is A rname n) l) = Some l.
Proof. exact replace_all_self_lemma. Qed.

(* update_abbr_record is the identity when it keeps all $ABBREVIATED records and needs no new one ... *)
Theorem update_abbr_identity :
  forall (A : Type) (rname : A -> text) (order : list text) (s_abbr : text) (l : list A) (keep : A -> bool),
    filter keep (get_records A rname l s_abbr 0) = filter (name_is A rname s_abbr) l ->
    update_abbr A rname order s_abbr l keep [] = Some l.
Proof. exact update_abbr_identity_lemma. Qed.

(* ... and with the keep decision of the repaired code (62f6c0f): if scanning the records against the eta names the
   model needs keeps every record and leaves no eta without a record — the situation of an unmodified model, REPLACE
   records or not — the control stream is returned unchanged. *)
Theorem update_abbr_record_unmodified :
  forall (A : Type) (rname : A -> text) (order : list text) (s_abbr : text) (rmap : A -> list (text * text))
         (l : list A) (rv : list (text * text)) (mk : text * text -> A),
    get_records A rname l s_abbr 0 = filter (name_is A rname s_abbr) l ->
    abbr_scan A rmap (filter (name_is A rname s_abbr) l) rv = (filter (name_is A rname s_abbr) l, []) ->
    update_abbr_record A rname order s_abbr rmap l rv mk = Some l.
Proof. exact update_abbr_record_unmodified_lemma. Qed.

(* ---- 6. CodeRecord.update_statements -------------------------------------------------------------- *)

(* The nodes of the old tree that are found in the new tree are exactly those at the positions `keep`, in their
   old order, and every position outside all statement ranges of the index (comments, blank lines, verbatim
   code, pseudo statements) is kept.  `orig` marks old nodes, freshly generated nodes are not old. *)
Theorem update_frame :
  forall (Nd St : Type) (gen : St -> list Nd) (orig : Nd -> bool)
         (children : list Nd) (index : list idx) (first : nat) (script : list (dop * St)) (res : list Nd),
    forallb orig children = true ->
    (forall s, forallb (fun x => negb (orig x)) (gen s) = true) ->
    wf_index first index = true ->
    update_children Nd St gen children index first script = Some res ->
    exists keep, filter orig res = select_from Nd 0 keep children /\
                 forall i, in_index index i = false -> keep i = true.
Proof. exact update_children_frame. Qed.

(* A diff that keeps every statement leaves the child list as it is. *)
Theorem update_noop :
  forall (Nd St : Type) (gen : St -> list Nd)
         (children : list Nd) (index : list idx) (first : nat) (script : list (dop * St)) (res : list Nd),
    wf_index first index = true ->
    forallb (fun p => dop_eqb (fst p) DKeep) script = true ->
    update_children Nd St gen children index first script = Some res -> res = children.
Proof. exact update_children_noop. Qed.

(* ---- 7. update_sizes / SizesRecord.set_LTH, set_PC ------------------------------------------------ *)

(* No $SIZES option — hence no $SIZES record inserted or changed — at or below the documented defaults (thresholds
   regenerated from sizes_record.py: LTH is dropped below 101 thetas, PC is only set above 30 compartments) ... *)
Theorem sizes_no_insertion : forall (nth ncomp : nat) (cs : bool),
  nth <= 100 -> (cs = false \/ ncomp <= 30) -> sizes_opts static_sizes nth ncomp cs = Some [].
Proof. intros nth ncomp cs H1 H2. apply sizes_no_insertion_lemma; [vm_compute; repeat constructor | cbn; apply le_n_S; exact H1 | exact H2]. Qed.

(* ... and only then. *)
Theorem sizes_insertion_only_above : forall (nth ncomp : nat) (cs : bool),
  sizes_opts static_sizes nth ncomp cs = Some [] -> nth <= 100 /\ (cs = false \/ ncomp <= 30).
Proof. intros nth ncomp cs H. destruct (sizes_insertion_lemma _ _ _ _ H) as [H1 H2]. split; [apply le_S_n; exact H1 | exact H2]. Qed.

(* update_sizes leaves the record list alone when no option is needed. *)
Theorem update_sizes_identity :
  forall (A : Type) (rname : A -> text) (rid : A -> positive) (order : list text) (l : list A) (new : A),
    update_sizes_records A rname rid order l false new = Some l.
Proof. exact update_sizes_not_needed. Qed.

(* A model that already has the $SIZES record it needs (anywhere, in particular before $PROBLEM) keeps its text
   (repaired C03-SIZES-APPEND, commit a3ce367). *)
Theorem update_sizes_same_text :
  forall (A : Type) (rname : A -> text) (rid : A -> positive) (order : list text) (rstr : A -> text)
         (l : list A) (r0 : A) (tl : list A) (new : A) (needed : bool),
    NoDup (map rid l) ->
    filter (name_is A rname s_SIZES) l = r0 :: tl -> rstr new = rstr r0 ->
    exists l', update_sizes_records A rname rid order l needed new = Some l' /\ flat_map rstr l' = flat_map rstr l.
Proof. exact Proofs3.update_sizes_same_text. Qed.

(* A $SIZES record that has to be created goes directly before the first $PROBLEM: nothing else moves and the parser's
   SIZES-before-PROBLEM rule still holds for the result. *)
Theorem update_sizes_insert_before_problem :
  forall (A : Type) (rname : A -> text) (rid : A -> positive) (order : list text) (l : list A) (new : A) (l' : list A),
    filter (name_is A rname s_SIZES) l = [] -> name_is A rname s_PROBLEM new = false ->
    update_sizes_records A rname rid order l true new = Some l' ->
    sizes_rule A rname false l = true ->
    sizes_rule A rname false l' = true /\ exists pre post, l = pre ++ post /\ l' = pre ++ new :: post.
Proof. exact update_sizes_insert_keeps_rule. Qed.

(* ---- 8. update_source as a program of edit-method calls: the frame of a whole edit --------------------- *)

(* For every record list, every set K of record kinds and every program of insert_record / remove_records /
   replace_records / replace_all calls in which each call either involves only records of the kinds K or leaves all
   names and texts alone (e.g. replace_all with regenerated, textually identical records): the records of every kind
   outside K have byte-identical texts, in the same order, afterwards.  K is instantiated by the check with
   `touched_kinds` (regenerated from model.py / update.py) of the components the edit changed, and `calls_ok` is
   evaluated on the real call trace of every update_source(). *)
Theorem edit_frame :
  forall (A : Type) (rname : A -> text) (rid : A -> positive) (rstr : A -> text) (order : list text)
         (K : list text) (cs : list (ecall A)) (l l' : list A),
    calls_ok A rname rid rstr order K l cs = true ->
    run_calls A rname rid order l cs = Some l' ->
    fview A rname rstr K l' = fview A rname rstr K l.
Proof. exact edit_frame_lemma. Qed.

(* ---- 9. parse without the engine (malformed / grammar-independent stream classes) ------------------------ *)

(* A text in which no line starts with blanks + '$' (no record at all; any bytes, NUL, lone CR ...) is always accepted as
   one RawRecord — for every engine, no hypothesis — and therefore round-trips. *)
Theorem parse_without_records :
  forall tb lark steps_of rule_id is_token_name r1 r2 r3 r4 r5 (t : text),
    has_record t = false ->
    parse tb lark steps_of rule_id is_token_name r1 r2 r3 r4 r5 t = Ok (match t with [] => [] | _ => [RawRec [] [] t] end).
Proof. exact parse_without_records_lemma. Qed.

(* When no chunk carries the name of a known record (unknown records, refused names), the result of parse does not depend
   on the engine or on the post-processors at all ... *)
Theorem parse_engine_independent :
  forall tb lark steps_of rule_id is_token_name r1 r2 r3 r4 r5 lark2 steps_of2 (t : text),
    raw_only tb t = true ->
    parse tb lark steps_of rule_id is_token_name r1 r2 r3 r4 r5 t = parse tb lark2 steps_of2 rule_id is_token_name r1 r2 r3 r4 r5 t.
Proof. exact parse_engine_irrelevant. Qed.

(* ... and the round trip holds without the lark contract hypothesis. *)
Theorem record_roundtrip_raw :
  forall tb lark steps_of rule_id is_token_name r1 r2 r3 r4 r5 (t : text) (rs : list record),
    raw_only tb t = true ->
    parse tb lark steps_of rule_id is_token_name r1 r2 r3 r4 r5 t = Ok rs -> stream_str rs = t.
Proof. exact parse_raw_roundtrip. Qed.

(* A text whose last line consists of blanks and a bare '$' is refused (ModelSyntaxError: bad record name) whatever
   precedes it and whatever the engine does — so it can never violate the round trip. *)
Theorem dollar_at_eof_refused :
  forall tb lark steps_of rule_id is_token_name r1 r2 r3 r4 r5 (pre bl : text),
    (pre = [] \/ exists p0, pre = p0 ++ [10%N]) -> forallb is_blank bl = true ->
    forall rs, parse tb lark steps_of rule_id is_token_name r1 r2 r3 r4 r5 (pre ++ bl ++ [36%N]) <> Ok rs.
Proof. exact dollar_at_eof_refused_lemma. Qed.

(* ---- 10. OptionRecord edit methods (records/option_record.py) as surgery on the root's children ---------------- *)
(* For all child lists (any trees, any rule ids), keys and values; None = the Python method raises. *)

(* set_option either sets ONE option (the first with that key) in place — an option without a value is first given one
   (1f66dfa) — or inserts [WS; KEY=VALUE] at one position; every other child — other options, comments, newlines,
   blanks — is untouched and in order. *)
Theorem set_option_frame :
  forall (r_option r_KEY r_VALUE r_EQUAL r_WS : positive) (ch : list node) (key v : text) (res : list node),
    set_option r_option r_KEY r_VALUE r_EQUAL r_WS ch key v = Some res ->
    (exists pre o post, ch = pre ++ o :: post /\ res = pre ++ set_node r_option r_KEY r_VALUE r_EQUAL key v o :: post /\
                        keyed r_option r_KEY key o = true /\ forallb (fun x => negb (keyed r_option r_KEY key x)) pre = true) \/
    (exists pre post, ch = pre ++ post /\
                      res = pre ++ [ws_token r_WS; create_option r_option r_KEY r_VALUE r_EQUAL key (Some v)] ++ post).
Proof. exact set_option_frame_lemma. Qed.

(* Read back, at full strength (the guard "the option has a VALUE child" is gone): whenever an option with that key
   exists, the first one has the new value and still its key afterwards. *)
Theorem set_option_readback :
  forall (r_option r_KEY r_VALUE r_EQUAL : positive) (ch : list node) (key v : text) (r : list node),
    r_KEY <> r_VALUE ->
    set_go r_option r_KEY r_VALUE r_EQUAL key v ch = Some (Some r) ->
    exists pre o' post, r = pre ++ o' :: post /\ forallb (fun x => negb (keyed r_option r_KEY key x)) pre = true /\
                        keyed r_option r_KEY key o' = true /\ get_value r_VALUE o' = Some v.
Proof. exact set_option_readback_lemma. Qed.

(* remove_option: everything that is neither blank space nor an option with that key survives, unchanged and in order,
   and no option with that key is left. *)
Theorem remove_option_frame :
  forall (r_option r_KEY r_WS : positive) (ch : list node) (key : text) (res : list node),
    remove_option r_option r_KEY r_WS ch key = Some res ->
    filter (kept r_option r_KEY r_WS key) res = filter (kept r_option r_KEY r_WS key) ch /\
    forallb (fun x => negb (target_b r_option r_KEY key x)) res = true.
Proof.
  intros r_option r_KEY r_WS ch key res H. split; [apply remove_option_frame_lemma; exact H|].
  unfold remove_option in H. eapply remove_go_no_target; [exact H | reflexivity].
Qed.

(* It never raises as long as every option has a KEY — wherever the option stands, also directly behind the record name
   (the first-child guard is gone, f53bbd9). *)
Theorem remove_option_total :
  forall (r_option r_KEY r_WS : positive) (ch : list node) (key : text),
    forallb (fun n => match is_target r_option r_KEY key n with Some _ => true | None => false end) ch = true ->
    exists res, remove_option r_option r_KEY r_WS ch key = Some res.
Proof. exact remove_option_total_lemma. Qed.

(* replace_option maps over the children: every child that is not an option is the same object at the same position. *)
Theorem replace_option_frame :
  forall (r_option r_KEY r_VALUE : positive) (old new : text) (ch res : list node),
    replace_option r_option r_KEY r_VALUE ch old new = Some res ->
    Forall2 (fun c c' => is_option r_option c = false -> c' = c) ch res.
Proof. exact replace_option_frame_lemma. Qed.

(* append_option puts [separator; option] at one position of the child list and drops at most one trailing child. *)
Theorem append_option_frame :
  forall (r_option r_WS r_NEWLINE : positive) (ch : list node) (nd : node) (res : list node),
    append_option_node r_option r_WS r_NEWLINE ch nd = Some res ->
    exists i j sep, (j = length ch \/ S j = length ch) /\ res = firstn i ch ++ sep :: nd :: firstn (j - i) (skipn i ch) /\
                    (sep = ws_token r_WS \/ sep = nl_token r_NEWLINE).
Proof. exact append_option_node_shape. Qed.

(* prepend_option inserts [option; WS] behind the first child. *)
Theorem prepend_option_frame :
  forall (r_option r_KEY r_VALUE r_EQUAL r_WS : positive) (ch : list node) (key : text) (value : option text),
    prepend_option r_option r_KEY r_VALUE r_EQUAL r_WS ch key value =
    firstn 1 ch ++ [create_option r_option r_KEY r_VALUE r_EQUAL key value; ws_token r_WS] ++ skipn 1 ch.
Proof. reflexivity. Qed.

(* ---- 11. OptionRecord.remove_nth_option ------------------------------------------------------------------------ *)

(* For every child list, key and n: remove_nth_option removes nothing, or exactly ONE child — the option that is the
   n-th (0-based) among the options whose key is a prefix of `key` — together with a blank directly before it; every other
   child is untouched and in order. *)
Theorem remove_nth_option_frame :
  forall (r_option r_KEY r_WS : positive) (ch : list node) (key : text) (n : nat) (res : list node),
    remove_nth_option r_option r_KEY r_WS ch key n = Some res ->
    res = ch \/
    exists pre o post, ch = pre ++ o :: post /\ matches r_option r_KEY key o = true /\ nmatches r_option r_KEY key pre = n /\
                       res = rev (pop_ws r_WS (rev pre)) ++ post.
Proof. exact remove_nth_option_frame_lemma. Qed.

(* It never raises as long as every option has a KEY. *)
Theorem remove_nth_option_total :
  forall (r_option r_KEY r_WS : positive) (ch : list node) (key : text) (n : nat),
    forallb (fun nd => match nth_match r_option r_KEY key nd with Some _ => true | None => false end) ch = true ->
    exists res, remove_nth_option r_option r_KEY r_WS ch key n = Some res.
Proof. exact remove_nth_option_total_lemma. Qed.
