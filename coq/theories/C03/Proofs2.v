(* PV.C03.Proofs2 — post-processing pipeline (InsertMissing, InitOrLow, with_ignored_tokens),
   grammars without %ignore, create_record and NMTranParser.parse round trip. *)
From Coq Require Import List Bool NArith PArith Arith Lia ZifyBool.
From PV Require Import Base.PyData C03.Model C03.Proofs.
Import ListNotations.
Local Open Scope nat_scope.

(* ------------------------------------------------------------------ grammars without %ignore *)
Lemma str_tokens : forall n, str n = concat (map snd (tokens_of n)).
Proof.
  induction n as [r p v | r m ch IH] using node_ind'; [cbn; rewrite app_nil_r; reflexivity|].
  cbn [str tokens_of]. induction IH as [|c tl Hc _ IHl]; [reflexivity|].
  cbn [flat_map]. rewrite map_app, concat_app, <- Hc, <- IHl. reflexivity.
Qed.

Lemma cover_from_str : forall src toks cur, (cur <= tlen src)%N -> cover_from src cur toks = true ->
  concat (map snd toks) = sub src cur (tlen src).
Proof.
  intros src. induction toks as [|[[[s e]|] v] tl IH]; intros cur Hc H; cbn [cover_from] in H.
  - assert (cur = tlen src) by lia. subst. rewrite sub_nil. reflexivity.
  - apply andb_true_iff in H. destruct H as [H H5]. apply andb_true_iff in H. destruct H as [H H4].
    apply andb_true_iff in H. destruct H as [H H3]. apply andb_true_iff in H. destruct H as [H1 H2].
    apply list_eqb_N_eq in H4. assert (s = cur) by lia. subst s.
    cbn [map concat snd]. rewrite (IH e) by (try lia; exact H5). rewrite <- H4. apply sub_app; lia.
  - destruct v; [|discriminate]. cbn [map concat snd app]. apply IH; assumption.
Qed.

Lemma cover_roundtrip_lemma : forall src n, cover_contract src n = true -> str n = src.
Proof.
  intros src n H. unfold cover_contract in H. rewrite str_tokens.
  rewrite (cover_from_str src _ 0%N) by (try lia; exact H). apply sub_full.
Qed.

(* ------------------------------------------------------------------ list facts about ranges *)
Lemma first_range_app : forall a b, first_range (a ++ b) = match first_range a with Some r => Some r | None => first_range b end.
Proof.
  induction a as [|c a IH]; intro b; [reflexivity|]. cbn [app first_range]. destruct (item_range c); [reflexivity | apply IH].
Qed.

Lemma last_range_app : forall a b, last_range (a ++ b) = match last_range b with Some r => Some r | None => last_range a end.
Proof.
  induction a as [|c a IH]; intro b; cbn [app last_range].
  - destruct (last_range b); reflexivity.
  - rewrite IH. destruct (last_range b); reflexivity.
Qed.

Lemma ordered_from_skip : forall a x b i, item_range x = None -> ordered_from i (a ++ x :: b) = ordered_from i (a ++ b).
Proof.
  induction a as [|c a IH]; intros x b i Hx; cbn [app ordered_from].
  - rewrite Hx. reflexivity.
  - destruct (item_range c) as [[s e]|]; [rewrite (IH x b e Hx) | rewrite (IH x b i Hx)]; reflexivity.
Qed.

(* two child lists that lark_contract cannot tell apart, except for the per-child contracts *)
Definition same_frame (l l' : list node) : Prop :=
  first_range l' = first_range l /\ last_range l' = last_range l /\ (forall i, ordered_from i l' = ordered_from i l).

Lemma same_frame_refl : forall l, same_frame l l.
Proof. intro l. repeat split. Qed.

Lemma same_frame_trans : forall a b c, same_frame a b -> same_frame b c -> same_frame a c.
Proof.
  intros a b c [H1 [H2 H3]] [K1 [K2 K3]]. split; [congruence|]. split; [congruence|]. intro i. rewrite K3. apply H3.
Qed.

Lemma insert_at_frame : forall pos x l, item_range x = None -> same_frame l (insert_at pos x l).
Proof.
  intros pos x l Hx. unfold insert_at. pose proof (firstn_skipn pos l) as E.
  remember (firstn pos l) as a eqn:Ha. remember (skipn pos l) as b eqn:Hb. clear Ha Hb. subst l. repeat split.
  - rewrite !first_range_app. cbn [first_range]. rewrite Hx. reflexivity.
  - rewrite !last_range_app. cbn [last_range]. destruct (last_range b); [reflexivity|]. rewrite Hx. reflexivity.
  - intro i. apply ordered_from_skip. exact Hx.
Qed.

Lemma map_frame : forall (f : node -> node) l, (forall c, item_range (f c) = item_range c) -> same_frame l (map f l).
Proof.
  intros f l Hf. repeat split.
  - induction l as [|c l IH]; [reflexivity|]. cbn [map first_range]. rewrite Hf, IH. reflexivity.
  - induction l as [|c l IH]; [reflexivity|]. cbn [map last_range]. rewrite Hf, IH. reflexivity.
  - induction l as [|c l IH]; intro i; [reflexivity|]. cbn [map ordered_from]. rewrite Hf.
    destruct (item_range c) as [[s e]|]; rewrite IH; reflexivity.
Qed.

Lemma same_frame_span : forall l l', same_frame l l' -> span_of l' = span_of l.
Proof. intros l l' [H1 [H2 _]]. unfold span_of. rewrite H1, H2. reflexivity. Qed.

Lemma flat_map_insert_at : forall pos x l, str x = [] -> flat_map str (insert_at pos x l) = flat_map str l.
Proof.
  intros pos x l Hx. unfold insert_at. rewrite flat_map_app. cbn [flat_map]. rewrite Hx. cbn [app].
  rewrite <- flat_map_app, firstn_skipn. reflexivity.
Qed.

Lemma forallb_insert_at : forall (p : node -> bool) pos x l, p x = true -> forallb p l = true -> forallb p (insert_at pos x l) = true.
Proof.
  intros p pos x l Hx Hl. unfold insert_at. rewrite forallb_app. cbn [forallb]. rewrite Hx.
  rewrite <- (firstn_skipn pos l), forallb_app in Hl. apply andb_true_iff in Hl. destruct Hl as [-> ->]. reflexivity.
Qed.

Lemma fold_left_inv : forall (A B : Type) (P : A -> Prop) (f : A -> B -> A) (xs : list B) (a : A),
  P a -> (forall a x, P a -> P (f a x)) -> P (fold_left f xs a).
Proof. intros A B P f xs. induction xs as [|x xs IH]; intros a Ha Hf; [exact Ha|]. cbn. apply IH; auto. Qed.

(* ------------------------------------------------------------------ InsertMissing / InitOrLow *)
Section Pipeline.
  Variable rule_id : text -> positive.
  Variable is_token_name : text -> bool.
  Variable r_theta r_init r_up r_low r_init_or_low : positive.
  Variable src : text.

  Let empty := empty_node rule_id is_token_name.

  Lemma empty_node_facts : forall name, item_range (empty name) = None /\ str (empty name) = [] /\ lark_contract src (empty name) = true.
  Proof. intro name. unfold empty, empty_node. destruct (is_token_name name); repeat split. Qed.

  (* what one insertion step preserves about a child list *)
  Definition kids_inv (l0 l : list node) : Prop :=
    same_frame l0 l /\ flat_map str l = flat_map str l0 /\ (forallb (lark_contract src) l0 = true -> forallb (lark_contract src) l = true).

  Lemma kids_inv_refl : forall l, kids_inv l l.
  Proof. intro l. split; [apply same_frame_refl|]. split; auto. Qed.

  Lemma insert_one_inv : forall l0 l pn, kids_inv l0 l -> kids_inv l0 (insert_one rule_id is_token_name l pn).
  Proof.
    intros l0 l pn [F [S C]]. unfold insert_one.
    destruct (existsb (fun c => Pos.eqb (rule_of c) (rule_id (snd pn))) l); [repeat split; auto; apply F|].
    destruct (empty_node_facts (snd pn)) as [E1 [E2 E3]]. split; [|split].
    - eapply same_frame_trans; [exact F|]. apply insert_at_frame. exact E1.
    - rewrite flat_map_insert_at; [exact S | exact E2].
    - intro H. apply forallb_insert_at; [exact E3 | apply C; exact H].
  Qed.

  Lemma apply_dict_inv : forall r l0 l d, kids_inv l0 l -> kids_inv l0 (apply_dict rule_id is_token_name r l d).
  Proof.
    intros r l0 l d H. unfold apply_dict. destruct (find _ d) as [kv|]; [|exact H].
    apply fold_left_inv; [exact H|]. intros a x Ha. apply insert_one_inv. exact Ha.
  Qed.

  Lemma insert_missing_facts : forall spec n,
    item_range (insert_missing rule_id is_token_name spec n) = item_range n /\
    str (insert_missing rule_id is_token_name spec n) = str n /\
    (lark_contract src n = true -> lark_contract src (insert_missing rule_id is_token_name spec n) = true).
  Proof.
    intro spec. induction n as [r p v | r m ch IH] using node_ind'; [repeat split; auto|].
    cbn [insert_missing]. set (ch1 := map (insert_missing rule_id is_token_name spec) ch).
    assert (kids_inv ch ch1) as K1.
    { subst ch1. split; [|split].
      - apply map_frame. intro c. destruct c; reflexivity.
      - induction IH as [|c tl [_ [Hc _]] _ IHl]; [reflexivity|]. cbn [map flat_map]. rewrite Hc, IHl. reflexivity.
      - intro H. induction IH as [|c tl [_ [_ Hc]] _ IHl]; [reflexivity|]. cbn [map forallb] in *.
        apply andb_true_iff in H. destruct H as [H1 H2]. rewrite (Hc H1), (IHl H2). reflexivity. }
    assert (kids_inv ch (fold_left (apply_dict rule_id is_token_name r) spec ch1)) as K.
    { apply fold_left_inv; [exact K1|]. intros a x Ha. apply apply_dict_inv. exact Ha. }
    destruct K as [F [S C]]. split; [reflexivity|]. split; [exact S|].
    intro H. cbn [lark_contract] in *. apply andb_true_iff in H. destruct H as [H H3]. apply andb_true_iff in H. destruct H as [H1 H2].
    rewrite (same_frame_span _ _ F), H1. destruct F as [_ [_ F3]]. rewrite F3, H2. rewrite (C H3). reflexivity.
  Qed.

  Lemma contract_rule_irrelevant : forall to n,
    lark_contract src (rename_iol r_init_or_low to n) = lark_contract src n /\
    item_range (rename_iol r_init_or_low to n) = item_range n /\ str (rename_iol r_init_or_low to n) = str n.
  Proof.
    intros to n. destruct n as [r p v | r m ch]; [repeat split|]. cbn [rename_iol].
    destruct (Pos.eqb r r_init_or_low); repeat split.
  Qed.

  Lemma flat_map_rename : forall to l, flat_map str (map (rename_iol r_init_or_low to) l) = flat_map str l.
  Proof.
    intros to l. induction l as [|c tl IHl]; [reflexivity|]. cbn [map flat_map].
    destruct (contract_rule_irrelevant to c) as [_ [_ ->]]. rewrite IHl. reflexivity.
  Qed.

  Lemma forallb_rename : forall to l,
    forallb (lark_contract src) (map (rename_iol r_init_or_low to) l) = forallb (lark_contract src) l.
  Proof.
    intros to l. induction l as [|c tl IHl]; [reflexivity|]. cbn [map forallb].
    destruct (contract_rule_irrelevant to c) as [-> _]. rewrite IHl. reflexivity.
  Qed.

  Lemma init_or_low_range : forall n, item_range (init_or_low r_theta r_init r_up r_low r_init_or_low n) = item_range n.
  Proof. intro n. destruct n as [r p v | r m ch]; [reflexivity|]. cbn [init_or_low]. destruct (Pos.eqb r r_theta); reflexivity. Qed.

  Lemma init_or_low_facts : forall n,
    item_range (init_or_low r_theta r_init r_up r_low r_init_or_low n) = item_range n /\
    str (init_or_low r_theta r_init r_up r_low r_init_or_low n) = str n /\
    (lark_contract src n = true -> lark_contract src (init_or_low r_theta r_init r_up r_low r_init_or_low n) = true).
  Proof.
    induction n as [r p v | r m ch IH] using node_ind'; [repeat split; auto|].
    cbn [init_or_low]. set (f := init_or_low r_theta r_init r_up r_low r_init_or_low) in *. set (ch1 := map f ch).
    assert (kids_inv ch ch1) as K1.
    { subst ch1. split; [|split].
      - apply map_frame. intro c. apply init_or_low_range.
      - induction IH as [|c tl [_ [Hc _]] _ IHl]; [reflexivity|]. cbn [map flat_map]. rewrite Hc, IHl. reflexivity.
      - intro H. induction IH as [|c tl [_ [_ Hc]] _ IHl]; [reflexivity|]. cbn [map forallb] in *.
        apply andb_true_iff in H. destruct H as [H1 H2]. rewrite (Hc H1), (IHl H2). reflexivity. }
    assert (forall to, kids_inv ch (map (rename_iol r_init_or_low to) ch1)) as K2.
    { intro to. destruct K1 as [F [S C]]. split; [|split].
      - eapply same_frame_trans; [exact F|]. apply map_frame. intro c. apply contract_rule_irrelevant.
      - rewrite <- S. apply flat_map_rename.
      - intro H. rewrite forallb_rename. apply C. exact H. }
    assert (forall l, kids_inv ch l -> item_range (Tree r m l) = item_range (Tree r m ch) /\ str (Tree r m l) = str (Tree r m ch) /\
                      (lark_contract src (Tree r m ch) = true -> lark_contract src (Tree r m l) = true)) as Fin.
    { intros l [F [S C]]. split; [reflexivity|]. split; [exact S|]. intro H. cbn [lark_contract] in *.
      apply andb_true_iff in H. destruct H as [H H3]. apply andb_true_iff in H. destruct H as [H1 H2].
      rewrite (same_frame_span _ _ F), H1. destruct F as [_ [_ F3]]. rewrite F3, H2. rewrite (C H3). reflexivity. }
    destruct (Pos.eqb r r_theta); apply Fin; [apply K2 | exact K1].
  Qed.

  Notation run_steps' := (run_steps rule_id is_token_name r_theta r_init r_up r_low r_init_or_low).
  Notation run_step' := (run_step rule_id is_token_name r_theta r_init r_up r_low r_init_or_low).

  Lemma run_step_plain : forall t s, is_interleave s = false ->
    exists t', run_step' src t s = Some t' /\ str t' = str t /\ (lark_contract src t = true -> lark_contract src t' = true).
  Proof.
    intros t s Hs. destruct s as [spec| |]; [| |discriminate]; cbn [run_step]; eexists; (split; [reflexivity|]).
    - destruct (insert_missing_facts spec t) as [_ [H1 H2]]. split; assumption.
    - destruct (init_or_low_facts t) as [_ [H1 H2]]. split; assumption.
  Qed.

  Lemma run_steps_plain : forall ss t t', forallb (fun s => negb (is_interleave s)) ss = true ->
    run_steps' src t ss = Some t' -> str t' = str t /\ (lark_contract src t = true -> lark_contract src t' = true).
  Proof.
    induction ss as [|s ss IH]; intros t t' Hs H; cbn [run_steps] in H.
    - injection H as <-. split; auto.
    - cbn [forallb] in Hs. apply andb_true_iff in Hs. destruct Hs as [Hs1 Hs2]. apply negb_true_iff in Hs1.
      destruct (run_step_plain t s Hs1) as [t1 [E [S C]]]. rewrite E in H.
      destruct (IH t1 t' Hs2 H) as [S' C']. split; [congruence | auto].
  Qed.

  Lemma run_steps_app : forall a b t, run_steps' src t (a ++ b) =
    match run_steps' src t a with Some t1 => run_steps' src t1 b | None => None end.
  Proof.
    induction a as [|s a IH]; intros b t; [reflexivity|]. cbn [app run_steps].
    destruct (run_step' src t s); [apply IH | reflexivity].
  Qed.

  Lemma steps_ok_cases : forall ss, steps_ok ss = true ->
    (has_interleave ss = false /\ forallb (fun s => negb (is_interleave s)) ss = true) \/
    (has_interleave ss = true /\ exists pre, ss = pre ++ [StepInterleave] /\ forallb (fun s => negb (is_interleave s)) pre = true).
  Proof.
    intros ss H. unfold steps_ok in H. destruct ss as [|s0 ss0] eqn:E; [left; split; reflexivity|]. rewrite <- E in *.
    assert (ss <> []) as NE by (subst; discriminate).
    destruct (exists_last NE) as [pre [lst EQ]]. rewrite EQ in *. rewrite removelast_last in H.
    unfold has_interleave. rewrite existsb_app, forallb_app. cbn [existsb forallb].
    destruct (is_interleave lst) eqn:L.
    - right. rewrite orb_true_r. split; [reflexivity|]. exists pre. destruct lst; try discriminate. split; [reflexivity | exact H].
    - left. rewrite H. cbn. split; [|reflexivity]. rewrite orb_false_r.
      clear - H. induction pre as [|x pre IH]; [reflexivity|]. cbn [forallb existsb] in *.
      apply andb_true_iff in H. destruct H as [H1 H2]. apply negb_true_iff in H1. rewrite H1, (IH H2). reflexivity.
  Qed.

  (* GenericParser.parse: whatever the post-processors are, as long as with_ignored_tokens comes last *)
  Lemma pipeline_roundtrip : forall ss t0 t,
    steps_ok ss = true ->
    (if has_interleave ss then lark_contract src t0 else cover_contract src t0) = true ->
    run_steps' src t0 ss = Some t -> str t = src.
  Proof.
    intros ss t0 t Hok Hc H. destruct (steps_ok_cases ss Hok) as [[HI Hp] | [HI [pre [-> Hp]]]]; rewrite HI in Hc.
    - destruct (run_steps_plain ss t0 t Hp H) as [S _]. rewrite S. apply cover_roundtrip_lemma. exact Hc.
    - rewrite run_steps_app in H. destruct (run_steps' src t0 pre) as [t1|] eqn:E1; [|discriminate].
      destruct (run_steps_plain pre t0 t1 Hp E1) as [_ C]. cbn [run_steps run_step] in H.
      destruct (with_ignored src t1) as [t2|] eqn:W; [|discriminate]. injection H as <-.
      eapply with_ignored_str; [apply C; exact Hc | exact W].
  Qed.
End Pipeline.

Lemma str_erase : forall n, str (erase n) = str n.
Proof.
  induction n as [r p v | r m ch IH] using node_ind'; [reflexivity|]. cbn [erase str].
  induction IH as [|c tl Hc _ IHl]; [reflexivity|]. cbn [map flat_map]. rewrite Hc, IHl. reflexivity.
Qed.

(* ------------------------------------------------------------------ create_record / parse *)
Section ParseProofs.
  Variable tb : tables.
  Variable lark : text -> text -> option node.
  Variable steps_of : text -> list step.
  Variable rule_id : text -> positive.
  Variable is_token_name : text -> bool.
  Variable r_theta r_init r_up r_low r_init_or_low : positive.

  Hypothesis H_steps : forall p, steps_ok (steps_of p) = true.
  (* the engine contract: positions of a tree lark returns for content c *)
  Hypothesis H_lark : forall p c t0, lark p c = Some t0 ->
    (if has_interleave (steps_of p) then lark_contract c t0 else cover_contract c t0) = true.

  Notation create_record' := (create_record tb lark steps_of rule_id is_token_name r_theta r_init r_up r_low r_init_or_low).
  Notation create_all' := (create_all tb lark steps_of rule_id is_token_name r_theta r_init r_up r_low r_init_or_low).
  Notation parse' := (parse tb lark steps_of rule_id is_token_name r_theta r_init r_up r_low r_init_or_low).

  Lemma create_record_str : forall chunk r, create_record' chunk = Ok r -> record_str r = chunk.
  Proof.
    intros chunk r H. unfold create_record in H.
    destruct (split_raw_record_name chunk) as [[rn content]|] eqn:S; [|discriminate].
    apply split_name_concat in S. subst chunk.
    destruct (canonical_name tb rn) as [name|].
    - destruct (parser_of tb name) as [p|]; [|discriminate]. destruct (lark p content) as [t0|] eqn:L; [|discriminate].
      destruct (run_steps _ _ _ _ _ _ _ content t0 (steps_of p)) as [t|] eqn:R; [|discriminate]. injection H as <-.
      cbn [record_str]. rewrite str_erase. f_equal.
      eapply pipeline_roundtrip; [apply H_steps | apply (H_lark p content t0 L) | exact R].
    - injection H as <-. reflexivity.
  Qed.

  Lemma create_all_str : forall chunks rs, create_all' chunks = Ok rs -> stream_str rs = concat (map chunk_str chunks).
  Proof.
    induction chunks as [|c tl IH]; intros rs H; cbn [create_all] in H.
    - injection H as <-. reflexivity.
    - destruct (create_record' (chunk_str c)) as [r|] eqn:R; [|discriminate].
      destruct (create_all' tl) as [rs'|] eqn:A; [|discriminate]. injection H as <-.
      unfold stream_str in *. cbn [flat_map map concat]. rewrite (create_record_str _ _ R), (IH rs' eq_refl). reflexivity.
  Qed.

  Lemma parse_roundtrip : forall t rs, parse' t = Ok rs -> stream_str rs = t.
  Proof.
    intros t rs H. unfold parse in H. destruct (split_records t) as [first chunks] eqn:S.
    destruct (create_all' chunks) as [rs0|] eqn:A; [|discriminate].
    pose proof (split_concat_lemma t) as SC. rewrite S in SC. unfold split_str in SC. cbn [fst snd] in SC.
    apply create_all_str in A.
    destruct first as [|f0 first'].
    - destruct (sizes_ok false rs0); [|discriminate]. injection H as <-. rewrite A. exact SC.
    - destruct (sizes_ok false _); [|discriminate]. injection H as <-.
      unfold stream_str in *. cbn [flat_map record_str app]. rewrite A. exact SC.
  Qed.
End ParseProofs.
