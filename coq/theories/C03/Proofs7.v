(* PV.C03.Proofs7 — OptionRecord.remove_nth_option: at most one option (and a blank directly before it) is removed. *)
From Coq Require Import List Bool NArith PArith Arith Lia ZifyBool.
From PV Require Import Base.PyData C03.Model C03.Proofs.
Import ListNotations.
Local Open Scope nat_scope.

Section NthProofs.
  Variable r_option r_KEY r_WS : positive.
  Notation nth_match' := (nth_match r_option r_KEY).
  Notation go := (remove_nth_go r_option r_KEY r_WS).
  Notation pop_ws' := (pop_ws r_WS).

  Definition matches (key : text) (nd : node) : bool := match nth_match' key nd with Some true => true | _ => false end.
  Definition nmatches (key : text) (l : list node) : nat := length (filter (matches key) l).

  (* past the n-th match nothing is removed any more *)
  Lemma go_after : forall key n l i acc res, n < i -> go key n i acc l = Some res -> res = rev acc ++ l.
  Proof.
    intros key n. induction l as [|nd tl IH]; intros i acc res Hi H; cbn [remove_nth_go] in H.
    - injection H as <-. rewrite app_nil_r. reflexivity.
    - destruct (nth_match' key nd) as [[|]|]; [| |discriminate].
      + replace (Nat.eqb i n) with false in H by lia. rewrite (IH (S i) (nd :: acc) res) by (try lia; exact H).
        cbn [rev]. rewrite <- app_assoc. reflexivity.
      + rewrite (IH i (nd :: acc) res Hi H). cbn [rev]. rewrite <- app_assoc. reflexivity.
  Qed.

  Lemma go_frame : forall key n l i acc res, i <= n -> go key n i acc l = Some res ->
    res = rev acc ++ l \/
    exists pre o post, l = pre ++ o :: post /\ matches key o = true /\ nmatches key pre = n - i /\
                       res = rev (pop_ws' (rev pre ++ acc)) ++ post.
  Proof.
    intros key n. induction l as [|nd tl IH]; intros i acc res Hi H; cbn [remove_nth_go] in H.
    - injection H as <-. left. rewrite app_nil_r. reflexivity.
    - destruct (nth_match' key nd) as [[|]|] eqn:M; [| |discriminate].
      + destruct (Nat.eqb i n) eqn:E.
        * right. exists [], nd, tl. split; [reflexivity|]. split; [unfold matches; rewrite M; reflexivity|].
          split; [cbn; lia|]. cbn [rev app]. apply go_after in H; [exact H | lia].
        * assert (S i <= n) as Hi' by lia. destruct (IH (S i) (nd :: acc) res Hi' H) as [-> | [pre [o [post [-> [Mo [Np ->]]]]]]].
          -- left. cbn [rev]. rewrite <- app_assoc. reflexivity.
          -- right. exists (nd :: pre), o, post. split; [reflexivity|]. split; [exact Mo|]. split.
             ++ unfold nmatches in *. cbn [filter]. unfold matches at 1. rewrite M. cbn [length]. lia.
             ++ cbn [rev]. rewrite <- app_assoc. reflexivity.
      + destruct (IH i (nd :: acc) res Hi H) as [-> | [pre [o [post [-> [Mo [Np ->]]]]]]].
        * left. cbn [rev]. rewrite <- app_assoc. reflexivity.
        * right. exists (nd :: pre), o, post. split; [reflexivity|]. split; [exact Mo|]. split.
          -- unfold nmatches in *. cbn [filter]. unfold matches at 1. rewrite M. exact Np.
          -- cbn [rev]. rewrite <- app_assoc. reflexivity.
  Qed.

  (* remove_nth_option removes nothing, or exactly the option that is the n-th (0-based) whose key is a prefix of `key`,
     together with a blank directly before it; every other child is untouched and in order *)
  Lemma remove_nth_option_frame_lemma : forall ch key n res, remove_nth_option r_option r_KEY r_WS ch key n = Some res ->
    res = ch \/
    exists pre o post, ch = pre ++ o :: post /\ matches key o = true /\ nmatches key pre = n /\
                       res = rev (pop_ws' (rev pre)) ++ post.
  Proof.
    intros ch key n res H. unfold remove_nth_option in H. destruct (go_frame key n ch 0 [] res (Nat.le_0_l n) H) as [-> | [pre [o [post [-> [Mo [Np ->]]]]]]].
    - left. reflexivity.
    - right. exists pre, o, post. rewrite Nat.sub_0_r in Np. rewrite app_nil_r. repeat split; assumption.
  Qed.

  (* it never raises as long as every option has a KEY *)
  Lemma go_total : forall key n l i acc,
    forallb (fun nd => match nth_match' key nd with Some _ => true | None => false end) l = true ->
    exists res, go key n i acc l = Some res.
  Proof.
    intros key n. induction l as [|nd tl IH]; intros i acc D; cbn [remove_nth_go]; [eexists; reflexivity|].
    cbn [forallb] in D. apply andb_true_iff in D. destruct D as [D1 D2].
    destruct (nth_match' key nd) as [[|]|]; [| |discriminate].
    - destruct (Nat.eqb i n); apply IH; exact D2.
    - apply IH; exact D2.
  Qed.

  Lemma remove_nth_option_total_lemma : forall ch key n,
    forallb (fun nd => match nth_match' key nd with Some _ => true | None => false end) ch = true ->
    exists res, remove_nth_option r_option r_KEY r_WS ch key n = Some res.
  Proof. intros ch key n D. unfold remove_nth_option. apply go_total. exact D. Qed.

  (* the blank that goes with the option *)
  Lemma pop_ws_shape : forall acc, pop_ws' acc = acc \/ exists w, acc = w :: pop_ws' acc /\ is_ws_tok r_WS w = true.
  Proof.
    intros [|a acc]; [left; reflexivity|]. cbn [pop_ws]. destruct (is_ws_tok r_WS a) eqn:W; [right; exists a; split; auto | left; reflexivity].
  Qed.
End NthProofs.
