(* PV.C03.Proofs6 — frame lemmas for the OptionRecord edit methods (records/option_record.py). *)
From Coq Require Import List Bool NArith PArith Arith Lia ZifyBool.
From PV Require Import Base.PyData C03.Model C03.Proofs.
Import ListNotations.
Local Open Scope nat_scope.

Section OptionProofs.
  Variable r_option r_KEY r_VALUE r_EQUAL r_WS r_NEWLINE : positive.

  Notation is_option' := (is_option r_option).
  Notation get_key' := (get_key r_KEY).
  Notation get_value' := (get_value r_VALUE).
  Notation set_go' := (set_go r_option r_KEY r_VALUE r_EQUAL).
  Notation set_node' := (set_node r_option r_KEY r_VALUE r_EQUAL).
  Notation set_option' := (set_option r_option r_KEY r_VALUE r_EQUAL r_WS).
  Notation is_target' := (is_target r_option r_KEY).
  Notation remove_go' := (remove_go r_option r_KEY r_WS).
  Notation remove_option' := (remove_option r_option r_KEY r_WS).
  Notation is_ws_tok' := (is_ws_tok r_WS).

  (* an option with the given key *)
  Definition keyed (key : text) (n : node) : bool :=
    is_option' n && match get_key' n with Some k => text_eqb k key | None => false end.

  (* ---- set_option ---- *)
  Lemma set_go_found : forall key v l r, set_go' key v l = Some (Some r) ->
    exists pre o post, l = pre ++ o :: post /\ r = pre ++ set_node' key v o :: post /\
                       keyed key o = true /\ forallb (fun x => negb (keyed key x)) pre = true.
  Proof.
    intros key v. induction l as [|n tl IH]; intros r H; cbn [set_go] in H; [discriminate|].
    destruct (is_option' n) eqn:O.
    - destruct (get_key' n) as [k|] eqn:K; [|discriminate]. destruct (text_eqb k key) eqn:E.
      + injection H as <-. exists [], n, tl. repeat split. unfold keyed. rewrite O, K, E. reflexivity.
      + destruct (set_go' key v tl) as [[r'|]|] eqn:G; try discriminate. injection H as <-.
        destruct (IH r' eq_refl) as [pre [o [post [-> [-> [Ko Hp]]]]]]. exists (n :: pre), o, post. repeat split; auto.
        cbn [forallb]. unfold keyed at 1. rewrite O, K, E. cbn. exact Hp.
    - destruct (set_go' key v tl) as [[r'|]|] eqn:G; try discriminate. injection H as <-.
      destruct (IH r' eq_refl) as [pre [o [post [-> [-> [Ko Hp]]]]]]. exists (n :: pre), o, post. repeat split; auto.
      cbn [forallb]. unfold keyed at 1. rewrite O. cbn. exact Hp.
  Qed.

  (* set_option changes one option in place or inserts [WS; KEY=VALUE] at one position: every other child is untouched *)
  Lemma set_option_frame_lemma : forall ch key v res, set_option' ch key v = Some res ->
    (exists pre o post, ch = pre ++ o :: post /\ res = pre ++ set_node' key v o :: post /\
                        keyed key o = true /\ forallb (fun x => negb (keyed key x)) pre = true) \/
    (exists pre post, ch = pre ++ post /\
                      res = pre ++ [ws_token r_WS; create_option r_option r_KEY r_VALUE r_EQUAL key (Some v)] ++ post).
  Proof.
    intros ch key v res H. unfold set_option in H. destruct (set_go' key v ch) as [[r|]|] eqn:G; [| |discriminate].
    - injection H as <-. left. eapply set_go_found. exact G.
    - right. destruct (after_last_option r_option 0 ch None) as [k|].
      + injection H as <-. exists (firstn k ch), (skipn k ch). split; [symmetry; apply firstn_skipn | reflexivity].
      + injection H as <-. exists [], ch. split; reflexivity.
  Qed.

  (* what replace_first does to the value and the key of an option *)
  Lemma replace_first_value : forall v ch, has_rule r_VALUE ch = true ->
    leaf r_VALUE (replace_first_go (Tok r_VALUE None v) ch) = Some v.
  Proof.
    intros v. induction ch as [|c tl IH]; intro H; [discriminate|]. cbn [has_rule existsb] in H. cbn [replace_first_go rule_of].
    destruct (Pos.eqb (rule_of c) r_VALUE) eqn:E.
    - cbn [leaf]. rewrite Pos.eqb_refl. reflexivity.
    - cbn [orb] in H. destruct c as [r p w | r m cc]; cbn [leaf rule_of] in *.
      + rewrite E. apply IH. exact H.
      + apply IH. exact H.
  Qed.

  Lemma replace_first_noop : forall new ch, has_rule (rule_of new) ch = false -> replace_first_go new ch = ch.
  Proof.
    intros new. induction ch as [|c tl IH]; intro H; [reflexivity|]. cbn [has_rule existsb] in H. apply orb_false_iff in H.
    destruct H as [H1 H2]. cbn [replace_first_go]. rewrite H1. f_equal. apply IH. exact H2.
  Qed.

  Lemma replace_first_key : forall v ch, r_KEY <> r_VALUE ->
    leaf r_KEY (replace_first_go (Tok r_VALUE None v) ch) = leaf r_KEY ch.
  Proof.
    intros v ch NE. induction ch as [|c tl IH]; [reflexivity|]. cbn [replace_first_go rule_of].
    destruct (Pos.eqb (rule_of c) r_VALUE) eqn:E.
    - apply Pos.eqb_eq in E. destruct c as [r p w | r m cc]; cbn [leaf rule_of] in *.
      + subst r. assert (Pos.eqb r_VALUE r_KEY = false) as X by (apply Pos.eqb_neq; congruence). rewrite X. reflexivity.
      + assert (Pos.eqb r_VALUE r_KEY = false) as X by (apply Pos.eqb_neq; congruence). rewrite X. reflexivity.
    - destruct c as [r p w | r m cc]; cbn [leaf]; [destruct (Pos.eqb r r_KEY); [reflexivity | exact IH] | exact IH].
  Qed.

  (* read back, for every option (with or without a value): afterwards it has the new value and the key *)
  Lemma set_node_readback : forall key v o, r_KEY <> r_VALUE -> keyed key o = true ->
    keyed key (set_node' key v o) = true /\ get_value' (set_node' key v o) = Some v.
  Proof.
    intros key v o NE K. unfold set_node. destruct o as [rr p w | rr m cc]; [discriminate|].
    unfold keyed in K. cbn [is_option get_key] in K. apply andb_true_iff in K. destruct K as [K1 K2].
    cbn [has_value]. destruct (existsb (fun c => Pos.eqb (rule_of c) r_VALUE) cc) eqn:HV.
    - unfold keyed. cbn [replace_first is_option get_key get_value]. rewrite replace_first_key by exact NE. rewrite K1, K2.
      split; [reflexivity | apply replace_first_value; exact HV].
    - unfold keyed, create_option. cbn [replace_first is_option get_key get_value]. rewrite replace_first_key by exact NE.
      cbn [leaf]. rewrite !Pos.eqb_refl, text_eqb_refl. split; [reflexivity|].
      apply replace_first_value. cbn [has_rule existsb rule_of]. rewrite Pos.eqb_refl, !orb_true_r. reflexivity.
  Qed.

  Lemma set_option_readback_lemma : forall ch key v r, r_KEY <> r_VALUE ->
    set_go' key v ch = Some (Some r) ->
    exists pre o' post, r = pre ++ o' :: post /\ forallb (fun x => negb (keyed key x)) pre = true /\
                        keyed key o' = true /\ get_value' o' = Some v.
  Proof.
    intros ch key v r NE H. destruct (set_go_found key v ch r H) as [pre [o [post [-> [-> [Ko Hp]]]]]].
    exists pre, (set_node' key v o), post. split; [reflexivity|]. split; [exact Hp|]. apply set_node_readback; assumption.
  Qed.

  (* ---- remove_option ---- *)
  Definition target_b (key : text) (n : node) : bool := match is_target' key n with Some true => true | _ => false end.
  Definition kept (key : text) (n : node) : bool := negb (is_ws_tok' n) && negb (target_b key n).

  Lemma remove_go_frame : forall key l acc res, remove_go' key acc l = Some res ->
    filter (kept key) res = filter (kept key) (rev acc ++ l).
  Proof.
    intros key. induction l as [|n tl IH]; intros acc res H; cbn [remove_go] in H.
    - injection H as <-. rewrite app_nil_r. reflexivity.
    - destruct (is_target' key n) as [[|]|] eqn:T; [| |discriminate].
      + assert (kept key n = false) as Kn by (unfold kept, target_b; rewrite T; apply andb_false_r).
        destruct acc as [|a acc']; [rewrite (IH [] res H); cbn [rev app filter]; rewrite Kn; reflexivity|]. destruct (is_ws_tok' a) eqn:W.
        * assert (kept key a = false) as Ka by (unfold kept; rewrite W; reflexivity).
          rewrite (IH acc' res H). cbn [rev]. rewrite <- app_assoc, !filter_app. cbn [app filter]. rewrite Kn, Ka. reflexivity.
        * rewrite (IH (a :: acc') res H). rewrite !filter_app. cbn [filter]. rewrite Kn. reflexivity.
      + rewrite (IH (n :: acc) res H). cbn [rev]. rewrite <- app_assoc. reflexivity.
  Qed.

  (* everything that is neither blank space nor an option with that key survives, unchanged and in order *)
  Lemma remove_option_frame_lemma : forall ch key res, remove_option' ch key = Some res ->
    filter (kept key) res = filter (kept key) ch.
  Proof. intros ch key res H. unfold remove_option in H. apply remove_go_frame in H. exact H. Qed.

  Lemma remove_go_no_target : forall key l acc res, remove_go' key acc l = Some res ->
    forallb (fun x => negb (target_b key x)) acc = true -> forallb (fun x => negb (target_b key x)) res = true.
  Proof.
    intros key. induction l as [|n tl IH]; intros acc res H A; cbn [remove_go] in H.
    - injection H as <-. rewrite forallb_forall in *. intros x Hx. apply A. apply in_rev. exact Hx.
    - destruct (is_target' key n) as [[|]|] eqn:T; [| |discriminate].
      + destruct acc as [|a acc']; [apply (IH [] res H); reflexivity|]. cbn [forallb] in A. apply andb_true_iff in A. destruct A as [A1 A2].
        destruct (is_ws_tok' a); [apply (IH acc' res H A2) | apply (IH (a :: acc') res H)]. cbn [forallb]. rewrite A1, A2. reflexivity.
      + apply (IH (n :: acc) res H). cbn [forallb]. unfold target_b at 1. rewrite T. cbn. exact A.
  Qed.

  (* it never raises as long as every option has a KEY *)
  Lemma remove_go_total : forall key l acc,
    forallb (fun n => match is_target' key n with Some _ => true | None => false end) l = true ->
    exists res, remove_go' key acc l = Some res.
  Proof.
    intros key. induction l as [|n tl IH]; intros acc D; cbn [remove_go]; [eexists; reflexivity|].
    cbn [forallb] in D. apply andb_true_iff in D. destruct D as [D1 D2].
    destruct (is_target' key n) as [[|]|] eqn:T; [| |discriminate].
    - destruct acc as [|a acc']; [apply (IH [] D2)|]. destruct (is_ws_tok' a); [apply (IH acc' D2) | apply (IH (a :: acc') D2)].
    - apply (IH (n :: acc) D2).
  Qed.

  Lemma remove_option_total_lemma : forall ch key,
    forallb (fun n => match is_target' key n with Some _ => true | None => false end) ch = true ->
    exists res, remove_option' ch key = Some res.
  Proof. intros ch key D. unfold remove_option. apply remove_go_total. exact D. Qed.

  (* ---- replace_option ---- *)
  Lemma replace_option_frame_lemma : forall old new ch res, replace_option r_option r_KEY r_VALUE ch old new = Some res ->
    Forall2 (fun c c' => is_option' c = false -> c' = c) ch res.
  Proof.
    intros old new. induction ch as [|c tl IH]; intros res H; cbn [replace_option] in H.
    - injection H as <-. constructor.
    - destruct (replace_fn r_option r_KEY r_VALUE old new c) as [c'|] eqn:F; [|discriminate].
      destruct (replace_option r_option r_KEY r_VALUE tl old new) as [tl'|] eqn:R; [|discriminate]. injection H as <-.
      constructor; [|apply IH; reflexivity]. intro O. unfold replace_fn in F. destruct c as [r p w | r m cc].
      + injection F as <-. reflexivity.
      + cbn [is_option] in O. rewrite O in F. injection F as <-. reflexivity.
  Qed.

  (* ---- append_option ---- *)
  Lemma append_option_node_shape : forall ch nd res, append_option_node r_option r_WS r_NEWLINE ch nd = Some res ->
    exists i j sep, (j = length ch \/ S j = length ch) /\ res = firstn i ch ++ sep :: nd :: firstn (j - i) (skipn i ch) /\
                    (sep = ws_token r_WS \/ sep = nl_token r_NEWLINE).
  Proof.
    intros ch nd res H. unfold append_option_node in H. destruct (rev ch) as [|lastc rl] eqn:R; [discriminate|].
    assert (length ch = S (length rl)) as L by (rewrite <- (rev_length ch), R; reflexivity).
    destruct (append_scan r_option r_WS r_NEWLINE (length ch) (lastc :: rl)) as [i sep] eqn:S. injection H as <-.
    exists i, (if is_ws_tok' lastc then length ch - 1 else length ch), sep. split; [destruct (is_ws_tok' lastc); lia|].
    split; [reflexivity|].
    clear - S. revert S. generalize (length ch). generalize (lastc :: rl). induction l as [|c tl IH]; intros n S; cbn [append_scan] in S.
    - injection S as _ <-. left. reflexivity.
    - destruct (is_option' c); [injection S as _ <-; left; reflexivity|].
      destruct (Pos.eqb (rule_of c) r_WS || Pos.eqb (rule_of c) r_NEWLINE); [eapply IH; exact S | injection S as _ <-; right; reflexivity].
  Qed.
End OptionProofs.
