(* PV.C03.Check — comparison run inside Coq by the correspondence check: the model is re-run on the
   exported text, compared with what the real NMTranParser / record parsers / lark produced
   (correspondence tags 1..9), the property itself is evaluated on the implementation's outputs
   (oracle tags >= 11) and guard / distribution facts are reported (tags >= 200). *)
From Coq Require Import String Ascii.
From Coq Require Import List Bool NArith PArith Arith.
From PV Require Import Base.PyData C03.Model.
Import ListNotations.
Local Open Scope nat_scope.

(* ---- compact encodings used by the exporter ------------------------------------------------- *)
Definition T (s : string) : text := map N_of_ascii (list_ascii_of_string s).

Definition tag (b : bool) (t : nat) : list nat := if b then [] else [t].

(* ---- static copy of the tables (the regenerated copy is compared with it on every run) -------- *)
Definition static_tables : tables := mkTables
  [ (T "ABBREVIATED", T "AbbreviatedRecord", T "AbbreviatedRecordParser");
    (T "COVARIANCE", T "OptionRecord", T "OptionRecordParser");
    (T "DATA", T "DataRecord", T "DataRecordParser");
    (T "DES", T "CodeRecord", T "CodeRecordParser");
    (T "ERROR", T "CodeRecord", T "CodeRecordParser");
    (T "ESTIMATION", T "EstimationRecord", T "OptionRecordParser");
    (T "ETAS", T "EtasRecord", T "OptionRecordParser");
    (T "INPUT", T "OptionRecord", T "OptionRecordParser");
    (T "MODEL", T "ModelRecord", T "OptionRecordParser");
    (T "OMEGA", T "OmegaRecord", T "OmegaRecordParser");
    (T "PK", T "CodeRecord", T "CodeRecordParser");
    (T "PRED", T "CodeRecord", T "CodeRecordParser");
    (T "PROBLEM", T "ProblemRecord", T "ProblemRecordParser");
    (T "SIGMA", T "OmegaRecord", T "OmegaRecordParser");
    (T "SIMULATION", T "SimulationRecord", T "SimulationRecordParser");
    (T "SIZES", T "SizesRecord", T "OptionRecordParser");
    (T "SUBROUTINES", T "SubroutineRecord", T "OptionRecordParser");
    (T "TABLE", T "TableRecord", T "OptionRecordParser");
    (T "THETA", T "ThetaRecord", T "ThetaRecordParser") ]
  3
  [ SynPrefix (T "INFILE") (T "DATA");
    SynPrefix (T "SUBS") (T "SUBROUTINES");
    SynEq [T "SIML"; T "SIMULATE"] (T "SIMULATION");
    SynEq [T "COVR"] (T "COVARIANCE");
    SynEq [T "ESTM"] (T "ESTIMATION") ]
  [ T "PK" ]
  [ T "SIZES"; T "INPUT"; T "DATA"; T "SUBROUTINES"; T "MODEL"; T "ABBREVIATED"; T "PK"; T "PRED"; T "DES";
    T "ERROR"; T "THETA"; T "OMEGA"; T "SIGMA"; T "MSFI"; T "ESTIMATION"; T "DESIGN"; T "COVARIANCE"; T "ETAS";
    T "TABLE" ]
  [ (T "AbbreviatedRecordParser", [2]); (T "SimulationRecordParser", [2]); (T "ProblemRecordParser", [0]);
    (T "ThetaRecordParser", [0; 1; 2]); (T "OmegaRecordParser", [0; 2]); (T "OptionRecordParser", [2]);
    (T "DataRecordParser", [2]); (T "CodeRecordParser", [2]) ].

(* ---- equality of tables ----------------------------------------------------------------------- *)
Definition syn_eqb (a b : syn_rule) : bool :=
  match a, b with
  | SynPrefix f r, SynPrefix f' r' => text_eqb f f' && text_eqb r r'
  | SynEq l r, SynEq l' r' => list_eqb text_eqb l l' && text_eqb r r'
  | _, _ => false
  end.
Definition known_eqb (a b : text * text * text) : bool :=
  text_eqb (fst (fst a)) (fst (fst b)) && text_eqb (snd (fst a)) (snd (fst b)) && text_eqb (snd a) (snd b).
Definition tables_eqb (a b : tables) : bool :=
  list_eqb known_eqb (t_known a) (t_known b) && Nat.eqb (t_minlen a) (t_minlen b) &&
  list_eqb syn_eqb (t_syn a) (t_syn b) && list_eqb text_eqb (t_short a) (t_short b) &&
  list_eqb text_eqb (t_order a) (t_order b) &&
  list_eqb (fun x y => text_eqb (fst x) (fst y) && list_eqb Nat.eqb (snd x) (snd y)) (t_parsers a) (t_parsers b).

(* every abbreviation (>= t_minlen letters) of a known record name resolves to that name *)
Fixpoint prefixes_from (k : nat) (s : text) : list text :=
  match k with
  | 0 => []
  | S k' => firstn (length s - k') s :: prefixes_from k' s
  end.
Definition abbrevs (minlen : nat) (s : text) : list text :=
  filter (fun p => minlen <=? length p) (prefixes_from (length s) s).
Definition abbrev_ok (tb : tables) : bool :=
  forallb (fun k => forallb (fun p => match canonical_of_bare tb p with
                                      | Some n => text_eqb n (known_name k)
                                      | None => false
                                      end) (abbrevs (t_minlen tb) (known_name k))) (t_known tb).
(* every known record has a parser with a known post_process *)
Definition parsers_ok (tb : tables) : bool :=
  forallb (fun k => existsb (fun p => text_eqb (fst p) (snd k)) (t_parsers tb)) (t_known tb).

(* ---- one exported case ------------------------------------------------------------------------ *)
Record rec_obs := mkRec {
  ro_kind : nat;                   (* 1 = RawRecord (unknown record), 2 = parsed record, 0 = creation failed *)
  ro_name : text;
  ro_raw_name : text;
  ro_content : text;               (* RawRecord.content; [] for parsed records *)
  ro_parser : text;                (* parser class used *)
  ro_lark : option node;           (* the tree returned by lark.parse (token positions, propagated metas) *)
  ro_root : option node            (* the final AttrTree (record.root) *)
}.

Record edit_obs := mkEdit {
  eo_kind : nat;                   (* 1 insert_record, 2 remove_records, 3 replace_records, 4 replace_all *)
  eo_before : list (positive * text);       (* identity, name *)
  eo_arg_rec : list (positive * text);      (* the record inserted / the `new` list *)
  eo_arg_old : list (positive * text);      (* `records` / `old` *)
  eo_name : text;                           (* replace_all name *)
  eo_at : option nat;
  eo_after : option (list (positive * text))   (* None = exception *)
}.

(* one direct call of an OptionRecord edit method on a real parsed record *)
Record opt_obs := mkOpt {
  oo_kind : nat;                   (* 1 set_option, 2 remove_option, 3 append_option, 4 prepend_option, 5 replace_option,
                                      6 + n = remove_nth_option(key, n) *)
  oo_before : list node;           (* children of record.root *)
  oo_key : text;                   (* key / old *)
  oo_val : option text;            (* value (None = option without value) *)
  oo_new : text;                   (* replace_option: new *)
  oo_after : option (list node);   (* children of the new root; None = the call raised *)
  oo_exc : nat                     (* 0 none, 1 IndexError, 2 NoSuchRuleException / AttributeError, 9 other *)
}.

Record case := mkCase {
  c_text : text;
  c_first : text;                          (* text before the first record as the implementation saw it *)
  c_chunks : list text;                    (* every string handed to create_record, in order *)
  c_recs : list rec_obs;                   (* one per chunk up to and including the first failing one *)
  c_err : nat;                             (* 0 none; 1 bad record name; 2 lark refusal; 3 Assertion/AttributeError;
                                              4 SIZES after PROBLEM; 9 anything else *)
  c_str_eq : bool;                         (* Python: str(stream) == text *)
  c_names : list (text * positive);        (* rule names of this case *)
  c_steps : list (text * list step);       (* the real post_process tuples *)
  c_edits : list edit_obs;
  c_opts : list opt_obs
}.

Definition rule_id_of (names : list (text * positive)) (n : text) : positive :=
  match find (fun p => text_eqb (fst p) n) names with
  | Some p => snd p
  | None => 4000000%positive
  end.
Definition is_token_name (n : text) : bool := text_eqb (map upper n) n.
Definition steps_lookup (c : case) (p : text) : list step :=
  match find (fun x => text_eqb (fst x) p) (c_steps c) with Some x => snd x | None => [] end.

Definition step_kind (s : step) : nat :=
  match s with StepInsertMissing _ => 0 | StepInitOrLow => 1 | StepInterleave => 2 end.

Definition run_pipeline (c : case) (content : text) (t0 : node) (ss : list step) : option node :=
  let rid := rule_id_of (c_names c) in
  run_steps rid is_token_name (rid (T "theta")) (rid (T "init")) (rid (T "up")) (rid (T "low")) (rid (T "init_or_low"))
            content t0 ss.

Definition onode_eqb (a b : option node) : bool :=
  match a, b with Some x, Some y => node_eqb x y | None, None => true | _, _ => false end.

(* correspondence + per-record oracle for one chunk; `last_failed` says that this record is the one on
   which the implementation raised, with error class err *)
Definition check_record (c : case) (chunk : text) (ro : rec_obs) (failed : bool) : list nat :=
  match split_raw_record_name chunk with
  | None => tag (failed && Nat.eqb (c_err c) 1 && Nat.eqb (ro_kind ro) 0) 2
  | Some (rn, content) =>
      tag (negb (failed && Nat.eqb (c_err c) 1)) 2 ++
      match canonical_name static_tables rn with
      | None =>
          tag (Nat.eqb (ro_kind ro) 1 && text_eqb (ro_raw_name ro) rn && text_eqb (ro_name ro) (tl rn) &&
               text_eqb (ro_content ro) content && negb failed) 2
      | Some name =>
          let p := match find (fun k => text_eqb (known_name k) name) (t_known static_tables) with
                   | Some k => snd k | None => [] end in
          let ss := steps_lookup c p in
          tag (text_eqb (ro_parser ro) p) 2 ++
          tag (list_eqb Nat.eqb (map step_kind ss)
                        (match find (fun x => text_eqb (fst x) p) (t_parsers static_tables) with
                         | Some x => snd x | None => [99] end) && steps_ok ss) 6 ++
          match ro_lark ro with
          | None => tag (failed && Nat.eqb (c_err c) 2) 5           (* lark refused: nothing to compare *)
          | Some t0 =>
              tag (if has_interleave ss then lark_contract content t0 else cover_contract content t0) 3 ++
              match run_pipeline c content t0 ss with
              | None => tag (failed && Nat.eqb (c_err c) 3) 4
              | Some t =>
                  tag (negb failed || Nat.eqb (c_err c) 4) 4 ++
                  tag (Nat.eqb (ro_kind ro) 2 && text_eqb (ro_raw_name ro) rn && text_eqb (ro_name ro) name) 2 ++
                  tag (onode_eqb (Some (erase t)) (ro_root ro)) 4 ++
                  (* the property on the implementation's own tree *)
                  match ro_root ro with
                  | Some root => tag (text_eqb (str root) content) 12
                  | None => []
                  end
              end
          end
      end
  end.

Fixpoint check_records (c : case) (chunks : list text) (ros : list rec_obs) : list nat :=
  match chunks, ros with
  | ch :: ctl, ro :: rtl =>
      check_record c ch ro (match rtl with [] => negb (Nat.eqb (c_err c) 0) && negb (Nat.eqb (c_err c) 4) | _ => false end)
      ++ check_records c ctl rtl
  | _, [] => []
  | [], _ :: _ => [1]
  end.

Definition impl_record_str (ro : rec_obs) : text :=
  match ro_kind ro, ro_root ro with
  | 2, Some root => ro_raw_name ro ++ str root
  | _, _ => ro_raw_name ro ++ ro_content ro
  end.

(* the SIZES test of NMTranParser.parse on the observed record names *)
Fixpoint sizes_ok_names (in_problem : bool) (ns : list text) : bool :=
  match ns with
  | [] => true
  | n :: tl => if in_problem && text_eqb n s_SIZES then false
               else sizes_ok_names (in_problem || text_eqb n s_PROBLEM) tl
  end.

Definition check_split (c : case) : list nat :=
  let (first, chunks) := split_records (c_text c) in
  tag (text_eqb first (c_first c) && list_eqb text_eqb (map chunk_str chunks) (c_chunks c)) 1.

Definition check_parse (c : case) : list nat :=
  check_records c (c_chunks c) (c_recs c) ++
  (* number of records created: all chunks when nothing failed, otherwise up to the failing one *)
  tag (if Nat.eqb (c_err c) 0 || Nat.eqb (c_err c) 4 then Nat.eqb (length (c_recs c)) (length (c_chunks c))
       else Nat.leb (length (c_recs c)) (length (c_chunks c)) && negb (Nat.eqb (length (c_recs c)) 0)) 5 ++
  (* the SIZES rule *)
  (if Nat.eqb (c_err c) 0 || Nat.eqb (c_err c) 4 then
     let names := (match c_first c with [] => [] | _ => [[]] end) ++ map ro_name (c_recs c) in
     tag (Bool.eqb (sizes_ok_names false names) (Nat.eqb (c_err c) 0)) 5
   else []) ++
  tag (negb (Nat.eqb (c_err c) 9)) 9 ++
  (* oracle: str(parse(T)) == T evaluated with the model's str on the implementation's records *)
  (if Nat.eqb (c_err c) 0 then
     let s := c_first c ++ flat_map impl_record_str (c_recs c) in
     tag (text_eqb s (c_text c)) 11 ++ tag (Bool.eqb (c_str_eq c) (text_eqb s (c_text c))) 8
   else []).

(* ---- control-stream edits ------------------------------------------------------------------- *)
Definition erec := (positive * text)%type.
Definition erec_eqb (a b : erec) : bool := Pos.eqb (fst a) (fst b) && text_eqb (snd a) (snd b).
Definition orecs_eqb (a b : option (list erec)) : bool :=
  match a, b with Some x, Some y => list_eqb erec_eqb x y | None, None => true | _, _ => false end.
Definition e_order := t_order static_tables.

Definition model_edit (e : edit_obs) : option (list erec) :=
  match eo_kind e with
  | 1 => match eo_arg_rec e with
         | r :: _ => Some (insert_record erec snd e_order (eo_before e) r (eo_at e) 0)
         | [] => None
         end
  | 2 => Some (remove_records erec fst (eo_before e) (eo_arg_old e))
  | 3 => Some (replace_records erec fst (eo_before e) (eo_arg_old e) (eo_arg_rec e))
  | 4 => replace_all erec snd e_order (eo_before e) (eo_name e) (eo_arg_rec e)
  | _ => None
  end.

(* frame property on the implementation's own result: records that are neither removed nor new keep
   their identity and relative order *)
Definition ids (l : list erec) : list positive := map fst l.
Definition frame_ok (e : edit_obs) : bool :=
  match eo_after e with
  | None => true
  | Some after =>
      let gone := match eo_kind e with
                  | 2 | 3 => ids (eo_arg_old e)
                  | 4 => ids (filter (fun r => text_eqb (snd r) (eo_name e)) (eo_before e))
                  | _ => []
                  end in
      let kept := filter (fun i => negb (memp i gone)) (ids (eo_before e)) in
      list_eqb Pos.eqb kept (filter (fun i => memp i kept) (ids after))
  end.

Definition check_edits (c : case) : list nat :=
  flat_map (fun e => tag (orecs_eqb (model_edit e) (eo_after e)) 7 ++ tag (frame_ok e) 13) (c_edits c).

(* ---- guard / distribution tags ---------------------------------------------------------------- *)
Definition guard_tags (c : case) : list nat :=
  tag (Nat.eqb (c_err c) 0) 201 ++
  tag (negb (existsb (fun ch => (ch =? 13)%N) (c_text c))) 202 ++
  tag (match c_first c with [] => true | _ => false end) 203 ++
  tag (negb (existsb (fun ro => Nat.eqb (ro_kind ro) 1) (c_recs c))) 204 ++
  tag (negb (existsb (fun ch => (ch =? 38)%N) (c_text c))) 205 ++
  tag (negb (existsb (fun ch => (ch =? 0)%N) (c_text c))) 206.

(* ---- option-record edits ---------------------------------------------------------------------- *)
Fixpoint nodes_eqb (a b : list node) : bool :=
  match a, b with
  | [], [] => true
  | x :: a', y :: b' => node_eqb x y && nodes_eqb a' b'
  | _, _ => false
  end.
Definition onodes_eqb (a b : option (list node)) : bool :=
  match a, b with Some x, Some y => nodes_eqb x y | None, None => true | _, _ => false end.

Definition check_opts (c : case) : list nat :=
  let rid := rule_id_of (c_names c) in
  let r_option := rid (T "option") in let r_KEY := rid (T "KEY") in let r_VALUE := rid (T "VALUE") in
  let r_EQUAL := rid (T "EQUAL") in
  flat_map (fun o =>
    let ch := oo_before o in
    let model :=
      match oo_kind o with
      | 1 => match oo_val o with Some v => set_option r_option r_KEY r_VALUE r_EQUAL r_WS ch (oo_key o) v | None => None end
      | 2 => remove_option r_option r_KEY r_WS ch (oo_key o)
      | 3 => append_option r_option r_KEY r_VALUE r_EQUAL r_WS r_NEWLINE ch (oo_key o) (oo_val o)
      | 4 => Some (prepend_option r_option r_KEY r_VALUE r_EQUAL r_WS ch (oo_key o) (oo_val o))
      | 5 => replace_option r_option r_KEY r_VALUE ch (oo_key o) (oo_new o)
      | k => remove_nth_option r_option r_KEY r_WS ch (oo_key o) (k - 6)
      end in
    tag (onodes_eqb model (oo_after o)) 29 ++
    (* the call raised an internal error *)
    tag (Nat.eqb (oo_exc o) 0) 32 ++
    (* set_option: afterwards the (first) option with that key has the new value — on the implementation's own tree *)
    match oo_kind o, oo_after o, oo_val o with
    | 1, Some after, Some v =>
        tag (match find (fun n => is_option r_option n &&
                                  match get_key r_KEY n with Some k => text_eqb k (oo_key o) | None => false end) after with
             | Some n => match get_value r_VALUE n with Some v' => text_eqb v' v | None => false end
             | None => false
             end) 31
    | _, _, _ => []
    end) (c_opts c).

Definition verdict (c : case) : list nat :=
  check_split c ++ check_parse c ++ check_edits c ++ check_opts c ++ guard_tags c.

(* ================================================================================================
   Model-level oracle: update_source() of an unmodified model, and single-component edits.
   Every call of the four NMTranControlStream edit methods made by the real code is exported (real
   arguments) and compared with the model (tag 7); the property is evaluated on the record lists. *)
Definition srec := (text * text)%type.                      (* record name, str(record) *)
Definition srec_eqb (a b : srec) : bool := text_eqb (fst a) (fst b) && text_eqb (snd a) (snd b).

(* one real call of CodeRecord.update_statements: the root children are numbered 1..n, nodes created by the call are 0 *)
Record us_obs := mkUs {
  uo_name : text;                            (* record name (PK, ERROR, ...) *)
  uo_verb : list bool;                       (* per root child: is it a `verbatim` tree *)
  uo_index : list idx;                       (* self._index used by the call *)
  uo_script : list (dop * nat);              (* lcs.diff(old, new): operation and the entry's number in the script *)
  uo_gen : list (nat * nat);                 (* script entry number -> number of nodes _statement_to_nodes returned *)
  uo_result : list nat;                      (* children of the new root *)
  uo_new_index : list idx                    (* _index stored in the new record *)
}.
Definition idx_eqb (a b : idx) : bool :=
  match a, b with (a1, a2, a3, a4), (b1, b2, b3, b4) => Nat.eqb a1 b1 && Nat.eqb a2 b2 && Nat.eqb a3 b3 && Nat.eqb a4 b4 end.
Definition us_gen (u : us_obs) (k : nat) : list nat :=
  match find (fun p => Nat.eqb (fst p) k) (uo_gen u) with Some p => repeat 0 (snd p) | None => [] end.
Definition check_us (u : us_obs) : bool :=
  let n := length (uo_verb u) in
  match update_statements_children nat nat (us_gen u) (seq 1 n) (uo_verb u) (uo_index u) (uo_script u),
        update_statements_index nat nat (us_gen u) (seq 1 n) (uo_verb u) (uo_index u) (uo_script u) with
  | Some res, Some ix => list_eqb Nat.eqb res (uo_result u) && list_eqb idx_eqb ix (uo_new_index u)
  | _, _ => false
  end.
(* successive edits of the same code record: the index used by a call is the one the previous call stored *)
Fixpoint chain_ok (prev : list (text * list idx)) (us : list us_obs) : bool :=
  match us with
  | [] => true
  | u :: tl =>
      (match find (fun p => text_eqb (fst p) (uo_name u)) prev with
       | Some p => list_eqb idx_eqb (snd p) (uo_index u)
       | None => true
       end) &&
      chain_ok ((uo_name u, uo_new_index u) :: prev) tl
  end.

(* touched_kinds: component of the model (old_* snapshot of update_source) -> kinds of records update_source may regenerate;
   static copy of the table regenerated from model.py / update.py on every run (obligation gen_touched_match) *)
Definition static_touched : list (text * list text) :=
  [ (T "datainfo", [T "DATA"; T "DES"; T "ERROR"; T "INPUT"; T "MODEL"; T "PK"; T "PRED"; T "SUBROUTINES"]);
    (T "description", [T "PROBLEM"]);
    (T "execution_steps", [T "COVARIANCE"; T "DATA"; T "DES"; T "DESIGN"; T "ERROR"; T "ESTIMATION"; T "INPUT"; T "MODEL"; T "MSFI"; T "PK"; T "PRED"; T "PROBLEM"; T "SIMULATION"; T "SUBROUTINES"; T "TABLE"]);
    (T "initial_individual_estimates", [T "ESTIMATION"; T "ETAS"]);
    (T "name", [T "TABLE"]);
    (T "parameters", [T "OMEGA"; T "SIGMA"; T "SIZES"; T "THETA"]);
    (T "random_variables", [T "ABBREVIATED"; T "OMEGA"; T "SIGMA"; T "SIZES"; T "THETA"]);
    (T "statements", [T "DES"; T "ERROR"; T "MODEL"; T "PK"; T "PRED"; T "SIZES"; T "SUBROUTINES"]) ].
Definition touched_kinds (comps : list text) : list text :=
  flat_map (fun c => match find (fun p => text_eqb (fst p) c) static_touched with Some p => snd p | None => [] end) comps.

(* a record object as seen in the call traces: identity, name, text *)
Definition trec := (positive * text * text)%type.
Definition t_id (r : trec) : positive := fst (fst r).
Definition t_name (r : trec) : text := snd (fst r).
Definition t_str (r : trec) : text := snd r.
Definition trec_of (objs : list trec) (p : erec) : trec :=
  match find (fun o => Pos.eqb (t_id o) (fst p)) objs with
  | Some o => o
  | None => (fst p, snd p, [0%N])          (* unknown object: a text no real record has *)
  end.
Definition to_ecall (objs : list trec) (e : edit_obs) : ecall trec :=
  let conv := map (trec_of objs) in
  match eo_kind e with
  | 1 => match eo_arg_rec e with r :: _ => EIns trec (trec_of objs r) (eo_at e) | [] => ERem trec [] end
  | 2 => ERem trec (conv (eo_arg_old e))
  | 3 => ERepl trec (conv (eo_arg_old e)) (conv (eo_arg_rec e))
  | _ => EAll trec (eo_name e) (conv (eo_arg_rec e))
  end.

(* one real call of update.update_abbr_record: the $ABBREVIATED records of problem 0 with their
   translate_to_pharmpy_names() pairs, rv_trans, the records that survived and the (pharmpy, nonmem) pairs created *)
Record abbr_obs := mkAbbr {
  ao_recs : list (positive * list (text * text));
  ao_rv : list (text * text);
  ao_kept : list positive;
  ao_new : list (text * text)
}.
Definition pair_eqb (a b : text * text) : bool := text_eqb (fst a) (fst b) && text_eqb (snd a) (snd b).
Definition check_abbr (a : abbr_obs) : bool :=
  let (kept, rv') := abbr_scan (positive * list (text * text)) snd (ao_recs a) (ao_rv a) in
  list_eqb Pos.eqb (map fst kept) (ao_kept a) && list_eqb pair_eqb rv' (ao_new a).

Record mstep := mkMStep {
  ms_allowed : list text;                    (* record kinds that express the modified component *)
  ms_after : option (list srec);             (* None = the call raised *)
  ms_calls : list edit_obs;
  ms_nonstmt : list (text * nat * list text); (* code record name, occurrence, its non-statement root children after *)
  ms_updates : list us_obs;                  (* the real update_statements calls *)
  ms_sizes_in : option (nat * nat * bool);   (* resulting model: number of thetas, compartments, has a compartmental system *)
  ms_sizes_ins : list (list sizes_opt);      (* options of every $SIZES record inserted during the step *)
  ms_reread : bool;                          (* re-reading the resulting code gives the in-memory statements *)
  ms_abbr : list abbr_obs;                   (* the real update_abbr_record calls *)
  ms_ids_before : list positive;             (* record objects of the control stream when the step starts ... *)
  ms_ids_after : list positive;              (* ... and when it ends *)
  ms_comps : list text                       (* components of the model the step changed (measured: m2.x != m.x) *)
}.
Record mcase := mkMCase {
  mc_text : text;
  mc_code_eq : bool;                         (* model.code == text right after reading *)
  mc_before : list srec;                     (* records of parse(text) *)
  mc_nonstmt : list (text * nat * list text); (* non-statement root children (comments, verbatim) of the code records *)
  mc_us : mstep;                             (* update_source() without any modification *)
  mc_edits : list mstep;
  mc_history : list mstep;                   (* successive edits, each applied to the result of the previous one *)
  mc_objs : list trec                        (* every record object seen in the traces of this case *)
}.

Definition s_ABBR : text := T "ABBREVIATED".
Definition unrelated (allowed : list text) (l : list srec) : list srec :=
  filter (fun r => negb (existsb (text_eqb (fst r)) allowed)) l.

(* multiset comparison: insertion sort by (name, str) *)
Fixpoint text_leb (a b : text) : bool :=
  match a, b with
  | [], _ => true
  | _ :: _, [] => false
  | x :: a', y :: b' => if (x <? y)%N then true else if (y <? x)%N then false else text_leb a' b'
  end.
Definition srec_leb (a b : srec) : bool :=
  if text_eqb (fst a) (fst b) then text_leb (snd a) (snd b) else text_leb (fst a) (fst b).
Fixpoint ins_srec (x : srec) (l : list srec) : list srec :=
  match l with
  | [] => [x]
  | y :: tl => if srec_leb x y then x :: l else y :: ins_srec x tl
  end.
Definition sort_srec (l : list srec) : list srec := fold_right ins_srec [] l.

(* replace_all(name, new) on a stream in which the records of that name are not contiguous (guard of
   Properties.replace_all_self false): the call regroups them *)
Definition call_regroups (e : edit_obs) : bool :=
  match eo_kind e with
  | 4 => negb (contiguous erec snd (eo_name e) (eo_before e))
  | _ => false
  end.
(* replace_all('ABBREVIATED', keep) that drops existing records / insert_record of an ABBREVIATED record *)
Definition call_drops_abbr (e : edit_obs) : bool :=
  match eo_kind e with
  | 4 => text_eqb (eo_name e) s_ABBR &&
         negb (list_eqb erec_eqb (filter (fun r => text_eqb (snd r) s_ABBR) (eo_before e)) (eo_arg_rec e))
  | _ => false
  end.
Definition call_inserts_abbr (e : edit_obs) : bool :=
  match eo_kind e, eo_arg_rec e with
  | 1, r :: _ => text_eqb (snd r) s_ABBR
  | _, _ => false
  end.

Fixpoint subseq (a b : list text) : bool :=
  match a, b with
  | [], _ => true
  | _ :: _, [] => false
  | x :: a', y :: b' => if text_eqb x y then subseq a' b' else subseq a b'
  end.
(* comments / verbatim lines between the statements of a code record survive, in order, as long as the record exists *)
Definition nonstmt_ok (before after : list (text * nat * list text)) (after_names : list text) : bool :=
  forallb (fun b =>
    match find (fun a => text_eqb (fst (fst a)) (fst (fst b)) && Nat.eqb (snd (fst a)) (snd (fst b))) after with
    | Some a => subseq (snd b) (snd a)
    | None => Nat.leb (length (filter (text_eqb (fst (fst b))) after_names)) (snd (fst b))     (* that record no longer exists *)
    end) before.

Definition static_sizes : sizes_thr := mkSizesThr 101 30 99.
Definition s_SIZES_name : text := T "SIZES".
Definition sizes_tags (prev : list srec) (s : mstep) : list nat :=
  match ms_sizes_in s with
  | None => []
  | Some (nth, ncomp, cs) =>
      if existsb (fun r => text_eqb (fst r) s_SIZES_name) prev then
        (* an existing $SIZES record is updated in place: nothing is inserted *)
        tag (match ms_sizes_ins s with [] => true | _ => false end) 21
      else
      match sizes_opts static_sizes nth ncomp cs with
      | None => []
      | Some [] => tag (match ms_sizes_ins s with [] => true | _ => false end) 21
      | Some opts => tag (match ms_sizes_ins s with
                          | [o] => list_eqb sizes_opt_eqb o opts
                          | _ => false end) 21 ++ [217]
      end
  end.

Definition step_tags (before : list srec) (nsb : list (text * nat * list text)) (s : mstep) (unmodified : bool) : list nat :=
  flat_map (fun e => tag (orecs_eqb (model_edit e) (eo_after e)) 7 ++ tag (frame_ok e) 13) (ms_calls s) ++
  flat_map (fun u => tag (check_us u) 10) (ms_updates s) ++
  match ms_after s with
  | None => [220]
  | Some after =>
      let al := ms_allowed s in
      tag (list_eqb srec_eqb (unrelated al before) (unrelated al after)) (if unmodified then 14 else 15) ++
      tag (list_eqb srec_eqb (unrelated (s_ABBR :: al) before) (unrelated (s_ABBR :: al) after)) 17 ++
      tag (list_eqb srec_eqb (sort_srec (unrelated al before)) (sort_srec (unrelated al after))) 19 ++
      tag (list_eqb srec_eqb (sort_srec (unrelated (s_ABBR :: al) before)) (sort_srec (unrelated (s_ABBR :: al) after))) 20 ++
      tag (Nat.leb (length (filter (fun r => text_eqb (fst r) s_ABBR) before))
                   (length (filter (fun r => text_eqb (fst r) s_ABBR) after))) 215 ++
      tag (list_eqb srec_eqb (unrelated (s_SIZES_name :: al) before) (unrelated (s_SIZES_name :: al) after)) 24 ++
      tag (nonstmt_ok nsb (ms_nonstmt s) (map fst after)) 16 ++
      tag (ms_reread s) 22
  end ++
  sizes_tags before s ++
  flat_map (fun a => tag (check_abbr a) 25) (ms_abbr s) ++
  tag (negb (existsb (fun e => match eo_kind e, eo_arg_rec e with
                               | 1, r :: _ => text_eqb (snd r) s_SIZES_name | _, _ => false end) (ms_calls s))) 216 ++
  tag (negb (existsb call_regroups (ms_calls s))) 212 ++
  tag (negb (existsb call_drops_abbr (ms_calls s))) 213 ++
  tag (negb (existsb call_inserts_abbr (ms_calls s))) 214.

(* in a history every step is compared with the record list the previous step produced *)
Fixpoint history_tags (nsb : list (text * nat * list text)) (prev : list srec) (hs : list mstep) : list (list nat) :=
  match hs with
  | [] => []
  | s :: tl => step_tags prev nsb s false :: history_tags nsb (match ms_after s with Some a => a | None => prev end) tl
  end.

(* the real trace of edit-method calls of a step, against the regenerated touched_kinds table: every call is within the
   kinds of the changed components or text-neutral (26); running the modelled calls from the stream at the start gives
   the stream at the end, i.e. the control stream is only ever changed through these calls (27); and the conclusion of
   Properties.edit_frame evaluated on the implementation's own record lists (28) *)
Definition trace_tags (objs : list trec) (before : list srec) (s : mstep) : list nat :=
  match ms_after s with
  | None => []
  | Some after =>
      let K := touched_kinds (ms_comps s) in
      let l0 := map (fun i => trec_of objs (i, [])) (ms_ids_before s) in
      let cs := map (to_ecall objs) (ms_calls s) in
      tag (calls_ok trec t_name t_id t_str e_order K l0 cs) 26 ++
      tag (match run_calls trec t_name t_id e_order l0 cs with
           | Some l1 => list_eqb Pos.eqb (map t_id l1) (ms_ids_after s)
           | None => false end) 27 ++
      tag (list_eqb srec_eqb (unrelated K before) (unrelated K after)) 28
  end.
Fixpoint history_trace_tags (objs : list trec) (prev : list srec) (hs : list mstep) : list (list nat) :=
  match hs with
  | [] => []
  | s :: tl => trace_tags objs prev s :: history_trace_tags objs (match ms_after s with Some a => a | None => prev end) tl
  end.
Fixpoint zip_app (a b : list (list nat)) : list (list nat) :=
  match a, b with
  | x :: a', y :: b' => (x ++ y) :: zip_app a' b'
  | _, _ => a
  end.

Definition mverdict_steps (c : mcase) : list (list nat) :=
  zip_app
    ((tag (mc_code_eq c) 18 ++ step_tags (mc_before c) (mc_nonstmt c) (mc_us c) true) ::
     map (fun s => step_tags (mc_before c) (mc_nonstmt c) s false) (mc_edits c) ++
     history_tags (mc_nonstmt c) (mc_before c) (mc_history c))
    (trace_tags (mc_objs c) (mc_before c) (mc_us c) ::
     map (trace_tags (mc_objs c) (mc_before c)) (mc_edits c) ++
     history_trace_tags (mc_objs c) (mc_before c) (mc_history c)) ++
  [tag (chain_ok [] (flat_map ms_updates (mc_history c))) 23].

(* one flat list per case: the tags of step k are offset by 1000 * k (k = 0 is update_source) *)
Fixpoint offset_tags (k : nat) (ls : list (list nat)) : list nat :=
  match ls with
  | [] => []
  | l :: tl => map (fun t => t + 1000 * k) l ++ offset_tags (S k) tl
  end.
Definition mverdict (c : mcase) : list nat := offset_tags 0 (mverdict_steps c).
