(* PV.C03.Model — executable model of the lossless part of pharmpy's NONMEM control-stream front end:
     nmtran_parser.NMTranParser.parse            record splitting  (re.split(r'^([ \t]*\$)', MULTILINE))
     records/factory.split_raw_record_name        r'(\s*\$[A-za-z]+)(.STAR)'
     records/factory.get_canonical_record_name    known_records / synonyms (tables regenerated from source)
     internals/parse/ignored.py                   _tokenize_ignored_characters, _item_range,
                                                  _interleave_ignored, InterleaveIgnored, with_ignored_tokens
     internals/parse/missing.InsertMissing, records/parsers.InitOrLow, GenericParser.parse (post_process)
     internals/parse/generic.AttrTree.__str__ / AttrToken.__str__ / _from_lark_tree
     nmtran_parser.NMTranControlStream            insert_record, remove_records, replace_records, replace_all
     records/code_record.CodeRecord.update_statements + _index_statements_diff
   Text is a list of code points (N).  Python exceptions are modelled as None / an error enum.
   No proofs in this file. *)
From Coq Require Import List Bool NArith PArith Arith Lia.
From PV Require Import Base.PyData.
Import ListNotations.
Local Open Scope nat_scope.

Definition text := list N.
Definition text_eqb (a b : text) : bool := list_eqb N.eqb a b.
Definition tlen (s : text) : N := N.of_nat (length s).

(* s[i:j] for 0 <= i, j (Python slice semantics: clipped at the end, empty when j <= i) *)
Definition sub (s : text) (i j : N) : text := firstn (N.to_nat (j - i)) (skipn (N.to_nat i) s).

Fixpoint span (p : N -> bool) (l : text) : text * text :=
  match l with
  | c :: tl => if p c then let (a, b) := span p tl in (c :: a, b) else ([], l)
  | [] => ([], [])
  end.

(* ================================================================================================
   1. NMTranParser.parse: re.split(r'^([ \t]*\$)', text, flags=re.MULTILINE)
   '^' (MULTILINE) matches at the start of the text and after every '\n'; the pattern therefore
   matches exactly at the lines that begin with blanks/tabs followed by '$'.  Hand-written scanner:
   cut the text into physical lines (terminator kept), test every line start. *)
Definition is_blank (c : N) : bool := (c =? 32)%N || (c =? 9)%N.
Definition is_dollar (c : N) : bool := (c =? 36)%N.
Definition is_lf (c : N) : bool := (c =? 10)%N.

Fixpoint lines (l : text) : list text :=
  match l with
  | [] => []
  | c :: tl =>
      if is_lf c then [c] :: lines tl
      else match lines tl with
           | [] => [[c]]
           | ln :: rest => (c :: ln) :: rest
           end
  end.

(* [ \t]*\$ at the start of l: Some (separator, rest) *)
Fixpoint match_sep (l : text) : option (text * text) :=
  match l with
  | [] => None
  | c :: tl =>
      if is_blank c then match match_sep tl with
                         | Some (sep, rest) => Some (c :: sep, rest)
                         | None => None
                         end
      else if is_dollar c then Some ([c], tl)
      else None
  end.

(* (text before the first separator, [(separator, string up to the next separator)]) *)
Fixpoint group (ls : list text) : text * list (text * text) :=
  match ls with
  | [] => ([], [])
  | ln :: tl =>
      let (cont, recs) := group tl in
      match match_sep ln with
      | Some (sep, rest) => ([], (sep, rest ++ cont) :: recs)
      | None => (ln ++ cont, recs)
      end
  end.

Definition split_records (t : text) : text * list (text * text) := group (lines t).
Definition chunk_str (c : text * text) : text := fst c ++ snd c.
Definition split_str (r : text * list (text * text)) : text := fst r ++ concat (map chunk_str (snd r)).

(* ================================================================================================
   2. split_raw_record_name: re.match(r'(\s*\$[A-za-z]+)(.STAR)', chunk, MULTILINE | DOTALL) *)
Definition in_range (c : N) (r : N * N) : bool := (fst r <=? c)%N && (c <=? snd r)%N.
(* Python's str.isspace / re \s on str patterns *)
Definition space_ranges : list (N * N) :=
  [(9, 13); (28, 32); (133, 133); (160, 160); (5760, 5760); (8192, 8202); (8232, 8233); (8239, 8239);
   (8287, 8287); (12288, 12288)]%N.
Definition is_space (c : N) : bool := existsb (in_range c) space_ranges.
Definition is_name_char (c : N) : bool := (65 <=? c)%N && (c <=? 122)%N.      (* [A-za-z]: includes [ \ ] ^ _ ` *)

Definition split_raw_record_name (chunk : text) : option (text * text) :=
  let (sp, r1) := span is_space chunk in
  match r1 with
  | c :: r2 =>
      if is_dollar c then
        let (nm, r3) := span is_name_char r2 in
        match nm with
        | [] => None                                  (* ModelSyntaxError('Bad record name') *)
        | _ => Some (sp ++ c :: nm, r3)
        end
      else None
  | [] => None
  end.

(* ================================================================================================
   3. get_canonical_record_name; tables regenerated from factory.py / nmtran_parser.py / parsers.py *)
Inductive syn_rule :=
| SynPrefix (full result : text)             (* if 'FULL'.startswith(bare): return RESULT *)
| SynEq (alts : list text) (result : text).  (* if bare == A or bare == B: return RESULT *)

Inductive step :=
| StepInsertMissing (spec : list (list (text * list (nat * text))))    (* tuple of dicts rule -> ((pos, name), ...) *)
| StepInitOrLow
| StepInterleave.

Record tables := mkTables {
  t_known : list (text * text * text);        (* canonical name, record class, parser class — dict order *)
  t_minlen : nat;                             (* len(bare) >= 3 *)
  t_syn : list syn_rule;                      (* the synonym if/elif chain, in order *)
  t_short : list text;                        (* elif bare == 'PK' *)
  t_order : list text;                        (* default_record_order *)
  t_parsers : list (text * list nat)          (* parser class -> post_process kinds: 0 InsertMissing, 1 InitOrLow, 2 with_ignored_tokens *)
}.

Fixpoint is_prefix (p s : text) : bool :=
  match p, s with
  | [], _ => true
  | a :: p', b :: s' => N.eqb a b && is_prefix p' s'
  | _ :: _, [] => false
  end.

Definition upper (c : N) : N := if (97 <=? c)%N && (c <=? 122)%N then (c - 32)%N else c.
(* raw_name.lstrip()[1:].upper() *)
Definition bare_name (raw_name : text) : text := map upper (tl (snd (span is_space raw_name))).

Definition apply_syn (bare : text) (r : syn_rule) : option text :=
  match r with
  | SynPrefix full res => if is_prefix bare full then Some res else None
  | SynEq alts res => if existsb (text_eqb bare) alts then Some res else None
  end.

Fixpoint first_some {A B} (f : A -> option B) (l : list A) : option B :=
  match l with
  | [] => None
  | x :: tl => match f x with Some y => Some y | None => first_some f tl end
  end.

Definition known_name (k : text * text * text) : text := fst (fst k).

Definition canonical_of_bare (tb : tables) (bare : text) : option text :=
  if t_minlen tb <=? length bare then
    match find (fun k => is_prefix bare (known_name k)) (t_known tb) with
    | Some k => Some (known_name k)
    | None => first_some (apply_syn bare) (t_syn tb)
    end
  else if existsb (text_eqb bare) (t_short tb) then Some bare else None.

Definition canonical_name (tb : tables) (raw_name : text) : option text :=
  canonical_of_bare tb (bare_name raw_name).

(* ================================================================================================
   4. ignored.py: _tokenize_ignored_characters *)
Inductive tkind := KWS | KCOMMENT | KNEWLINE | KCONT.
Definition tkind_eqb (a b : tkind) : bool :=
  match a, b with KWS, KWS | KCOMMENT, KCOMMENT | KNEWLINE, KNEWLINE | KCONT, KCONT => true | _, _ => false end.

Record itok := mkTok { ik : tkind; istart : N; iend : N; ival : text }.

Definition is_ws (c : N) : bool := (c =? 32)%N || (c =? 0)%N || (c =? 9)%N.       (* WS = {' ', '\x00', '\t'} *)
Definition is_crlf (c : N) : bool := (c =? 13)%N || (c =? 10)%N.                  (* LF = {'\r', '\n'} *)
Definition not_crlf (c : N) : bool := negb (is_crlf c).

(* l is the slice s[off:j]; fuel bounds the number of tokens (each consumes at least one character) *)
Fixpoint tok_fuel (fuel : nat) (off : N) (l : text) {struct fuel} : option (list itok) :=
  match l with
  | [] => Some []
  | first :: tl =>
      match fuel with
      | 0 => None
      | S f =>
          let emit (k : tkind) (a r : text) (n : N) :=
            match tok_fuel f (off + n)%N r with
            | Some ts => Some (mkTok k off (off + n)%N (first :: a) :: ts)
            | None => None
            end in
          if is_ws first then
            let (a, r) := span is_ws tl in emit KWS a r (1 + tlen a)%N
          else if (first =? 59)%N then
            let (a, r) := span not_crlf tl in emit KCOMMENT a r (1 + tlen a)%N
          else if (first =? 13)%N then
            match tl with
            | c2 :: r => if (c2 =? 10)%N then emit KNEWLINE [c2] r 2%N else None   (* assert s[head] == '\n' *)
            | [] => None                                                            (* assert head < j *)
            end
          else if (first =? 10)%N then emit KNEWLINE [] tl 1%N
          else if (first =? 38)%N then
            let (a, r) := span not_crlf tl in emit KCONT a r (1 + tlen a)%N
          else None                                                                 (* assert first == '&' *)
      end
  end.

Definition tok_list (off : N) (l : text) : option (list itok) := tok_fuel (length l) off l.

(* _tokenize_ignored_characters(s, i, j); s[head] with head >= len(s) raises IndexError *)
Definition tokenize (s : text) (i j : N) : option (list itok) :=
  if (i <? j)%N then (if (j <=? tlen s)%N then tok_list i (sub s i j) else None) else Some [].

Definition itoks_str (ts : list itok) : text := concat (map ival ts).

(* ================================================================================================
   5. Concrete syntax trees (lark.Tree / lark.Token with positions; AttrTree / AttrToken without) *)
Inductive node :=
| Tok (rule : positive) (pos : option (N * N)) (val : text)
| Tree (rule : positive) (meta : option (N * N)) (ch : list node).

(* AttrTree.__str__ = ''.join(str(x) for x in children), AttrToken.__str__ = value *)
Fixpoint str (n : node) : text :=
  match n with
  | Tok _ _ v => v
  | Tree _ _ ch => flat_map str ch
  end.

Definition rule_of (n : node) : positive := match n with Tok r _ _ => r | Tree r _ _ => r end.

(* fixed rule ids of the four ignored token types *)
Definition r_WS : positive := 1. Definition r_COMMENT : positive := 2.
Definition r_NEWLINE : positive := 3. Definition r_CONT : positive := 4.
Definition kind_rule (k : tkind) : positive :=
  match k with KWS => r_WS | KCOMMENT => r_COMMENT | KNEWLINE => r_NEWLINE | KCONT => r_CONT end.
Definition node_of_itok (t : itok) : node := Tok (kind_rule (ik t)) (Some (istart t, iend t)) (ival t).

(* _item_range: Tree -> meta.start_pos/end_pos (AttributeError when meta is empty), Token -> start_pos/end_pos
   (assert isinstance(i, int) fails for a token without position) *)
Definition item_range (x : node) : option (N * N) :=
  match x with Tok _ p _ => p | Tree _ m _ => m end.

Fixpoint interleave_go (src : text) (i : N) (rest : list node) : option (list node) :=
  match rest with
  | [] => Some []
  | x :: tl =>
      match item_range x with
      | None => None
      | Some (j, k) =>
          match (if (i <? j)%N then tokenize src i j else Some []) with
          | None => None
          | Some gap =>
              match interleave_go src k tl with
              | None => None
              | Some r => Some (map node_of_itok gap ++ x :: r)
              end
          end
      end
  end.

(* interleave_ignored: children if len(children) < 2 else list(_interleave_ignored(source, iter(children))) *)
Definition interleave (src : text) (ch : list node) : option (list node) :=
  match ch with
  | x :: ((_ :: _) as rest) =>
      match item_range x with
      | None => None
      | Some (_, e) => match interleave_go src e rest with Some r => Some (x :: r) | None => None end
      end
  | _ => Some ch
  end.

(* InterleaveIgnored(source).transform(tree): bottom-up, Tree(data, interleave_ignored(children), meta) *)
Fixpoint transform (src : text) (n : node) : option node :=
  match n with
  | Tok _ _ _ => Some n
  | Tree r m ch =>
      match (fix go (l : list node) : option (list node) :=
               match l with
               | [] => Some []
               | c :: tl => match transform src c, go tl with
                            | Some c', Some tl' => Some (c' :: tl')
                            | _, _ => None
                            end
               end) ch with
      | None => None
      | Some ch' => match interleave src ch' with
                    | None => None
                    | Some ch'' => Some (Tree r m ch'')
                    end
      end
  end.

Definition with_ignored (src : text) (t : node) : option node :=
  match transform src t with
  | Some (Tree r m ch) =>
      let n := tlen src in
      match ch with
      | [] => match tokenize src 0 n with
              | Some ts => Some (Tree r (Some (0%N, n)) (map node_of_itok ts))
              | None => None
              end
      | _ => match m with
             | None => None                                   (* new_tree.meta.start_pos: AttributeError *)
             | Some (s, e) =>
                 match tokenize src 0 s, tokenize src e n with
                 | Some a, Some b => Some (Tree r (Some (0%N, n)) (map node_of_itok a ++ ch ++ map node_of_itok b))
                 | _, _ => None
                 end
             end
      end
  | _ => None
  end.

(* ---- the lark contract (engine interface): propagate_positions metas and token positions ------- *)
Fixpoint first_range (ch : list node) : option (N * N) :=
  match ch with
  | [] => None
  | c :: tl => match item_range c with Some r => Some r | None => first_range tl end
  end.
Fixpoint last_range (ch : list node) : option (N * N) :=
  match ch with
  | [] => None
  | c :: tl => match last_range tl with Some r => Some r | None => item_range c end
  end.
Definition span_of (ch : list node) : option (N * N) :=
  match first_range ch, last_range ch with
  | Some (s, _), Some (_, e) => Some (s, e)
  | _, _ => None
  end.

Definition range_eqb (a b : option (N * N)) : bool :=
  match a, b with
  | Some (s, e), Some (s', e') => (s =? s')%N && (e =? e')%N
  | None, None => true
  | _, _ => false
  end.

(* children that have a range are ordered left to right and do not overlap *)
Fixpoint ordered_from (i : N) (ch : list node) : bool :=
  match ch with
  | [] => true
  | c :: tl => match item_range c with
               | Some (s, e) => (i <=? s)%N && (s <=? e)%N && ordered_from e tl
               | None => ordered_from i tl
               end
  end.

Fixpoint lark_contract (src : text) (n : node) : bool :=
  match n with
  | Tok _ None v => match v with [] => true | _ => false end            (* a token inserted by InsertMissing *)
  | Tok _ (Some (s, e)) v => (s <=? e)%N && (e <=? tlen src)%N && text_eqb (sub src s e) v
  | Tree _ m ch => range_eqb m (span_of ch) && ordered_from 0%N ch && forallb (lark_contract src) ch
  end.

(* grammars without %ignore (ProblemRecordParser): the tokens tile the source *)
Fixpoint tokens_of (n : node) : list (option (N * N) * text) :=
  match n with
  | Tok _ p v => [(p, v)]
  | Tree _ _ ch => flat_map tokens_of ch
  end.
Fixpoint cover_from (src : text) (cur : N) (toks : list (option (N * N) * text)) : bool :=
  match toks with
  | [] => (cur =? tlen src)%N
  | (None, v) :: tl => match v with [] => cover_from src cur tl | _ => false end
  | (Some (s, e), v) :: tl =>
      (s =? cur)%N && (s <=? e)%N && (e <=? tlen src)%N && text_eqb (sub src s e) v && cover_from src e tl
  end.
Definition cover_contract (src : text) (n : node) : bool := cover_from src 0%N (tokens_of n).

(* ---- InsertMissing (a lark Visitor: bottom-up, inserted nodes are not visited) ------------------ *)
Definition insert_at {A} (pos : nat) (x : A) (l : list A) : list A := firstn pos l ++ x :: skipn pos l.

(* rule names of the post-processing specs are texts; the tree's rule ids are resolved through names *)
Section Missing.
  Variable rule_id : text -> positive.              (* name -> id used in the exported trees *)
  Variable is_token_name : text -> bool.            (* rule == rule.upper() *)

  Definition empty_node (name : text) : node :=
    if is_token_name name then Tok (rule_id name) None [] else Tree (rule_id name) None [].

  Definition insert_one (ch : list node) (pn : nat * text) : list node :=
    if existsb (fun c => Pos.eqb (rule_of c) (rule_id (snd pn))) ch then ch
    else insert_at (fst pn) (empty_node (snd pn)) ch.

  Definition apply_dict (r : positive) (ch : list node) (d : list (text * list (nat * text))) : list node :=
    match find (fun kv => Pos.eqb (rule_id (fst kv)) r) d with
    | Some kv => fold_left insert_one (snd kv) ch
    | None => ch
    end.

  Fixpoint insert_missing (spec : list (list (text * list (nat * text)))) (n : node) : node :=
    match n with
    | Tok _ _ _ => n
    | Tree r m ch => Tree r m (fold_left (apply_dict r) spec (map (insert_missing spec) ch))
    end.

  (* InitOrLow.theta: rename init_or_low to low when a sibling subtree is init/up, else to init *)
  Variable r_theta r_init r_up r_low r_init_or_low : positive.
  Definition is_tree (n : node) : bool := match n with Tree _ _ _ => true | Tok _ _ _ => false end.
  Definition rename_iol (to : positive) (n : node) : node :=
    match n with
    | Tree r m ch => if Pos.eqb r r_init_or_low then Tree to m ch else n
    | Tok _ _ _ => n
    end.
  Fixpoint init_or_low (n : node) : node :=
    match n with
    | Tok _ _ _ => n
    | Tree r m ch =>
        let ch' := map init_or_low ch in
        if Pos.eqb r r_theta then
          let is_low := existsb (fun c => is_tree c && (Pos.eqb (rule_of c) r_init || Pos.eqb (rule_of c) r_up)) ch' in
          Tree r m (map (rename_iol (if is_low then r_low else r_init)) ch')
        else Tree r m ch'
    end.

  (* GenericParser.parse: root = lark.parse(buffer); for processor in post_process: ... *)
  Definition run_step (src : text) (t : node) (s : step) : option node :=
    match s with
    | StepInsertMissing spec => Some (insert_missing spec t)
    | StepInitOrLow => Some (init_or_low t)
    | StepInterleave => with_ignored src t
    end.
  Fixpoint run_steps (src : text) (t : node) (ss : list step) : option node :=
    match ss with
    | [] => Some t
    | s :: tl => match run_step src t s with Some t' => run_steps src t' tl | None => None end
    end.
End Missing.

Definition is_interleave (s : step) : bool := match s with StepInterleave => true | _ => false end.
Definition has_interleave (ss : list step) : bool := existsb is_interleave ss.
(* with_ignored_tokens may only be the last post-processor (it is, for every parser class) *)
Definition steps_ok (ss : list step) : bool := forallb (fun s => negb (is_interleave s)) (removelast ss).

(* _from_lark_tree: positions are dropped *)
Fixpoint erase (n : node) : node :=
  match n with
  | Tok r _ v => Tok r None v
  | Tree r _ ch => Tree r None (map erase ch)
  end.

Definition opt_pair_eqb (a b : option (N * N)) : bool := range_eqb a b.
Fixpoint node_eqb (a b : node) : bool :=
  match a, b with
  | Tok r p v, Tok r' p' v' => Pos.eqb r r' && opt_pair_eqb p p' && text_eqb v v'
  | Tree r m ch, Tree r' m' ch' =>
      Pos.eqb r r' && opt_pair_eqb m m' &&
      (fix go (l l' : list node) : bool :=
         match l, l' with
         | [], [] => true
         | x :: tl, y :: tl' => node_eqb x y && go tl tl'
         | _, _ => false
         end) ch ch'
  | _, _ => false
  end.

(* ================================================================================================
   6. create_record and NMTranParser.parse over an oracle for lark *)
Inductive perr := EBadName | ESyntax | EInternal | ESizesOrder.
Definition perr_eqb (a b : perr) : bool :=
  match a, b with
  | EBadName, EBadName | ESyntax, ESyntax | EInternal, EInternal | ESizesOrder, ESizesOrder => true
  | _, _ => false
  end.
Inductive res (A : Type) := Ok (a : A) | Err (e : perr).
Arguments Ok {A} a. Arguments Err {A} e.

Inductive record :=
| RawRec (name raw_name content : text)
| ParsedRec (name raw_name : text) (root : node).

Definition record_name (r : record) : text := match r with RawRec n _ _ => n | ParsedRec n _ _ => n end.
(* RawRecord.__str__ = raw_name + content ; Record.__str__ = raw_name + str(root) *)
Definition record_str (r : record) : text :=
  match r with RawRec _ rn c => rn ++ c | ParsedRec _ rn root => rn ++ str root end.
Definition stream_str (rs : list record) : text := flat_map record_str rs.

Definition s_PROBLEM : text := [80; 82; 79; 66; 76; 69; 77]%N.
Definition s_SIZES : text := [83; 73; 90; 69; 83]%N.

Section Parse.
  Variable tb : tables.
  (* lark.parse of the parser class on the content: None = the grammar refuses (engine) *)
  Variable lark : text -> text -> option node.
  (* the post_process tuple of the parser class (exported from the real classes) *)
  Variable steps_of : text -> list step.
  Variable rule_id : text -> positive.
  Variable is_token_name : text -> bool.
  Variable r_theta r_init r_up r_low r_init_or_low : positive.

  Definition parser_of (name : text) : option text :=
    match find (fun k => text_eqb (known_name k) name) (t_known tb) with
    | Some k => Some (snd k)
    | None => None
    end.

  Definition create_record (chunk : text) : res record :=
    match split_raw_record_name chunk with
    | None => Err EBadName
    | Some (raw_name, content) =>
        match canonical_name tb raw_name with
        | Some name =>
            match parser_of name with
            | None => Err EInternal                                           (* KeyError: cannot happen for the real tables *)
            | Some p =>
                match lark p content with
                | None => Err ESyntax
                | Some t0 =>
                    match run_steps rule_id is_token_name r_theta r_init r_up r_low r_init_or_low content t0 (steps_of p) with
                    | None => Err EInternal
                    | Some t => Ok (ParsedRec name raw_name (erase t))
                    end
                end
            end
        | None => Ok (RawRec (tl raw_name) raw_name content)                  (* name = raw_name[1:] *)
        end
    end.

  Fixpoint create_all (chunks : list (text * text)) : res (list record) :=
    match chunks with
    | [] => Ok []
    | c :: tl => match create_record (chunk_str c) with
                 | Err e => Err e
                 | Ok r => match create_all tl with Err e => Err e | Ok rs => Ok (r :: rs) end
                 end
    end.

  (* the SIZES-after-PROBLEM test *)
  Fixpoint sizes_ok (in_problem : bool) (rs : list record) : bool :=
    match rs with
    | [] => true
    | r :: tl =>
        if in_problem && text_eqb (record_name r) s_SIZES then false
        else sizes_ok (in_problem || text_eqb (record_name r) s_PROBLEM) tl
    end.

  Definition parse (t : text) : res (list record) :=
    let (first, chunks) := split_records t in
    match create_all chunks with
    | Err e => Err e
    | Ok rs =>
        let rs' := match first with [] => rs | _ => RawRec [] [] first :: rs end in
        if sizes_ok false rs' then Ok rs' else Err ESizesOrder
    end.
End Parse.

(* ================================================================================================
   7. NMTranControlStream edits.  Records are compared by identity in Python (`rec not in old`,
   no __eq__ on Record/RawRecord): every record object carries an identity. *)
Section Edits.
  Variable A : Type.
  Variable rname : A -> text.
  Variable rid : A -> positive.
  Variable order : list text.                 (* default_record_order *)

  Definition mem_id (r : A) (l : list A) : bool := existsb (fun x => Pos.eqb (rid x) (rid r)) l.
  Definition name_is (n : text) (r : A) : bool := text_eqb (rname r) n.
  Definition name_in (ns : list text) (r : A) : bool := existsb (text_eqb (rname r)) ns.

  Fixpoint index_of (n : text) (l : list text) : option nat :=
    match l with
    | [] => None
    | x :: tl => if text_eqb x n then Some 0 else option_map S (index_of n tl)
    end.

  (* last index i such that record i lies in problem number `active` (0-based) and satisfies p;
     cp = current_problem + 1 *)
  Fixpoint last_in_problem (p : A -> bool) (active : nat) (cp i : nat) (l : list A) (acc : option nat) : option nat :=
    match l with
    | [] => acc
    | r :: tl =>
        let cp' := if name_is s_PROBLEM r then S cp else cp in
        last_in_problem p active cp' (S i) tl (if Nat.eqb cp' (S active) && p r then Some i else acc)
    end.

  Definition insert_pos (l : list A) (r : A) (at_index : option nat) (active : nat) : nat :=
    match at_index with
    | Some k => k                                                     (* `if at_index is not None:` *)
    | None =>
        match last_in_problem (name_is (rname r)) active 0 0 l None with
        | Some i => S i
        | None =>
            let before := match index_of (rname r) order with Some d => firstn d order | None => [] end in
            match last_in_problem (name_in before) active 0 0 l None with
            | Some i => S i
            | None => S (length l)                                    (* index = len(records); records[0:index+1] *)
            end
        end
    end.

  Definition insert_record (l : list A) (r : A) (at_index : option nat) (active : nat) : list A :=
    let k := insert_pos l r at_index active in firstn k l ++ r :: skipn k l.

  Definition remove_records (l old : list A) : list A := filter (fun r => negb (mem_id r old)) l.

  Fixpoint replace_records_go (old new : list A) (first : bool) (l : list A) : list A :=
    match l with
    | [] => []
    | r :: tl =>
        if negb (mem_id r old) then r :: replace_records_go old new first tl
        else if first then new ++ replace_records_go old new false tl
        else replace_records_go old new false tl
    end.
  Definition replace_records (l old new : list A) : list A := replace_records_go old new true l.

  Fixpoint replace_all_go (n : text) (new : list A) (first : bool) (l : list A) : list A * bool :=
    match l with
    | [] => ([], first)
    | r :: tl =>
        if name_is n r then
          if first then let (k, f) := replace_all_go n new false tl in (new ++ k, f)
          else replace_all_go n new false tl
        else let (k, f) := replace_all_go n new first tl in (r :: k, f)
    end.

  (* after_index + 1 of the insertion branch *)
  Fixpoint after_pos (index : nat) (i : nat) (keep : list A) (acc : nat) : nat :=
    match keep with
    | [] => acc
    | r :: tl =>
        let cur := match index_of (rname r) order with Some c => c | None => 0 end in
        after_pos index (S i) tl (if cur <? index then S i else acc)
    end.

  (* same number of records: next(it) if rec.name == name else rec *)
  Fixpoint subst_named (n : text) (it : list A) (l : list A) : list A :=
    match l with
    | [] => []
    | r :: tl =>
        if name_is n r then match it with
                            | x :: it' => x :: subst_named n it' tl
                            | [] => subst_named n [] tl              (* StopIteration cannot happen: lengths are equal *)
                            end
        else r :: subst_named n it tl
    end.

  (* None = ValueError from default_record_order.index(name) *)
  Definition replace_all (l : list A) (n : text) (new : list A) : option (list A) :=
    if Nat.eqb (length new) (length (filter (name_is n) l)) then Some (subst_named n new l) else
    let (keep, first) := replace_all_go n new true l in
    if first then
      match index_of n order with
      | None => None
      | Some index =>
          let k := after_pos index 0 keep (length keep) in
          Some (firstn k keep ++ new ++ skipn k keep)
      end
    else Some keep.

  (* get_records(name, problem_no) *)
  Fixpoint get_records_go (n : text) (pno cp : nat) (l : list A) : list A :=
    match l with
    | [] => []
    | r :: tl =>
        let cp' := if name_is s_PROBLEM r then S cp else cp in
        (if Nat.eqb cp' (S pno) && name_is n r then [r] else []) ++ get_records_go n pno cp' tl
    end.
  Definition get_records (l : list A) (n : text) (pno : nat) : list A := get_records_go n pno 0 l.

  (* the records named n form one block *)
  Fixpoint contig_go (n : text) (st : nat) (l : list A) : bool :=
    match l with
    | [] => true
    | r :: tl =>
        if name_is n r then match st with 2 => false | _ => contig_go n 1 tl end
        else contig_go n (match st with 0 => 0 | _ => 2 end) tl
    end.
  Definition contiguous (n : text) (l : list A) : bool := contig_go n 0 l.

  (* update.update_abbr_record at the level of the record list: the $ABBREVIATED records that are not kept are
     dropped (replace_all), then one new record per renamed eta is inserted (insert_record) *)
  Variable s_abbr : text.

  (* update_abbr_record with its keep decision.  rmap = rec.translate_to_pharmpy_names() as (nonmem name, pharmpy name)
     pairs; rv = rv_trans as (pharmpy name, nonmem name) pairs in dict order; mk creates '$ABBR REPLACE pp=nm' *)
  Variable rmap : A -> list (text * text).
  Fixpoint alookup_t (k : text) (d : list (text * text)) : option text :=
    match d with
    | [] => None
    | (k', v) :: tl => if text_eqb k' k then Some v else alookup_t k tl
    end.
  Definition s_ETA_lpar : text := [69; 84; 65; 40]%N.      (* 'ETA(' *)
  Definition abbr_keep (rv : list (text * text)) (r : A) : bool :=
    forallb (fun p => (match alookup_t (snd p) rv with Some nm => text_eqb nm (fst p) | None => false end)
                      || negb (is_prefix s_ETA_lpar (fst p))) (rmap r).
  Definition rv_pop (rv : list (text * text)) (r : A) : list (text * text) :=
    filter (fun kv => negb (existsb (fun p => text_eqb (snd p) (fst kv)) (rmap r))) rv.
  Fixpoint abbr_scan (recs : list A) (rv : list (text * text)) : list A * list (text * text) :=
    match recs with
    | [] => ([], rv)
    | r :: tl =>
        if abbr_keep rv r then let (k, rv') := abbr_scan tl (rv_pop rv r) in (r :: k, rv')
        else abbr_scan tl rv
    end.
  Definition update_abbr_record (l : list A) (rv : list (text * text)) (mk : text * text -> A) : option (list A) :=
    let (keep, rv') := abbr_scan (get_records l s_abbr 0) rv in
    match replace_all l s_abbr keep with
    | Some l1 => Some (fold_left (fun acc kv => insert_record acc (mk kv) None 0) rv' l1)
    | None => None
    end.

  (* the same with the keep decision and the new records as parameters *)
  Definition update_abbr (l : list A) (keep : A -> bool) (new : list A) : option (list A) :=
    match replace_all l s_abbr (filter keep (get_records l s_abbr 0)) with
    | Some l1 => Some (fold_left (fun acc r => insert_record acc r None 0) new l1)
    | None => None
    end.
End Edits.

(* ================================================================================================
   8. CodeRecord.update_statements with _index_statements_diff.
   Nodes and statements are abstract; the LCS diff (pharmpy.internals.sequence.lcs.diff) and the
   code generator _statement_to_nodes are parameters. *)
Section Update.
  Variable Nd St : Type.
  Variable gen : St -> list Nd.        (* _statement_to_nodes (defined_symbols only affects the text generated) *)

  Inductive dop := DDel | DKeep | DIns.          (* -1, 0, +1 *)
  Definition dop_eqb (a b : dop) : bool :=
    match a, b with DDel, DDel | DKeep, DKeep | DIns, DIns => true | _, _ => false end.

  Definition idx := (nat * nat * nat * nat)%type.      (* (ni, nj, si, sj) *)

  (* collect the remaining `expected` non-insert entries of the group, with interleaved insertions *)
  Fixpoint take_group (expected : nat) (it : list (dop * St)) {struct it}
    : option (list (dop * St) * list (dop * St)) :=
    match expected with
    | 0 => Some ([], it)                                       (* while expected > 0 *)
    | S e =>
        match it with
        | [] => None                                           (* next(it) raises StopIteration *)
        | (op, s) :: tl =>
            match take_group (if dop_eqb op DIns then expected else e) tl with
            | Some (g, rest) => Some ((op, s) :: g, rest)
            | None => None
            end
        end
    end.

  (* yields of _index_statements_diff: (op, statements, ni, nj) *)
  Definition grp := (dop * list St * nat * nat)%type.

  Fixpoint isd (fuel : nat) (last_node_index : nat) (index : list idx) (it : list (dop * St)) : option (list grp) :=
    match fuel with
    | 0 => None
    | S f =>
        match it with
        | [] => Some []
        | (op, s) :: tl =>
            if dop_eqb op DIns then
              match isd f last_node_index index tl with
              | Some r => Some ((DIns, [s], last_node_index, last_node_index) :: r)
              | None => None
              end
            else
              match index with
              | [] => None                                                   (* assert index_index < len(index) *)
              | (ni, nj, si, sj) :: index' =>
                  match take_group (sj - si - 1) tl with
                  | None => None
                  | Some (g, rest) =>
                      let ops := (op, s) :: g in
                      match isd f nj index' rest with
                      | None => None
                      | Some r =>
                          if forallb (fun p => dop_eqb (fst p) DKeep) ops then
                            Some ((DKeep, map snd ops, ni, nj) :: r)
                          else
                            let removed := map snd (filter (fun p => negb (dop_eqb (fst p) DIns)) ops) in
                            let kept := map snd (filter (fun p => negb (dop_eqb (fst p) DDel)) ops) in
                            Some ((DDel, removed, ni, nj) ::
                                  match kept with [] => r | _ => (DIns, kept, nj, nj) :: r end)
                      end
                  end
              end
        end
    end.

  (* the main loop of update_statements: (new_children, last_node_index) *)
  Fixpoint us_loop (children : list Nd) (groups : list grp) (last_node_index : nat) : list Nd :=
    match groups with
    | [] => skipn last_node_index children
    | (op, sts, ni, nj) :: tl =>
        firstn (ni - last_node_index) (skipn last_node_index children) ++
        match op with
        | DIns => flat_map gen sts
        | DKeep => firstn (nj - ni) (skipn ni children)
        | DDel => []
        end ++ us_loop children tl nj
    end.

  Definition update_children (children : list Nd) (index : list idx) (first_statement_index : nat)
             (script : list (dop * St)) : option (list Nd) :=
    match isd (S (length script)) first_statement_index index script with
    | Some groups => Some (us_loop children groups 0)
    | None => None
    end.

  (* first_statement_index of update_statements: just before the first statement, else just before the first
     verbatim child, else after all children (verb = which root children are `verbatim` trees) *)
  Fixpoint first_true (i : nat) (l : list bool) : option nat :=
    match l with
    | [] => None
    | b :: tl => if b then Some i else first_true (S i) tl
    end.
  Definition first_statement_index (index : list idx) (verb : list bool) : nat :=
    match index with
    | (ni, _, _, _) :: _ => ni
    | [] => match first_true 0 verb with Some i => i | None => length verb end
    end.
  Definition update_statements_children (children : list Nd) (verb : list bool) (index : list idx)
             (script : list (dop * St)) : option (list Nd) :=
    update_children children index (first_statement_index index verb) script.

  (* the new node-to-statement index that update_statements stores in the new record (self._index of the result):
     pos = len(new_children) so far, si = progress in the new statement list *)
  Fixpoint ins_idx (sts : list St) (pos si : nat) : list idx * nat * nat :=
    match sts with
    | [] => ([], pos, si)
    | s :: tl =>
        let n := length (gen s) in
        let '(r, pos', si') := ins_idx tl (pos + n) (S si) in
        ((pos, pos + n, si, S si) :: r, pos', si')
    end.
  Fixpoint us_idx (children : list Nd) (groups : list grp) (last pos si : nat) : list idx :=
    match groups with
    | [] => []
    | (op, sts, ni, nj) :: tl =>
        let pos1 := pos + length (firstn (ni - last) (skipn last children)) in
        match op with
        | DIns => let '(r, pos2, si2) := ins_idx sts pos1 si in r ++ us_idx children tl nj pos2 si2
        | DKeep => (pos1, pos1 + (nj - ni), si, si + length sts) ::
                   us_idx children tl nj (pos1 + length (firstn (nj - ni) (skipn ni children))) (si + length sts)
        | DDel => us_idx children tl nj pos1 si
        end
    end.
  Definition update_statements_index (children : list Nd) (verb : list bool) (index : list idx)
             (script : list (dop * St)) : option (list idx) :=
    match isd (S (length script)) (first_statement_index index verb) index script with
    | Some groups => Some (us_idx children groups 0 0 0)
    | None => None
    end.
End Update.

(* ================================================================================================
   9. update.update_sizes with SizesRecord.set_LTH / set_PC: which options the regenerated $SIZES record carries.
   Thresholds are regenerated from records/sizes_record.py.  None = ValueError (more than pc_max compartments). *)
Record sizes_thr := mkSizesThr { lth_bound : nat;      (* set_LTH: `if value < 101` removes the option *)
                                 pc_default : nat;     (* set_PC: `if value > 30` sets the option *)
                                 pc_max : nat }.       (* set_PC: `if value > 99` raises *)
Inductive sizes_opt := OptLTH (v : nat) | OptPC (v : nat).
Definition sizes_opt_eqb (a b : sizes_opt) : bool :=
  match a, b with OptLTH x, OptLTH y | OptPC x, OptPC y => Nat.eqb x y | _, _ => false end.

(* starting from a fresh '$SIZES ' record (no $SIZES in problem 0): set_PC when the model has a compartmental
   system, then set_LTH *)
Definition sizes_opts (t : sizes_thr) (ntheta ncomp : nat) (has_cs : bool) : option (list sizes_opt) :=
  if has_cs && (pc_max t <? ncomp) then None
  else Some ((if has_cs && (pc_default t <? ncomp) then [OptPC ncomp] else []) ++
             (if ntheta <? lth_bound t then [] else [OptLTH ntheta])).

Section SizesEdit.
  Variable A : Type.
  Variable rname : A -> text.
  Variable rid : A -> positive.
  Variable order : list text.
  (* update_sizes on the record list: `if len(str(sizes)) > 7` <-> some option is set.  The existing record is looked
     for among ALL records (it precedes $PROBLEM); a new one goes before the first $PROBLEM.
     None = ValueError from names.index('PROBLEM') *)
  Fixpoint first_named (n : text) (i : nat) (l : list A) : option nat :=
    match l with
    | [] => None
    | r :: tl => if name_is A rname n r then Some i else first_named n (S i) tl
    end.
  Definition update_sizes_records (l : list A) (needed : bool) (new : A) : option (list A) :=
    match filter (name_is A rname s_SIZES) l with
    | [] => if needed then match first_named s_PROBLEM 0 l with
                           | Some i => Some (insert_record A rname order l new (Some i) 0)
                           | None => None
                           end
            else Some l
    | r0 :: _ => if needed then Some (replace_records A rid l [r0] [new]) else Some l
    end.
End SizesEdit.

(* ================================================================================================
   10. update_source as a program of edit-method calls (what model.py / update.py do to the record list) *)
Section Calls.
  Variable A : Type.
  Variable rname : A -> text.
  Variable rid : A -> positive.
  Variable rstr : A -> text.
  Variable order : list text.

  Inductive ecall :=
  | EIns (r : A) (at_index : option nat)
  | ERem (olds : list A)
  | ERepl (olds news : list A)
  | EAll (n : text) (news : list A).

  Definition run_call (l : list A) (c : ecall) : option (list A) :=
    match c with
    | EIns r at_index => Some (insert_record A rname order l r at_index 0)
    | ERem olds => Some (remove_records A rid l olds)
    | ERepl olds news => Some (replace_records A rid l olds news)
    | EAll n news => replace_all A rname order l n news
    end.
  Fixpoint run_calls (l : list A) (cs : list ecall) : option (list A) :=
    match cs with
    | [] => Some l
    | c :: tl => match run_call l c with Some l' => run_calls l' tl | None => None end
    end.

  Definition in_kinds (K : list text) (r : A) : bool := existsb (text_eqb (rname r)) K.
  (* what a reader of the control stream sees of a record *)
  Definition view (r : A) : text * text := (rname r, rstr r).
  (* the records whose kind is not in K: names and texts, in order *)
  Definition fview (K : list text) (l : list A) : list (text * text) :=
    map view (filter (fun r => negb (in_kinds K r)) l).

  (* the call only involves records of the kinds K *)
  Definition call_within (K : list text) (l : list A) (c : ecall) : bool :=
    match c with
    | EIns r _ => in_kinds K r
    | ERem olds => forallb (fun x => negb (mem_id A rid x olds) || in_kinds K x) l
    | ERepl olds news => forallb (fun x => negb (mem_id A rid x olds) || in_kinds K x) l && forallb (in_kinds K) news
    | EAll n news => existsb (text_eqb n) K && forallb (name_is A rname n) news
    end.
  (* the call leaves the names and texts of all records as they are (e.g. replace_all with regenerated, textually identical records) *)
  Definition call_neutral (l : list A) (c : ecall) : bool :=
    match run_call l c with
    | Some l' => list_eqb (fun a b => text_eqb (fst a) (fst b) && text_eqb (snd a) (snd b)) (map view l') (map view l)
    | None => false
    end.
  Fixpoint calls_ok (K : list text) (l : list A) (cs : list ecall) : bool :=
    match cs with
    | [] => true
    | c :: tl => (call_within K l c || call_neutral l c) &&
                 match run_call l c with Some l' => calls_ok K l' tl | None => false end
    end.
End Calls.

(* ================================================================================================
   11. records/option_record.py: set_option, remove_option, append_option(_node), prepend_option, replace_option
   as surgery on the children of the record's root.  None = the Python code raises
   (NoSuchRuleException from _get_key, IndexError from children[-1] of an empty root). *)
Section Options.
  Variable r_option r_KEY r_VALUE r_EQUAL r_WS r_NEWLINE : positive.

  Definition is_option (n : node) : bool :=
    match n with Tree r _ _ => Pos.eqb r r_option | Tok _ _ _ => false end.
  Definition is_ws_tok (n : node) : bool := Pos.eqb (rule_of n) r_WS.
  (* AttrTree.leaf(rule): the first TOKEN child with that rule *)
  Fixpoint leaf (rule : positive) (ch : list node) : option text :=
    match ch with
    | [] => None
    | Tok r _ v :: tl => if Pos.eqb r rule then Some v else leaf rule tl
    | Tree _ _ _ :: tl => leaf rule tl
    end.
  Definition get_key (n : node) : option text := match n with Tree _ _ ch => leaf r_KEY ch | Tok _ _ _ => None end.
  Definition get_value (n : node) : option text := match n with Tree _ _ ch => leaf r_VALUE ch | Tok _ _ _ => None end.

  (* AttrTree.replace_first(child): the first child (tree or token) with child's rule is replaced *)
  Fixpoint replace_first_go (new : node) (ch : list node) : list node :=
    match ch with
    | [] => []
    | c :: tl => if Pos.eqb (rule_of c) (rule_of new) then new :: tl else c :: replace_first_go new tl
    end.
  Definition replace_first (new : node) (n : node) : node :=
    match n with Tree r m ch => Tree r m (replace_first_go new ch) | Tok _ _ _ => n end.

  (* _create_option *)
  Definition create_option (key : text) (value : option text) : node :=
    match value with
    | None => Tree r_option None [Tok r_KEY None key]
    | Some v => Tree r_option None [Tok r_KEY None key; Tok r_EQUAL None [61%N]; Tok r_VALUE None v]
    end.
  Definition ws_token : node := Tok r_WS None [32%N].
  Definition nl_token : node := Tok r_NEWLINE None [10%N].

  (* an option without a VALUE child (node.find('VALUE') is None) is first replaced by _create_option(key, new_value)
     (1f66dfa); then replace_first(AttrToken('VALUE', new_value)) *)
  Definition has_value (n : node) : bool :=
    match n with Tree _ _ ch => existsb (fun c => Pos.eqb (rule_of c) r_VALUE) ch | Tok _ _ _ => false end.
  Definition set_node (key v : text) (n : node) : node :=
    replace_first (Tok r_VALUE None v) (if has_value n then n else create_option key (Some v)).

  (* the first loop of set_option: None = raised, Some None = no option with that key, Some (Some l) = replaced *)
  Fixpoint set_go (key v : text) (l : list node) : option (option (list node)) :=
    match l with
    | [] => Some None
    | n :: tl =>
        if is_option n then
          match get_key n with
          | None => None
          | Some k =>
              if text_eqb k key then Some (Some (set_node key v n :: tl))
              else match set_go key v tl with
                   | Some (Some r) => Some (Some (n :: r))
                   | x => x
                   end
          end
        else match set_go key v tl with
             | Some (Some r) => Some (Some (n :: r))
             | x => x
             end
    end.
  (* position just behind the last option *)
  Fixpoint after_last_option (i : nat) (l : list node) (acc : option nat) : option nat :=
    match l with
    | [] => acc
    | n :: tl => after_last_option (S i) tl (if is_option n then Some (S i) else acc)
    end.
  Definition set_option (ch : list node) (key v : text) : option (list node) :=
    match set_go key v ch with
    | None => None
    | Some (Some r) => Some r
    | Some None =>
        let new := [ws_token; create_option key (Some v)] in
        match after_last_option 0 ch None with
        | None => Some (new ++ ch)
        | Some k => Some (firstn k ch ++ new ++ skipn k ch)
        end
    end.

  Definition is_target (key : text) (n : node) : option bool :=
    if is_option n then match get_key n with Some k => Some (text_eqb k key) | None => None end else Some false.
  (* remove_option: acc is new_children reversed *)
  Fixpoint remove_go (key : text) (acc : list node) (l : list node) : option (list node) :=
    match l with
    | [] => Some (rev acc)
    | n :: tl =>
        match is_target key n with
        | None => None
        | Some true => match acc with
                       | [] => remove_go key [] tl                          (* `if new_children and ...` (f53bbd9) *)
                       | a :: acc' => if is_ws_tok a then remove_go key acc' tl else remove_go key acc tl
                       end
        | Some false => remove_go key (n :: acc) tl
        end
    end.
  Definition remove_option (ch : list node) (key : text) : option (list node) := remove_go key [] ch.

  (* _append_option_args: scan from the end *)
  Fixpoint append_scan (i : nat) (rl : list node) : nat * node :=       (* rl = children reversed, i = index of its head + 1 *)
    match rl with
    | [] => (0, ws_token)
    | c :: tl => if is_option c then (i, ws_token)
                 else if Pos.eqb (rule_of c) r_WS || Pos.eqb (rule_of c) r_NEWLINE then append_scan (i - 1) tl
                 else (i, nl_token)
    end.
  Definition append_option_node (ch : list node) (nd : node) : option (list node) :=
    match rev ch with
    | [] => None                                                            (* children[-1]: IndexError *)
    | lastc :: _ =>
        let n := length ch in
        let j := if is_ws_tok lastc then n - 1 else n in
        let '(i, sep) := append_scan n (rev ch) in
        Some (firstn i ch ++ sep :: nd :: firstn (j - i) (skipn i ch))
    end.
  Definition append_option (ch : list node) (key : text) (value : option text) : option (list node) :=
    append_option_node ch (create_option key value).

  Definition prepend_option (ch : list node) (key : text) (value : option text) : list node :=
    firstn 1 ch ++ [create_option key value; ws_token] ++ skipn 1 ch.

  (* replace_option: root.map(_fn) *)
  Definition has_rule (rule : positive) (ch : list node) : bool := existsb (fun c => Pos.eqb (rule_of c) rule) ch.
  Definition replace_fn (old new : text) (n : node) : option node :=
    match n with
    | Tree r m ch =>
        if Pos.eqb r r_option then
          if has_rule r_KEY ch then
            match leaf r_KEY ch with
            | None => None
            | Some k => Some (if text_eqb k old then replace_first (Tok r_KEY None new) n else n)
            end
          else if has_rule r_VALUE ch then
            match leaf r_VALUE ch with
            | None => None
            | Some v => Some (if text_eqb v old then replace_first (Tok r_VALUE None new) n else n)
            end
          else Some n
        else Some n
    | Tok _ _ _ => Some n
    end.
  Fixpoint replace_option (ch : list node) (old new : text) : option (list node) :=
    match ch with
    | [] => Some []
    | c :: tl => match replace_fn old new c, replace_option tl old new with
                 | Some c', Some tl' => Some (c' :: tl')
                 | _, _ => None
                 end
    end.
End Options.

(* ================================================================================================
   12. OptionRecord.remove_nth_option(key, n): one pass; an option matches when its key is a PREFIX of `key`
   (key[:len(curkey)] == curkey); the n-th match (0-based) is dropped together with a blank directly before it. *)
Section OptionsNth.
  Variable r_option r_KEY r_WS : positive.
  Definition nth_match (key : text) (nd : node) : option bool :=
    if is_option r_option nd then match get_key r_KEY nd with Some ck => Some (is_prefix ck key) | None => None end
    else Some false.
  Definition pop_ws (acc : list node) : list node :=
    match acc with
    | a :: acc' => if is_ws_tok r_WS a then acc' else acc
    | [] => []
    end.
  Fixpoint remove_nth_go (key : text) (n i : nat) (acc l : list node) : option (list node) :=
    match l with
    | [] => Some (rev acc)
    | nd :: tl =>
        match nth_match key nd with
        | None => None                                                    (* _get_key: NoSuchRuleException *)
        | Some true => if Nat.eqb i n then remove_nth_go key n (S i) (pop_ws acc) tl
                       else remove_nth_go key n (S i) (nd :: acc) tl
        | Some false => remove_nth_go key n i (nd :: acc) tl
        end
    end.
  Definition remove_nth_option (ch : list node) (key : text) (n : nat) : option (list node) :=
    remove_nth_go key n 0 [] ch.
End OptionsNth.
