(* PV.C03.Proofs4 — CodeRecord.update_statements: which nodes of the old tree survive. *)
From Coq Require Import List Bool NArith PArith Arith Lia ZifyBool.
From PV Require Import Base.PyData C03.Model C03.Proofs.
Import ListNotations.
Local Open Scope nat_scope.

Section UpdateProofs.
  Variable Nd St : Type.
  Variable gen : St -> list Nd.
  Variable orig : Nd -> bool.                (* marks the nodes of the old tree *)

  Notation grp' := (grp St).
  Notation us_loop' := (us_loop Nd St gen).
  Notation isd' := (isd St).

  (* groups as produced by _index_statements_diff are ordered by node position; insertions are empty ranges *)
  Fixpoint wf_groups (last : nat) (gs : list grp') : bool :=
    match gs with
    | [] => true
    | (op, _, ni, nj) :: tl =>
        (last <=? ni) && (ni <=? nj) && (if dop_eqb op DIns then ni =? nj else true) && wf_groups nj tl
    end.

  Definition in_del_grp (i : nat) (g : grp') : bool :=
    match g with (op, _, ni, nj) => dop_eqb op DDel && (ni <=? i) && (i <? nj) end.
  Definition in_del (gs : list grp') (i : nat) : bool := existsb (in_del_grp i) gs.

  Fixpoint wf_index (last : nat) (index : list idx) : bool :=
    match index with
    | [] => true
    | (ni, nj, _, _) :: tl => (last <=? ni) && (ni <=? nj) && wf_index nj tl
    end.
  Definition in_index (index : list idx) (i : nat) : bool :=
    existsb (fun e => match e with (ni, nj, _, _) => (ni <=? i) && (i <? nj) end) index.

  (* the elements of l (which starts at position i of the old child list) whose position satisfies keep *)
  Fixpoint select_from (i : nat) (keep : nat -> bool) (l : list Nd) : list Nd :=
    match l with
    | [] => []
    | x :: tl => if keep i then x :: select_from (S i) keep tl else select_from (S i) keep tl
    end.

  Lemma select_from_split : forall keep k i l,
    select_from i keep l = select_from i keep (firstn k l) ++ select_from (i + k) keep (skipn k l).
  Proof.
    intros keep. induction k as [|k IH]; intros i l.
    - cbn [firstn skipn select_from app]. rewrite Nat.add_0_r. reflexivity.
    - destruct l as [|x l]; [reflexivity|]. cbn [firstn skipn select_from].
      rewrite (IH (S i) l). replace (S i + k) with (i + S k) by lia. destruct (keep i); reflexivity.
  Qed.

  Lemma select_from_all : forall keep k i l, (forall j, i <= j -> j < i + k -> keep j = true) ->
    select_from i keep (firstn k l) = firstn k l.
  Proof.
    intros keep. induction k as [|k IH]; intros i l H; [reflexivity|]. destruct l as [|x l]; [reflexivity|].
    cbn [firstn select_from]. rewrite (H i) by lia. f_equal. apply IH. intros j H1 H2. apply H; lia.
  Qed.

  Lemma select_from_none : forall keep k i l, (forall j, i <= j -> j < i + k -> keep j = false) ->
    select_from i keep (firstn k l) = [].
  Proof.
    intros keep. induction k as [|k IH]; intros i l H; [reflexivity|]. destruct l as [|x l]; [reflexivity|].
    cbn [firstn select_from]. rewrite (H i) by lia. apply IH. intros j H1 H2. apply H; lia.
  Qed.

  Lemma select_from_ext : forall keep keep' l i, (forall j, i <= j -> keep j = keep' j) ->
    select_from i keep l = select_from i keep' l.
  Proof.
    intros keep keep'. induction l as [|x l IH]; intros i H; [reflexivity|]. cbn [select_from].
    rewrite (H i) by lia. rewrite (IH (S i)) by (intros; apply H; lia). reflexivity.
  Qed.

  Lemma select_from_true : forall keep l i, (forall j, i <= j -> keep j = true) -> select_from i keep l = l.
  Proof.
    intros keep. induction l as [|x l IH]; intros i H; [reflexivity|]. cbn [select_from]. rewrite (H i) by lia.
    f_equal. apply IH. intros; apply H; lia.
  Qed.

  Lemma in_del_before : forall gs l0 j, wf_groups l0 gs = true -> j < l0 -> in_del gs j = false.
  Proof.
    induction gs as [|[[[op sts] ni] nj] tl IH]; intros l0 j W H; [reflexivity|].
    cbn [wf_groups] in W. apply andb_true_iff in W. destruct W as [W W4]. apply andb_true_iff in W. destruct W as [W W3].
    apply andb_true_iff in W. destruct W as [W1 W2].
    unfold in_del. cbn [existsb in_del_grp]. fold (in_del tl j). rewrite (IH nj j W4) by lia.
    replace (ni <=? j) with false by lia. rewrite andb_false_r. reflexivity.
  Qed.

  (* the nodes of the old tree that the loop of update_statements copies *)
  Fixpoint survivors (children : list Nd) (gs : list grp') (last : nat) : list Nd :=
    match gs with
    | [] => skipn last children
    | (op, _, ni, nj) :: tl =>
        firstn (ni - last) (skipn last children) ++
        (if dop_eqb op DKeep then firstn (nj - ni) (skipn ni children) else []) ++
        survivors children tl nj
    end.

  Lemma filter_all : forall (p : Nd -> bool) l, forallb p l = true -> filter p l = l.
  Proof.
    intros p l. induction l as [|x l IH]; intro H; [reflexivity|]. cbn in *. apply andb_true_iff in H. destruct H as [-> H].
    f_equal. apply IH. exact H.
  Qed.

  Lemma filter_none : forall (p : Nd -> bool) l, forallb (fun x => negb (p x)) l = true -> filter p l = [].
  Proof.
    intros p l. induction l as [|x l IH]; intro H; [reflexivity|]. cbn in *. apply andb_true_iff in H. destruct H as [H1 H].
    apply negb_true_iff in H1. rewrite H1. apply IH. exact H.
  Qed.

  Lemma forallb_firstn : forall (p : Nd -> bool) n l, forallb p l = true -> forallb p (firstn n l) = true.
  Proof.
    intros p n l H. rewrite <- (firstn_skipn n l), forallb_app in H. apply andb_true_iff in H. apply H.
  Qed.

  Lemma forallb_skipn : forall (p : Nd -> bool) n l, forallb p l = true -> forallb p (skipn n l) = true.
  Proof.
    intros p n l H. rewrite <- (firstn_skipn n l), forallb_app in H. apply andb_true_iff in H. apply H.
  Qed.

  Lemma forallb_flat_map : forall (p : Nd -> bool) (f : St -> list Nd) l,
    (forall s, forallb p (f s) = true) -> forallb p (flat_map f l) = true.
  Proof.
    intros p f l H. induction l as [|s l IH]; [reflexivity|]. cbn [flat_map]. rewrite forallb_app, H, IH. reflexivity.
  Qed.

  Lemma us_loop_survivors : forall children,
    forallb orig children = true ->
    (forall s, forallb (fun x => negb (orig x)) (gen s) = true) ->
    forall gs last, filter orig (us_loop' children gs last) = survivors children gs last.
  Proof.
    intros children Ho Hg. induction gs as [|[[[op sts] ni] nj] tl IH]; intro last; cbn [us_loop survivors].
    - apply filter_all. apply forallb_skipn. exact Ho.
    - rewrite !filter_app, IH. f_equal; [apply filter_all, forallb_firstn, forallb_skipn; exact Ho|]. f_equal.
      destruct op; cbn [dop_eqb].
      + reflexivity.
      + apply filter_all, forallb_firstn, forallb_skipn. exact Ho.
      + apply filter_none. apply forallb_flat_map. exact Hg.
  Qed.

  Lemma skipn_skipn' : forall (l : list Nd) a b, a <= b -> skipn (b - a) (skipn a l) = skipn b l.
  Proof. intros l a b H. rewrite <- skipn_add. f_equal. lia. Qed.

  Lemma survivors_select : forall children gs last, wf_groups last gs = true ->
    survivors children gs last = select_from last (fun i => negb (in_del gs i)) (skipn last children).
  Proof.
    intros children. induction gs as [|[[[op sts] ni] nj] tl IH]; intros last W; cbn [survivors].
    - symmetry. apply select_from_true. reflexivity.
    - cbn [wf_groups] in W. apply andb_true_iff in W. destruct W as [W W4]. apply andb_true_iff in W. destruct W as [W W3].
      apply andb_true_iff in W. destruct W as [W1 W2].
      pose (keep := fun i => negb (in_del ((op, sts, ni, nj) :: tl) i)).
      change (select_from last (fun i => negb (in_del ((op, sts, ni, nj) :: tl) i)) (skipn last children))
        with (select_from last keep (skipn last children)).
      rewrite (select_from_split keep (ni - last) last (skipn last children)).
      rewrite skipn_skipn' by lia. replace (last + (ni - last)) with ni by lia.
      rewrite (select_from_split keep (nj - ni) ni (skipn ni children)).
      rewrite skipn_skipn' by lia. replace (ni + (nj - ni)) with nj by lia.
      f_equal; [|f_equal].
      + symmetry. apply select_from_all. intros j H1 H2. subst keep. cbn beta. apply negb_true_iff.
        unfold in_del. cbn [existsb in_del_grp]. fold (in_del tl j). rewrite (in_del_before tl nj j W4) by lia.
        replace (ni <=? j) with false by lia. rewrite andb_false_r. reflexivity.
      + destruct op; cbn [dop_eqb] in *.
        * symmetry. apply select_from_none. intros j H1 H2. subst keep. cbn beta. apply negb_false_iff.
          unfold in_del. cbn [existsb in_del_grp dop_eqb andb].
          replace (ni <=? j) with true by lia. replace (j <? nj) with true by lia. reflexivity.
        * symmetry. apply select_from_all. intros j H1 H2. subst keep. cbn beta. apply negb_true_iff.
          unfold in_del. cbn [existsb in_del_grp dop_eqb]. fold (in_del tl j). rewrite (in_del_before tl nj j W4) by lia. reflexivity.
        * assert (ni = nj) by lia. subst nj. rewrite Nat.sub_diag. reflexivity.
      + rewrite (IH nj W4). apply select_from_ext. intros j Hj. subst keep. cbn beta. f_equal.
        unfold in_del. cbn [existsb in_del_grp]. destruct (dop_eqb op DDel); cbn [andb orb]; [|reflexivity].
        replace (j <? nj) with false by lia. rewrite andb_false_r. reflexivity.
  Qed.

  (* ---- _index_statements_diff produces well-formed groups whose deleted ranges are index ranges ---- *)
  Lemma isd_wf : forall fuel last index it gs,
    isd' fuel last index it = Some gs -> wf_index last index = true ->
    wf_groups last gs = true /\ forall i, in_del gs i = true -> in_index index i = true.
  Proof.
    induction fuel as [|f IH]; intros last index it gs H W; [discriminate|]. cbn [isd] in H.
    destruct it as [|[op s] tl]; [injection H as <-; split; [reflexivity | discriminate]|].
    destruct (dop_eqb op DIns) eqn:EI.
    - destruct (isd' f last index tl) as [r|] eqn:R; [|discriminate]. injection H as <-.
      destruct (IH _ _ _ _ R W) as [W' D]. split.
      + cbn [wf_groups dop_eqb]. rewrite W'. rewrite Nat.leb_refl, Nat.eqb_refl. reflexivity.
      + intros i Hi. apply D. unfold in_del in *. cbn [existsb in_del_grp dop_eqb] in Hi. exact Hi.
    - destruct index as [|[[[ni nj] si] sj] index']; [discriminate|].
      destruct (take_group St (sj - si - 1) tl) as [[g rest]|] eqn:TG; [|discriminate].
      destruct (isd' f nj index' rest) as [r|] eqn:R; [|discriminate].
      cbn [wf_index] in W. apply andb_true_iff in W. destruct W as [W W3]. apply andb_true_iff in W. destruct W as [W1 W2].
      destruct (IH _ _ _ _ R W3) as [W' D].
      assert (forall i, in_del r i = true -> in_index ((ni, nj, si, sj) :: index') i = true) as D'.
      { intros i Hi. unfold in_index. cbn [existsb]. fold (in_index index' i). rewrite (D i Hi). apply orb_true_r. }
      destruct (forallb (fun p => dop_eqb (fst p) DKeep) ((op, s) :: g)).
      + injection H as <-. split.
        * cbn [wf_groups dop_eqb]. rewrite W'. cbn. lia.
        * intros i Hi. unfold in_del in Hi. cbn [existsb in_del_grp dop_eqb] in Hi. cbn [andb orb] in Hi. apply D'. exact Hi.
      + assert (forall i, in_del ((DDel, map snd (filter (fun p => negb (dop_eqb (fst p) DIns)) ((op, s) :: g)), ni, nj) :: r) i = true ->
                          in_index ((ni, nj, si, sj) :: index') i = true) as D2.
        { intros i Hi. unfold in_del in Hi. cbn [existsb in_del_grp dop_eqb] in Hi. apply orb_true_iff in Hi. destruct Hi as [Hi | Hi].
          - unfold in_index. cbn [existsb]. cbn [andb] in Hi. rewrite Hi. reflexivity.
          - apply D'. exact Hi. }
        destruct (map snd (filter (fun p => negb (dop_eqb (fst p) DDel)) ((op, s) :: g))) as [|k0 ks]; injection H as <-.
        * split; [cbn [wf_groups dop_eqb]; rewrite W'; cbn; lia | exact D2].
        * split.
          -- cbn [wf_groups dop_eqb]. rewrite W'. cbn. lia.
          -- intros i Hi. unfold in_del in Hi. cbn [existsb in_del_grp dop_eqb] in Hi.
             apply orb_true_iff in Hi. destruct Hi as [Hi | Hi].
             ++ apply D2. unfold in_del. cbn [existsb in_del_grp dop_eqb]. rewrite Hi. reflexivity.
             ++ cbn [andb orb] in Hi. apply D'. exact Hi.
  Qed.

  (* frame theorem: the nodes of the old tree that appear in the new tree are exactly those at positions `keep`,
     in the old order; every position outside all statement ranges of the index is kept *)
  Lemma update_children_frame : forall children index first script res,
    forallb orig children = true ->
    (forall s, forallb (fun x => negb (orig x)) (gen s) = true) ->
    wf_index first index = true ->
    update_children Nd St gen children index first script = Some res ->
    exists keep, filter orig res = select_from 0 keep children /\
                 forall i, in_index index i = false -> keep i = true.
  Proof.
    intros children index first script res Ho Hg W H. unfold update_children in H.
    destruct (isd' (S (length script)) first index script) as [gs|] eqn:I; [|discriminate]. injection H as <-.
    destruct (isd_wf _ _ _ _ _ I W) as [Wg D].
    assert (wf_groups 0 gs = true) as Wg0.
    { destruct gs as [|[[[op sts] ni] nj] tl]; [reflexivity|]. cbn [wf_groups] in *.
      apply andb_true_iff in Wg. destruct Wg as [Wg W4]. apply andb_true_iff in Wg. destruct Wg as [Wg W3].
      apply andb_true_iff in Wg. destruct Wg as [Wg1 Wg2]. rewrite W4, W3, Wg2. reflexivity. }
    exists (fun i => negb (in_del gs i)). split.
    - rewrite us_loop_survivors by assumption. rewrite survivors_select by exact Wg0. reflexivity.
    - intros i Hi. apply negb_true_iff. destruct (in_del gs i) eqn:E; [|reflexivity]. rewrite (D i E) in Hi. discriminate.
  Qed.

  (* ---- nothing changes when the diff keeps every statement ---- *)
  Lemma take_group_forallb : forall (P : dop * St -> bool) it e g rest,
    take_group St e it = Some (g, rest) -> forallb P it = true -> forallb P g = true /\ forallb P rest = true.
  Proof.
    induction it as [|[op s] tl IH]; intros e g rest H HP.
    - destruct e; cbn in H; [injection H as <- <-; split; reflexivity | discriminate].
    - destruct e as [|e]; cbn [take_group] in H; [injection H as <- <-; split; [reflexivity | exact HP]|].
      destruct (take_group St (if dop_eqb op DIns then S e else e) tl) as [[g' rest']|] eqn:T; [|discriminate].
      injection H as <- <-. cbn [forallb] in HP. apply andb_true_iff in HP. destruct HP as [HP1 HP2].
      destruct (IH _ _ _ T HP2) as [A B]. split; [cbn [forallb]; rewrite HP1, A; reflexivity | exact B].
  Qed.

  Lemma isd_all_keep : forall fuel last index it gs,
    isd' fuel last index it = Some gs -> forallb (fun p => dop_eqb (fst p) DKeep) it = true ->
    forallb (fun g => match g with (op, _, _, _) => dop_eqb op DKeep end) gs = true.
  Proof.
    induction fuel as [|f IH]; intros last index it gs H K; [discriminate|]. cbn [isd] in H.
    destruct it as [|[op s] tl]; [injection H as <-; reflexivity|].
    cbn [forallb fst] in K. apply andb_true_iff in K. destruct K as [K1 K2].
    destruct op; try discriminate. cbn [dop_eqb] in H.
    destruct index as [|[[[ni nj] si] sj] index']; [discriminate|].
    destruct (take_group St (sj - si - 1) tl) as [[g rest]|] eqn:TG; [|discriminate].
    destruct (isd' f nj index' rest) as [r|] eqn:R; [|discriminate].
    destruct (take_group_forallb _ _ _ _ _ TG K2) as [Kg Kr].
    cbn [forallb fst dop_eqb andb] in H. rewrite Kg in H. injection H as <-.
    cbn [forallb dop_eqb andb]. eapply IH; eassumption.
  Qed.

  Lemma us_loop_all_keep : forall children gs last,
    wf_groups last gs = true ->
    forallb (fun g => match g with (op, _, _, _) => dop_eqb op DKeep end) gs = true ->
    us_loop' children gs last = skipn last children.
  Proof.
    intros children. induction gs as [|[[[op sts] ni] nj] tl IH]; intros last W K; [reflexivity|].
    cbn [wf_groups] in W. apply andb_true_iff in W. destruct W as [W W4]. apply andb_true_iff in W. destruct W as [W W3].
    apply andb_true_iff in W. destruct W as [W1 W2].
    cbn [forallb] in K. apply andb_true_iff in K. destruct K as [K1 K2]. destruct op; try discriminate.
    cbn [us_loop]. rewrite (IH nj W4 K2).
    rewrite <- (skipn_skipn' children ni nj) by lia. rewrite firstn_skipn.
    rewrite <- (skipn_skipn' children last ni) by lia. apply firstn_skipn.
  Qed.

  Lemma update_children_noop : forall children index first script res,
    wf_index first index = true ->
    forallb (fun p => dop_eqb (fst p) DKeep) script = true ->
    update_children Nd St gen children index first script = Some res -> res = children.
  Proof.
    intros children index first script res W K H. unfold update_children in H.
    destruct (isd' (S (length script)) first index script) as [gs|] eqn:I; [|discriminate]. injection H as <-.
    destruct (isd_wf _ _ _ _ _ I W) as [Wg _].
    assert (wf_groups 0 gs = true) as Wg0.
    { destruct gs as [|[[[op sts] ni] nj] tl]; [reflexivity|]. cbn [wf_groups] in *.
      apply andb_true_iff in Wg. destruct Wg as [Wg W4]. apply andb_true_iff in Wg. destruct Wg as [Wg W3].
      apply andb_true_iff in Wg. destruct Wg as [Wg1 Wg2]. rewrite W4, W3, Wg2. reflexivity. }
    rewrite (us_loop_all_keep children gs 0 Wg0 (isd_all_keep _ _ _ _ _ I K)). reflexivity.
  Qed.
End UpdateProofs.
