(* PV.C03.Proofs3 — frame lemmas for the NMTranControlStream edit methods. *)
From Coq Require Import List Bool NArith PArith Arith Lia ZifyBool.
From PV Require Import Base.PyData C03.Model C03.Proofs.
Import ListNotations.
Local Open Scope nat_scope.

Section EditProofs.
  Variable A : Type.
  Variable rname : A -> text.
  Variable rid : A -> positive.
  Variable order : list text.

  Notation insert_record' := (insert_record A rname order).
  Notation insert_pos' := (insert_pos A rname order).
  Notation remove_records' := (remove_records A rid).
  Notation replace_records' := (replace_records A rid).
  Notation replace_all' := (replace_all A rname order).
  Notation name_is' := (name_is A rname).
  Notation mem_id' := (mem_id A rid).

  Definition other (n : text) (r : A) : bool := negb (name_is' n r).

  (* ---- insert_record ---- *)
  Lemma insert_record_split : forall l r at_index active,
    exists pre post, pre ++ post = l /\ insert_record' l r at_index active = pre ++ r :: post.
  Proof.
    intros l r at_index active. unfold insert_record.
    exists (firstn (insert_pos' l r at_index active) l), (skipn (insert_pos' l r at_index active) l).
    split; [apply firstn_skipn | reflexivity].
  Qed.

  Lemma last_in_problem_spec : forall p active l cp i acc res,
    last_in_problem A rname p active cp i l acc = Some res ->
    (acc = Some res) \/ (i <= res < i + length l /\ exists x, nth_error l (res - i) = Some x /\ p x = true).
  Proof.
    intros p active. induction l as [|r tl IH]; intros cp i acc res H; cbn [last_in_problem] in H; [left; exact H|].
    apply IH in H. destruct H as [H | [H1 [x [H2 H3]]]].
    - destruct (Nat.eqb _ _ && p r) eqn:E; [|left; exact H].
      injection H as <-. right. cbn [length]. split; [lia|]. exists r. replace (i - i) with 0 by lia. split; [reflexivity|].
      apply andb_true_iff in E. apply E.
    - right. cbn [length]. split; [lia|]. exists x. replace (res - i) with (S (res - S i)) by lia. split; assumption.
  Qed.

  (* without at_index, when a record of the same name exists in the active problem the new record is put
     directly after a record of that name and no later record of that problem has the name *)
  Lemma insert_after_same_name : forall l r active i,
    last_in_problem A rname (name_is' (rname r)) active 0 0 l None = Some i ->
    insert_record' l r None active = firstn (S i) l ++ r :: skipn (S i) l /\
    exists x, nth_error l i = Some x /\ rname x = rname r.
  Proof.
    intros l r active i H. unfold insert_record, insert_pos. rewrite H. split; [reflexivity|].
    apply last_in_problem_spec in H. destruct H as [H | [H1 [x [H2 H3]]]]; [discriminate|].
    exists x. rewrite Nat.sub_0_r in H2. split; [exact H2|]. unfold name_is in H3. apply list_eqb_N_eq in H3. exact H3.
  Qed.

  (* ---- remove_records ---- *)
  Lemma remove_records_in : forall l old r, In r (remove_records' l old) <-> In r l /\ mem_id' r old = false.
  Proof.
    intros l old r. unfold remove_records. rewrite filter_In. rewrite negb_true_iff. reflexivity.
  Qed.

  Lemma filter_filter_comm : forall (p q : A -> bool) l, filter p (filter q l) = filter q (filter p l).
  Proof.
    intros p q l. induction l as [|x l IH]; [reflexivity|]. cbn [filter].
    destruct (q x) eqn:Q, (p x) eqn:P; cbn [filter]; rewrite ?Q, ?P, IH; reflexivity.
  Qed.

  Lemma filter_idem_on : forall (p q : A -> bool) l, (forall x, In x l -> p x = true -> q x = true) ->
    filter p (filter q l) = filter p l.
  Proof.
    intros p q l H. induction l as [|x l IH]; [reflexivity|]. cbn [filter].
    assert (forall y, In y l -> p y = true -> q y = true) as H' by (intros; apply H; [right|]; assumption).
    destruct (q x) eqn:Q; cbn [filter].
    - destruct (p x); rewrite IH by exact H'; reflexivity.
    - destruct (p x) eqn:P; [|apply IH; exact H']. rewrite (H x (or_introl eq_refl) P) in Q. discriminate.
  Qed.

  (* removing records that are all of kind n leaves the records of every other kind untouched, in order *)
  Lemma remove_records_other : forall l old n,
    (forall r, In r l -> mem_id' r old = true -> name_is' n r = true) ->
    filter (other n) (remove_records' l old) = filter (other n) l.
  Proof.
    intros l old n H. unfold remove_records. apply filter_idem_on. intros x Hx Ho.
    unfold other in Ho. apply negb_true_iff in Ho. apply negb_true_iff.
    destruct (mem_id' x old) eqn:M; [|reflexivity]. rewrite (H x Hx M) in Ho. discriminate.
  Qed.

  (* ---- replace_records ---- *)
  Lemma replace_records_go_false : forall old new l,
    replace_records_go A rid old new false l = remove_records' l old.
  Proof.
    intros old new. induction l as [|r tl IH]; [reflexivity|]. cbn [replace_records_go remove_records filter].
    destruct (negb (mem_id' r old)); [f_equal|]; exact IH.
  Qed.

  Lemma replace_records_split : forall old new l,
    exists pre post, pre ++ post = remove_records' l old /\
      ((existsb (fun r => mem_id' r old) l = true /\ replace_records' l old new = pre ++ new ++ post) \/
       (existsb (fun r => mem_id' r old) l = false /\ replace_records' l old new = l /\ pre ++ post = l)).
  Proof.
    intros old new. unfold replace_records. induction l as [|r tl IH].
    - exists [], []. split; [reflexivity|]. right. repeat split.
    - cbn [replace_records_go existsb remove_records filter]. destruct (mem_id' r old) eqn:M; cbn [negb orb].
      + exists [], (remove_records' tl old). split; [reflexivity|]. left. split; [reflexivity|].
        rewrite replace_records_go_false. reflexivity.
      + destruct IH as [pre [post [E [[X R] | [X [R E']]]]]].
        * exists (r :: pre), post. split; [cbn; f_equal; exact E|]. left. split; [exact X|]. rewrite R. reflexivity.
        * exists (r :: pre), post. split; [cbn; f_equal; exact E|]. right. split; [exact X|]. rewrite R.
          split; [reflexivity | cbn; f_equal; exact E'].
  Qed.

  (* ---- replace_all ---- *)
  Lemma replace_all_go_false : forall n new l,
    replace_all_go A rname n new false l = (filter (other n) l, false).
  Proof.
    intros n new. induction l as [|r tl IH]; [reflexivity|]. cbn [replace_all_go filter].
    destruct (name_is' n r) eqn:N.
    - assert (other n r = false) as O by (unfold other; rewrite N; reflexivity). rewrite O. exact IH.
    - assert (other n r = true) as O by (unfold other; rewrite N; reflexivity). rewrite O, IH. reflexivity.
  Qed.

  Lemma replace_all_go_true : forall n new l,
    (snd (replace_all_go A rname n new true l) = true /\ fst (replace_all_go A rname n new true l) = l /\ filter (other n) l = l) \/
    (snd (replace_all_go A rname n new true l) = false /\
     exists pre post, fst (replace_all_go A rname n new true l) = pre ++ new ++ post /\ pre ++ post = filter (other n) l).
  Proof.
    intros n new. induction l as [|r tl IH]; [left; repeat split|]. cbn [replace_all_go filter].
    destruct (name_is' n r) eqn:N.
    - assert (other n r = false) as O by (unfold other; rewrite N; reflexivity). rewrite O.
      right. rewrite replace_all_go_false. cbn [fst snd]. split; [reflexivity|]. exists [], (filter (other n) tl). split; reflexivity.
    - assert (other n r = true) as O by (unfold other; rewrite N; reflexivity). rewrite O.
      destruct (replace_all_go A rname n new true tl) as [k f] eqn:G. cbn [fst snd] in *.
      destruct IH as [[F [K E]] | [F [pre [post [K E]]]]].
      + left. subst. repeat split. rewrite E. reflexivity.
      + right. split; [exact F|]. exists (r :: pre), post. subst. split; [reflexivity|]. cbn. f_equal. exact E.
  Qed.

  (* ---- generalities on filters ---- *)
  Lemma filter_true_all : forall (p : A -> bool) l, forallb p l = true -> filter p l = l.
  Proof.
    intros p l. induction l as [|x l IH]; intro H; [reflexivity|]. cbn in *. apply andb_true_iff in H. destruct H as [-> H].
    f_equal. apply IH. exact H.
  Qed.
  Lemma filter_false_all : forall (p : A -> bool) l, forallb (fun x => negb (p x)) l = true -> filter p l = [].
  Proof.
    intros p l. induction l as [|x l IH]; intro H; [reflexivity|]. cbn in *. apply andb_true_iff in H. destruct H as [H1 H].
    apply negb_true_iff in H1. rewrite H1. apply IH. exact H.
  Qed.
  Lemma forallb_filter : forall (p : A -> bool) l, forallb p (filter p l) = true.
  Proof. intros p l. induction l as [|x l IH]; [reflexivity|]. cbn. destruct (p x) eqn:E; [cbn; rewrite E|]; exact IH. Qed.
  Lemma named_not_other : forall n l, forallb (name_is' n) l = true -> forallb (fun x => negb (other n x)) l = true.
  Proof.
    intros n l H. induction l as [|x l IH]; [reflexivity|]. cbn in *. apply andb_true_iff in H. destruct H as [H1 H2].
    unfold other at 1. rewrite H1. cbn. apply IH. exact H2.
  Qed.
  Lemma other_not_named : forall n l, forallb (other n) l = true -> forallb (fun x => negb (name_is' n x)) l = true.
  Proof. intros n l H. exact H. Qed.

  (* ---- the in-place branch ---- *)
  Lemma subst_filter_other : forall n l it, forallb (name_is' n) it = true ->
    filter (other n) (subst_named A rname n it l) = filter (other n) l.
  Proof.
    intros n. induction l as [|r l IH]; intros it H; [reflexivity|]. cbn [subst_named filter].
    destruct (name_is' n r) eqn:N.
    - assert (other n r = false) as O by (unfold other; rewrite N; reflexivity). rewrite O.
      destruct it as [|x it']; [apply IH; reflexivity|].
      cbn [forallb] in H. apply andb_true_iff in H. destruct H as [Hx Hit]. cbn [filter].
      assert (other n x = false) as Ox by (unfold other; rewrite Hx; reflexivity). rewrite Ox. apply IH. exact Hit.
    - assert (other n r = true) as O by (unfold other; rewrite N; reflexivity). cbn [filter]. rewrite O. f_equal. apply IH. exact H.
  Qed.

  Lemma subst_filter_name : forall n l it, length it = length (filter (name_is' n) l) -> forallb (name_is' n) it = true ->
    filter (name_is' n) (subst_named A rname n it l) = it.
  Proof.
    intros n. induction l as [|r l IH]; intros it L H.
    - destruct it; [reflexivity | discriminate].
    - cbn [subst_named filter] in *. destruct (name_is' n r) eqn:N.
      + destruct it as [|x it']; [discriminate|]. cbn [length] in L. injection L as L.
        cbn [forallb] in H. apply andb_true_iff in H. destruct H as [Hx Hit]. cbn [filter]. rewrite Hx. f_equal. apply IH; assumption.
      + cbn [filter]. rewrite N. apply IH; assumption.
  Qed.

  Lemma subst_self : forall n l, subst_named A rname n (filter (name_is' n) l) l = l.
  Proof.
    intros n. induction l as [|r l IH]; [reflexivity|]. cbn [filter subst_named]. destruct (name_is' n r) eqn:N.
    - cbv iota. f_equal. exact IH.
    - f_equal. exact IH.
  Qed.

  (* a record of another kind keeps its very position *)
  Definition slot (n : text) (r : A) : option A := if name_is' n r then None else Some r.
  Lemma subst_in_place : forall n l it, length it = length (filter (name_is' n) l) -> forallb (name_is' n) it = true ->
    map (slot n) (subst_named A rname n it l) = map (slot n) l.
  Proof.
    intros n. induction l as [|r l IH]; intros it L H; [reflexivity|]. cbn [subst_named filter] in *.
    destruct (name_is' n r) eqn:N.
    - destruct it as [|x it']; [discriminate|]. cbn [length] in L. injection L as L.
      cbn [forallb] in H. apply andb_true_iff in H. destruct H as [Hx Hit]. cbn [map]. unfold slot at 1 3. rewrite Hx, N.
      f_equal. apply IH; assumption.
    - cbn [map]. f_equal. apply IH; assumption.
  Qed.

  (* the regrouping branch: all records of other kinds are kept, unchanged and in order, and the new records are contiguous *)
  Lemma replace_all_split : forall l n new res,
    Nat.eqb (length new) (length (filter (name_is' n) l)) = false ->
    replace_all' l n new = Some res ->
    exists pre post, res = pre ++ new ++ post /\ pre ++ post = filter (other n) l.
  Proof.
    intros l n new res E H. unfold replace_all in H. rewrite E in H.
    destruct (replace_all_go A rname n new true l) as [keep first] eqn:G.
    pose proof (replace_all_go_true n new l) as S. rewrite G in S. cbn [fst snd] in S.
    destruct S as [[F [K E']] | [F [pre [post [K E']]]]]; subst first.
    - destruct (index_of n order) as [index|]; [|discriminate]. injection H as <-. subst keep.
      eexists _, _. split; [reflexivity|]. rewrite firstn_skipn. symmetry. exact E'.
    - injection H as <-. exists pre, post. split; assumption.
  Qed.

  (* frame of replace_all (both branches): the records of every other kind are unchanged and in order, and the records
     of kind n are exactly the new ones, in order *)
  Lemma replace_all_frame_lemma : forall l n new res,
    forallb (name_is' n) new = true -> replace_all' l n new = Some res ->
    filter (other n) res = filter (other n) l /\ filter (name_is' n) res = new.
  Proof.
    intros l n new res Hn H. destruct (Nat.eqb (length new) (length (filter (name_is' n) l))) eqn:E.
    - unfold replace_all in H. rewrite E in H. injection H as <-. apply Nat.eqb_eq in E. split.
      + apply subst_filter_other. exact Hn.
      + apply subst_filter_name; assumption.
    - destruct (replace_all_split l n new res E H) as [pre [post [-> EQ]]].
      pose proof (forallb_filter (other n) l) as FO. rewrite <- EQ, forallb_app in FO. apply andb_true_iff in FO. destruct FO as [Fp Fq].
      rewrite !filter_app. split.
      + rewrite (filter_true_all _ pre Fp), (filter_true_all _ post Fq), (filter_false_all _ new (named_not_other n new Hn)). exact EQ.
      + rewrite (filter_false_all _ pre (other_not_named n pre Fp)), (filter_false_all _ post (other_not_named n post Fq)),
          (filter_true_all _ new Hn), app_nil_r. reflexivity.
  Qed.

  Lemma replace_all_in_place_lemma : forall l n new,
    length new = length (filter (name_is' n) l) -> forallb (name_is' n) new = true ->
    exists res, replace_all' l n new = Some res /\ map (slot n) res = map (slot n) l.
  Proof.
    intros l n new L H. unfold replace_all. rewrite L, Nat.eqb_refl. eexists. split; [reflexivity|]. apply subst_in_place; assumption.
  Qed.

  (* replacing all records of kind n by exactly the records of kind n is the identity — no side condition *)
  Lemma replace_all_self_lemma : forall n l, replace_all' l n (filter (name_is' n) l) = Some l.
  Proof. intros n l. unfold replace_all. rewrite Nat.eqb_refl. rewrite subst_self. reflexivity. Qed.

  (* ---- update_abbr_record ---- *)
  Variable s_abbr : text.
  Variable rmap : A -> list (text * text).

  Lemma update_abbr_identity_lemma : forall l keep,
    filter keep (get_records A rname l s_abbr 0) = filter (name_is' s_abbr) l ->
    update_abbr A rname order s_abbr l keep [] = Some l.
  Proof. intros l keep K. unfold update_abbr. rewrite K, replace_all_self_lemma. reflexivity. Qed.

  (* with the keep decision of the code: when the scan keeps every record and no eta is left without a record, nothing changes *)
  Lemma update_abbr_record_unmodified_lemma : forall l rv mk,
    get_records A rname l s_abbr 0 = filter (name_is' s_abbr) l ->
    abbr_scan A rmap (filter (name_is' s_abbr) l) rv = (filter (name_is' s_abbr) l, []) ->
    update_abbr_record A rname order s_abbr rmap l rv mk = Some l.
  Proof.
    intros l rv mk G S. unfold update_abbr_record. rewrite G, S, replace_all_self_lemma. reflexivity.
  Qed.
End EditProofs.


(* ---- update_sizes ---- *)
Lemma sizes_no_insertion_lemma : forall t nth ncomp cs,
  pc_default t <= pc_max t -> nth < lth_bound t -> (cs = false \/ ncomp <= pc_default t) ->
  sizes_opts t nth ncomp cs = Some [].
Proof.
  intros t nth ncomp cs Ht Hn Hc. unfold sizes_opts.
  replace (nth <? lth_bound t) with true by lia.
  destruct Hc as [-> | Hc]; [reflexivity|].
  replace (pc_max t <? ncomp) with false by lia. replace (pc_default t <? ncomp) with false by lia.
  rewrite !andb_false_r. reflexivity.
Qed.

Lemma sizes_insertion_lemma : forall t nth ncomp cs,
  sizes_opts t nth ncomp cs = Some [] -> nth < lth_bound t /\ (cs = false \/ ncomp <= pc_default t).
Proof.
  intros t nth ncomp cs H. unfold sizes_opts in H.
  destruct (cs && (pc_max t <? ncomp)); [discriminate|].
  destruct (nth <? lth_bound t) eqn:L; [|destruct (cs && (pc_default t <? ncomp)); discriminate].
  split; [lia|]. destruct cs; [|left; reflexivity]. cbn [andb] in H.
  destruct (pc_default t <? ncomp) eqn:D; [discriminate|]. right. lia.
Qed.

Lemma update_sizes_not_needed : forall (A : Type) (rname : A -> text) (rid : A -> positive) (order : list text) (l : list A) (new : A),
  update_sizes_records A rname rid order l false new = Some l.
Proof. intros. unfold update_sizes_records. destruct (filter _ l); reflexivity. Qed.

Section SizesProofs.
  Variable A : Type.
  Variable rname : A -> text.
  Variable rid : A -> positive.
  Variable order : list text.
  Variable rstr : A -> text.

  (* replacing one record object that occurs once *)
  Lemma replace_records_single : forall pre r0 post new,
    (forall x, In x (pre ++ post) -> Pos.eqb (rid r0) (rid x) = false) ->
    replace_records A rid (pre ++ r0 :: post) [r0] [new] = pre ++ new :: post.
  Proof.
    intros pre r0 post new H. unfold replace_records.
    assert (forall l first, (forall x, In x l -> Pos.eqb (rid r0) (rid x) = false) ->
                            replace_records_go A rid [r0] [new] first l = l) as Z.
    { induction l as [|x l IH]; intros first Hl; [reflexivity|]. cbn [replace_records_go mem_id existsb].
      rewrite (Hl x (or_introl eq_refl)). cbn [orb negb]. f_equal. apply IH. intros y Hy. apply Hl. right. exact Hy. }
    induction pre as [|x pre IH].
    - cbn [app replace_records_go mem_id existsb]. rewrite Pos.eqb_refl. cbn [orb negb app]. f_equal.
      apply Z. intros x Hx. apply H. exact Hx.
    - cbn [app replace_records_go mem_id existsb]. rewrite (H x (or_introl eq_refl)). cbn [orb negb]. f_equal.
      apply IH. intros y Hy. apply H. right. exact Hy.
  Qed.

  Lemma filter_first_split : forall (p : A -> bool) l r0 tl, filter p l = r0 :: tl ->
    exists pre post, l = pre ++ r0 :: post /\ forallb (fun x => negb (p x)) pre = true.
  Proof.
    intros p. induction l as [|x l IH]; intros r0 tl H; [discriminate|]. cbn [filter] in H. destruct (p x) eqn:E.
    - injection H as -> _. exists [], l. split; reflexivity.
    - destruct (IH r0 tl H) as [pre [post [-> F]]]. exists (x :: pre), post. split; [reflexivity|]. cbn. rewrite E. exact F.
  Qed.

  (* an unmodified model whose $SIZES record already says what is needed: the text does not change
     (record objects are distinct: rid is injective on the stream) *)
  Lemma update_sizes_same_text : forall l r0 tl new needed,
    NoDup (map rid l) ->
    filter (name_is A rname s_SIZES) l = r0 :: tl -> rstr new = rstr r0 ->
    exists l', update_sizes_records A rname rid order l needed new = Some l' /\ flat_map rstr l' = flat_map rstr l.
  Proof.
    intros l r0 tl new needed ND F E. unfold update_sizes_records. rewrite F.
    destruct needed; [|eexists; split; reflexivity].
    destruct (filter_first_split _ _ _ _ F) as [pre [post [-> _]]].
    eexists. split; [reflexivity|]. rewrite replace_records_single.
    - rewrite !flat_map_app. cbn [flat_map]. rewrite E. reflexivity.
    - intros x Hx. destruct (Pos.eqb (rid r0) (rid x)) eqn:Q; [|reflexivity]. apply Pos.eqb_eq in Q. exfalso.
      rewrite map_app in ND. cbn [map] in ND. apply NoDup_remove_2 in ND. apply ND.
      rewrite <- map_app. rewrite Q. apply in_map. exact Hx.
  Qed.

  (* a new $SIZES record is put before the first $PROBLEM, so the SIZES-before-PROBLEM rule still holds *)
  Fixpoint sizes_rule (in_problem : bool) (l : list A) : bool :=
    match l with
    | [] => true
    | r :: tl => if in_problem && name_is A rname s_SIZES r then false
                 else sizes_rule (in_problem || name_is A rname s_PROBLEM r) tl
    end.

  Lemma first_named_split : forall n l i k, first_named A rname n k l = Some i ->
    exists pre r post, l = pre ++ r :: post /\ length pre = i - k /\ k <= i /\
                       forallb (fun x => negb (name_is A rname n x)) pre = true /\ name_is A rname n r = true.
  Proof.
    intros n. induction l as [|x l IH]; intros i k H; [discriminate|]. cbn [first_named] in H. destruct (name_is A rname n x) eqn:E.
    - injection H as <-. exists [], x, l. repeat split; auto. cbn. lia.
    - destruct (IH i (S k) H) as [pre [r [post [-> [L [K [F N]]]]]]]. exists (x :: pre), r, post.
      repeat split; auto; [cbn; lia | lia | cbn; rewrite E; exact F].
  Qed.

  Lemma sizes_rule_skip : forall pre rest, forallb (fun x => negb (name_is A rname s_PROBLEM x)) pre = true ->
    sizes_rule false (pre ++ rest) = sizes_rule false rest.
  Proof.
    induction pre as [|x pre IH]; intros rest H; [reflexivity|]. cbn [forallb] in H. apply andb_true_iff in H. destruct H as [H1 H2].
    apply negb_true_iff in H1. cbn [app sizes_rule andb orb]. rewrite H1. apply IH. exact H2.
  Qed.

  Lemma update_sizes_insert_keeps_rule : forall l new l',
    filter (name_is A rname s_SIZES) l = [] -> name_is A rname s_PROBLEM new = false ->
    update_sizes_records A rname rid order l true new = Some l' ->
    sizes_rule false l = true -> sizes_rule false l' = true /\ exists pre post, l = pre ++ post /\ l' = pre ++ new :: post.
  Proof.
    intros l new l' F NP H R. unfold update_sizes_records in H. rewrite F in H.
    destruct (first_named A rname s_PROBLEM 0 l) as [i|] eqn:FN; [|discriminate]. injection H as <-.
    destruct (first_named_split _ _ _ _ FN) as [pre [r [post [-> [L [_ [Fp Nr]]]]]]].
    unfold insert_record, insert_pos. rewrite Nat.sub_0_r in L. subst i.
    rewrite firstn_app, firstn_all, Nat.sub_diag, skipn_app, skipn_all, Nat.sub_diag. cbn [firstn skipn app]. rewrite app_nil_r.
    split; [|exists pre, (r :: post); split; reflexivity].
    rewrite sizes_rule_skip in * by exact Fp. cbn [sizes_rule andb orb]. rewrite NP. exact R.
  Qed.
End SizesProofs.
