(* PV.C03.Proofs3 — frame lemmas for the NMTranControlStream edit methods. *)
From Coq Require Import List Bool NArith PArith Arith Lia ZifyBool.
From PV Require Import Base.PyData C03.Model C03.Proofs.
Import ListNotations.
Local Open Scope nat_scope.

Section EditProofs.
  Variable A : Type.
  Variable rname : A -> text.
  Variable rid : A -> positive.
  Variable order : list text.

  Notation insert_record' := (insert_record A rname order).
  Notation insert_pos' := (insert_pos A rname order).
  Notation remove_records' := (remove_records A rid).
  Notation replace_records' := (replace_records A rid).
  Notation replace_all' := (replace_all A rname order).
  Notation name_is' := (name_is A rname).
  Notation mem_id' := (mem_id A rid).

  Definition other (n : text) (r : A) : bool := negb (name_is' n r).

  (* ---- insert_record ---- *)
  Lemma insert_record_split : forall l r at_index active,
    exists pre post, pre ++ post = l /\ insert_record' l r at_index active = pre ++ r :: post.
  Proof.
    intros l r at_index active. unfold insert_record.
    exists (firstn (insert_pos' l r at_index active) l), (skipn (insert_pos' l r at_index active) l).
    split; [apply firstn_skipn | reflexivity].
  Qed.

  Lemma last_in_problem_spec : forall p active l cp i acc res,
    last_in_problem A rname p active cp i l acc = Some res ->
    (acc = Some res) \/ (i <= res < i + length l /\ exists x, nth_error l (res - i) = Some x /\ p x = true).
  Proof.
    intros p active. induction l as [|r tl IH]; intros cp i acc res H; cbn [last_in_problem] in H; [left; exact H|].
    apply IH in H. destruct H as [H | [H1 [x [H2 H3]]]].
    - destruct (Nat.eqb _ _ && p r) eqn:E; [|left; exact H].
      injection H as <-. right. cbn [length]. split; [lia|]. exists r. replace (i - i) with 0 by lia. split; [reflexivity|].
      apply andb_true_iff in E. apply E.
    - right. cbn [length]. split; [lia|]. exists x. replace (res - i) with (S (res - S i)) by lia. split; assumption.
  Qed.

  (* without at_index, when a record of the same name exists in the active problem the new record is put
     directly after a record of that name and no later record of that problem has the name *)
  Lemma insert_after_same_name : forall l r active i,
    last_in_problem A rname (name_is' (rname r)) active 0 0 l None = Some i ->
    insert_record' l r None active = firstn (S i) l ++ r :: skipn (S i) l /\
    exists x, nth_error l i = Some x /\ rname x = rname r.
  Proof.
    intros l r active i H. unfold insert_record, insert_pos. rewrite H. split; [reflexivity|].
    apply last_in_problem_spec in H. destruct H as [H | [H1 [x [H2 H3]]]]; [discriminate|].
    exists x. rewrite Nat.sub_0_r in H2. split; [exact H2|]. unfold name_is in H3. apply list_eqb_N_eq in H3. exact H3.
  Qed.

  (* ---- remove_records ---- *)
  Lemma remove_records_in : forall l old r, In r (remove_records' l old) <-> In r l /\ mem_id' r old = false.
  Proof.
    intros l old r. unfold remove_records. rewrite filter_In. rewrite negb_true_iff. reflexivity.
  Qed.

  Lemma filter_filter_comm : forall (p q : A -> bool) l, filter p (filter q l) = filter q (filter p l).
  Proof.
    intros p q l. induction l as [|x l IH]; [reflexivity|]. cbn [filter].
    destruct (q x) eqn:Q, (p x) eqn:P; cbn [filter]; rewrite ?Q, ?P, IH; reflexivity.
  Qed.

  Lemma filter_idem_on : forall (p q : A -> bool) l, (forall x, In x l -> p x = true -> q x = true) ->
    filter p (filter q l) = filter p l.
  Proof.
    intros p q l H. induction l as [|x l IH]; [reflexivity|]. cbn [filter].
    assert (forall y, In y l -> p y = true -> q y = true) as H' by (intros; apply H; [right|]; assumption).
    destruct (q x) eqn:Q; cbn [filter].
    - destruct (p x); rewrite IH by exact H'; reflexivity.
    - destruct (p x) eqn:P; [|apply IH; exact H']. rewrite (H x (or_introl eq_refl) P) in Q. discriminate.
  Qed.

  (* removing records that are all of kind n leaves the records of every other kind untouched, in order *)
  Lemma remove_records_other : forall l old n,
    (forall r, In r l -> mem_id' r old = true -> name_is' n r = true) ->
    filter (other n) (remove_records' l old) = filter (other n) l.
  Proof.
    intros l old n H. unfold remove_records. apply filter_idem_on. intros x Hx Ho.
    unfold other in Ho. apply negb_true_iff in Ho. apply negb_true_iff.
    destruct (mem_id' x old) eqn:M; [|reflexivity]. rewrite (H x Hx M) in Ho. discriminate.
  Qed.

  (* ---- replace_records ---- *)
  Lemma replace_records_go_false : forall old new l,
    replace_records_go A rid old new false l = remove_records' l old.
  Proof.
    intros old new. induction l as [|r tl IH]; [reflexivity|]. cbn [replace_records_go remove_records filter].
    destruct (negb (mem_id' r old)); [f_equal|]; exact IH.
  Qed.

  Lemma replace_records_split : forall old new l,
    exists pre post, pre ++ post = remove_records' l old /\
      ((existsb (fun r => mem_id' r old) l = true /\ replace_records' l old new = pre ++ new ++ post) \/
       (existsb (fun r => mem_id' r old) l = false /\ replace_records' l old new = l /\ pre ++ post = l)).
  Proof.
    intros old new. unfold replace_records. induction l as [|r tl IH].
    - exists [], []. split; [reflexivity|]. right. repeat split.
    - cbn [replace_records_go existsb remove_records filter]. destruct (mem_id' r old) eqn:M; cbn [negb orb].
      + exists [], (remove_records' tl old). split; [reflexivity|]. left. split; [reflexivity|].
        rewrite replace_records_go_false. reflexivity.
      + destruct IH as [pre [post [E [[X R] | [X [R E']]]]]].
        * exists (r :: pre), post. split; [cbn; f_equal; exact E|]. left. split; [exact X|]. rewrite R. reflexivity.
        * exists (r :: pre), post. split; [cbn; f_equal; exact E|]. right. split; [exact X|]. rewrite R.
          split; [reflexivity | cbn; f_equal; exact E'].
  Qed.

  (* ---- replace_all ---- *)
  Lemma replace_all_go_false : forall n new l,
    replace_all_go A rname n new false l = (filter (other n) l, false).
  Proof.
    intros n new. induction l as [|r tl IH]; [reflexivity|]. cbn [replace_all_go filter].
    destruct (name_is' n r) eqn:N.
    - assert (other n r = false) as O by (unfold other; rewrite N; reflexivity). rewrite O. exact IH.
    - assert (other n r = true) as O by (unfold other; rewrite N; reflexivity). rewrite O, IH. reflexivity.
  Qed.

  Lemma replace_all_go_true : forall n new l,
    (snd (replace_all_go A rname n new true l) = true /\ fst (replace_all_go A rname n new true l) = l /\ filter (other n) l = l) \/
    (snd (replace_all_go A rname n new true l) = false /\
     exists pre post, fst (replace_all_go A rname n new true l) = pre ++ new ++ post /\ pre ++ post = filter (other n) l).
  Proof.
    intros n new. induction l as [|r tl IH]; [left; repeat split|]. cbn [replace_all_go filter].
    destruct (name_is' n r) eqn:N.
    - assert (other n r = false) as O by (unfold other; rewrite N; reflexivity). rewrite O.
      right. rewrite replace_all_go_false. cbn [fst snd]. split; [reflexivity|]. exists [], (filter (other n) tl). split; reflexivity.
    - assert (other n r = true) as O by (unfold other; rewrite N; reflexivity). rewrite O.
      destruct (replace_all_go A rname n new true tl) as [k f] eqn:G. cbn [fst snd] in *.
      destruct IH as [[F [K E]] | [F [pre [post [K E]]]]].
      + left. subst. repeat split. rewrite E. reflexivity.
      + right. split; [exact F|]. exists (r :: pre), post. subst. split; [reflexivity|]. cbn. f_equal. exact E.
  Qed.

  (* all records of other kinds are kept, unchanged and in order, and the new records are contiguous *)
  Lemma replace_all_split : forall l n new res, replace_all' l n new = Some res ->
    exists pre post, res = pre ++ new ++ post /\ pre ++ post = filter (other n) l.
  Proof.
    intros l n new res H. unfold replace_all in H.
    destruct (replace_all_go A rname n new true l) as [keep first] eqn:G.
    pose proof (replace_all_go_true n new l) as S. rewrite G in S. cbn [fst snd] in S.
    destruct S as [[F [K E]] | [F [pre [post [K E]]]]]; subst first.
    - destruct (index_of n order) as [index|]; [|discriminate]. injection H as <-. subst keep.
      eexists _, _. split; [reflexivity|]. rewrite firstn_skipn. symmetry. exact E.
    - injection H as <-. exists pre, post. split; assumption.
  Qed.

  (* ---- replacing all records of a kind by themselves ---- *)
  Lemma replace_all_go_pre : forall n new pre rest,
    forallb (other n) pre = true ->
    replace_all_go A rname n new true (pre ++ rest) =
    (pre ++ fst (replace_all_go A rname n new true rest), snd (replace_all_go A rname n new true rest)).
  Proof.
    intros n new. induction pre as [|r pre IH]; intros rest H.
    - cbn [app]. destruct (replace_all_go A rname n new true rest); reflexivity.
    - cbn [forallb] in H. apply andb_true_iff in H. destruct H as [H1 H2]. unfold other in H1. apply negb_true_iff in H1.
      cbn [app replace_all_go]. rewrite H1. rewrite (IH rest H2). reflexivity.
  Qed.

  Lemma filter_other_block : forall n mid post,
    forallb (name_is' n) mid = true -> forallb (other n) post = true -> filter (other n) (mid ++ post) = post.
  Proof.
    intros n. induction mid as [|r mid IH]; intros post Hm Hp.
    - cbn [app]. clear Hm. induction post as [|x post IHp]; [reflexivity|]. cbn [forallb filter] in *.
      apply andb_true_iff in Hp. destruct Hp as [-> Hp]. f_equal. apply IHp. exact Hp.
    - cbn [forallb] in Hm. apply andb_true_iff in Hm. destruct Hm as [H1 H2]. cbn [app filter].
      unfold other at 1. rewrite H1. cbn [negb]. apply IH; assumption.
  Qed.

  Lemma replace_all_self_lemma : forall n pre mid post,
    forallb (other n) pre = true -> forallb (name_is' n) mid = true -> forallb (other n) post = true ->
    (mid <> [] \/ index_of n order <> None) ->
    replace_all' (pre ++ mid ++ post) n mid = Some (pre ++ mid ++ post).
  Proof.
    intros n pre mid post Hpre Hmid Hpost Hne. unfold replace_all. rewrite replace_all_go_pre by exact Hpre.
    destruct mid as [|m0 mid'].
    - cbn [app]. pose proof (replace_all_go_true n [] post) as S.
      destruct S as [[F [K E]] | [F [p1 [p2 [K E]]]]].
      + rewrite F, K. destruct Hne as [Hne | Hne]; [contradiction|].
        destruct (index_of n order) as [index|]; [|contradiction]. cbn [app]. rewrite firstn_skipn. reflexivity.
      + (* impossible: post has no record named n *)
        exfalso. clear - F Hpost. induction post as [|x post IH]; [discriminate|]. cbn [forallb] in Hpost.
        apply andb_true_iff in Hpost. destruct Hpost as [H1 H2]. unfold other in H1. apply negb_true_iff in H1.
        cbn [replace_all_go] in F. rewrite H1 in F. destruct (replace_all_go A rname n [] true post) as [k f] eqn:G.
        cbn [snd] in *. apply IH; assumption.
    - cbn [forallb] in Hmid. apply andb_true_iff in Hmid. destruct Hmid as [H1 H2].
      cbn [app replace_all_go]. rewrite H1. rewrite replace_all_go_false. cbn [fst snd].
      rewrite (filter_other_block n mid' post H2 Hpost). reflexivity.
  Qed.

  (* the boolean test used by the check implies the decomposition *)
  Lemma contig_go_2 : forall n l, contig_go A rname n 2 l = true -> forallb (other n) l = true.
  Proof.
    intros n. induction l as [|r l IH]; intro H; [reflexivity|]. cbn [contig_go forallb] in *. unfold other at 1.
    destruct (name_is' n r); [discriminate|]. cbn [negb andb]. apply IH. exact H.
  Qed.

  Lemma contig_go_1 : forall n l, contig_go A rname n 1 l = true ->
    exists mid post, l = mid ++ post /\ forallb (name_is' n) mid = true /\ forallb (other n) post = true.
  Proof.
    intros n. induction l as [|r l IH]; intro H; [exists [], []; repeat split|]. cbn [contig_go] in H.
    destruct (name_is' n r) eqn:N.
    - destruct (IH H) as [mid [post [-> [Hm Hp]]]]. exists (r :: mid), post. repeat split; [|exact Hp]. cbn [forallb]. rewrite N, Hm. reflexivity.
    - exists [], (r :: l). split; [reflexivity|]. split; [reflexivity|]. cbn [forallb]. unfold other at 1. rewrite N. cbn [negb andb].
      apply contig_go_2. exact H.
  Qed.

  Lemma contiguous_split : forall n l, contiguous A rname n l = true ->
    exists pre mid post, l = pre ++ mid ++ post /\ forallb (other n) pre = true /\
                         forallb (name_is' n) mid = true /\ forallb (other n) post = true.
  Proof.
    intros n. unfold contiguous. induction l as [|r l IH]; intro H; [exists [], [], []; repeat split|].
    cbn [contig_go] in H. destruct (name_is' n r) eqn:N.
    - destruct (contig_go_1 n l H) as [mid [post [-> [Hm Hp]]]]. exists [], (r :: mid), post.
      repeat split; [|exact Hp]. cbn [forallb]. rewrite N, Hm. reflexivity.
    - destruct (IH H) as [pre [mid [post [-> [H1 [H2 H3]]]]]]. exists (r :: pre), mid, post.
      repeat split; try assumption. cbn [forallb]. unfold other at 1. rewrite N, H1. reflexivity.
  Qed.

  Lemma filter_name_block : forall n pre mid post,
    forallb (other n) pre = true -> forallb (name_is' n) mid = true -> forallb (other n) post = true ->
    filter (name_is' n) (pre ++ mid ++ post) = mid.
  Proof.
    intros n pre mid post H1 H2 H3. rewrite !filter_app.
    assert (forall l, forallb (other n) l = true -> filter (name_is' n) l = []) as Z.
    { induction l as [|x l IHl]; intro H; [reflexivity|]. cbn [forallb filter] in *. apply andb_true_iff in H. destruct H as [Hx Hl].
      unfold other in Hx. apply negb_true_iff in Hx. rewrite Hx. apply IHl. exact Hl. }
    rewrite (Z pre H1), (Z post H3), app_nil_r. cbn [app].
    clear - H2. induction mid as [|x mid IH]; [reflexivity|]. cbn [forallb filter] in *. apply andb_true_iff in H2. destruct H2 as [-> H2].
    f_equal. apply IH. exact H2.
  Qed.

  (* replacing all records of kind n by exactly the records of kind n is the identity when they are contiguous *)
  Lemma replace_all_self_contiguous : forall n l,
    contiguous A rname n l = true -> index_of n order <> None ->
    replace_all' l n (filter (name_is' n) l) = Some l.
  Proof.
    intros n l C I. destruct (contiguous_split n l C) as [pre [mid [post [-> [H1 [H2 H3]]]]]].
    rewrite (filter_name_block n pre mid post H1 H2 H3). apply replace_all_self_lemma; auto.
  Qed.

  (* update_abbr_record is the identity when every $ABBREVIATED record is kept, they are contiguous and no new one is needed *)
  Variable s_abbr : text.
  Lemma update_abbr_identity_lemma : forall l keep,
    contiguous A rname s_abbr l = true -> index_of s_abbr order <> None ->
    filter keep (get_records A rname l s_abbr 0) = filter (name_is' s_abbr) l ->
    update_abbr A rname order s_abbr l keep [] = Some l.
  Proof.
    intros l keep C I K. unfold update_abbr. rewrite K. rewrite (replace_all_self_contiguous s_abbr l C I). reflexivity.
  Qed.
End EditProofs.


(* ---- update_sizes ---- *)
Lemma sizes_no_insertion_lemma : forall t nth ncomp cs,
  pc_default t <= pc_max t -> nth < lth_bound t -> (cs = false \/ ncomp <= pc_default t) ->
  sizes_opts t nth ncomp cs = Some [].
Proof.
  intros t nth ncomp cs Ht Hn Hc. unfold sizes_opts.
  replace (nth <? lth_bound t) with true by lia.
  destruct Hc as [-> | Hc]; [reflexivity|].
  replace (pc_max t <? ncomp) with false by lia. replace (pc_default t <? ncomp) with false by lia.
  rewrite !andb_false_r. reflexivity.
Qed.

Lemma sizes_insertion_lemma : forall t nth ncomp cs,
  sizes_opts t nth ncomp cs = Some [] -> nth < lth_bound t /\ (cs = false \/ ncomp <= pc_default t).
Proof.
  intros t nth ncomp cs H. unfold sizes_opts in H.
  destruct (cs && (pc_max t <? ncomp)); [discriminate|].
  destruct (nth <? lth_bound t) eqn:L; [|destruct (cs && (pc_default t <? ncomp)); discriminate].
  split; [lia|]. destruct cs; [|left; reflexivity]. cbn [andb] in H.
  destruct (pc_default t <? ncomp) eqn:D; [discriminate|]. right. lia.
Qed.

Lemma update_sizes_not_needed : forall (A : Type) (rname : A -> text) (rid : A -> positive) (order : list text) (l : list A) (new : A),
  update_sizes_records A rname rid order l false new = l.
Proof. intros. unfold update_sizes_records. destruct (get_records A rname l s_SIZES 0); reflexivity. Qed.
