(* PV.C03.Proofs5 — frame of a whole program of edit-method calls (update_source), and parse without the engine. *)
From Coq Require Import List Bool NArith PArith Arith Lia ZifyBool.
From PV Require Import Base.PyData C03.Model C03.Proofs C03.Proofs2 C03.Proofs3.
Import ListNotations.
Local Open Scope nat_scope.

Section CallProofs.
  Variable A : Type.
  Variable rname : A -> text.
  Variable rid : A -> positive.
  Variable rstr : A -> text.
  Variable order : list text.

  Notation in_kinds' := (in_kinds A rname).
  Notation notK K := (fun r : A => negb (in_kinds A rname K r)).
  Notation fview' := (fview A rname rstr).

  Lemma filter_idem_on' : forall (p q : A -> bool) l, (forall x, In x l -> p x = true -> q x = true) ->
    filter p (filter q l) = filter p l.
  Proof. exact (filter_idem_on A). Qed.

  Lemma filter_notK_none : forall K l, forallb (in_kinds' K) l = true -> filter (notK K) l = [].
  Proof.
    intros K l H. induction l as [|x l IH]; [reflexivity|]. cbn in *. apply andb_true_iff in H. destruct H as [H1 H2].
    rewrite H1. cbn. apply IH. exact H2.
  Qed.

  Lemma within_step : forall K l c l', call_within A rname rid K l c = true -> run_call A rname rid order l c = Some l' ->
    filter (notK K) l' = filter (notK K) l.
  Proof.
    intros K l c l' W R. destruct c as [r at_index | olds | olds news | n news]; cbn [call_within run_call] in *.
    - injection R as <-. destruct (insert_record_split A rname order l r at_index 0) as [pre [post [E ->]]]. subst l.
      rewrite !filter_app. cbn [filter]. rewrite W. reflexivity.
    - injection R as <-. unfold remove_records. apply filter_idem_on'. intros x Hx Hn.
      rewrite forallb_forall in W. specialize (W x Hx). destruct (mem_id A rid x olds); [|reflexivity].
      cbn in W. rewrite W in Hn. discriminate.
    - injection R as <-. apply andb_true_iff in W. destruct W as [W1 W2].
      assert (filter (notK K) (remove_records A rid l olds) = filter (notK K) l) as RR.
      { unfold remove_records. apply filter_idem_on'. intros x Hx Hn.
        rewrite forallb_forall in W1. specialize (W1 x Hx). destruct (mem_id A rid x olds); [|reflexivity].
        cbn in W1. rewrite W1 in Hn. discriminate. }
      destruct (replace_records_split A rid olds news l) as [pre [post [E [[_ ->] | [_ [-> _]]]]]]; [|reflexivity].
      rewrite <- RR, <- E, !filter_app, (filter_notK_none K news W2). reflexivity.
    - apply andb_true_iff in W. destruct W as [W1 W2].
      destruct (replace_all_frame_lemma A rname order l n news l' W2 R) as [F _].
      assert (forall m, filter (notK K) (filter (other A rname n) m) = filter (notK K) m) as Z.
      { intro m. apply filter_idem_on'. intros x _ Hn. unfold other, name_is. apply negb_true_iff.
        destruct (text_eqb (rname x) n) eqn:E; [|reflexivity]. apply list_eqb_N_eq in E.
        apply negb_true_iff in Hn. unfold in_kinds in Hn. rewrite E in Hn.
        apply existsb_exists in W1. destruct W1 as [k [Hk Ek]]. apply list_eqb_N_eq in Ek. subst k.
        assert (existsb (text_eqb n) K = true) as X by (apply existsb_exists; exists n; split; [exact Hk | apply text_eqb_refl]).
        rewrite X in Hn. discriminate. }
      rewrite <- (Z l'), F, Z. reflexivity.
  Qed.

  Lemma view_eqb_eq : forall (a b : list (text * text)),
    list_eqb (fun a b => text_eqb (fst a) (fst b) && text_eqb (snd a) (snd b)) a b = true -> a = b.
  Proof.
    induction a as [|[x1 x2] a IH]; destruct b as [|[y1 y2] b]; cbn [list_eqb]; intro H; try reflexivity; try discriminate.
    apply andb_true_iff in H. destruct H as [H1 H2]. apply andb_true_iff in H1. destruct H1 as [E1 E2]. cbn [fst snd] in *.
    apply list_eqb_N_eq in E1, E2. subst. f_equal. apply IH. exact H2.
  Qed.

  Lemma fview_of_view : forall K l,
    fview' K l = filter (fun p => negb (existsb (text_eqb (fst p)) K)) (map (view A rname rstr) l).
  Proof.
    intros K l. unfold fview. induction l as [|x l IH]; [reflexivity|]. cbn [filter map]. unfold in_kinds at 1, view at 2. cbn [fst].
    destruct (existsb (text_eqb (rname x)) K); cbn [negb map]; rewrite IH; reflexivity.
  Qed.

  Lemma step_ok : forall K l c l',
    (call_within A rname rid K l c || call_neutral A rname rid rstr order l c) = true ->
    run_call A rname rid order l c = Some l' -> fview' K l' = fview' K l.
  Proof.
    intros K l c l' H R. apply orb_true_iff in H. destruct H as [W | N].
    - unfold fview. rewrite (within_step K l c l' W R). reflexivity.
    - unfold call_neutral in N. rewrite R in N. apply view_eqb_eq in N. rewrite !fview_of_view, N. reflexivity.
  Qed.

  (* every call of the program is within the kinds K or leaves all names and texts alone: the records of every kind outside K
     are byte-identical and in the same order afterwards *)
  Lemma edit_frame_lemma : forall K cs l l',
    calls_ok A rname rid rstr order K l cs = true -> run_calls A rname rid order l cs = Some l' -> fview' K l' = fview' K l.
  Proof.
    intros K. induction cs as [|c cs IH]; intros l l' H R; cbn [calls_ok run_calls] in *.
    - injection R as <-. reflexivity.
    - apply andb_true_iff in H. destruct H as [H1 H2]. destruct (run_call A rname rid order l c) as [l1|] eqn:E; [|discriminate].
      rewrite (IH l1 l' H2 R). eapply step_ok; eassumption.
  Qed.
End CallProofs.

(* ------------------------------------------------------------------ parse without the engine *)
Definition starts_record (ln : text) : bool := match match_sep ln with Some _ => true | None => false end.
Definition has_record (t : text) : bool := existsb starts_record (lines t).
(* no chunk of the text has the name of a known record: create_record never calls a record parser *)
Definition raw_only (tb : tables) (t : text) : bool :=
  forallb (fun c => match split_raw_record_name (chunk_str c) with
                    | Some (rn, _) => match canonical_name tb rn with None => true | Some _ => false end
                    | None => true
                    end) (snd (split_records t)).

Lemma group_no_record : forall ls, existsb starts_record ls = false -> group ls = (concat ls, []).
Proof.
  induction ls as [|ln tl IH]; intro H; [reflexivity|]. cbn [existsb] in H. apply orb_false_iff in H. destruct H as [H1 H2].
  cbn [group]. rewrite (IH H2). unfold starts_record in H1. destruct (match_sep ln) as [[s r]|]; [discriminate|]. reflexivity.
Qed.

Section ParseNoEngine.
  Variable tb : tables.
  Variable lark : text -> text -> option node.
  Variable steps_of : text -> list step.
  Variable rule_id : text -> positive.
  Variable is_token_name : text -> bool.
  Variable r_theta r_init r_up r_low r_iol : positive.
  Notation parse' := (parse tb lark steps_of rule_id is_token_name r_theta r_init r_up r_low r_iol).
  Notation create_record' := (create_record tb lark steps_of rule_id is_token_name r_theta r_init r_up r_low r_iol).
  Notation create_all' := (create_all tb lark steps_of rule_id is_token_name r_theta r_init r_up r_low r_iol).

  Lemma parse_without_records_lemma : forall t, has_record t = false ->
    parse' t = Ok (match t with [] => [] | _ => [RawRec [] [] t] end).
  Proof.
    intros t H. unfold parse, split_records. unfold has_record in H. rewrite (group_no_record _ H), lines_concat.
    cbn [create_all]. destruct t; reflexivity.
  Qed.

  (* the engine and the post-processors are irrelevant for chunks that are not known records *)
  Variable lark2 : text -> text -> option node.
  Variable steps_of2 : text -> list step.
  Notation create_record2 := (create_record tb lark2 steps_of2 rule_id is_token_name r_theta r_init r_up r_low r_iol).
  Notation create_all2 := (create_all tb lark2 steps_of2 rule_id is_token_name r_theta r_init r_up r_low r_iol).
  Notation parse2 := (parse tb lark2 steps_of2 rule_id is_token_name r_theta r_init r_up r_low r_iol).

  Definition chunk_raw (c : text * text) : bool :=
    match split_raw_record_name (chunk_str c) with
    | Some (rn, _) => match canonical_name tb rn with None => true | Some _ => false end
    | None => true
    end.

  Lemma create_record_raw : forall c, chunk_raw c = true -> create_record' (chunk_str c) = create_record2 (chunk_str c).
  Proof.
    intros c H. unfold chunk_raw in H. unfold create_record.
    destruct (split_raw_record_name (chunk_str c)) as [[rn content]|]; [|reflexivity].
    destruct (canonical_name tb rn); [discriminate | reflexivity].
  Qed.

  Lemma create_all_raw : forall cs, forallb chunk_raw cs = true -> create_all' cs = create_all2 cs.
  Proof.
    induction cs as [|c cs IH]; intro H; [reflexivity|]. cbn [forallb] in H. apply andb_true_iff in H. destruct H as [H1 H2].
    cbn [create_all]. rewrite (create_record_raw c H1), (IH H2). reflexivity.
  Qed.

  Lemma parse_engine_irrelevant : forall t, raw_only tb t = true -> parse' t = parse2 t.
  Proof.
    intros t H. unfold parse. unfold raw_only in H. destruct (split_records t) as [first chunks]. cbn [snd] in H.
    fold chunk_raw in H. rewrite (create_all_raw chunks H). reflexivity.
  Qed.
End ParseNoEngine.

(* round trip without any assumption on the engine when no chunk is a known record (unknown records, text without
   records, any bytes including NUL and lone CR inside them) *)
Lemma parse_raw_roundtrip : forall tb lark steps_of rule_id is_token_name r1 r2 r3 r4 r5 t rs,
  raw_only tb t = true ->
  parse tb lark steps_of rule_id is_token_name r1 r2 r3 r4 r5 t = Ok rs -> stream_str rs = t.
Proof.
  intros tb lark steps_of rule_id itn r1 r2 r3 r4 r5 t rs H P.
  rewrite (parse_engine_irrelevant tb lark steps_of rule_id itn r1 r2 r3 r4 r5 (fun _ _ => None) (fun _ => []) t H) in P.
  eapply (parse_roundtrip tb (fun _ _ => None) (fun _ => [])); [reflexivity | discriminate | exact P].
Qed.

(* ------------------------------------------------------------------ '$' at the end of the text *)
Lemma span_prefix : forall (p : N -> bool) a c r, forallb p a = true -> p c = false -> span p (a ++ c :: r) = (a, c :: r).
Proof.
  intros p. induction a as [|x a IH]; intros c r H Hc.
  - cbn [app span]. rewrite Hc. reflexivity.
  - cbn [forallb] in H. apply andb_true_iff in H. destruct H as [H1 H2]. cbn [app span]. rewrite H1, (IH c r H2 Hc). reflexivity.
Qed.

Lemma blank_is_space : forall bl, forallb is_blank bl = true -> forallb is_space bl = true.
Proof.
  induction bl as [|c bl IH]; intro H; [reflexivity|]. cbn [forallb] in *. apply andb_true_iff in H. destruct H as [H1 H2].
  rewrite (IH H2), andb_true_r. unfold is_blank in H1. apply orb_true_iff in H1. destruct H1 as [E|E]; apply N.eqb_eq in E; subst; reflexivity.
Qed.

Lemma bare_dollar_bad_name : forall bl, forallb is_blank bl = true -> split_raw_record_name (bl ++ [36%N]) = None.
Proof.
  intros bl H. unfold split_raw_record_name. rewrite (span_prefix is_space bl 36%N [] (blank_is_space bl H) eq_refl). reflexivity.
Qed.

Lemma match_sep_bare : forall bl, forallb is_blank bl = true -> match_sep (bl ++ [36%N]) = Some (bl ++ [36%N], []).
Proof.
  induction bl as [|c bl IH]; intro H; [reflexivity|]. cbn [forallb] in H. apply andb_true_iff in H. destruct H as [H1 H2].
  cbn [app match_sep]. rewrite H1, (IH H2). reflexivity.
Qed.

Lemma group_last : forall ls ln, match_sep ln = Some (ln, []) -> exists init, snd (group (ls ++ [ln])) = init ++ [(ln, [])].
Proof.
  induction ls as [|x ls IH]; intros ln H.
  - cbn [app group]. rewrite H. exists []. reflexivity.
  - destruct (IH ln H) as [init E]. cbn [app group]. destruct (group (ls ++ [ln])) as [cont recs]. cbn [snd] in E. subst recs.
    destruct (match_sep x) as [[s r]|]; cbn [snd]; [exists ((s, r ++ cont) :: init); reflexivity | exists init; reflexivity].
Qed.

Lemma lines_app_complete : forall a b, (a = [] \/ exists a0, a = a0 ++ [10%N]) -> lines (a ++ b) = lines a ++ lines b.
Proof.
  induction a as [|c a IH]; intros b H; [reflexivity|].
  destruct H as [H | [a0 H]]; [discriminate|].
  cbn [app lines]. destruct (is_lf c) eqn:L.
  - destruct a as [|c2 a'].
    + reflexivity.
    + rewrite IH; [reflexivity|]. right. destruct a0 as [|x a0]; [discriminate|]. injection H as _ H. exists a0. exact H.
  - destruct a as [|c2 a'].
    + destruct a0 as [|x a0]; cbn in H; [injection H as ->; discriminate | injection H as _ H; destruct a0; discriminate].
    + rewrite IH; [|right; destruct a0 as [|x a0]; [discriminate | injection H as _ H; exists a0; exact H]].
      cbn [app]. destruct (lines (c2 :: a')) as [|l0 lr] eqn:E; [|reflexivity].
      exfalso. cbn [lines] in E. destruct (is_lf c2); [discriminate|]. destruct (lines a'); discriminate.
Qed.

Lemma lines_single : forall ln, ln <> [] -> forallb (fun c => negb (is_lf c)) ln = true -> lines ln = [ln].
Proof.
  induction ln as [|c ln IH]; intros NE H; [contradiction|]. cbn [forallb] in H. apply andb_true_iff in H. destruct H as [H1 H2].
  apply negb_true_iff in H1. cbn [lines]. rewrite H1. destruct ln as [|c2 ln']; [reflexivity|]. rewrite IH; [reflexivity | discriminate | exact H2].
Qed.

Section DollarEof.
  Variable tb : tables.
  Variable lark : text -> text -> option node.
  Variable steps_of : text -> list step.
  Variable rule_id : text -> positive.
  Variable is_token_name : text -> bool.
  Variable r_theta r_init r_up r_low r_iol : positive.
  Notation parse' := (parse tb lark steps_of rule_id is_token_name r_theta r_init r_up r_low r_iol).
  Notation create_all' := (create_all tb lark steps_of rule_id is_token_name r_theta r_init r_up r_low r_iol).

  Lemma create_all_last_bad : forall init bl, forallb is_blank bl = true ->
    forall rs, create_all' (init ++ [(bl ++ [36%N], [])]) <> Ok rs.
  Proof.
    induction init as [|c init IH]; intros bl H rs.
    - cbn [app create_all]. unfold chunk_str. cbn [fst snd]. rewrite app_nil_r. unfold create_record.
      rewrite (bare_dollar_bad_name bl H). discriminate.
    - cbn [app create_all]. destruct (create_record _ _ _ _ _ _ _ _ _ _ (chunk_str c)); [|discriminate].
      destruct (create_all' (init ++ [(bl ++ [36%N], [])])) as [rs'|] eqn:E; [|discriminate]. exfalso. exact (IH bl H rs' E).
  Qed.

  (* a text whose last line is only blanks and '$' is always refused (ModelSyntaxError), whatever precedes it *)
  Lemma dollar_at_eof_refused_lemma : forall pre bl, (pre = [] \/ exists p0, pre = p0 ++ [10%N]) -> forallb is_blank bl = true ->
    forall rs, parse' (pre ++ bl ++ [36%N]) <> Ok rs.
  Proof.
    intros pre bl Hp Hb rs P. unfold parse, split_records in P.
    rewrite (lines_app_complete pre (bl ++ [36%N]) Hp) in P.
    rewrite (lines_single (bl ++ [36%N])) in P.
    - destruct (group_last (lines pre) (bl ++ [36%N]) (match_sep_bare bl Hb)) as [init E].
      set (g := group _) in P. assert (snd g = init ++ [(bl ++ [36%N], [])]) as E' by exact E. clearbody g.
      destruct g as [first chunks]. cbn [snd] in E'. subst chunks.
      destruct (create_all' (init ++ [(bl ++ [36%N], [])])) as [rs0|] eqn:C; [|discriminate].
      exact (create_all_last_bad init bl Hb rs0 C).
    - destruct bl; discriminate.
    - rewrite forallb_app. cbn [forallb]. rewrite andb_true_r.
      clear - Hb. induction bl as [|c bl IH]; [reflexivity|]. cbn [forallb] in *. apply andb_true_iff in Hb. destruct Hb as [H1 H2].
      rewrite (IH H2), andb_true_r. unfold is_blank in H1. unfold is_lf. apply negb_true_iff.
      apply orb_true_iff in H1. destruct H1 as [E|E]; apply N.eqb_eq in E; subst; reflexivity.
  Qed.
End DollarEof.
