(* PV.C03.Proofs — lemmas about the C03 model. *)
From Coq Require Import List Bool NArith PArith Arith Lia ZifyBool.
From PV Require Import Base.PyData C03.Model.
Import ListNotations.
Local Open Scope nat_scope.

(* ------------------------------------------------------------------ generalities *)
Lemma list_eqb_N_eq : forall a b : text, text_eqb a b = true <-> a = b.
Proof.
  unfold text_eqb. induction a as [|x a IH]; destruct b as [|y b]; cbn [list_eqb]; split; intro H;
    try reflexivity; try discriminate.
  - apply andb_true_iff in H. destruct H as [H1 H2]. apply N.eqb_eq in H1. apply IH in H2. subst. reflexivity.
  - injection H as -> ->. rewrite N.eqb_refl. cbn. apply IH. reflexivity.
Qed.

Lemma text_eqb_refl : forall a, text_eqb a a = true.
Proof. intro a. apply list_eqb_N_eq. reflexivity. Qed.

Lemma span_app : forall p l a b, span p l = (a, b) -> a ++ b = l.
Proof.
  induction l as [|c tl IH]; intros a b H; cbn [span] in H.
  - injection H as <- <-. reflexivity.
  - destruct (p c) eqn:E.
    + destruct (span p tl) as [a' b'] eqn:S. injection H as <- <-. cbn. f_equal. apply IH. reflexivity.
    + injection H as <- <-. reflexivity.
Qed.

Lemma span_all : forall p l a b, span p l = (a, b) -> forallb p a = true.
Proof.
  induction l as [|c tl IH]; intros a b H; cbn [span] in H.
  - injection H as <- <-. reflexivity.
  - destruct (p c) eqn:E.
    + destruct (span p tl) as [a' b'] eqn:S. injection H as <- <-. cbn. rewrite E. cbn. eapply IH. reflexivity.
    + injection H as <- <-. reflexivity.
Qed.

Lemma span_stop : forall p l a b, span p l = (a, b) -> match b with [] => True | c :: _ => p c = false end.
Proof.
  induction l as [|c tl IH]; intros a b H; cbn [span] in H.
  - injection H as <- <-. exact I.
  - destruct (p c) eqn:E.
    + destruct (span p tl) as [a' b'] eqn:S. injection H as <- <-. eapply IH. reflexivity.
    + injection H as <- <-. exact E.
Qed.

Lemma span_length : forall p l a b, span p l = (a, b) -> length b <= length l.
Proof. intros p l a b H. apply span_app in H. subst l. rewrite app_length. lia. Qed.

(* ------------------------------------------------------------------ 1. record splitter *)
Lemma lines_concat : forall l, concat (lines l) = l.
Proof.
  induction l as [|c tl IH]; [reflexivity|]. cbn [lines].
  destruct (is_lf c).
  - cbn. f_equal. exact IH.
  - destruct (lines tl) as [|ln rest] eqn:E.
    + cbn in IH. subst tl. reflexivity.
    + cbn in *. f_equal. exact IH.
Qed.

Lemma match_sep_concat : forall l sep rest, match_sep l = Some (sep, rest) -> sep ++ rest = l.
Proof.
  induction l as [|c tl IH]; intros sep rest H; cbn [match_sep] in H; [discriminate|].
  destruct (is_blank c).
  - destruct (match_sep tl) as [[s r]|] eqn:E; [|discriminate]. injection H as <- <-.
    cbn. f_equal. apply IH. reflexivity.
  - destruct (is_dollar c); [|discriminate]. injection H as <- <-. reflexivity.
Qed.

(* the separator is blanks followed by one '$' *)
Lemma match_sep_shape : forall l sep rest, match_sep l = Some (sep, rest) ->
  exists bl, sep = bl ++ [36%N] /\ forallb is_blank bl = true.
Proof.
  induction l as [|c tl IH]; intros sep rest H; cbn [match_sep] in H; [discriminate|].
  destruct (is_blank c) eqn:B.
  - destruct (match_sep tl) as [[s r]|] eqn:E; [|discriminate]. injection H as <- <-.
    destruct (IH s r eq_refl) as [bl [-> Hb]]. exists (c :: bl). split; [reflexivity|]. cbn. rewrite B. exact Hb.
  - destruct (is_dollar c) eqn:D; [|discriminate]. injection H as <- <-. exists []. split; [|reflexivity].
    unfold is_dollar in D. apply N.eqb_eq in D. subst. reflexivity.
Qed.

Lemma group_concat : forall ls, split_str (group ls) = concat ls.
Proof.
  unfold split_str. induction ls as [|ln tl IH]; [reflexivity|]. cbn [group].
  destruct (group tl) as [cont recs] eqn:G. cbn [fst snd] in IH.
  destruct (match_sep ln) as [[sep rest]|] eqn:M; cbn [fst snd map concat chunk_str].
  - apply match_sep_concat in M. subst ln. unfold chunk_str at 1. cbn [fst snd app]. rewrite <- IH.
    rewrite <- !app_assoc. reflexivity.
  - cbn [app]. rewrite <- IH. rewrite app_assoc. reflexivity.
Qed.

Lemma split_concat_lemma : forall t, split_str (split_records t) = t.
Proof. intro t. unfold split_records. rewrite group_concat. apply lines_concat. Qed.

Lemma group_seps : forall ls, Forall (fun c => exists bl, fst c = bl ++ [36%N] /\ forallb is_blank bl = true) (snd (group ls)).
Proof.
  induction ls as [|ln tl IH]; [constructor|]. cbn [group]. destruct (group tl) as [cont recs] eqn:G. cbn [snd] in IH.
  destruct (match_sep ln) as [[sep rest]|] eqn:M; cbn [snd]; [|exact IH].
  constructor; [|exact IH]. cbn [fst]. eapply match_sep_shape. exact M.
Qed.

(* every line of a text ends with LF except possibly the last one, and contains no other LF *)
Definition line_ok (last : bool) (ln : text) : Prop :=
  exists body, forallb (fun c => negb (is_lf c)) body = true /\ (ln = body ++ [10%N] \/ (last = true /\ ln = body /\ body <> [])).

(* ------------------------------------------------------------------ 2. record names *)
Lemma split_name_concat : forall chunk rn content,
  split_raw_record_name chunk = Some (rn, content) -> rn ++ content = chunk.
Proof.
  intros chunk rn content H. unfold split_raw_record_name in H.
  destruct (span is_space chunk) as [sp r1] eqn:S1. destruct r1 as [|c r2]; [discriminate|].
  destruct (is_dollar c); [|discriminate]. destruct (span is_name_char r2) as [nm r3] eqn:S2.
  destruct nm as [|n0 nm]; [discriminate|]. injection H as <- <-.
  apply span_app in S1. apply span_app in S2. subst chunk r2. rewrite <- app_assoc. reflexivity.
Qed.

(* ------------------------------------------------------------------ 4. tokenizer *)
Lemma tlen_app : forall a b : text, tlen (a ++ b) = (tlen a + tlen b)%N.
Proof. intros. unfold tlen. rewrite app_length. lia. Qed.

Lemma tlen_cons : forall (c : N) a, tlen (c :: a) = (1 + tlen a)%N.
Proof. intros. unfold tlen. cbn [length]. lia. Qed.

(* positions are contiguous from off to off + len *)
Fixpoint toks_end (off : N) (ts : list itok) : N :=
  match ts with
  | [] => off
  | t :: tl => toks_end (iend t) tl
  end.
Fixpoint starts_ok (off : N) (ts : list itok) : Prop :=
  match ts with
  | [] => True
  | t :: tl => istart t = off /\ iend t = (off + tlen (ival t))%N /\ starts_ok (iend t) tl
  end.

Definition tok_shape (t : itok) : Prop :=
  match ik t with
  | KWS => ival t <> [] /\ forallb is_ws (ival t) = true
  | KCOMMENT => exists r, ival t = 59%N :: r /\ forallb not_crlf r = true
  | KNEWLINE => ival t = [10%N] \/ ival t = [13%N; 10%N]
  | KCONT => exists r, ival t = 38%N :: r /\ forallb not_crlf r = true
  end.

Lemma tok_fuel_sound : forall fuel off l ts,
  tok_fuel fuel off l = Some ts ->
  itoks_str ts = l /\ starts_ok off ts /\ Forall tok_shape ts.
Proof.
  induction fuel as [|f IH]; intros off l ts H.
  - destruct l; cbn in H; [|discriminate]. injection H as <-. repeat split; constructor.
  - destruct l as [|first tl]; cbn [tok_fuel] in H.
    + injection H as <-. repeat split; constructor.
    + destruct (is_ws first) eqn:W.
      { destruct (span is_ws tl) as [a r] eqn:S.
        destruct (tok_fuel f (off + (1 + tlen a))%N r) as [ts'|] eqn:R; [|discriminate]. injection H as <-.
        destruct (IH _ _ _ R) as [H1 [H2 H3]]. pose proof (span_app _ _ _ _ S) as HA. pose proof (span_all _ _ _ _ S) as HW.
        unfold itoks_str in *. cbn [map concat ival]. rewrite H1. subst tl. split; [reflexivity|].
        split.
        - cbn [starts_ok istart iend ival]. rewrite tlen_cons. auto.
        - constructor; [|exact H3]. unfold tok_shape. cbn [ik ival]. split; [discriminate|]. cbn. rewrite W. exact HW. }
      destruct (first =? 59)%N eqn:C1.
      { destruct (span not_crlf tl) as [a r] eqn:S.
        destruct (tok_fuel f (off + (1 + tlen a))%N r) as [ts'|] eqn:R; [|discriminate]. injection H as <-.
        destruct (IH _ _ _ R) as [H1 [H2 H3]]. pose proof (span_app _ _ _ _ S) as HA. pose proof (span_all _ _ _ _ S) as HW.
        apply N.eqb_eq in C1. subst first.
        unfold itoks_str in *. cbn [map concat ival]. rewrite H1. subst tl. split; [reflexivity|].
        split.
        - cbn [starts_ok istart iend ival]. rewrite tlen_cons. auto.
        - constructor; [|exact H3]. unfold tok_shape. cbn [ik ival]. exists a. auto. }
      destruct (first =? 13)%N eqn:C2.
      { destruct tl as [|c2 r]; [discriminate|]. destruct (c2 =? 10)%N eqn:C3; [|discriminate].
        destruct (tok_fuel f (off + 2)%N r) as [ts'|] eqn:R; [|discriminate]. injection H as <-.
        destruct (IH _ _ _ R) as [H1 [H2 H3]]. apply N.eqb_eq in C2, C3. subst first c2.
        unfold itoks_str in *. cbn [map concat ival]. rewrite H1. split; [reflexivity|]. split.
        - cbn [starts_ok istart iend ival]. unfold tlen. cbn [length]. replace (off + N.of_nat 2)%N with (off + 2)%N by lia. auto.
        - constructor; [|exact H3]. unfold tok_shape. cbn [ik ival]. right. reflexivity. }
      destruct (first =? 10)%N eqn:C4.
      { destruct (tok_fuel f (off + 1)%N tl) as [ts'|] eqn:R; [|discriminate]. injection H as <-.
        destruct (IH _ _ _ R) as [H1 [H2 H3]]. apply N.eqb_eq in C4. subst first.
        unfold itoks_str in *. cbn [map concat ival]. rewrite H1. split; [reflexivity|]. split.
        - cbn [starts_ok istart iend ival]. unfold tlen. cbn [length]. replace (off + N.of_nat 1)%N with (off + 1)%N by lia. auto.
        - constructor; [|exact H3]. unfold tok_shape. cbn [ik ival]. left. reflexivity. }
      destruct (first =? 38)%N eqn:C5; [|discriminate].
      { destruct (span not_crlf tl) as [a r] eqn:S.
        destruct (tok_fuel f (off + (1 + tlen a))%N r) as [ts'|] eqn:R; [|discriminate]. injection H as <-.
        destruct (IH _ _ _ R) as [H1 [H2 H3]]. pose proof (span_app _ _ _ _ S) as HA. pose proof (span_all _ _ _ _ S) as HW.
        apply N.eqb_eq in C5. subst first.
        unfold itoks_str in *. cbn [map concat ival]. rewrite H1. subst tl. split; [reflexivity|].
        split.
        - cbn [starts_ok istart iend ival]. rewrite tlen_cons. auto.
        - constructor; [|exact H3]. unfold tok_shape. cbn [ik ival]. exists a. auto. }
Qed.

(* the language of ignorable text as a two-state automaton (independent specification):
   outside a comment only WS, ';', '&', LF and CR LF may occur; a comment/continuation runs to the
   end of the line; a CR must always be followed by LF *)
Fixpoint accept (in_comment : bool) (l : text) : bool :=
  match l with
  | [] => true
  | c :: tl =>
      if (c =? 10)%N then accept false tl
      else if (c =? 13)%N then match tl with c2 :: tl' => (c2 =? 10)%N && accept false tl' | [] => false end
      else if in_comment then accept true tl
      else if is_ws c then accept false tl
      else if (c =? 59)%N || (c =? 38)%N then accept true tl
      else false
  end.

Lemma accept_ws_prefix : forall a r, forallb is_ws a = true -> accept false (a ++ r) = accept false r.
Proof.
  induction a as [|c a IH]; intros r H; [reflexivity|]. cbn in H. apply andb_true_iff in H. destruct H as [Hc Ha].
  cbn [app accept]. unfold is_ws in Hc.
  destruct (c =? 10)%N eqn:E1; [lia|]. destruct (c =? 13)%N eqn:E2; [lia|].
  unfold is_ws. rewrite Hc. apply IH. exact Ha.
Qed.

Lemma accept_comment_prefix : forall a r, forallb not_crlf a = true -> accept true (a ++ r) = accept true r.
Proof.
  induction a as [|c a IH]; intros r H; [reflexivity|]. cbn in H. apply andb_true_iff in H. destruct H as [Hc Ha].
  cbn [app accept]. unfold not_crlf, is_crlf in Hc.
  destruct (c =? 10)%N eqn:E1; [lia|]. destruct (c =? 13)%N eqn:E2; [lia|]. apply IH. exact Ha.
Qed.

(* at a line end (or the end of the text) the comment state is irrelevant *)
Lemma accept_at_stop : forall r, match r with [] => True | c :: _ => not_crlf c = false end ->
  accept true r = accept false r.
Proof.
  intros [|c r] H; [reflexivity|]. cbn [accept]. unfold not_crlf, is_crlf in H.
  destruct (c =? 10)%N eqn:E1; [reflexivity|]. destruct (c =? 13)%N eqn:E2; [reflexivity|]. cbn in H. discriminate.
Qed.

Lemma tok_fuel_accept : forall fuel off l, length l <= fuel ->
  (exists ts, tok_fuel fuel off l = Some ts) <-> accept false l = true.
Proof.
  induction fuel as [|f IH]; intros off l Hlen.
  - destruct l; [|cbn in Hlen; lia]. cbn. split; [reflexivity|]. intros _. eexists. reflexivity.
  - destruct l as [|first tl]; [cbn; split; [reflexivity| intros _; eexists; reflexivity]|].
    cbn [length] in Hlen. cbn [tok_fuel accept].
    destruct (is_ws first) eqn:W.
    { assert (first =? 10 = false)%N as E1 by (unfold is_ws in W; lia).
      assert (first =? 13 = false)%N as E2 by (unfold is_ws in W; lia). rewrite E1, E2.
      destruct (span is_ws tl) as [a r] eqn:S. pose proof (span_app _ _ _ _ S) as HA. pose proof (span_all _ _ _ _ S) as HW.
      pose proof (span_length _ _ _ _ S) as HL.
      rewrite <- HA, accept_ws_prefix by exact HW. rewrite <- (IH (off + (1 + tlen a))%N r) by lia.
      destruct (tok_fuel f (off + (1 + tlen a))%N r); split; intros [ts E]; try discriminate; eexists; reflexivity. }
    destruct (first =? 59)%N eqn:C1.
    { assert (first =? 10 = false)%N as E1 by lia. assert (first =? 13 = false)%N as E2 by lia. rewrite E1, E2. cbn [orb].
      destruct (span not_crlf tl) as [a r] eqn:S. pose proof (span_app _ _ _ _ S) as HA. pose proof (span_all _ _ _ _ S) as HW.
      pose proof (span_length _ _ _ _ S) as HL. pose proof (span_stop _ _ _ _ S) as HS.
      rewrite <- HA, accept_comment_prefix by exact HW. rewrite accept_at_stop by exact HS.
      rewrite <- (IH (off + (1 + tlen a))%N r) by lia.
      destruct (tok_fuel f (off + (1 + tlen a))%N r); split; intros [ts E]; try discriminate; eexists; reflexivity. }
    destruct (first =? 13)%N eqn:C2.
    { assert (first =? 10 = false)%N as E1 by lia. rewrite E1.
      destruct tl as [|c2 r]; [split; [intros [ts E]; discriminate | discriminate]|].
      destruct (c2 =? 10)%N eqn:C3; cbn [andb]; [|split; [intros [ts E]; discriminate | discriminate]].
      cbn [length] in Hlen. rewrite <- (IH (off + 2)%N r) by lia.
      destruct (tok_fuel f (off + 2)%N r); split; intros [ts E]; try discriminate; eexists; reflexivity. }
    destruct (first =? 10)%N eqn:C4.
    { rewrite <- (IH (off + 1)%N tl) by lia.
      destruct (tok_fuel f (off + 1)%N tl); split; intros [ts E]; try discriminate; eexists; reflexivity. }
    destruct (first =? 38)%N eqn:C5.
    { rewrite orb_true_r.
      destruct (span not_crlf tl) as [a r] eqn:S. pose proof (span_app _ _ _ _ S) as HA. pose proof (span_all _ _ _ _ S) as HW.
      pose proof (span_length _ _ _ _ S) as HL. pose proof (span_stop _ _ _ _ S) as HS.
      rewrite <- HA, accept_comment_prefix by exact HW. rewrite accept_at_stop by exact HS.
      rewrite <- (IH (off + (1 + tlen a))%N r) by lia.
      destruct (tok_fuel f (off + (1 + tlen a))%N r); split; intros [ts E]; try discriminate; eexists; reflexivity. }
    cbn [orb]. split; [intros [ts E]; discriminate | discriminate].
Qed.

(* ------------------------------------------------------------------ slices *)
Lemma firstn_add : forall (A : Type) (n m : nat) (l : list A), firstn (n + m) l = firstn n l ++ firstn m (skipn n l).
Proof.
  induction n as [|n IH]; intros m l; [reflexivity|]. destruct l as [|x l]; cbn.
  - rewrite firstn_nil. reflexivity.
  - f_equal. apply IH.
Qed.

Lemma skipn_add : forall (A : Type) (n m : nat) (l : list A), skipn (n + m) l = skipn m (skipn n l).
Proof.
  induction n as [|n IH]; intros m l; [reflexivity|]. destruct l as [|x l]; cbn.
  - rewrite skipn_nil. reflexivity.
  - apply IH.
Qed.

Lemma sub_app : forall s i j k, (i <= j)%N -> (j <= k)%N -> sub s i j ++ sub s j k = sub s i k.
Proof.
  intros s i j k H1 H2. unfold sub.
  replace (N.to_nat (k - i)) with (N.to_nat (j - i) + N.to_nat (k - j)) by lia.
  rewrite firstn_add. f_equal. f_equal.
  replace (N.to_nat j) with (N.to_nat i + N.to_nat (j - i)) by lia. rewrite skipn_add. reflexivity.
Qed.

Lemma sub_nil : forall s i, sub s i i = [].
Proof. intros. unfold sub. replace (N.to_nat (i - i)) with 0 by lia. reflexivity. Qed.

Lemma sub_full : forall s, sub s 0%N (tlen s) = s.
Proof.
  intros. unfold sub, tlen. cbn [N.to_nat skipn]. replace (N.to_nat (N.of_nat (length s) - 0)) with (length s) by lia.
  apply firstn_all.
Qed.

Lemma sub_length : forall s i j, (i <= j)%N -> (j <= tlen s)%N -> length (sub s i j) = N.to_nat (j - i).
Proof.
  intros s i j H1 H2. unfold sub, tlen in *. rewrite firstn_length, skipn_length. lia.
Qed.

Lemma tokenize_str : forall s i j ts, (i <= j)%N -> tokenize s i j = Some ts -> itoks_str ts = sub s i j.
Proof.
  intros s i j ts Hij H. unfold tokenize in H. destruct (i <? j)%N eqn:L.
  - destruct (j <=? tlen s)%N; [|discriminate]. unfold tok_list in H. apply tok_fuel_sound in H. apply H.
  - injection H as <-. assert (i = j) by lia. subst. rewrite sub_nil. reflexivity.
Qed.

(* ------------------------------------------------------------------ 5. trees *)
Section NodeInd.
  Variable P : node -> Prop.
  Hypothesis HTok : forall r p v, P (Tok r p v).
  Hypothesis HTree : forall r m ch, Forall P ch -> P (Tree r m ch).
  Fixpoint node_ind' (n : node) : P n :=
    match n with
    | Tok r p v => HTok r p v
    | Tree r m ch =>
        HTree r m ch ((fix go (l : list node) : Forall P l :=
                         match l with
                         | [] => Forall_nil P
                         | c :: tl => Forall_cons c (node_ind' c) (go tl)
                         end) ch)
    end.
End NodeInd.

Fixpoint tr_list (src : text) (l : list node) : option (list node) :=
  match l with
  | [] => Some []
  | c :: tl => match transform src c, tr_list src tl with
               | Some c', Some tl' => Some (c' :: tl')
               | _, _ => None
               end
  end.

Lemma transform_tree : forall src r m ch,
  transform src (Tree r m ch) =
  match tr_list src ch with
  | None => None
  | Some ch' => match interleave src ch' with None => None | Some ch'' => Some (Tree r m ch'') end
  end.
Proof.
  intros. cbn [transform].
  replace ((fix go (l : list node) : option (list node) :=
              match l with
              | [] => Some []
              | c :: tl => match transform src c, go tl with
                           | Some c', Some tl' => Some (c' :: tl')
                           | _, _ => None
                           end
              end) ch) with (tr_list src ch); [reflexivity|].
  induction ch as [|c tl IH]; [reflexivity|]. cbn [tr_list]. rewrite IH. reflexivity.
Qed.

Lemma str_itoks : forall ts, flat_map str (map node_of_itok ts) = itoks_str ts.
Proof.
  induction ts as [|t tl IH]; [reflexivity|]. cbn [map flat_map]. unfold itoks_str in *. cbn [map concat].
  rewrite IH. reflexivity.
Qed.

(* what the induction carries for one (transformed) node *)
Definition node_fact (src : text) (n n' : node) : Prop :=
  item_range n' = item_range n /\
  match item_range n with
  | Some (s, e) => (s <= e)%N /\ (e <= tlen src)%N /\ str n' = sub src s e
  | None => str n' = []
  end.

Lemma ordered_from_weaken : forall ch i i', (i' <= i)%N -> ordered_from i ch = true -> ordered_from i' ch = true.
Proof.
  induction ch as [|c tl IH]; intros i i' H O; [reflexivity|]. cbn [ordered_from] in *.
  destruct (item_range c) as [[s e]|].
  - apply andb_true_iff in O. destruct O as [O1 O3]. apply andb_true_iff in O1. destruct O1 as [O1 O2].
    rewrite O3, O2. cbn. rewrite andb_true_r. lia.
  - eapply IH; eauto.
Qed.

(* interleave_go over children that all satisfy node_fact *)
Lemma interleave_go_str : forall src orig l i r,
  Forall2 (node_fact src) orig l ->
  (i <= tlen src)%N -> ordered_from i orig = true ->
  interleave_go src i l = Some r ->
  exists e, (match last_range orig with Some (_, e') => e' | None => i end) = e /\
            (i <= e)%N /\ (e <= tlen src)%N /\ flat_map str r = sub src i e /\
            Forall (fun c => item_range c <> None) orig.
Proof.
  intros src orig l. revert orig. induction l as [|x tl IH]; intros orig i r F Hi O H.
  - inversion F; subst. cbn in H. injection H as <-. cbn. exists i. rewrite sub_nil. repeat split; try lia. constructor.
  - inversion F as [|o x' otl tl' Hx Ftl]; subst. cbn [interleave_go] in H.
    destruct Hx as [Hr Hx]. rewrite Hr in H.
    destruct (item_range o) as [[j k]|] eqn:Ro; [|discriminate].
    destruct Hx as [Hjk [Hk Hstr]].
    cbn [ordered_from] in O. rewrite Ro in O. apply andb_true_iff in O. destruct O as [O1 O3].
    apply andb_true_iff in O1. destruct O1 as [O1 O2].
    destruct (if (i <? j)%N then tokenize src i j else Some []) as [gap|] eqn:G; [|discriminate].
    destruct (interleave_go src k tl) as [r'|] eqn:R; [|discriminate]. injection H as <-.
    destruct (IH otl k r' Ftl Hk O3 R) as [e [He [Hke [Hel [Hs Hall]]]]].
    assert (itoks_str gap = sub src i j) as HG.
    { destruct (i <? j)%N eqn:L.
      - apply tokenize_str in G; [exact G | lia].
      - injection G as <-. assert (i = j) by lia. subst. rewrite sub_nil. reflexivity. }
    exists e. split.
    { cbn [last_range]. destruct (last_range otl) as [[a b]|] eqn:LR; [exact He|]. rewrite Ro. subst e. reflexivity. }
    split; [lia|]. split; [exact Hel|]. split.
    + rewrite flat_map_app. cbn [flat_map]. rewrite str_itoks, HG, Hstr, Hs.
      rewrite (sub_app src j k e) by lia. apply sub_app; lia.
    + constructor; [rewrite Ro; discriminate | exact Hall].
Qed.

Lemma first_range_all : forall ch c tl, ch = c :: tl -> item_range c <> None -> first_range ch = item_range c.
Proof. intros ch c tl -> H. cbn. destruct (item_range c); [reflexivity | contradiction]. Qed.

Lemma forall2_item_range : forall src orig l, Forall2 (node_fact src) orig l -> map item_range l = map item_range orig.
Proof. intros src orig l F. induction F as [|o x otl tl [H _] _ IH]; [reflexivity|]. cbn. rewrite H, IH. reflexivity. Qed.

Lemma tr_list_facts : forall src ch,
  Forall (fun c => lark_contract src c = true -> forall n', transform src c = Some n' -> node_fact src c n') ch ->
  forallb (lark_contract src) ch = true ->
  forall ch', tr_list src ch = Some ch' -> Forall2 (node_fact src) ch ch'.
Proof.
  intros src ch HF. induction HF as [|c tl Pc _ IHl]; intros C3 ch' TL.
  - cbn in TL. injection TL as <-. constructor.
  - cbn [tr_list] in TL. destruct (transform src c) as [c'|] eqn:Tc; [|discriminate].
    destruct (tr_list src tl) as [tl'|] eqn:Ttl; [|discriminate]. injection TL as <-.
    cbn [forallb] in C3. apply andb_true_iff in C3. destruct C3 as [Cc Ctl].
    constructor.
    + apply Pc; [exact Cc | reflexivity].
    + apply IHl; [exact Ctl | reflexivity].
Qed.

Lemma transform_fact : forall src n, lark_contract src n = true -> forall n', transform src n = Some n' -> node_fact src n n'.
Proof.
  intro src. induction n as [r p v | r m ch IHch] using node_ind'; intros C n' T.
  - cbn in T. injection T as <-. split; [reflexivity|]. cbn [item_range lark_contract str] in *.
    destruct p as [[s e]|].
    + apply andb_true_iff in C. destruct C as [C1 C3]. apply andb_true_iff in C1. destruct C1 as [C1 C2].
      apply list_eqb_N_eq in C3. repeat split; try lia. symmetry. exact C3.
    + destruct v; [reflexivity | discriminate].
  - rewrite transform_tree in T. destruct (tr_list src ch) as [ch'|] eqn:TL; [|discriminate].
    destruct (interleave src ch') as [ch''|] eqn:IL; [|discriminate]. injection T as <-.
    cbn [lark_contract] in C. apply andb_true_iff in C. destruct C as [C1 C3]. apply andb_true_iff in C1. destruct C1 as [C1 C2].
    (* children facts *)
    assert (Forall2 (node_fact src) ch ch') as F by (eapply tr_list_facts; eauto).
    split; [reflexivity|]. cbn [item_range str].
    (* m = span_of ch *)
    assert (m = span_of ch) as Hm.
    { unfold range_eqb in C1. destruct m as [[a b]|], (span_of ch) as [[a' b']|]; try discriminate; try reflexivity.
      apply andb_true_iff in C1. destruct C1 as [E1 E2]. apply N.eqb_eq in E1, E2. subst. reflexivity. }
    subst m.
    destruct ch' as [|x [|y rest]].
    + (* no children *) inversion F; subst. cbn in IL. injection IL as <-. reflexivity.
    + (* one child *) inversion F as [|o ? otl ? Hx Ftl]; subst. inversion Ftl; subst. cbn in IL. injection IL as <-.
      destruct Hx as [Hr Hx]. unfold span_of. cbn [first_range last_range flat_map].
      rewrite app_nil_r. destruct (item_range o) as [[s e]|]; exact Hx.
    + (* at least two children *)
      inversion F as [|o ? otl ? Hx Ftl]; subst. cbn [interleave] in IL. destruct Hx as [Hr Hx]. rewrite Hr in IL.
      destruct (item_range o) as [[s1 e1]|] eqn:Ro; [|discriminate].
      destruct (interleave_go src e1 (y :: rest)) as [r'|] eqn:G; [|discriminate]. injection IL as <-.
      destruct Hx as [Hse [He1 Hstr]].
      cbn [ordered_from] in C2. rewrite Ro in C2. apply andb_true_iff in C2. destruct C2 as [C2a C2c].
      destruct (interleave_go_str src otl (y :: rest) e1 r' Ftl He1 C2c G) as [e [He [Hee [Hel [Hs Hall]]]]].
      unfold span_of. cbn [first_range last_range]. rewrite Ro.
      assert (last_range otl <> None) as LRn.
      { inversion Ftl as [|o2 ? otl2 ? _ _]; subst. inversion Hall as [|? ? Ho2 Hrest]; subst. cbn [last_range].
        destruct (last_range otl2); [discriminate|]. exact Ho2. }
      destruct (last_range otl) as [[a b]|] eqn:LR; [|contradiction]. subst e.
      repeat split; try lia. cbn [flat_map]. rewrite Hstr, Hs. apply sub_app; lia.
Qed.

Lemma with_ignored_str : forall src t t', lark_contract src t = true -> with_ignored src t = Some t' -> str t' = src.
Proof.
  intros src t t' C H. unfold with_ignored in H. destruct (transform src t) as [n|] eqn:T; [|discriminate].
  pose proof (transform_fact src t C n T) as [Hr Hf].
  destruct n as [|r m ch]; [discriminate|]. cbn [item_range] in Hr. rewrite <- Hr in Hf. cbn [str] in Hf.
  destruct ch as [|c0 ch0].
  - destruct (tokenize src 0 (tlen src)) as [ts|] eqn:K; [|discriminate]. injection H as <-. cbn [str].
    rewrite str_itoks. apply tokenize_str in K; [|lia]. rewrite K. apply sub_full.
  - destruct m as [[s e]|]; [|discriminate]. destruct Hf as [Hse [Hel Hstr]].
    destruct (tokenize src 0 s) as [a|] eqn:KA; [|discriminate]. destruct (tokenize src e (tlen src)) as [b|] eqn:KB; [|discriminate].
    injection H as <-. cbn [str]. change (c0 :: ch0 ++ map node_of_itok b) with ((c0 :: ch0) ++ map node_of_itok b).
    rewrite !flat_map_app, !str_itoks, Hstr.
    apply tokenize_str in KA; [|lia]. apply tokenize_str in KB; [|lia]. rewrite KA, KB.
    rewrite (sub_app src s e (tlen src)) by lia. rewrite (sub_app src 0 s (tlen src)) by lia. apply sub_full.
Qed.
