(* PV.C02.ProofsKeepText — unchanged statements keep their source nodes. *)
From Coq Require Import List Bool Arith Lia.
From PV Require Import C02.Lcs C02.ProofsLcs C02.IndexDiff C02.ProofsIndexDiff C02.KeepText.
Import ListNotations.
Local Open Scope nat_scope.

Section P.
  Variable A : Type.
  Variable N : Type.
  Variable gen : A -> list N.

  Lemma build_keeps children : forall es last stmts ni nj,
    In (Keep, stmts, ni, nj) es -> infix (slice children ni nj) (build gen children last es).
  Proof.
    induction es as [|[[[o st] i] j] tl IH]; intros last stmts ni nj Hin; [destruct Hin|].
    cbn [build]. destruct Hin as [Heq|Hin].
    - inversion Heq; subst. exists (slice children last ni), (build gen children nj tl). reflexivity.
    - destruct (IH j stmts ni nj Hin) as [p [s E]]. rewrite E.
      exists (slice children last i ++ match o with Ins => flat_map gen st | Keep => slice children i j | Del => [] end ++ p), s.
      rewrite <- !app_assoc. reflexivity.
  Qed.

  Lemma take_group_0 (s : list (op * A)) : take_group 0 s = Some ([], s).
  Proof. destruct s; reflexivity. Qed.

  Lemma isd_singleton_kept fuel : forall last index (s : list (op * A)) es,
    singleton_index index = true -> isd fuel last index s = Some es -> kept_statements es = kept s.
  Proof.
    induction fuel as [|f IH]; intros last index s es Hs H.
    - destruct s as [|[o v] tl]; cbn in H; [inversion H; reflexivity | discriminate].
    - destruct s as [|[o v] tl]; cbn [isd] in H; [inversion H; reflexivity|].
      destruct (is_ins o) eqn:Eo.
      + destruct (isd f last index tl) as [es'|] eqn:E; [|discriminate]. cbn in H. inversion H; subst.
        destruct o; try discriminate. unfold kept_statements, keep_entries. cbn [filter is_keep kept].
        exact (IH _ _ _ _ Hs E).
      + destruct index as [|[[[ni nj] si] sj] itl]; [discriminate|].
        cbn [singleton_index forallb] in Hs. apply andb_prop in Hs. destruct Hs as [H1 Hs].
        apply Nat.eqb_eq in H1. subst sj. replace (S si - si - 1) with 0 in H by lia.
        rewrite take_group_0 in H.
        destruct (isd f nj itl tl) as [es'|] eqn:E; [|discriminate]. cbn in H. inversion H; subst.
        specialize (IH _ _ _ _ Hs E). unfold kept_statements, keep_entries in *.
        unfold group_entries. destruct o; try discriminate; cbn [forallb fst is_keep andb].
        * cbn [app filter is_keep flat_map map snd kept]. rewrite IH. reflexivity.
        * cbn [filter negb is_ins is_del fst map app is_keep kept]. exact IH.
  Qed.
End P.
