(* PV.C02.IndexDiff — executable model of code_record._index_statements_diff: the diff of statements is
   regrouped along the index (ni, nj, si, sj) that maps parse-tree nodes [ni, nj) to statements [si, sj).
   No proofs here. *)
From Coq Require Import List Bool Arith.
From PV Require Import C02.Lcs.
Import ListNotations.
Local Open Scope nat_scope.

Section ISD.
  Variable A : Type.
  Notation script := (list (op * A)).
  Definition ientry := (nat * nat * nat * nat)%type.              (* ni, nj, si, sj *)
  Definition oentry := (op * list A * nat * nat)%type.            (* op, statements, ni, nj *)

  Definition is_ins (o : op) : bool := match o with Ins => true | _ => false end.
  Definition is_del (o : op) : bool := match o with Del => true | _ => false end.
  Definition is_keep (o : op) : bool := match o with Keep => true | _ => false end.

  (* while expected > 0: op, s = next(it); append; if op != 1: expected -= 1
     None: the iterator is exhausted first (StopIteration inside the generator) *)
  Fixpoint take_group (expected : nat) (s : script) : option (script * script) :=
    match expected with
    | 0 => Some ([], s)
    | S e =>
        match s with
        | [] => None
        | (o, v) :: tl =>
            match take_group (if is_ins o then expected else e) tl with
            | Some (g, rest) => Some ((o, v) :: g, rest)
            | None => None
            end
        end
    end.

  Definition group_entries (ops : script) (ni nj : nat) : list oentry :=
    if forallb (fun p => is_keep (fst p)) ops
    then [(Keep, map snd ops, ni, nj)]
    else (Del, map snd (filter (fun p => negb (is_ins (fst p))) ops), ni, nj) ::
         match map snd (filter (fun p => negb (is_del (fst p))) ops) with
         | [] => []
         | ns => [(Ins, ns, nj, nj)]
         end.

  (* recursion on fuel; [length s] always suffices *)
  Fixpoint isd (fuel : nat) (last : nat) (index : list ientry) (s : script) : option (list oentry) :=
    match s with
    | [] => Some []
    | (o, v) :: tl =>
        match fuel with
        | 0 => None
        | S f =>
            if is_ins o then option_map (cons (Ins, [v], last, last)) (isd f last index tl)
            else match index with
                 | [] => None                                   (* assert index_index < len(index) *)
                 | (ni, nj, si, sj) :: itl =>
                     match take_group (sj - si - 1) tl with
                     | None => None
                     | Some (g, rest) =>
                         option_map (app (group_entries ((o, v) :: g) ni nj)) (isd f nj itl rest)
                     end
                 end
        end
    end.

  Definition index_statements_diff (last : nat) (index : list ientry) (s : script) : option (list oentry) :=
    isd (length s) last index s.

  (* what update_statements does with the entries: op 1 -> print the statements, op 0 -> keep the nodes *)
  Definition new_side (es : list oentry) : list A :=
    flat_map (fun e => let '(o, l, _, _) := e in if is_del o then [] else l) es.
  Definition old_side (es : list oentry) : list A :=
    flat_map (fun e => let '(o, l, _, _) := e in if is_ins o then [] else l) es.

  (* the index covers the old statements: every group is non-empty and the groups are as many as old *)
  Fixpoint index_total (index : list ientry) : nat :=
    match index with [] => 0 | (_, _, si, sj) :: tl => (sj - si) + index_total tl end.
  Definition index_wf (index : list ientry) : bool :=
    forallb (fun e => let '(_, _, si, sj) := e in si <? sj) index.
End ISD.

Arguments take_group {A}. Arguments group_entries {A}. Arguments isd {A}. Arguments index_statements_diff {A}.
Arguments new_side {A}. Arguments old_side {A}.
