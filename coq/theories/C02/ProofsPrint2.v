(* PV.C02.ProofsPrint2 — the printer is total on sympy Piecewises, and a syntactic criterion under
   which the several-logical-IFs form is sound at EVERY state. *)
From Coq Require Import QArith List Bool PArith Arith Lia.
From PV Require Import Base.PyData Base.Expr Base.Stmts C02.Model C02.ProofsPrint.
Import ListNotations.
Local Open Scope nat_scope.

(* ---- totality ---- *)
Lemma block_tail_total x : forall l,
  forallb (fun cv => negb (is_ctrue (fst cv))) (removelast l) = true ->
  exists r, block_tail x l = Some r.
Proof.
  induction l as [|[c v] tl IH]; intro H; [eexists; reflexivity|].
  cbn [block_tail]. destruct tl as [|p tl'].
  - destruct (is_ctrue c); eexists; reflexivity.
  - change (removelast ((c, v) :: p :: tl')) with ((c, v) :: removelast (p :: tl')) in H.
    cbn [forallb fst] in H. apply andb_prop in H. destruct H as [Hc Ht].
    apply negb_true_iff in Hc. rewrite Hc. destruct (IH Ht) as [[brs els] E]. rewrite E. eexists; reflexivity.
Qed.

Lemma print_block_total x l :
  2 <= length l -> forallb (fun cv => negb (is_ctrue (fst cv))) (removelast l) = true ->
  exists r, print_block x l = Some r.
Proof.
  intros Hl H. destruct l as [|[c v] [|p tl]]; cbn [length] in Hl; try lia.
  change (removelast ((c, v) :: p :: tl)) with ((c, v) :: removelast (p :: tl)) in H.
  cbn [forallb fst] in H. apply andb_prop in H. destruct H as [Hc Ht]. apply negb_true_iff in Hc.
  unfold print_block. rewrite Hc. destruct (block_tail_total x (p :: tl) Ht) as [[brs els] E]. rewrite E.
  eexists; reflexivity.
Qed.

Lemma removelast_length {A} (l : list A) : length (removelast l) = length l - 1.
Proof.
  induction l as [|a [|b tl] IH]; try reflexivity.
  change (removelast (a :: b :: tl)) with (a :: removelast (b :: tl)). cbn [length] in *. lia.
Qed.

Lemma forallb_removelast {A} (f : A -> bool) (l : list A) : forallb f l = true -> forallb f (removelast l) = true.
Proof.
  induction l as [|a [|b tl] IH]; intro H; try reflexivity.
  change (removelast (a :: b :: tl)) with (a :: removelast (b :: tl)).
  cbn [forallb] in *. apply andb_prop in H. destruct H as [H1 H2]. rewrite H1. exact (IH H2).
Qed.

Lemma print_total_lemma D x e :
  g_sympy e = true -> exists l, print_stmt D x e = Some l.
Proof.
  intros Hs. unfold print_stmt. unfold g_sympy in Hs.
  destruct (is_pw e) eqn:Hpw; [|eexists; reflexivity].
  apply andb_prop in Hs. destruct Hs as [Hs H3]. apply andb_prop in Hs. destruct Hs as [_ Hnt].
  unfold print_piecewise, stripped_ps.
  set (ps0 := pieces e) in *.
  destruct (has_added_else D x ps0) eqn:Ha.
  - (* the last piece has a True condition and is dropped *)
    assert (Hlen : 2 <= length ps0).
    { destruct ps0 as [|[c v] [|p tl]] eqn:E; cbn [length]; try lia.
      - discriminate Ha.
      - unfold has_added_else in Ha. cbn [last_opt] in Ha. apply andb_prop in Ha. destruct Ha as [Hc _].
        cbn [length Nat.leb orb] in H3. rewrite Hc in H3. discriminate H3. }
    destruct (removelast ps0) as [|[c v] [|p tl]] eqn:Er.
    + pose proof (removelast_length ps0) as Hl. rewrite Er in Hl. cbn [length] in Hl. lia.
    + cbn [forallb fst] in Hnt. apply andb_prop in Hnt. destruct Hnt as [Hc _]. apply negb_true_iff in Hc.
      rewrite Hc. eexists; reflexivity.
    + destruct (single_form ((c, v) :: p :: tl)); [eexists; reflexivity|].
      apply print_block_total; [cbn [length]; lia|]. apply forallb_removelast. exact Hnt.
  - destruct ps0 as [|[c v] [|p tl]] eqn:E.
    + destruct e; discriminate.
    + cbn [length Nat.leb orb] in H3. apply negb_true_iff in H3. rewrite H3. eexists; reflexivity.
    + destruct (single_form ((c, v) :: p :: tl)); [eexists; reflexivity|].
      apply print_block_total; [cbn [length]; lia | exact Hnt].
Qed.

(* ---- categorical conditions are exclusive at every state ---- *)
Section Cat.
  Variable fi : finterp.

  Fixpoint count_eq_q (v : Q) (l : list Q) : nat :=
    match l with [] => 0 | q :: tl => if Qeq_bool v q then S (count_eq_q v tl) else count_eq_q v tl end.

  Lemma count_true_eq_consts r s v : r s = Some v ->
    forall cs l, all_eq_consts s cs = Some l -> count_true fi r cs = Some (count_eq_q v l).
  Proof.
    intros Hr. induction cs as [|c tl IH]; intros l H; cbn [all_eq_consts] in H.
    - inversion H. reflexivity.
    - destruct (eq_const c) as [[s' q]|] eqn:Ec; [|discriminate].
      destruct (all_eq_consts s tl) as [l'|] eqn:El; [|discriminate].
      destruct (Pos.eqb s' s) eqn:Es; [|discriminate]. inversion H; subst. apply Pos.eqb_eq in Es; subst s'.
      destruct c; try discriminate. destruct o; try discriminate. destruct a; try discriminate.
      destruct b; try discriminate. cbn [eq_const] in Ec. inversion Ec; subst.
      cbn [count_true evalc eval]. rewrite Hr. cbn [obind relb]. rewrite (IH l' eq_refl).
      cbn [count_eq_q]. destruct (Qeq_bool v q); reflexivity.
  Qed.

  Lemma count_eq_q_nodup v l : q_nodup l = true -> count_eq_q v l <= 1.
  Proof.
    induction l as [|q tl IH]; intro H; cbn [count_eq_q]; [lia|].
    cbn [q_nodup] in H. apply andb_prop in H. destruct H as [Hn Ht]. specialize (IH Ht).
    destruct (Qeq_bool v q) eqn:E; [|exact IH].
    assert (Hz : count_eq_q v tl = 0).
    { apply negb_true_iff in Hn. clear IH Ht. induction tl as [|q' tl' IH']; [reflexivity|].
      cbn [existsb] in Hn. apply orb_false_iff in Hn. destruct Hn as [Hq Hrest]. cbn [count_eq_q].
      destruct (Qeq_bool v q') eqn:E'.
      - apply Qeq_bool_iff in E, E'. assert (Hqq : Qeq q q') by (rewrite <- E, <- E'; reflexivity).
        apply Qeq_bool_iff in Hqq. rewrite Hqq in Hq. discriminate.
      - exact (IH' Hrest). }
    lia.
  Qed.

  Lemma syn_disjoint_count r cs s q0 c0 tl v :
    cs = c0 :: tl -> eq_const c0 = Some (s, q0) -> syn_disjoint cs = true -> r s = Some v ->
    exists n, count_true fi r cs = Some n /\ n <= 1.
  Proof.
    intros Hcs Hc0 Hs Hr. subst cs. unfold syn_disjoint in Hs. rewrite Hc0 in Hs.
    destruct (all_eq_consts s (c0 :: tl)) as [l|] eqn:El; [|discriminate].
    exists (count_eq_q v l). split; [apply (count_true_eq_consts r s v Hr _ _ El) | apply count_eq_q_nodup; exact Hs].
  Qed.

  (* free symbols of categorical conditions: only the pivot symbol *)
  Lemma all_eq_consts_syms s : forall cs l, all_eq_consts s cs = Some l ->
    forall y, In y (flat_map free_symsc cs) -> y = s.
  Proof.
    induction cs as [|c tl IH]; intros l H y Hy; [destruct Hy|].
    cbn [all_eq_consts] in H.
    destruct (eq_const c) as [[s' q]|] eqn:Ec; [|discriminate].
    destruct (all_eq_consts s tl) as [l'|] eqn:El; [|discriminate].
    destruct (Pos.eqb s' s) eqn:Es; [|discriminate]. apply Pos.eqb_eq in Es; subst s'.
    cbn [flat_map] in Hy. apply in_app_or in Hy. destruct Hy as [Hy|Hy]; [|exact (IH l' eq_refl y Hy)].
    destruct c; try discriminate. destruct o; try discriminate. destruct a; try discriminate.
    destruct b; try discriminate. cbn [eq_const] in Ec. inversion Ec; subst.
    cbn in Hy. destruct Hy as [Hy|[]]. symmetry; exact Hy.
  Qed.

  Lemma categorical_guard_lemma D x e s q0 c0 tl r v :
    conds_of (stripped D x e) = c0 :: tl -> eq_const c0 = Some (s, q0) ->
    syn_disjoint (conds_of (stripped D x e)) = true -> s <> x -> r s = Some v ->
    g_self_free D x e = true /\ g_disjoint fi r D x e = true.
  Proof.
    intros Hcs Hc0 Hs Hne Hr. unfold g_self_free, g_disjoint.
    destruct (several_ifs D x e); [|split; reflexivity]. split.
    - apply negb_true_iff. destruct (memp x (flat_map free_symsc (conds_of (stripped D x e)))) eqn:Em; [|reflexivity].
      apply memp_In in Em. unfold syn_disjoint in Hs. rewrite Hcs in Hs, Em. rewrite Hc0 in Hs.
      destruct (all_eq_consts s (c0 :: tl)) as [l|] eqn:El; [|discriminate].
      pose proof (all_eq_consts_syms s _ _ El x Em). congruence.
    - destruct (syn_disjoint_count r _ s q0 c0 tl v Hcs Hc0 Hs Hr) as [n [Hn Hle]].
      rewrite Hn. apply Nat.leb_le. exact Hle.
  Qed.
End Cat.
