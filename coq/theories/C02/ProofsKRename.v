(* PV.C02.ProofsKRename — every entry the ADVAN5/7 renaming loop produces moves the rate constant with
   both of its compartments. *)
From Coq Require Import List Bool Arith Lia.
From PV Require Import C02.Remap C02.KRename.
Import ListNotations.
Local Open Scope nat_scope.

Lemma kkey_eqb_eq a b : kkey_eqb a b = true -> a = b.
Proof.
  unfold kkey_eqb. intro H. apply andb_prop in H. destruct H as [H1 H2].
  apply Nat.eqb_eq in H1. apply Nat.eqb_eq in H2. destruct a, b; cbn in *; subst; reflexivity.
Qed.

Lemma klookup_kset d k v k2 w : klookup (kset d k v) k2 = Some w ->
  (k2 = k /\ w = v) \/ klookup d k2 = Some w.
Proof.
  induction d as [|[k' v'] tl IH]; cbn [kset klookup].
  - destruct (kkey_eqb k k2) eqn:E; [|discriminate]. intro H. inversion H; subst.
    left. split; [symmetry; apply kkey_eqb_eq; exact E | reflexivity].
  - destruct (kkey_eqb k' k) eqn:E; cbn [klookup].
    + destruct (kkey_eqb k' k2) eqn:E2.
      * intro H. inversion H; subst. left. apply kkey_eqb_eq in E. apply kkey_eqb_eq in E2. subst. split; reflexivity.
      * intro H. right. exact H.
    + destruct (kkey_eqb k' k2) eqn:E2; [intro H; right; exact H | exact IH].
Qed.

Section P.
  Variables (remap : list (nat * nat)) (ncs : nat) (flow : nat -> nat -> bool).

  Definition inv (d : list (kkey * kval)) : Prop :=
    forall k v, klookup d k = Some v -> entry_ok remap ncs flow k v = true.

  Lemma k_step_inv d ij : inv d -> inv (k_step remap ncs flow d ij).
  Proof.
    intro Hd. unfold k_step. destruct ij as [i j].
    destruct (negb (i =? j) && (is_some_n (nlookup remap i) && (is_some_n (nlookup remap j) || (j =? 0)))) eqn:Ec; [|exact Hd].
    destruct (nlookup remap i) as [ti|] eqn:Ei; [|exact Hd].
    destruct (flow ti (if (match nlookup remap j with Some x => x | None => j end) =? 0 then ncs
                       else match nlookup remap j with Some x => x | None => j end)) eqn:Ef; [|exact Hd].
    intros k v H. destruct (klookup_kset _ _ _ _ _ H) as [[-> ->]|H']; [|exact (Hd k v H')].
    apply andb_prop in Ec. destruct Ec as [Hne Hc]. apply andb_prop in Hc. destruct Hc as [_ Hj].
    unfold entry_ok. cbn [fst snd]. rewrite Hne, Ei, Nat.eqb_refl, Nat.eqb_refl, Hj, Ef. reflexivity.
  Qed.

  Lemma fold_inv l : forall d, inv d -> inv (fold_left (k_step remap ncs flow) l d).
  Proof. induction l as [|x tl IH]; intros d Hd; [exact Hd|]. cbn [fold_left]. apply IH, k_step_inv, Hd. Qed.

  Lemma k_rename_loop_ok n k v :
    klookup (k_rename_loop n remap ncs flow) k = Some v -> entry_ok remap ncs flow k v = true.
  Proof. apply fold_inv. intros k0 v0 H. discriminate H. Qed.
End P.
