(* PV.C02.PrintSeq — model of the loop of CodeRecord.update_statements for freshly printed statements:
   every Assignment is printed by nmtran_assignment_string with the set of symbols defined so far, which
   then gains the assigned symbol.  No proofs here. *)
From Coq Require Import QArith List Bool PArith Arith ZArith.
From PV Require Import Base.PyData Base.Expr Base.Stmts C02.Model.
Import ListNotations.
Local Open Scope nat_scope.

Fixpoint print_all (D : list id) (l : list stmt) : option (list nmstmt) :=
  match l with
  | [] => Some []
  | Assign x e :: tl =>
      match print_stmt D x e, print_all (x :: D) tl with
      | Some a, Some b => Some (a ++ b)
      | _, _ => None
      end
  | Ode _ _ :: _ => None            (* a code record holds assignments only *)
  end.

(* representation-exact equality of rationals *)
Definition q_same (a b : Q) : bool := Z.eqb (Qnum a) (Qnum b) && Pos.eqb (Qden a) (Qden b).

(* g_zero_fresh with the variable holding exactly the dropped literal (NM-TRAN's initial 0) *)
Definition g_zero_exact (r : env) (D : list id) (x : id) (e : expr) : bool :=
  if drops_zero_else D x e
  then match r x, last_opt (pieces e) with
       | Some q, Some (_, Num q0) => q_same q q0
       | _, _ => false
       end
  else true.

Definition guard_print_exact (fi : finterp) (r : env) (D : list id) (x : id) (e : expr) : bool :=
  g_wf e && g_self_free D x e && g_disjoint fi r D x e && g_zero_exact r D x e.

Definition is_some {A} (o : option A) : bool := match o with Some _ => true | None => false end.

(* the guard of every statement at the state in which it is executed, and every right-hand side defined *)
Fixpoint guards_all (fi : finterp) (r : env) (D : list id) (l : list stmt) : bool :=
  match l with
  | [] => true
  | Assign x e :: tl =>
      guard_print_exact fi r D x e && is_some (eval r fi e) &&
      guards_all fi (upd r x (eval r fi e)) (x :: D) tl
  | Ode _ _ :: _ => false
  end.
