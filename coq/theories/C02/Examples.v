(* PV.C02.Examples — non-vacuity: concrete non-trivial inputs meeting the hypotheses of the theorems. *)
From Coq Require Import QArith List Bool PArith Arith.
From PV Require Import Base.PyData Base.Expr Base.Interp Base.Stmts C02.Model C02.CondPrint C02.Refuted C02.Remap C02.PrintSeq C02.IndexDiff C02.KeepText C02.Read C02.KRename C02.ScaleTrack.
Import ListNotations.

(* diff on lists that differ in the middle, with a common head and tail: all three operations occur *)
Example diff_example :
  diff Nat.eqb [1; 2; 3; 4; 5; 9]%nat [1; 3; 7; 5; 9]%nat =
  [(Keep, 1); (Del, 2); (Keep, 3); (Del, 4); (Ins, 7); (Keep, 5); (Keep, 9)]%nat.
Proof. vm_compute. reflexivity. Qed.

(* the tie-break c[i+1][j] >= c[i][j+1]: the insertion is emitted LAST (the generator yields after
   the recursive call), so a replaced element appears as deletion then insertion *)
Example diff_tiebreak : diff Nat.eqb [1]%nat [2]%nat = [(Del, 1); (Ins, 2)]%nat.
Proof. vm_compute. reflexivity. Qed.

(* guard_print holds on a several-IFs Piecewise with exclusive conditions: A = 1 / A = 2 at A = 2 *)
Definition pw_excl : expr :=
  PwCons (CRel OEq (Sym sA) (Num 1)) (Num 10) (PwCons (CRel OEq (Sym sA) (Num 2)) (Num 20) PwNil).
Example guard_print_several_ifs :
  guard_print std_fi (env_of [(sA, 2%Q)]) [] sX pw_excl = true /\ print_form [] sX pw_excl = 2%nat /\
  nm_value [] sX pw_excl (env_of [(sA, 2%Q)]) = Some 20%Q.
Proof. repeat split; vm_compute; reflexivity. Qed.

(* ... on a block form with an else (non-atomic value) *)
Definition pw_block : expr :=
  PwCons (CRel OGt (Sym sA) (Num 0)) (Add (Sym sA) (Num 1)) (PwCons CTrue (Num 3) PwNil).
Example guard_print_block :
  guard_print std_fi (env_of [(sA, (-1)%Q)]) [] sX pw_block = true /\ print_form [] sX pw_block = 3%nat /\
  nm_value [] sX pw_block (env_of [(sA, (-1)%Q)]) = Some 3%Q.
Proof. repeat split; vm_compute; reflexivity. Qed.

(* ... and when the final (0, True) piece is dropped and the variable really is zero-initialised *)
Example guard_print_zero_dropped :
  guard_print std_fi (env_of [(sA, 0%Q); (sX, 0%Q)]) [] sX pw_zero = true /\
  drops_zero_else [] sX pw_zero = true /\ print_form [] sX pw_zero = 1%nat /\
  nm_value [] sX pw_zero (env_of [(sA, 0%Q); (sX, 0%Q)]) = Some 0%Q.
Proof. repeat split; vm_compute; reflexivity. Qed.

(* guard_cond holds on a nested condition with all three connectives, a 3-ary And and an Or under an And:
   Or(And(A > 0, Not(Or(B > 0, C > 0)), Or(A > 0, C > 0)), And(B > 0, C > 0)) *)
Definition cond_ex : scond :=
  SOr (SAnd (gt0 sA) (SNot (SOr (gt0 sB) (gt0 sC) SNil)) (SCons (SOr (gt0 sA) (gt0 sC) SNil) SNil))
      (SAnd (gt0 sB) (gt0 sC) SNil) SNil.
Example guard_cond_nested :
  guard_cond cond_ex = true /\ length (print_cond cond_ex) = 18%nat /\
  match printed_cond cond_ex with Some _ => true | None => false end = true.
Proof. repeat split; vm_compute; reflexivity. Qed.

(* the kept part of a diff has the LCS length, here 3 of 6 / 5 *)
Example diff_kept_example :
  length (kept (diff Nat.eqb [1; 2; 3; 4; 5; 9]%nat [1; 3; 7; 5; 9]%nat)) = 4%nat /\
  lcs_length Nat.eqb [1; 2; 3; 4; 5; 9]%nat [1; 3; 7; 5; 9]%nat = 4%nat.
Proof. split; vm_compute; reflexivity. Qed.

(* a depot is added in front of CENTRAL, PERIPHERAL: old numbers 1, 2 become 2, 3 (OUTPUT 3 -> 4) *)
Example remap_example :
  create_compartment_remap [(sA, 1); (sB, 2); (sX, 3)]%nat (new_compartmental_map [sC; sA; sB; sX]) =
  [(1, 2); (2, 3); (3, 4)]%nat.
Proof. vm_compute. reflexivity. Qed.

(* g_sympy / syn_disjoint on the categorical example *)
Example sympy_printable_example :
  g_sympy pw_excl = true /\ g_sympy pw_block = true /\
  syn_disjoint (conds_of (stripped [] sX pw_excl)) = true.
Proof. repeat split; vm_compute; reflexivity. Qed.

(* guards_all on a three-statement record: A = 2; X = Piecewise((10, A = 1), (20, A = 2)); X = Piecewise((X + 1, A > 0), (X, True)) *)
Definition seq_prog : list stmt :=
  [Assign sA (Num 2); Assign sX pw_excl;
   Assign sX (PwCons (CRel OGt (Sym sA) (Num 0)) (Add (Sym sX) (Num 1)) (PwCons CTrue (Sym sX) PwNil))].
Example guards_all_example :
  guards_all std_fi (env_of []) [] seq_prog = true /\
  match print_all [] seq_prog with Some code => length code = 4%nat | None => False end /\
  exec std_fi std_ode (env_of []) seq_prog sX = Some 21%Q.
Proof. repeat split; vm_compute; reflexivity. Qed.

(* two index groups (one node each for statements 0..1 and 2), the middle statement replaced *)
Example index_diff_example :
  index_statements_diff 0 [(0, 1, 0, 2); (1, 2, 2, 3)]%nat (diff Nat.eqb [1; 2; 3] [1; 7; 3])%nat =
  Some [(Del, [1; 2], 0, 1); (Ins, [1], 1, 1); (Ins, [7], 1, 1); (Keep, [3], 1, 2)]%nat /\
  index_wf [(0, 1, 0, 2); (1, 2, 2, 3)]%nat = true.
Proof. split; vm_compute; reflexivity. Qed.

(* a record of five nodes: comment 10, statement nodes 11 12 13, trailing blank 14; statements 1 2 3 in groups of one;
   the middle statement is replaced: its node 12 goes, the printed node 77 comes, everything else stays in place *)
Example keeps_text_example :
  match index_statements_diff 1 [(1, 2, 0, 1); (2, 3, 1, 2); (3, 4, 2, 3)]%nat (diff Nat.eqb [1; 2; 3] [1; 7; 3])%nat with
  | Some es => new_children (fun s => [70 + s]) [10; 11; 12; 13; 14] es = [10; 11; 77; 13; 14] /\
               kept_statements es = [1; 3] /\ singleton_index [(1, 2, 0, 1); (2, 3, 1, 2); (3, 4, 2, 3)] = true
  | None => False
  end%nat.
Proof. vm_compute. repeat split. Qed.

(* the reader inverts the reference emitter on a program with all statement forms, nested arithmetic, a power,
   a function call, a unary minus and all three logical connectives (an instance of read_emit; wf_prog is satisfiable) *)
Definition read_prog : list nmstmt :=
  [NS (SAssign sX (Add (Mul (Sym sA) (Neg (Sym sB))) (Fn2 5%positive (Sym sA) (Num 2))));
   NS (SIf (CAnd (CRel OGt (Sym sA) (Num 0)) (CNot (CRel OLe (Sym sB) (Sym sA)))) sX (Fn1 1%positive (Div (Sym sA) (Sym sC))));
   NBlock [(CRel OEq (Sym sA) (Num 1), [SAssign sX (Sym sA); SAssign sC (Sym sB)]);
           (COr (CRel OLt (Sym sA) (Sym sB)) (CRel OGt (Sym sA) (Sym sB)), [SAssign sX (Sym sB)])]
          (Some [SAssign sX (Num 0)])].
Example read_emit_example : wf_prog read_prog = true /\ read (emit read_prog) = Some read_prog.
Proof. split; vm_compute; reflexivity. Qed.

(* Fortran precedence: X = -A**2 + B/A*B - 2 *)
Example read_precedence_example :
  read [KSym sX; KEq; KMinus; KSym sA; KPow; KNum 2; KPlus; KSym sB; KDiv; KSym sA; KTimes; KSym sB; KMinus; KNum 2; KNl] =
  Some [NS (SAssign sX (Add (Add (Neg (Fn2 5%positive (Sym sA) (Num 2))) (Mul (Div (Sym sB) (Sym sA)) (Sym sB))) (Neg (Num 2))))].
Proof. vm_compute. reflexivity. Qed.

(* the printed code of a Piecewise assignment is emittable: roundtrip_stmt's hypotheses are satisfiable *)
Example roundtrip_example :
  match print_stmt [] sX pw_block with
  | Some l => wf_prog l = true /\ read (emit l) = Some l
  | None => False
  end.
Proof. vm_compute. split; reflexivity. Qed.

(* CENTRAL(1), METABOLITE(2), OUTPUT(3) gain a DEPOT in front: remap 1->2, 2->3, 3->4; flows 2->3 and 3->(last = 3):
   K12 becomes K23; K10 and K20 are renamed because the output test looks at the LAST compartment (index ncs = 3)
   instead of the output: K10 -> K20 although compartment 2 has no flow to the output *)
Example k_rename_example :
  k_rename_loop 3 [(1, 2); (2, 3); (3, 4)]%nat 3 (fun a b => (Nat.eqb a 2 && Nat.eqb b 3) || (Nat.eqb a 3 && Nat.eqb b 3)) =
  [((1, 0), Some (2, 0)); ((1, 2), Some (2, 3)); ((2, 0), Some (3, 0))]%nat.
Proof. vm_compute. reflexivity. Qed.

(* CENTRAL alone, then DEPOT in front, then two transits in front: with the refresh S1 -> S2 -> S4 (= number of CENTRAL);
   WITHOUT the refresh (the behaviour before fix 4524793 on the $DES path) the second remap is computed from the
   stale map {CENTRAL: 1, OUTPUT: 2}: S2 is taken for the old OUTPUT number and becomes S5, not the central compartment's 4 *)
Example scale_track_example :
  names_ok sX sA [sA] = true /\ forallb (names_ok sX sA) [[sB; sA]; [sC; 9%positive; sB; sA]] = true /\
  snd (scale_run true sX (new_compartmental_map [sA], 1%nat) [[sB; sA]; [sC; 9%positive; sB; sA]]) = 4%nat /\
  number_of [sC; 9%positive; sB; sA] sA = Some 4%nat /\
  snd (scale_run false sX (new_compartmental_map [sA], 1%nat) [[sB; sA]; [sC; 9%positive; sB; sA]]) = 5%nat.
Proof. repeat split; vm_compute; reflexivity. Qed.
