(* PV.C02.ProofsCond — the text NMTranPrinter prints for a boolean condition, read by the reference
   reader of Fortran logical expressions, means what the sympy condition means (under guard_cond). *)
From Coq Require Import QArith List Bool PArith Arith Lia.
From PV Require Import Base.Expr C02.CondPrint.
Import ListNotations.
Local Open Scope nat_scope.

Definition eqc (a b : cond) : Prop := forall r fi, evalc r fi a = evalc r fi b.

Lemma eqc_refl a : eqc a a. Proof. intros r fi; reflexivity. Qed.
Lemma eqc_sym a b : eqc a b -> eqc b a. Proof. intros H r fi; symmetry; apply H. Qed.
Lemma eqc_trans a b c : eqc a b -> eqc b c -> eqc a c.
Proof. intros H1 H2 r fi. rewrite H1. apply H2. Qed.
Lemma eqc_and a a' b b' : eqc a a' -> eqc b b' -> eqc (CAnd a b) (CAnd a' b').
Proof. intros H1 H2 r fi. cbn [evalc]. rewrite H1, H2. reflexivity. Qed.
Lemma eqc_or a a' b b' : eqc a a' -> eqc b b' -> eqc (COr a b) (COr a' b').
Proof. intros H1 H2 r fi. cbn [evalc]. rewrite H1, H2. reflexivity. Qed.
Lemma eqc_not a a' : eqc a a' -> eqc (CNot a) (CNot a').
Proof. intros H1 r fi. cbn [evalc]. rewrite H1. reflexivity. Qed.
Lemma eqc_and_assoc a b c : eqc (CAnd a (CAnd b c)) (CAnd (CAnd a b) c).
Proof.
  intros r fi. cbn [evalc]. destruct (evalc r fi a) as [x|], (evalc r fi b) as [y|], (evalc r fi c) as [z|];
    cbn [obind]; try reflexivity. rewrite andb_assoc. reflexivity.
Qed.
Lemma eqc_or_assoc a b c : eqc (COr a (COr b c)) (COr (COr a b) c).
Proof.
  intros r fi. cbn [evalc]. destruct (evalc r fi a) as [x|], (evalc r fi b) as [y|], (evalc r fi c) as [z|];
    cbn [obind]; try reflexivity. rewrite orb_assoc. reflexivity.
Qed.

(* ---- unfolding equations of the reader ---- *)
Lemma p_or_S f ts :
  p_or (S f) ts = match p_and f ts with
                  | Some (c, TOr :: rest) =>
                      match p_or f rest with Some (d, rest') => Some (COr c d, rest') | None => None end
                  | r => r end.
Proof. reflexivity. Qed.
Lemma p_and_S f ts :
  p_and (S f) ts = match p_not f ts with
                   | Some (c, TAnd :: rest) =>
                       match p_and f rest with Some (d, rest') => Some (CAnd c d, rest') | None => None end
                   | r => r end.
Proof. reflexivity. Qed.
Lemma p_not_S f ts :
  p_not (S f) ts = match ts with
                   | TRel o a b :: rest => Some (CRel o a b, rest)
                   | TNot :: rest => match p_not f rest with Some (c, rest') => Some (CNot c, rest') | None => None end
                   | TLp :: rest => match p_or f rest with Some (c, TRp :: rest') => Some (c, rest') | _ => None end
                   | _ => None end.
Proof. reflexivity. Qed.

(* ---- more fuel never changes a result ---- *)
Lemma p_mono_step f :
  (forall ts r, p_or f ts = Some r -> p_or (S f) ts = Some r) /\
  (forall ts r, p_and f ts = Some r -> p_and (S f) ts = Some r) /\
  (forall ts r, p_not f ts = Some r -> p_not (S f) ts = Some r).
Proof.
  induction f as [|f [IHo [IHa IHn]]].
  - split; [|split]; intros ts r H; discriminate H.
  - split; [|split]; intros ts r H.
    + rewrite p_or_S in H. rewrite p_or_S.
      destruct (p_and f ts) as [[c l]|] eqn:E; [|discriminate].
      rewrite (IHa _ _ E).
      destruct l as [|[] rest]; try exact H.
      destruct (p_or f rest) as [[d rest']|] eqn:E2; [|discriminate].
      rewrite (IHo _ _ E2). exact H.
    + rewrite p_and_S in H. rewrite p_and_S.
      destruct (p_not f ts) as [[c l]|] eqn:E; [|discriminate].
      rewrite (IHn _ _ E).
      destruct l as [|[] rest]; try exact H.
      destruct (p_and f rest) as [[d rest']|] eqn:E2; [|discriminate].
      rewrite (IHa _ _ E2). exact H.
    + rewrite p_not_S in H. rewrite p_not_S.
      destruct ts as [|[] rest]; try exact H.
      * destruct (p_not f rest) as [[c rest']|] eqn:E; [|discriminate]. rewrite (IHn _ _ E). exact H.
      * destruct (p_or f rest) as [[c l]|] eqn:E; [|discriminate]. rewrite (IHo _ _ E). exact H.
Qed.

Lemma p_or_mono f f' ts r : f <= f' -> p_or f ts = Some r -> p_or f' ts = Some r.
Proof. induction 1; [auto|]. intro H0. apply (proj1 (p_mono_step m)). auto. Qed.
Lemma p_and_mono f f' ts r : f <= f' -> p_and f ts = Some r -> p_and f' ts = Some r.
Proof. induction 1; [auto|]. intro H0. apply (proj1 (proj2 (p_mono_step m))). auto. Qed.
Lemma p_not_mono f f' ts r : f <= f' -> p_not f ts = Some r -> p_not f' ts = Some r.
Proof. induction 1; [auto|]. intro H0. apply (proj2 (proj2 (p_mono_step m))). auto. Qed.

(* ---- what has to be shown for each printed condition ---- *)
Definition hd_not (bad : ctok -> bool) (l : list ctok) : Prop :=
  match l with [] => True | t :: _ => bad t = false end.
Definition is_tand (t : ctok) : bool := match t with TAnd => true | _ => false end.
Definition is_tandor (t : ctok) : bool := match t with TAnd | TOr => true | _ => false end.

Definition lvl (c : scond) : nat :=
  match c with SOr _ _ _ => 0 | SAnd _ _ _ => 1 | _ => 2 end.

Definition claimN (c : scond) : Prop :=
  forall rest, exists c' f, p_not f (print_cond c ++ rest) = Some (c', rest) /\ eqc c' (sem c).
Definition claimA1 (c : scond) : Prop :=
  forall rest, hd_not is_tand rest ->
    exists c' f, p_and f (print_cond c ++ rest) = Some (c', rest) /\ eqc c' (sem c).
Definition claimA2 (c : scond) : Prop :=
  forall rest d rest' f2, p_and f2 rest = Some (d, rest') ->
    exists c' f, p_and f (print_cond c ++ TAnd :: rest) = Some (c', rest') /\ eqc c' (CAnd (sem c) d).
Definition claimO1 (c : scond) : Prop :=
  forall rest, hd_not is_tandor rest ->
    exists c' f, p_or f (print_cond c ++ rest) = Some (c', rest) /\ eqc c' (sem c).
Definition claimO2 (c : scond) : Prop :=
  forall rest d rest' f2, p_or f2 rest = Some (d, rest') ->
    exists c' f, p_or f (print_cond c ++ TOr :: rest) = Some (c', rest') /\ eqc c' (COr (sem c) d).

Definition claims (c : scond) : Prop :=
  (lvl c = 2 -> claimN c) /\ (1 <= lvl c -> claimA1 c /\ claimA2 c) /\ claimO1 c /\ claimO2 c.

(* from the not-level claim to the and-level claims *)
Lemma lift_N_A c : claimN c -> claimA1 c /\ claimA2 c.
Proof.
  intro HN. split.
  - intros rest Hh. destruct (HN rest) as [c' [f [Hp He]]].
    exists c', (S f). split; [|exact He]. rewrite p_and_S, Hp.
    destruct rest as [|[] rest0]; try reflexivity. cbn in Hh. discriminate.
  - intros rest d rest' f2 H2. destruct (HN (TAnd :: rest)) as [c' [f [Hp He]]].
    exists (CAnd c' d), (S (Nat.max f f2)). split.
    + rewrite p_and_S, (p_not_mono f _ _ _ (Nat.le_max_l f f2) Hp), (p_and_mono f2 _ _ _ (Nat.le_max_r f f2) H2).
      reflexivity.
    + apply eqc_and; [exact He | apply eqc_refl].
Qed.

(* from the and-level claims to the or-level claims *)
Lemma lift_A_O c : claimA1 c -> claimO1 c /\ claimO2 c.
Proof.
  intro HA. split.
  - intros rest Hh. destruct (HA rest) as [c' [f [Hp He]]].
    { destruct rest as [|[] ?]; cbn in *; try reflexivity; try exact I; discriminate. }
    exists c', (S f). split; [|exact He]. rewrite p_or_S, Hp.
    destruct rest as [|[] rest0]; try reflexivity. cbn in Hh. discriminate.
  - intros rest d rest' f2 H2. destruct (HA (TOr :: rest)) as [c' [f [Hp He]]]; [reflexivity|].
    exists (COr c' d), (S (Nat.max f f2)). split.
    + rewrite p_or_S, (p_and_mono f _ _ _ (Nat.le_max_l f f2) Hp), (p_or_mono f2 _ _ _ (Nat.le_max_r f f2) H2).
      reflexivity.
    + apply eqc_or; [exact He | apply eqc_refl].
Qed.

Lemma app_assoc3 (a : list ctok) t b rest : (a ++ t :: b) ++ rest = a ++ t :: (b ++ rest).
Proof. rewrite <- app_assoc. reflexivity. Qed.

Lemma main_lemma :
  (forall c, guard_cond c = true -> claims c) /\ (forall l : sclist, True).
Proof.
  apply scond_sclist_mut; try (intros; exact I).
  - (* SRel *)
    intros o a b _.
    assert (HN : claimN (SRel o a b)).
    { intros rest. exists (CRel o a b), 1. split; [reflexivity | apply eqc_refl]. }
    destruct (lift_N_A _ HN) as [HA1 HA2]. destruct (lift_A_O _ HA1) as [HO1 HO2].
    repeat split; auto.
  - (* STrue *) intros H. discriminate H.
  - (* SFalse *) intros H. discriminate H.
  - (* SAnd *)
    intros a IHa b IHb more _ G.
    unfold guard_cond in G. cbn [g_binary g_prec g_nobool] in G.
    repeat (apply andb_prop in G; destruct G as [G ?]).
    repeat match goal with H : _ && _ = true |- _ => apply andb_prop in H; destruct H end.
    destruct more; [|discriminate].
    assert (Ga : guard_cond a = true) by (unfold guard_cond; repeat (apply andb_true_intro; split); assumption).
    assert (Gb : guard_cond b = true) by (unfold guard_cond; repeat (apply andb_true_intro; split); assumption).
    destruct (IHa Ga) as [_ [HAa _]]. destruct (IHb Gb) as [_ [HAb _]].
    assert (La : 1 <= lvl a) by (destruct a; cbn in *; try lia; discriminate).
    assert (Lb : 1 <= lvl b) by (destruct b; cbn in *; try lia; discriminate).
    destruct (HAa La) as [A1a A2a]. destruct (HAb Lb) as [A1b A2b].
    assert (HA1 : claimA1 (SAnd a b SNil)).
    { intros rest Hh. cbn [print_cond sem sem_and]. rewrite app_assoc3.
      destruct (A1b rest Hh) as [cb [fb [Hpb Heb]]].
      destruct (A2a _ _ _ _ Hpb) as [c' [f [Hp He]]].
      exists c', f. split; [exact Hp|].
      eapply eqc_trans; [exact He|]. apply eqc_and; [apply eqc_refl | exact Heb]. }
    assert (HA2 : claimA2 (SAnd a b SNil)).
    { intros rest d rest' f2 Hd. cbn [print_cond sem sem_and]. rewrite app_assoc3.
      destruct (A2b _ _ _ _ Hd) as [cb [fb [Hpb Heb]]].
      destruct (A2a _ _ _ _ Hpb) as [c' [f [Hp He]]].
      exists c', f. split; [exact Hp|].
      eapply eqc_trans; [exact He|].
      eapply eqc_trans; [apply eqc_and; [apply eqc_refl | exact Heb]|]. apply eqc_and_assoc. }
    destruct (lift_A_O _ HA1) as [HO1 HO2].
    repeat split; auto. intro Hl; discriminate Hl.
  - (* SOr *)
    intros a IHa b IHb more _ G.
    unfold guard_cond in G. cbn [g_binary g_prec g_nobool] in G.
    repeat (apply andb_prop in G; destruct G as [G ?]).
    repeat match goal with H : _ && _ = true |- _ => apply andb_prop in H; destruct H end.
    destruct more; [|discriminate].
    assert (Ga : guard_cond a = true) by (unfold guard_cond; repeat (apply andb_true_intro; split); assumption).
    assert (Gb : guard_cond b = true) by (unfold guard_cond; repeat (apply andb_true_intro; split); assumption).
    destruct (IHa Ga) as [_ [_ [O1a O2a]]]. destruct (IHb Gb) as [_ [_ [O1b O2b]]].
    assert (HO1 : claimO1 (SOr a b SNil)).
    { intros rest Hh. cbn [print_cond sem sem_or]. rewrite app_assoc3.
      destruct (O1b rest Hh) as [cb [fb [Hpb Heb]]].
      destruct (O2a _ _ _ _ Hpb) as [c' [f [Hp He]]].
      exists c', f. split; [exact Hp|].
      eapply eqc_trans; [exact He|]. apply eqc_or; [apply eqc_refl | exact Heb]. }
    assert (HO2 : claimO2 (SOr a b SNil)).
    { intros rest d rest' f2 Hd. cbn [print_cond sem sem_or]. rewrite app_assoc3.
      destruct (O2b _ _ _ _ Hd) as [cb [fb [Hpb Heb]]].
      destruct (O2a _ _ _ _ Hpb) as [c' [f [Hp He]]].
      exists c', f. split; [exact Hp|].
      eapply eqc_trans; [exact He|].
      eapply eqc_trans; [apply eqc_or; [apply eqc_refl | exact Heb]|]. apply eqc_or_assoc. }
    split; [intro Hl; discriminate Hl|]. split; [intro Hl; cbn [lvl] in Hl; lia|]. split; assumption.
  - (* SNot *)
    intros a IHa G.
    assert (Ga : guard_cond a = true).
    { unfold guard_cond in *. cbn [g_binary g_prec g_nobool] in G. exact G. }
    destruct (IHa Ga) as [_ [_ [O1a _]]].
    assert (HN : claimN (SNot a)).
    { intros rest. cbn [print_cond sem].
      destruct (O1a (TRp :: rest)) as [c' [f [Hp He]]]; [reflexivity|].
      exists (CNot c'), (S (S f)). split.
      - change ((TNot :: TLp :: print_cond a ++ [TRp]) ++ rest)
          with (TNot :: TLp :: ((print_cond a ++ [TRp]) ++ rest)).
        rewrite <- app_assoc. cbn [app].
        rewrite p_not_S, p_not_S, Hp. reflexivity.
      - apply eqc_not. exact He. }
    destruct (lift_N_A _ HN) as [HA1 HA2]. destruct (lift_A_O _ HA1) as [HO1 HO2].
    repeat split; auto.
Qed.

(* ---- the fixed fuel of parse_cond is enough ---- *)
Lemma fuel_bound f :
  (forall ts c rest, p_or f ts = Some (c, rest) ->
     length rest < length ts /\ p_or (3 + 3 * (length ts - length rest)) ts = Some (c, rest)) /\
  (forall ts c rest, p_and f ts = Some (c, rest) ->
     length rest < length ts /\ p_and (2 + 3 * (length ts - length rest)) ts = Some (c, rest)) /\
  (forall ts c rest, p_not f ts = Some (c, rest) ->
     length rest < length ts /\ p_not (1 + 3 * (length ts - length rest)) ts = Some (c, rest)).
Proof.
  induction f as [|f [IHo [IHa IHn]]].
  - split; [|split]; intros; discriminate.
  - split; [|split].
    + intros ts c rest H. rewrite p_or_S in H.
      destruct (p_and f ts) as [[c1 l]|] eqn:E; [|discriminate].
      destruct (IHa _ _ _ E) as [L1 P1].
      destruct l as [|t rest1].
      * inversion H; subst. split; [exact L1|].
        change (3 + 3 * (length ts - length (@nil ctok))) with (S (2 + 3 * (length ts - length (@nil ctok)))).
        rewrite p_or_S, P1. reflexivity.
      * destruct t;
          try (inversion H; subst; split; [exact L1|];
               match goal with |- p_or (3 + 3 * ?n) _ = _ => change (3 + 3 * n) with (S (2 + 3 * n)) end;
               rewrite p_or_S, P1; reflexivity).
        destruct (p_or f rest1) as [[d rest']|] eqn:E2; [|discriminate].
        inversion H; subst. destruct (IHo _ _ _ E2) as [L2 P2]. cbn [length] in L1.
        split; [lia|].
        match goal with |- p_or (3 + 3 * ?n) _ = _ => change (3 + 3 * n) with (S (2 + 3 * n)) end.
        rewrite p_or_S.
        match type of P1 with ?pf ?f0 ?tz = ?rz => assert (MP1 : pf (2 + 3 * (length ts - length rest)) tz = rz) by (eapply p_and_mono; [|exact P1]; cbn [length] in *; lia) end. rewrite MP1.
        match type of P2 with ?pf ?f0 ?tz = ?rz => assert (MP2 : pf (2 + 3 * (length ts - length rest)) tz = rz) by (eapply p_or_mono; [|exact P2]; cbn [length] in *; lia) end. rewrite MP2.
        reflexivity.
    + intros ts c rest H. rewrite p_and_S in H.
      destruct (p_not f ts) as [[c1 l]|] eqn:E; [|discriminate].
      destruct (IHn _ _ _ E) as [L1 P1].
      destruct l as [|t rest1].
      * inversion H; subst. split; [exact L1|].
        change (2 + 3 * (length ts - length (@nil ctok))) with (S (1 + 3 * (length ts - length (@nil ctok)))).
        rewrite p_and_S, P1. reflexivity.
      * destruct t;
          try (inversion H; subst; split; [exact L1|];
               match goal with |- p_and (2 + 3 * ?n) _ = _ => change (2 + 3 * n) with (S (1 + 3 * n)) end;
               rewrite p_and_S, P1; reflexivity).
        destruct (p_and f rest1) as [[d rest']|] eqn:E2; [|discriminate].
        inversion H; subst. destruct (IHa _ _ _ E2) as [L2 P2]. cbn [length] in L1.
        split; [lia|].
        match goal with |- p_and (2 + 3 * ?n) _ = _ => change (2 + 3 * n) with (S (1 + 3 * n)) end.
        rewrite p_and_S.
        match type of P1 with ?pf ?f0 ?tz = ?rz => assert (MP1 : pf (1 + 3 * (length ts - length rest)) tz = rz) by (eapply p_not_mono; [|exact P1]; cbn [length] in *; lia) end. rewrite MP1.
        match type of P2 with ?pf ?f0 ?tz = ?rz => assert (MP2 : pf (1 + 3 * (length ts - length rest)) tz = rz) by (eapply p_and_mono; [|exact P2]; cbn [length] in *; lia) end. rewrite MP2.
        reflexivity.
    + intros ts c rest H. rewrite p_not_S in H.
      destruct ts as [|t ts0]; [discriminate|].
      destruct t; try discriminate.
      * inversion H; subst. cbn [length]. split; [lia|].
        replace (S (length rest) - length rest) with 1 by lia. reflexivity.
      * destruct (p_not f ts0) as [[c1 rest']|] eqn:E; [|discriminate].
        inversion H; subst. destruct (IHn _ _ _ E) as [L1 P1]. cbn [length]. split; [lia|].
        match goal with |- p_not (1 + 3 * ?n) _ = _ => change (1 + 3 * n) with (S (3 * n)) end.
        rewrite p_not_S.
        match type of P1 with ?pf ?f0 ?tz = ?rz => assert (MP1 : pf (3 * (S (length ts0) - length rest)) tz = rz) by (eapply p_not_mono; [|exact P1]; cbn [length] in *; lia) end. rewrite MP1. reflexivity.
      * destruct (p_or f ts0) as [[c1 l]|] eqn:E; [|discriminate].
        destruct l as [|t rest1]; [discriminate|]. destruct t; try discriminate.
        inversion H; subst. destruct (IHo _ _ _ E) as [L1 P1]. cbn [length] in *. split; [lia|].
        match goal with |- p_not (1 + 3 * ?n) _ = _ => change (1 + 3 * n) with (S (3 * n)) end.
        rewrite p_not_S.
        match type of P1 with ?pf ?f0 ?tz = ?rz => assert (MP1 : pf (3 * (S (length ts0) - length rest)) tz = rz) by (eapply p_or_mono; [|exact P1]; cbn [length] in *; lia) end. rewrite MP1. reflexivity.
Qed.

Lemma cond_print_sound_lemma c :
  guard_cond c = true ->
  exists c', printed_cond c = Some c' /\ forall r fi, evalc r fi c' = evalc r fi (sem c).
Proof.
  intro G. destruct (proj1 main_lemma c G) as [_ [_ [HO1 _]]].
  destruct (HO1 [] I) as [c' [f [Hp He]]]. rewrite app_nil_r in Hp.
  exists c'. split; [|exact He].
  unfold printed_cond, parse_cond.
  destruct (proj1 (fuel_bound f) _ _ _ Hp) as [_ P].
  cbn [length] in P. rewrite Nat.sub_0_r in P.
  replace (3 * S (length (print_cond c))) with (3 + 3 * length (print_cond c)) by lia.
  rewrite P. reflexivity.
Qed.
