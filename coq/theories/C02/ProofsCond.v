(* PV.C02.ProofsCond — the text NMTranPrinter prints for a boolean condition, read by the reference
   reader of Fortran logical expressions, means what the sympy condition means (under guard_cond). *)
From Coq Require Import QArith List Bool PArith Arith Lia.
From PV Require Import Base.Expr C02.CondPrint.
Import ListNotations.
Local Open Scope nat_scope.

Definition eqc (a b : cond) : Prop := forall r fi, evalc r fi a = evalc r fi b.

Lemma eqc_refl a : eqc a a. Proof. intros r fi; reflexivity. Qed.
Lemma eqc_sym a b : eqc a b -> eqc b a. Proof. intros H r fi; symmetry; apply H. Qed.
Lemma eqc_trans a b c : eqc a b -> eqc b c -> eqc a c.
Proof. intros H1 H2 r fi. rewrite H1. apply H2. Qed.
Lemma eqc_and a a' b b' : eqc a a' -> eqc b b' -> eqc (CAnd a b) (CAnd a' b').
Proof. intros H1 H2 r fi. cbn [evalc]. rewrite H1, H2. reflexivity. Qed.
Lemma eqc_or a a' b b' : eqc a a' -> eqc b b' -> eqc (COr a b) (COr a' b').
Proof. intros H1 H2 r fi. cbn [evalc]. rewrite H1, H2. reflexivity. Qed.
Lemma eqc_not a a' : eqc a a' -> eqc (CNot a) (CNot a').
Proof. intros H1 r fi. cbn [evalc]. rewrite H1. reflexivity. Qed.
Lemma eqc_and_assoc a b c : eqc (CAnd a (CAnd b c)) (CAnd (CAnd a b) c).
Proof.
  intros r fi. cbn [evalc]. destruct (evalc r fi a) as [x|], (evalc r fi b) as [y|], (evalc r fi c) as [z|];
    cbn [obind]; try reflexivity. rewrite andb_assoc. reflexivity.
Qed.
Lemma eqc_or_assoc a b c : eqc (COr a (COr b c)) (COr (COr a b) c).
Proof.
  intros r fi. cbn [evalc]. destruct (evalc r fi a) as [x|], (evalc r fi b) as [y|], (evalc r fi c) as [z|];
    cbn [obind]; try reflexivity. rewrite orb_assoc. reflexivity.
Qed.

(* ---- unfolding equations of the reader ---- *)
Lemma p_or_S f ts :
  p_or (S f) ts = match p_and f ts with
                  | Some (c, TOr :: rest) =>
                      match p_or f rest with Some (d, rest') => Some (COr c d, rest') | None => None end
                  | r => r end.
Proof. reflexivity. Qed.
Lemma p_and_S f ts :
  p_and (S f) ts = match p_not f ts with
                   | Some (c, TAnd :: rest) =>
                       match p_and f rest with Some (d, rest') => Some (CAnd c d, rest') | None => None end
                   | r => r end.
Proof. reflexivity. Qed.
Lemma p_not_S f ts :
  p_not (S f) ts = match ts with
                   | TRel o a b :: rest => Some (CRel o a b, rest)
                   | TNot :: rest => match p_not f rest with Some (c, rest') => Some (CNot c, rest') | None => None end
                   | TLp :: rest => match p_or f rest with Some (c, TRp :: rest') => Some (c, rest') | _ => None end
                   | _ => None end.
Proof. reflexivity. Qed.

(* ---- more fuel never changes a result ---- *)
Lemma p_mono_step f :
  (forall ts r, p_or f ts = Some r -> p_or (S f) ts = Some r) /\
  (forall ts r, p_and f ts = Some r -> p_and (S f) ts = Some r) /\
  (forall ts r, p_not f ts = Some r -> p_not (S f) ts = Some r).
Proof.
  induction f as [|f [IHo [IHa IHn]]].
  - split; [|split]; intros ts r H; discriminate H.
  - split; [|split]; intros ts r H.
    + rewrite p_or_S in H. rewrite p_or_S.
      destruct (p_and f ts) as [[c l]|] eqn:E; [|discriminate].
      rewrite (IHa _ _ E).
      destruct l as [|[] rest]; try exact H.
      destruct (p_or f rest) as [[d rest']|] eqn:E2; [|discriminate].
      rewrite (IHo _ _ E2). exact H.
    + rewrite p_and_S in H. rewrite p_and_S.
      destruct (p_not f ts) as [[c l]|] eqn:E; [|discriminate].
      rewrite (IHn _ _ E).
      destruct l as [|[] rest]; try exact H.
      destruct (p_and f rest) as [[d rest']|] eqn:E2; [|discriminate].
      rewrite (IHa _ _ E2). exact H.
    + rewrite p_not_S in H. rewrite p_not_S.
      destruct ts as [|[] rest]; try exact H.
      * destruct (p_not f rest) as [[c rest']|] eqn:E; [|discriminate]. rewrite (IHn _ _ E). exact H.
      * destruct (p_or f rest) as [[c l]|] eqn:E; [|discriminate]. rewrite (IHo _ _ E). exact H.
Qed.

Lemma p_or_mono f f' ts r : f <= f' -> p_or f ts = Some r -> p_or f' ts = Some r.
Proof. induction 1; [auto|]. intro H0. apply (proj1 (p_mono_step m)). auto. Qed.
Lemma p_and_mono f f' ts r : f <= f' -> p_and f ts = Some r -> p_and f' ts = Some r.
Proof. induction 1; [auto|]. intro H0. apply (proj1 (proj2 (p_mono_step m))). auto. Qed.
Lemma p_not_mono f f' ts r : f <= f' -> p_not f ts = Some r -> p_not f' ts = Some r.
Proof. induction 1; [auto|]. intro H0. apply (proj2 (proj2 (p_mono_step m))). auto. Qed.

(* ---- what has to be shown for a token list [ts] that is to mean [s] ---- *)
Definition hd_not (bad : ctok -> bool) (l : list ctok) : Prop :=
  match l with [] => True | t :: _ => bad t = false end.
Definition is_tand (t : ctok) : bool := match t with TAnd => true | _ => false end.
Definition is_tandor (t : ctok) : bool := match t with TAnd | TOr => true | _ => false end.

Definition claimN (ts : list ctok) (s : cond) : Prop :=
  forall rest, exists c' f, p_not f (ts ++ rest) = Some (c', rest) /\ eqc c' s.
Definition claimA1 (ts : list ctok) (s : cond) : Prop :=
  forall rest, hd_not is_tand rest -> exists c' f, p_and f (ts ++ rest) = Some (c', rest) /\ eqc c' s.
Definition claimA2 (ts : list ctok) (s : cond) : Prop :=
  forall rest d rest' f2, p_and f2 rest = Some (d, rest') ->
    exists c' f, p_and f (ts ++ TAnd :: rest) = Some (c', rest') /\ eqc c' (CAnd s d).
Definition claimO1 (ts : list ctok) (s : cond) : Prop :=
  forall rest, hd_not is_tandor rest -> exists c' f, p_or f (ts ++ rest) = Some (c', rest) /\ eqc c' s.
Definition claimO2 (ts : list ctok) (s : cond) : Prop :=
  forall rest d rest' f2, p_or f2 rest = Some (d, rest') ->
    exists c' f, p_or f (ts ++ TOr :: rest) = Some (c', rest') /\ eqc c' (COr s d).

Lemma lift_N_A ts s : claimN ts s -> claimA1 ts s /\ claimA2 ts s.
Proof.
  intro HN. split.
  - intros rest Hh. destruct (HN rest) as [c' [f [Hp He]]].
    exists c', (S f). split; [|exact He]. rewrite p_and_S, Hp.
    destruct rest as [|[] rest0]; try reflexivity. cbn in Hh. discriminate.
  - intros rest d rest' f2 Hd. destruct (HN (TAnd :: rest)) as [c' [f [Hp He]]].
    exists (CAnd c' d), (S (Nat.max f f2)). split.
    + rewrite p_and_S, (p_not_mono f _ _ _ (Nat.le_max_l f f2) Hp), (p_and_mono f2 _ _ _ (Nat.le_max_r f f2) Hd).
      reflexivity.
    + apply eqc_and; [exact He | apply eqc_refl].
Qed.

Lemma lift_A_O ts s : claimA1 ts s -> claimO1 ts s /\ claimO2 ts s.
Proof.
  intro HA. split.
  - intros rest Hh. destruct (HA rest) as [c' [f [Hp He]]].
    { destruct rest as [|[] ?]; cbn in *; try reflexivity; try exact I; discriminate. }
    exists c', (S f). split; [|exact He]. rewrite p_or_S, Hp.
    destruct rest as [|[] rest0]; try reflexivity. cbn in Hh. discriminate.
  - intros rest d rest' f2 Hd. destruct (HA (TOr :: rest)) as [c' [f [Hp He]]]; [reflexivity|].
    exists (COr c' d), (S (Nat.max f f2)). split.
    + rewrite p_or_S, (p_and_mono f _ _ _ (Nat.le_max_l f f2) Hp), (p_or_mono f2 _ _ _ (Nat.le_max_r f f2) Hd).
      reflexivity.
    + apply eqc_or; [exact He | apply eqc_refl].
Qed.

(* a parenthesised or-level text is a not-level text *)
Lemma paren_N ts s : claimO1 ts s -> claimN (TLp :: ts ++ [TRp]) s.
Proof.
  intros HO rest. destruct (HO (TRp :: rest)) as [c' [f [Hp He]]]; [reflexivity|].
  exists c', (S f). split; [|exact He].
  change ((TLp :: ts ++ [TRp]) ++ rest) with (TLp :: ((ts ++ [TRp]) ++ rest)).
  rewrite <- app_assoc. cbn [app]. rewrite p_not_S, Hp. reflexivity.
Qed.

(* what is known about a printed condition: it can stand as an operand of .OR.; unless it is an Or,
   also as an operand of .AND. *)
Definition wrap (c : scond) : list ctok := if is_or c then TLp :: print_cond c ++ [TRp] else print_cond c.
Definition claims (c : scond) : Prop :=
  claimO1 (print_cond c) (sem c) /\ claimO2 (print_cond c) (sem c) /\
  claimA1 (wrap c) (sem c) /\ claimA2 (wrap c) (sem c).
Fixpoint claims_l (l : sclist) : Prop :=
  match l with SNil => True | SCons c tl => claims c /\ claims_l tl end.

(* right-nested reading of an operand sequence, and its equivalence with sympy's left fold *)
Fixpoint rc_and (x : cond) (l : sclist) : cond :=
  match l with SNil => x | SCons c tl => CAnd x (rc_and (sem c) tl) end.
Fixpoint rc_or (x : cond) (l : sclist) : cond :=
  match l with SNil => x | SCons c tl => COr x (rc_or (sem c) tl) end.

Lemma rc_and_shift l : forall x y, eqc (rc_and (CAnd x y) l) (CAnd x (rc_and y l)).
Proof.
  destruct l as [|c tl]; intros x y; cbn [rc_and]; [apply eqc_refl|]. apply eqc_sym, eqc_and_assoc.
Qed.
Lemma sem_and_rc l : forall x, eqc (sem_and x l) (rc_and x l).
Proof.
  induction l as [|c tl IH]; intro x; cbn [sem_and rc_and]; [apply eqc_refl|].
  eapply eqc_trans; [apply IH | apply rc_and_shift].
Qed.
Lemma rc_or_shift l : forall x y, eqc (rc_or (COr x y) l) (COr x (rc_or y l)).
Proof.
  destruct l as [|c tl]; intros x y; cbn [rc_or]; [apply eqc_refl|]. apply eqc_sym, eqc_or_assoc.
Qed.
Lemma sem_or_rc l : forall x, eqc (sem_or x l) (rc_or x l).
Proof.
  induction l as [|c tl IH]; intro x; cbn [sem_or rc_or]; [apply eqc_refl|].
  eapply eqc_trans; [apply IH | apply rc_or_shift].
Qed.

(* operand sequences *)
Lemma and_seq l : claims_l l -> forall ts s, claimA1 ts s -> claimA2 ts s ->
  claimA1 (ts ++ print_and_more l) (rc_and s l) /\ claimA2 (ts ++ print_and_more l) (rc_and s l).
Proof.
  induction l as [|c tl IH]; intros Hl ts s H1 H2; cbn [print_and_more rc_and].
  - rewrite app_nil_r. split; assumption.
  - destruct Hl as [[_ [_ [W1 W2]]] Htl]. destruct (IH Htl _ _ W1 W2) as [T1 T2]. fold (wrap c). split.
    + intros rest Hh. rewrite <- app_assoc. cbn [app]. rewrite <- app_assoc.
      destruct (T1 rest Hh) as [d [fd [Hpd Hed]]]. rewrite <- app_assoc in Hpd.
      destruct (H2 _ _ _ _ Hpd) as [c' [f [Hp He]]].
      exists c', f. split; [exact Hp|]. eapply eqc_trans; [exact He|]. apply eqc_and; [apply eqc_refl | exact Hed].
    + intros rest d0 rest' f2 Hd. rewrite <- app_assoc. cbn [app]. rewrite <- app_assoc.
      destruct (T2 _ _ _ _ Hd) as [d [fd [Hpd Hed]]]. rewrite <- app_assoc in Hpd. cbn [app] in Hpd.
      destruct (H2 _ _ _ _ Hpd) as [c' [f [Hp He]]].
      exists c', f. split; [exact Hp|]. eapply eqc_trans; [exact He|].
      eapply eqc_trans; [apply eqc_and; [apply eqc_refl | exact Hed]|]. apply eqc_and_assoc.
Qed.

Lemma or_seq l : claims_l l -> forall ts s, claimO1 ts s -> claimO2 ts s ->
  claimO1 (ts ++ print_or_more l) (rc_or s l) /\ claimO2 (ts ++ print_or_more l) (rc_or s l).
Proof.
  induction l as [|c tl IH]; intros Hl ts s H1 H2; cbn [print_or_more rc_or].
  - rewrite app_nil_r. split; assumption.
  - destruct Hl as [[W1 [W2 _]] Htl]. destruct (IH Htl _ _ W1 W2) as [T1 T2]. split.
    + intros rest Hh. rewrite <- app_assoc. cbn [app]. rewrite <- app_assoc.
      destruct (T1 rest Hh) as [d [fd [Hpd Hed]]]. rewrite <- app_assoc in Hpd.
      destruct (H2 _ _ _ _ Hpd) as [c' [f [Hp He]]].
      exists c', f. split; [exact Hp|]. eapply eqc_trans; [exact He|]. apply eqc_or; [apply eqc_refl | exact Hed].
    + intros rest d0 rest' f2 Hd. rewrite <- app_assoc. cbn [app]. rewrite <- app_assoc.
      destruct (T2 _ _ _ _ Hd) as [d [fd [Hpd Hed]]]. rewrite <- app_assoc in Hpd. cbn [app] in Hpd.
      destruct (H2 _ _ _ _ Hpd) as [c' [f [Hp He]]].
      exists c', f. split; [exact Hp|]. eapply eqc_trans; [exact He|].
      eapply eqc_trans; [apply eqc_or; [apply eqc_refl | exact Hed]|]. apply eqc_or_assoc.
Qed.

Lemma claim_eqc_A ts s s' : eqc s s' -> claimA1 ts s /\ claimA2 ts s -> claimA1 ts s' /\ claimA2 ts s'.
Proof.
  intros E [H1 H2]. split.
  - intros rest Hh. destruct (H1 rest Hh) as [c' [f [Hp He]]]. exists c', f. split; [exact Hp | eapply eqc_trans; eassumption].
  - intros rest d rest' f2 Hd. destruct (H2 _ _ _ _ Hd) as [c' [f [Hp He]]]. exists c', f. split; [exact Hp|].
    eapply eqc_trans; [exact He|]. apply eqc_and; [exact E | apply eqc_refl].
Qed.
Lemma claim_eqc_O ts s s' : eqc s s' -> claimO1 ts s /\ claimO2 ts s -> claimO1 ts s' /\ claimO2 ts s'.
Proof.
  intros E [H1 H2]. split.
  - intros rest Hh. destruct (H1 rest Hh) as [c' [f [Hp He]]]. exists c', f. split; [exact Hp | eapply eqc_trans; eassumption].
  - intros rest d rest' f2 Hd. destruct (H2 _ _ _ _ Hd) as [c' [f [Hp He]]]. exists c', f. split; [exact Hp|].
    eapply eqc_trans; [exact He|]. apply eqc_or; [exact E | apply eqc_refl].
Qed.

(* a not-level text gives all four claims (its wrap is itself) *)
Lemma claims_of_N c : is_or c = false -> claimN (print_cond c) (sem c) -> claims c.
Proof.
  intros Hno HN. unfold claims, wrap. rewrite Hno.
  destruct (lift_N_A _ _ HN) as [A1 A2]. destruct (lift_A_O _ _ A1) as [O1 O2]. repeat split; assumption.
Qed.

Lemma main_lemma :
  (forall c, g_nobool c = true -> claims c) /\ (forall l, g_nobool_l l = true -> claims_l l).
Proof.
  apply scond_sclist_mut.
  - (* SRel *) intros o a b _. apply claims_of_N; [reflexivity|].
    intros rest. exists (CRel o a b), 1. split; [reflexivity | apply eqc_refl].
  - intro H; discriminate H.
  - intro H; discriminate H.
  - (* SAnd *)
    intros a IHa b IHb more IHm G. cbn [g_nobool] in G.
    apply andb_prop in G. destruct G as [G Gm]. apply andb_prop in G. destruct G as [Ga Gb].
    destruct (IHa Ga) as [_ [_ [Wa1 Wa2]]]. pose proof (IHb Gb) as Cb. pose proof (IHm Gm) as Cm.
    destruct (and_seq (SCons b more) (conj Cb Cm) _ _ Wa1 Wa2) as [T1 T2].
    assert (E : eqc (rc_and (sem a) (SCons b more)) (sem (SAnd a b more))).
    { cbn [rc_and sem]. apply eqc_sym. eapply eqc_trans; [apply sem_and_rc | apply rc_and_shift]. }
    assert (Hpr : wrap a ++ print_and_more (SCons b more) = print_cond (SAnd a b more)) by reflexivity.
    rewrite Hpr in T1, T2. destruct (claim_eqc_A _ _ _ E (conj T1 T2)) as [A1 A2].
    destruct (lift_A_O _ _ A1) as [O1 O2].
    unfold claims, wrap. cbn [is_or]. repeat split; assumption.
  - (* SOr *)
    intros a IHa b IHb more IHm G. cbn [g_nobool] in G.
    apply andb_prop in G. destruct G as [G Gm]. apply andb_prop in G. destruct G as [Ga Gb].
    destruct (IHa Ga) as [Oa1 [Oa2 _]]. pose proof (IHb Gb) as Cb. pose proof (IHm Gm) as Cm.
    destruct (or_seq (SCons b more) (conj Cb Cm) _ _ Oa1 Oa2) as [T1 T2].
    assert (E : eqc (rc_or (sem a) (SCons b more)) (sem (SOr a b more))).
    { cbn [rc_or sem]. apply eqc_sym. eapply eqc_trans; [apply sem_or_rc | apply rc_or_shift]. }
    assert (Hpr : print_cond a ++ print_or_more (SCons b more) = print_cond (SOr a b more)) by reflexivity.
    rewrite Hpr in T1, T2. destruct (claim_eqc_O _ _ _ E (conj T1 T2)) as [O1 O2].
    destruct (lift_N_A _ _ (paren_N _ _ O1)) as [W1 W2].
    unfold claims, wrap. cbn [is_or]. repeat split; assumption.
  - (* SNot *)
    intros a IHa G. cbn [g_nobool] in G. destruct (IHa G) as [O1a _].
    apply claims_of_N; [reflexivity|]. intros rest. cbn [print_cond sem].
    destruct (paren_N _ _ O1a rest) as [c' [f [Hp He]]].
    exists (CNot c'), (S f). split; [|apply eqc_not; exact He].
    change ((TNot :: TLp :: print_cond a ++ [TRp]) ++ rest) with (TNot :: ((TLp :: print_cond a ++ [TRp]) ++ rest)).
    rewrite p_not_S, Hp. reflexivity.
  - (* SNil *) intros _. exact I.
  - (* SCons *) intros c IHc tl IHt G. cbn [g_nobool_l] in G. apply andb_prop in G. destruct G as [Gc Gt].
    split; [exact (IHc Gc) | exact (IHt Gt)].
Qed.

(* ---- the fixed fuel of parse_cond is enough ---- *)
Lemma fuel_bound f :
  (forall ts c rest, p_or f ts = Some (c, rest) ->
     length rest < length ts /\ p_or (3 + 3 * (length ts - length rest)) ts = Some (c, rest)) /\
  (forall ts c rest, p_and f ts = Some (c, rest) ->
     length rest < length ts /\ p_and (2 + 3 * (length ts - length rest)) ts = Some (c, rest)) /\
  (forall ts c rest, p_not f ts = Some (c, rest) ->
     length rest < length ts /\ p_not (1 + 3 * (length ts - length rest)) ts = Some (c, rest)).
Proof.
  induction f as [|f [IHo [IHa IHn]]].
  - split; [|split]; intros; discriminate.
  - split; [|split].
    + intros ts c rest H. rewrite p_or_S in H.
      destruct (p_and f ts) as [[c1 l]|] eqn:E; [|discriminate].
      destruct (IHa _ _ _ E) as [L1 P1].
      destruct l as [|t rest1].
      * inversion H; subst. split; [exact L1|].
        change (3 + 3 * (length ts - length (@nil ctok))) with (S (2 + 3 * (length ts - length (@nil ctok)))).
        rewrite p_or_S, P1. reflexivity.
      * destruct t;
          try (inversion H; subst; split; [exact L1|];
               match goal with |- p_or (3 + 3 * ?n) _ = _ => change (3 + 3 * n) with (S (2 + 3 * n)) end;
               rewrite p_or_S, P1; reflexivity).
        destruct (p_or f rest1) as [[d rest']|] eqn:E2; [|discriminate].
        inversion H; subst. destruct (IHo _ _ _ E2) as [L2 P2]. cbn [length] in L1.
        split; [lia|].
        match goal with |- p_or (3 + 3 * ?n) _ = _ => change (3 + 3 * n) with (S (2 + 3 * n)) end.
        rewrite p_or_S.
        match type of P1 with ?pf ?f0 ?tz = ?rz => assert (MP1 : pf (2 + 3 * (length ts - length rest)) tz = rz) by (eapply p_and_mono; [|exact P1]; cbn [length] in *; lia) end. rewrite MP1.
        match type of P2 with ?pf ?f0 ?tz = ?rz => assert (MP2 : pf (2 + 3 * (length ts - length rest)) tz = rz) by (eapply p_or_mono; [|exact P2]; cbn [length] in *; lia) end. rewrite MP2.
        reflexivity.
    + intros ts c rest H. rewrite p_and_S in H.
      destruct (p_not f ts) as [[c1 l]|] eqn:E; [|discriminate].
      destruct (IHn _ _ _ E) as [L1 P1].
      destruct l as [|t rest1].
      * inversion H; subst. split; [exact L1|].
        change (2 + 3 * (length ts - length (@nil ctok))) with (S (1 + 3 * (length ts - length (@nil ctok)))).
        rewrite p_and_S, P1. reflexivity.
      * destruct t;
          try (inversion H; subst; split; [exact L1|];
               match goal with |- p_and (2 + 3 * ?n) _ = _ => change (2 + 3 * n) with (S (1 + 3 * n)) end;
               rewrite p_and_S, P1; reflexivity).
        destruct (p_and f rest1) as [[d rest']|] eqn:E2; [|discriminate].
        inversion H; subst. destruct (IHa _ _ _ E2) as [L2 P2]. cbn [length] in L1.
        split; [lia|].
        match goal with |- p_and (2 + 3 * ?n) _ = _ => change (2 + 3 * n) with (S (1 + 3 * n)) end.
        rewrite p_and_S.
        match type of P1 with ?pf ?f0 ?tz = ?rz => assert (MP1 : pf (1 + 3 * (length ts - length rest)) tz = rz) by (eapply p_not_mono; [|exact P1]; cbn [length] in *; lia) end. rewrite MP1.
        match type of P2 with ?pf ?f0 ?tz = ?rz => assert (MP2 : pf (1 + 3 * (length ts - length rest)) tz = rz) by (eapply p_and_mono; [|exact P2]; cbn [length] in *; lia) end. rewrite MP2.
        reflexivity.
    + intros ts c rest H. rewrite p_not_S in H.
      destruct ts as [|t ts0]; [discriminate|].
      destruct t; try discriminate.
      * inversion H; subst. cbn [length]. split; [lia|].
        replace (S (length rest) - length rest) with 1 by lia. reflexivity.
      * destruct (p_not f ts0) as [[c1 rest']|] eqn:E; [|discriminate].
        inversion H; subst. destruct (IHn _ _ _ E) as [L1 P1]. cbn [length]. split; [lia|].
        match goal with |- p_not (1 + 3 * ?n) _ = _ => change (1 + 3 * n) with (S (3 * n)) end.
        rewrite p_not_S.
        match type of P1 with ?pf ?f0 ?tz = ?rz => assert (MP1 : pf (3 * (S (length ts0) - length rest)) tz = rz) by (eapply p_not_mono; [|exact P1]; cbn [length] in *; lia) end. rewrite MP1. reflexivity.
      * destruct (p_or f ts0) as [[c1 l]|] eqn:E; [|discriminate].
        destruct l as [|t rest1]; [discriminate|]. destruct t; try discriminate.
        inversion H; subst. destruct (IHo _ _ _ E) as [L1 P1]. cbn [length] in *. split; [lia|].
        match goal with |- p_not (1 + 3 * ?n) _ = _ => change (1 + 3 * n) with (S (3 * n)) end.
        rewrite p_not_S.
        match type of P1 with ?pf ?f0 ?tz = ?rz => assert (MP1 : pf (3 * (S (length ts0) - length rest)) tz = rz) by (eapply p_or_mono; [|exact P1]; cbn [length] in *; lia) end. rewrite MP1. reflexivity.
Qed.

Lemma cond_print_sound_lemma c :
  guard_cond c = true ->
  exists c', printed_cond c = Some c' /\ forall r fi, evalc r fi c' = evalc r fi (sem c).
Proof.
  intro G. destruct (proj1 main_lemma c G) as [HO1 _].
  destruct (HO1 [] I) as [c' [f [Hp He]]]. rewrite app_nil_r in Hp.
  exists c'. split; [|exact He].
  unfold printed_cond, parse_cond.
  destruct (proj1 (fuel_bound f) _ _ _ Hp) as [_ P].
  cbn [length] in P. rewrite Nat.sub_0_r in P.
  replace (3 * S (length (print_cond c))) with (3 + 3 * length (print_cond c)) by lia.
  rewrite P. reflexivity.
Qed.
