(* PV.C02.ProofsReadC — the reader inverts the emitter on conditions (explicit fuel bounds). *)
From Coq Require Import QArith List Bool PArith Arith Lia.
From PV Require Import Base.Expr C02.Model C02.Read C02.ProofsReadE.
Import ListNotations.
Local Open Scope nat_scope.

Lemma p_cor_S n ts : p_cor (S n) ts =
  bind (p_cand n ts) (fun c rest =>
    match rest with
    | KOr :: tl => bind (p_cor n tl) (fun d r => Ok (COr c d) r)
    | _ => Ok c rest
    end).
Proof. reflexivity. Qed.
Lemma p_cand_S n ts : p_cand (S n) ts =
  bind (p_cnot n ts) (fun c rest =>
    match rest with
    | KAnd :: tl => bind (p_cand n tl) (fun d r => Ok (CAnd c d) r)
    | _ => Ok c rest
    end).
Proof. reflexivity. Qed.
Lemma p_cnot_S n ts : p_cnot (S n) ts =
  match ts with
  | KNot :: tl => bind (p_cnot n tl) (fun c r => Ok (CNot c) r)
  | _ =>
      match p_rel n ts with
      | Ok c r => Ok c r
      | Fuel => Fuel
      | Fail =>
          match ts with
          | KLp :: tl => bind (p_cor n tl) (fun c rest => match rest with KRp :: r => Ok c r | _ => Fail end)
          | _ => Fail
          end
      end
  end.
Proof. reflexivity. Qed.
Lemma p_rel_eq n ts : p_rel n ts =
  bind (p_expr n ts) (fun a rest =>
    match rest with
    | KRel o :: tl => bind (p_expr n tl) (fun b r => Ok (CRel o a b) r)
    | _ => Fail
    end).
Proof. reflexivity. Qed.

Opaque p_cor p_cand p_cnot p_rel.

Lemma bind_fail {A B} (k : A -> list tok -> res B) : bind Fail k = Fail.
Proof. reflexivity. Qed.

(* fuel measures *)
Fixpoint kq (c : cond) : nat :=
  match c with
  | CRel _ a _ => kf a + 5
  | CNot _ => 6
  | CAnd a _ | COr a _ => kq a + 5
  | CTrue | CFalse => 0
  end.
Fixpoint kc (c : cond) : nat :=
  match c with
  | CRel _ a b => Nat.max (kf a) (kf b) + 8
  | CNot d => Nat.max (kq d) (kc d) + 8
  | CAnd a b | COr a b => Nat.max (Nat.max (kq a) (kc a)) (Nat.max (kq b) (kc b)) + 8
  | CTrue | CFalse => 0
  end.

(* a parenthesised condition is not an arithmetic primary: the reader answers Fail (not Fuel) *)
Lemma paren_cond_not_primary : forall c, wf_c c = true ->
  forall m R, kq c <= m -> p_primary m (KLp :: emit_c c ++ KRp :: R) = Fail.
Proof.
  induction c; cbn [wf_c kq]; intros Hw m R Hm; try discriminate.
  - (* CRel *)
    apply andb_prop in Hw. destruct Hw as [Hw1 Hw2].
    destruct m as [|m]; [lia|]. rewrite p_primary_S. cbn [emit_c]. rewrite app_cons_assoc.
    rewrite (expr_emit a m _ Hw1) by (try lia; reflexivity). rewrite bind_ok. reflexivity.
  - (* CAnd *)
    apply andb_prop in Hw. destruct Hw as [Hw1 Hw2].
    destruct m as [|m]; [lia|]. rewrite p_primary_S. cbn [emit_c app]. rewrite <- !app_assoc. cbn [app].
    destruct m as [|m]; [lia|]. rewrite p_expr_S.
    destruct m as [|m]; [lia|]. rewrite p_term_S.
    destruct m as [|m]; [lia|]. rewrite p_factor_S.
    rewrite (IHc1 Hw1) by lia. reflexivity.
  - (* COr *)
    apply andb_prop in Hw. destruct Hw as [Hw1 Hw2].
    destruct m as [|m]; [lia|]. rewrite p_primary_S. cbn [emit_c app]. rewrite <- !app_assoc. cbn [app].
    destruct m as [|m]; [lia|]. rewrite p_expr_S.
    destruct m as [|m]; [lia|]. rewrite p_term_S.
    destruct m as [|m]; [lia|]. rewrite p_factor_S.
    rewrite (IHc1 Hw1) by lia. reflexivity.
  - (* CNot *)
    destruct m as [|m]; [lia|]. rewrite p_primary_S. cbn [emit_c app].
    destruct m as [|m]; [lia|]. rewrite p_expr_S.
    destruct m as [|m]; [lia|]. rewrite p_term_S.
    destruct m as [|m]; [lia|]. rewrite p_factor_S.
    destruct m as [|m]; [lia|]. rewrite p_primary_S. reflexivity.
Qed.

Lemma paren_cond_not_rel c m R : wf_c c = true -> kq c + 3 <= m ->
  p_rel m (KLp :: emit_c c ++ KRp :: R) = Fail.
Proof.
  intros Hw Hm. rewrite p_rel_eq.
  destruct m as [|m]; [lia|]. rewrite p_expr_S.
  destruct m as [|m]; [lia|]. rewrite p_term_S.
  destruct m as [|m]; [lia|]. rewrite p_factor_S.
  rewrite (paren_cond_not_primary c Hw) by lia. reflexivity.
Qed.

Lemma cnot_start n ts rest : start_ok ts = true ->
  p_cnot (S n) (ts ++ rest) =
  match p_rel n (ts ++ rest) with
  | Ok c r => Ok c r
  | Fuel => Fuel
  | Fail => match ts ++ rest with
            | KLp :: tl => bind (p_cor n tl) (fun c rest0 => match rest0 with KRp :: r => Ok c r | _ => Fail end)
            | _ => Fail end
  end.
Proof.
  intro H. rewrite p_cnot_S. destruct ts as [|t tl]; [discriminate|]. cbn [app].
  destruct t; try discriminate; reflexivity.
Qed.

(* main claims: an emitted condition before a closing parenthesis is read back by p_cor; a parenthesised
   emitted condition is read back as an operand by p_cnot *)
Definition claimC (c : cond) : Prop :=
  forall n R, kc c <= n -> p_cor n (emit_c c ++ KRp :: R) = Ok c (KRp :: R).
Definition claimN (c : cond) : Prop :=
  forall n R, Nat.max (kq c) (kc c) + 4 <= n -> p_cnot n (KLp :: emit_c c ++ KRp :: R) = Ok c R.

Lemma N_of_C c : wf_c c = true -> claimC c -> claimN c.
Proof.
  intros Hw HC n R Hn. destruct n as [|n]; [lia|]. rewrite p_cnot_S.
  rewrite (paren_cond_not_rel c n R Hw) by lia.
  rewrite (HC n R) by lia. rewrite bind_ok. reflexivity.
Qed.

Lemma cond_emit : forall c, wf_c c = true -> claimC c.
Proof.
  induction c; cbn [wf_c]; intros Hw; try discriminate; intros n R Hn; cbn [kc] in Hn.
  - (* CRel *)
    apply andb_prop in Hw. destruct Hw as [Hw1 Hw2].
    destruct n as [|n]; [lia|]. rewrite p_cor_S.
    destruct n as [|n]; [lia|]. rewrite p_cand_S.
    destruct n as [|n]; [lia|]. cbn [emit_c]. rewrite app_cons_assoc.
    rewrite (cnot_start n _ _ (emit_e_start a Hw1)).
    rewrite p_rel_eq. rewrite (expr_emit a n _ Hw1) by (try lia; reflexivity). rewrite bind_ok; cbv beta iota.
    rewrite (expr_emit b n _ Hw2) by (try lia; reflexivity). rewrite bind_ok; cbv beta iota. reflexivity.
  - (* CAnd *)
    apply andb_prop in Hw. destruct Hw as [Hw1 Hw2].
    pose proof (N_of_C c1 Hw1 (IHc1 Hw1)) as N1. pose proof (N_of_C c2 Hw2 (IHc2 Hw2)) as N2.
    destruct n as [|n]; [lia|]. rewrite p_cor_S.
    destruct n as [|n]; [lia|]. rewrite p_cand_S.
    cbn [emit_c app]. rewrite <- !app_assoc. cbn [app].
    rewrite N1 by lia. rewrite bind_ok; cbv beta iota.
    destruct n as [|n]; [lia|]. rewrite p_cand_S.
    rewrite <- ?app_assoc; cbn [app].
    rewrite N2 by lia. rewrite ?bind_ok; cbv beta iota; rewrite ?bind_ok; cbv beta iota. reflexivity.
  - (* COr *)
    apply andb_prop in Hw. destruct Hw as [Hw1 Hw2].
    pose proof (N_of_C c1 Hw1 (IHc1 Hw1)) as N1. pose proof (N_of_C c2 Hw2 (IHc2 Hw2)) as N2.
    destruct n as [|n]; [lia|]. rewrite p_cor_S.
    destruct n as [|n]; [lia|]. rewrite p_cand_S.
    cbn [emit_c app]. rewrite <- !app_assoc. cbn [app].
    rewrite N1 by lia. rewrite ?bind_ok; cbv beta iota; rewrite ?bind_ok; cbv beta iota.
    destruct n as [|n]; [lia|]. rewrite p_cor_S.
    destruct n as [|n]; [lia|]. rewrite p_cand_S.
    rewrite <- ?app_assoc; cbn [app].
    rewrite N2 by lia. rewrite ?bind_ok; cbv beta iota; rewrite ?bind_ok; cbv beta iota. reflexivity.
  - (* CNot *)
    pose proof (N_of_C c Hw (IHc Hw)) as N1.
    destruct n as [|n]; [lia|]. rewrite p_cor_S.
    destruct n as [|n]; [lia|]. rewrite p_cand_S.
    destruct n as [|n]; [lia|]. rewrite p_cnot_S.
    cbn [emit_c app]. rewrite <- !app_assoc. cbn [app].
    rewrite N1 by lia. rewrite ?bind_ok; cbv beta iota; rewrite ?bind_ok; cbv beta iota. reflexivity.
Qed.

Lemma emit_c_len c : wf_c c = true -> 3 <= length (emit_c c).
Proof.
  destruct c; cbn [wf_c emit_c]; intro H; try discriminate; cbn [length]; rewrite ?app_length; cbn [length]; try lia.
  apply andb_prop in H. destruct H as [H1 H2].
  pose proof (emit_e_start a H1). pose proof (emit_e_start b H2).
  destruct (emit_e a); [discriminate|]. destruct (emit_e b); [discriminate|]. cbn [length]. lia.
Qed.

Lemma kq_bound c : wf_c c = true -> kq c <= 6 * length (emit_c c).
Proof.
  induction c; cbn [wf_c kq emit_c]; intro H; try discriminate.
  - apply andb_prop in H. destruct H as [H1 H2]. pose proof (kf_bound a). rewrite app_length. cbn [length]. lia.
  - apply andb_prop in H. destruct H as [H1 H2]. specialize (IHc1 H1). cbn [length]. rewrite !app_length. cbn [length]. lia.
  - apply andb_prop in H. destruct H as [H1 H2]. specialize (IHc1 H1). cbn [length]. rewrite !app_length. cbn [length]. lia.
  - pose proof (emit_c_len c H). cbn [length]. rewrite app_length. cbn [length]. lia.
Qed.

Lemma kc_bound c : wf_c c = true -> kc c <= 6 * length (emit_c c).
Proof.
  induction c; cbn [wf_c kc emit_c]; intro H; try discriminate.
  - apply andb_prop in H. destruct H as [H1 H2]. pose proof (kf_bound a). pose proof (kf_bound b).
    pose proof (emit_e_start a H1). pose proof (emit_e_start b H2).
    rewrite app_length. cbn [length]. destruct (emit_e a); [discriminate|]. destruct (emit_e b); [discriminate|].
    cbn [length] in *. lia.
  - apply andb_prop in H. destruct H as [H1 H2]. specialize (IHc1 H1). specialize (IHc2 H2).
    pose proof (kq_bound c1 H1). pose proof (kq_bound c2 H2).
    cbn [length]. rewrite !app_length. cbn [length]. rewrite !app_length. cbn [length]. lia.
  - apply andb_prop in H. destruct H as [H1 H2]. specialize (IHc1 H1). specialize (IHc2 H2).
    pose proof (kq_bound c1 H1). pose proof (kq_bound c2 H2).
    cbn [length]. rewrite !app_length. cbn [length]. rewrite !app_length. cbn [length]. lia.
  - specialize (IHc H). pose proof (kq_bound c H). cbn [length]. rewrite app_length. cbn [length]. lia.
Qed.
