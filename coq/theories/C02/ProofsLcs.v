(* PV.C02.ProofsLcs — lemmas about the model of lcs.diff. *)
From Coq Require Import List Bool Arith Lia.
From PV Require Import C02.Lcs.
Import ListNotations.
Local Open Scope nat_scope.

Section P.
  Variable A : Type.
  Variable eqb : A -> A -> bool.
  Hypothesis eqb_spec : forall x y, eqb x y = true <-> x = y.

  Notation script := (list (op * A)).

  Lemma eqb_refl x : eqb x x = true.
  Proof. apply eqb_spec; reflexivity. Qed.

  (* ---- projections distribute over ++ ---- *)
  Lemma old_of_app (s t : script) : old_of (s ++ t) = old_of s ++ old_of t.
  Proof. induction s as [|[[] v] s IH]; cbn [old_of app]; rewrite ?IH; reflexivity. Qed.
  Lemma new_of_app (s t : script) : new_of (s ++ t) = new_of s ++ new_of t.
  Proof. induction s as [|[[] v] s IH]; cbn [new_of app]; rewrite ?IH; reflexivity. Qed.
  Lemma kept_app (s t : script) : kept (s ++ t) = kept s ++ kept t.
  Proof. induction s as [|[[] v] s IH]; cbn [kept app]; rewrite ?IH; reflexivity. Qed.
  Lemma old_of_keeps (l : list A) : old_of (keeps l) = l.
  Proof. unfold keeps. induction l as [|v l IH]; cbn [map old_of]; [reflexivity | rewrite IH; reflexivity]. Qed.
  Lemma new_of_keeps (l : list A) : new_of (keeps l) = l.
  Proof. unfold keeps. induction l as [|v l IH]; cbn [map new_of]; [reflexivity | rewrite IH; reflexivity]. Qed.
  Lemma kept_keeps (l : list A) : kept (keeps l) = l.
  Proof. unfold keeps. induction l as [|v l IH]; cbn [map kept]; [reflexivity | rewrite IH; reflexivity]. Qed.

  (* ---- common_prefix ---- *)
  Lemma common_prefix_spec a b p ra rb :
    common_prefix eqb a b = (p, (ra, rb)) -> a = p ++ ra /\ b = p ++ rb.
  Proof.
    revert b p ra rb. induction a as [|x a IH]; intros b p ra rb H.
    - cbn in H. destruct b; inversion H; subst; split; reflexivity.
    - destruct b as [|y b].
      + cbn in H. inversion H; subst; split; reflexivity.
      + cbn [common_prefix] in H. destruct (eqb x y) eqn:E.
        * destruct (common_prefix eqb a b) as [p' [ra' rb']] eqn:E2.
          inversion H; subst. apply eqb_spec in E; subst.
          destruct (IH _ _ _ _ E2) as [H1 H2]. cbn. split; congruence.
        * inversion H; subst. split; reflexivity.
  Qed.

  (* after stripping, the two rests do not start with equal elements *)
  Lemma common_prefix_stops a b p ra rb :
    common_prefix eqb a b = (p, (ra, rb)) ->
    match ra, rb with x :: _, y :: _ => eqb x y = false | _, _ => True end.
  Proof.
    revert b p ra rb. induction a as [|x a IH]; intros b p ra rb H.
    - cbn in H. destruct b; inversion H; subst; exact I.
    - destruct b as [|y b].
      + cbn in H. inversion H; subst; exact I.
      + cbn [common_prefix] in H. destruct (eqb x y) eqn:E.
        * destruct (common_prefix eqb a b) as [p' [ra' rb']] eqn:E2.
          inversion H; subst. exact (IH _ _ _ _ E2).
        * inversion H; subst. exact E.
  Qed.

  (* ---- backtracking: whatever the table contains, the script spells both prefixes ---- *)
  Lemma firstn_snoc (l : list A) i v : nth_error l i = Some v -> firstn (S i) l = firstn i l ++ [v].
  Proof.
    revert i. induction l as [|w l IH]; intros [|i] H; cbn in H; try discriminate.
    - inversion H; reflexivity.
    - rewrite (firstn_cons (S i)), (firstn_cons i), (IH _ H). reflexivity.
  Qed.

  Lemma nth_error_lt (l : list A) i : i < length l -> exists v, nth_error l i = Some v.
  Proof.
    intro H. destruct (nth_error l i) eqn:E; [eauto|]. apply nth_error_None in E. lia.
  Qed.

  Lemma bt_spells fuel c x y : forall i j,
    i <= length x -> j <= length y -> i + j <= fuel ->
    old_of (bt eqb fuel c x y i j) = firstn i x /\ new_of (bt eqb fuel c x y i j) = firstn j y.
  Proof.
    induction fuel as [|f IH]; intros i j Hi Hj Hf.
    - assert (i = 0) by lia. assert (j = 0) by lia. subst. cbn. split; reflexivity.
    - cbn [bt]. destruct i as [|i1], j as [|j1].
      + cbn. split; reflexivity.
      + destruct (nth_error_lt y j1 ltac:(lia)) as [yj Ey]. rewrite Ey.
        destruct (IH 0 j1 ltac:(lia) ltac:(lia) ltac:(lia)) as [H1 H2].
        rewrite old_of_app, new_of_app, H1, H2. cbn [old_of new_of].
        rewrite (firstn_snoc _ _ _ Ey), app_nil_r. split; reflexivity.
      + destruct (nth_error_lt x i1 ltac:(lia)) as [xi Ex]. rewrite Ex.
        destruct (IH i1 0 ltac:(lia) ltac:(lia) ltac:(lia)) as [H1 H2].
        rewrite old_of_app, new_of_app, H1, H2. cbn [old_of new_of].
        rewrite (firstn_snoc _ _ _ Ex), app_nil_r. split; reflexivity.
      + destruct (nth_error_lt x i1 ltac:(lia)) as [xi Ex].
        destruct (nth_error_lt y j1 ltac:(lia)) as [yj Ey]. rewrite Ex, Ey.
        destruct (eqb xi yj) eqn:E.
        * apply eqb_spec in E; subst yj.
          destruct (IH i1 j1 ltac:(lia) ltac:(lia) ltac:(lia)) as [H1 H2].
          rewrite old_of_app, new_of_app, H1, H2. cbn [old_of new_of].
          rewrite (firstn_snoc _ _ _ Ex), (firstn_snoc _ _ _ Ey). split; reflexivity.
        * destruct (cget c i1 (S j1) <=? cget c (S i1) j1).
          -- destruct (IH (S i1) j1 ltac:(lia) ltac:(lia) ltac:(lia)) as [H1 H2].
             rewrite old_of_app, new_of_app, H1, H2. cbn [old_of new_of].
             rewrite (firstn_snoc _ _ _ Ey), app_nil_r. split; reflexivity.
          -- destruct (IH i1 (S j1) ltac:(lia) ltac:(lia) ltac:(lia)) as [H1 H2].
             rewrite old_of_app, new_of_app, H1, H2. cbn [old_of new_of].
             rewrite (firstn_snoc _ _ _ Ex), app_nil_r. split; reflexivity.
  Qed.

  Lemma diff_core_spells x y :
    old_of (diff_core eqb x y) = x /\ new_of (diff_core eqb x y) = y.
  Proof.
    unfold diff_core.
    destruct (bt_spells (length x + length y) (matrix eqb x y) x y (length x) (length y)
                ltac:(lia) ltac:(lia) ltac:(lia)) as [H1 H2].
    rewrite H1, H2, !firstn_all. split; reflexivity.
  Qed.

  Lemma diff_spells old new :
    old_of (diff eqb old new) = old /\ new_of (diff eqb old new) = new.
  Proof.
    unfold diff.
    destruct (common_prefix eqb old new) as [pre [rold rnew]] eqn:E1.
    destruct (common_prefix eqb (rev rold) (rev rnew)) as [saved [rrold rrnew]] eqn:E2.
    destruct (common_prefix_spec _ _ _ _ _ E1) as [Ha Hb].
    destruct (common_prefix_spec _ _ _ _ _ E2) as [Hc Hd].
    destruct (diff_core_spells (rev rrold) (rev rrnew)) as [H1 H2].
    rewrite !old_of_app, !new_of_app, !old_of_keeps, !new_of_keeps, H1, H2.
    assert (Hr : rold = rev rrold ++ rev saved).
    { rewrite <- rev_app_distr, <- Hc, rev_involutive. reflexivity. }
    assert (Hn : rnew = rev rrnew ++ rev saved).
    { rewrite <- rev_app_distr, <- Hd, rev_involutive. reflexivity. }
    rewrite <- Hr, <- Hn, <- Ha, <- Hb. split; reflexivity.
  Qed.

  (* ---- applying a script to its own old side gives its new side ---- *)
  Lemma apply_script_spells (s : script) : apply_script eqb s (old_of s) = Some (new_of s).
  Proof.
    induction s as [|[[] v] s IH]; cbn [apply_script old_of new_of].
    - reflexivity.
    - rewrite eqb_refl, IH. reflexivity.
    - rewrite IH. reflexivity.
    - rewrite eqb_refl. exact IH.
  Qed.

  Lemma diff_correct_lemma old new : apply_script eqb (diff eqb old new) old = Some new.
  Proof.
    destruct (diff_spells old new) as [H1 H2].
    pose proof (apply_script_spells (diff eqb old new)) as H. rewrite H1, H2 in H. exact H.
  Qed.

  (* ---- the kept elements form a common subsequence ---- *)
  Lemma subseq_refl (l : list A) : subseq l l.
  Proof. induction l; constructor; assumption. Qed.

  Lemma kept_sub_old (s : script) : subseq (kept s) (old_of s).
  Proof. induction s as [|[[] v] s IH]; cbn [kept old_of]; try constructor; assumption. Qed.
  Lemma kept_sub_new (s : script) : subseq (kept s) (new_of s).
  Proof. induction s as [|[[] v] s IH]; cbn [kept new_of]; try constructor; assumption. Qed.

  Lemma diff_kept_common old new :
    subseq (kept (diff eqb old new)) old /\ subseq (kept (diff eqb old new)) new.
  Proof.
    destruct (diff_spells old new) as [H1 H2]. split.
    - pose proof (kept_sub_old (diff eqb old new)) as H. rewrite H1 in H. exact H.
    - pose proof (kept_sub_new (diff eqb old new)) as H. rewrite H2 in H. exact H.
  Qed.
End P.
