(* PV.C02.ProofsScaleTrack — with the stored map refreshed at every update, S<k> follows the central compartment. *)
From Coq Require Import List Bool PArith Arith Lia.
From PV Require Import Base.Expr C02.Remap C02.ProofsRemap C02.ScaleTrack.
Import ListNotations.
Local Open Scope nat_scope.

Lemma id_nodup_NoDup l : id_nodup l = true -> NoDup l.
Proof.
  induction l as [|x tl IH]; cbn [id_nodup]; intro H; [constructor|].
  apply andb_prop in H. destruct H as [H1 H2]. constructor; [|exact (IH H2)].
  intro Hin. apply negb_true_iff in H1. assert (existsb (Pos.eqb x) tl = true); [|congruence].
  apply existsb_exists. exists x. split; [exact Hin | apply Pos.eqb_refl].
Qed.

Lemma existsb_In x l : existsb (Pos.eqb x) l = true -> In x l.
Proof. intro H. apply existsb_exists in H. destruct H as [y [Hy E]]. apply Pos.eqb_eq in E. subst. exact Hy. Qed.

(* for pairwise different names the map is the list of names paired with 1, 2, ... *)
Lemma dict_set_fresh {V} (d : list (id * V)) k v : ~ In k (map fst d) -> dict_set d k v = d ++ [(k, v)].
Proof.
  induction d as [|[k' v'] tl IH]; intro H; [reflexivity|]. cbn [dict_set map fst In] in *.
  destruct (Pos.eqb k' k) eqn:E; [apply Pos.eqb_eq in E; subst; tauto|]. rewrite IH by tauto. reflexivity.
Qed.

Lemma ncm_from_spec : forall names i acc, NoDup names -> (forall x, In x names -> ~ In x (map fst acc)) ->
  new_cmap_from names i acc = acc ++ combine names (seq i (length names)).
Proof.
  induction names as [|n tl IH]; intros i acc ND Hf; cbn [new_cmap_from length seq combine]; [rewrite app_nil_r; reflexivity|].
  inversion ND as [|? ? Hn ND']; subst.
  rewrite dict_set_fresh by (apply Hf; left; reflexivity).
  rewrite IH; [rewrite <- app_assoc; reflexivity | exact ND'|].
  intros x Hx. rewrite map_app, in_app_iff. cbn [map fst In]. intros [H|[H|[]]].
  - exact (Hf x (or_intror Hx) H).
  - subst. contradiction.
Qed.

Lemma ncm_spec names : NoDup names -> new_compartmental_map names = combine names (seq 1 (length names)).
Proof. intro ND. unfold new_compartmental_map. rewrite ncm_from_spec; [reflexivity | exact ND | intros x _ []]. Qed.

Lemma combine_snd {A B} (a : list A) (b : list B) : length a = length b -> map snd (combine a b) = b.
Proof.
  revert b. induction a as [|x a IH]; intros [|y b] H; cbn in *; try discriminate; try reflexivity.
  rewrite IH by lia. reflexivity.
Qed.
Lemma combine_fst {A B} (a : list A) (b : list B) : length a = length b -> map fst (combine a b) = a.
Proof.
  revert b. induction a as [|x a IH]; intros [|y b] H; cbn in *; try discriminate; try reflexivity.
  rewrite IH by lia. reflexivity.
Qed.

Lemma alookup_app {V} (a b : list (id * V)) x :
  alookup (a ++ b) x = match alookup a x with Some v => Some v | None => alookup b x end.
Proof. induction a as [|[k v] tl IH]; cbn [app alookup]; [reflexivity|]. destruct (Pos.eqb k x); [reflexivity | exact IH]. Qed.

Lemma alookup_In {V} (m : list (id * V)) x v : alookup m x = Some v -> In (x, v) m.
Proof.
  induction m as [|[k w] tl IH]; cbn [alookup]; [discriminate|]. destruct (Pos.eqb k x) eqn:E.
  - intro H. inversion H; subst. apply Pos.eqb_eq in E. subst. left; reflexivity.
  - intro H. right. exact (IH H).
Qed.

Lemma last_cons {A} : forall (tl : list A) a d, last (a :: tl) d = last tl a.
Proof. induction tl as [|b tl IH]; intros a d; [reflexivity|]. change (last (a :: b :: tl) d) with (last (b :: tl) d). rewrite IH. symmetry. apply IH. Qed.

Section P.
  Variables out central : id.

  Lemma number_some names : names_ok out central names = true -> exists k, number_of names central = Some k.
  Proof.
    unfold names_ok. intro H. apply andb_prop in H. destruct H as [H Ho]. apply andb_prop in H. destruct H as [Hnd Hc].
    apply existsb_In in Hc. apply In_nth_error in Hc. destruct Hc as [i Hi].
    exists (S i). exact (new_cmap_from_spec names 1 nil i central (id_nodup_NoDup _ Hnd) Hi).
  Qed.

  (* one step with refresh *)
  Lemma step_follows cur k names :
    names_ok out central cur = true -> names_ok out central names = true ->
    number_of cur central = Some k ->
    exists k', scale_step true out (new_compartmental_map cur, k) names = (new_compartmental_map names, k') /\
               number_of names central = Some k'.
  Proof.
    intros Hcur Hnew Hk. destruct (number_some names Hnew) as [k' Hk'].
    exists k'. split; [|exact Hk']. unfold scale_step. f_equal.
    assert (NDc : NoDup cur).
    { unfold names_ok in Hcur. apply andb_prop in Hcur. destruct Hcur as [H _]. apply andb_prop in H. destruct H as [H _].
      exact (id_nodup_NoDup _ H). }
    assert (Hl : nlookup (create_compartment_remap (with_output out (new_compartmental_map cur))
                                                   (with_output out (new_compartmental_map names))) k = Some k').
    { apply (remap_consistent_lemma _ _) with (name := central).
      - unfold with_output. rewrite map_app. cbn [map snd].
        rewrite (ncm_spec cur NDc) at 1. rewrite combine_snd by (rewrite seq_length; reflexivity).
        rewrite (ncm_spec cur NDc). rewrite combine_length, seq_length, Nat.min_id.
        replace (seq 1 (length cur) ++ [S (length cur)]) with (seq 1 (S (length cur))); [apply seq_NoDup|].
        rewrite seq_S. reflexivity.
      - unfold with_output. apply in_or_app. left. apply alookup_In. exact Hk.
      - unfold with_output. rewrite alookup_app. unfold number_of in Hk'. rewrite Hk'. reflexivity. }
    rewrite Hl. reflexivity.
  Qed.

  Lemma run_follows : forall hist cur k,
    names_ok out central cur = true -> forallb (names_ok out central) hist = true ->
    number_of cur central = Some k ->
    exists k', scale_run true out (new_compartmental_map cur, k) hist =
               (new_compartmental_map (last hist cur), k') /\ number_of (last hist cur) central = Some k'.
  Proof.
    induction hist as [|names tl IH]; intros cur k Hc Hh Hk.
    - exists k. split; [reflexivity | exact Hk].
    - cbn [forallb] in Hh. apply andb_prop in Hh. destruct Hh as [Hn Ht].
      destruct (step_follows cur k names Hc Hn Hk) as [k1 [E1 H1]].
      unfold scale_run in *. cbn [fold_left]. rewrite E1.
      destruct (IH names k1 Hn Ht H1) as [k' [E' H']]. exists k'.
      assert (El : last (names :: tl) cur = last tl names) by apply last_cons.
      rewrite El. split; assumption.
  Qed.
End P.
