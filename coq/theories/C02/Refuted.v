(* PV.C02.Refuted — counter-models: for each conjunct of a guard that is there because the code
   fails, an input on which the guard is false and the property fails.  Each witness is replayed on
   the real code by the check (known_findings). *)
From Coq Require Import QArith List Bool PArith Arith.
From PV Require Import Base.PyData Base.Expr Base.Interp Base.Stmts C02.Model C02.CondPrint.
Import ListNotations.

Definition sA : id := 1%positive. Definition sB : id := 2%positive. Definition sC : id := 3%positive.
Definition sX : id := 4%positive.

(* what the printed code leaves in x, and what the IR assignment means *)
Definition nm_value (D : list id) (x : id) (e : expr) (r : env) : option Q :=
  match print_stmt D x e with
  | Some l => match nm_exec std_fi r l with Some r' => r' x | None => None end
  | None => None
  end.

(* X = Piecewise((1, A > 0), (2, A > 1)) is printed as two independent logical IFs; at A = 2
   NM-TRAN executes both (X = 2), the Piecewise takes the first (X = 1). *)
Definition pw_overlap : expr :=
  PwCons (CRel OGt (Sym sA) (Num 0)) (Num 1) (PwCons (CRel OGt (Sym sA) (Num 1)) (Num 2) PwNil).
Theorem print_refuted_disjoint :
  exists (D : list id) (x : id) (e : expr) (r : env),
    g_disjoint std_fi r D x e = false /\ g_wf e = true /\ g_self_free D x e = true /\ g_zero_fresh r D x e = true /\
    eval r std_fi e = Some 1%Q /\ nm_value D x e r = Some 2%Q.
Proof.
  exists [], sX, pw_overlap, (env_of [(sA, 2%Q)]). repeat split; vm_compute; reflexivity.
Qed.

(* X = Piecewise((-1, X > 0), (5, X < 0), (X, True)) with X defined: the else piece is dropped, two
   logical IFs are printed, and the second one tests the X assigned by the first: at X = 1 the
   Piecewise gives -1, the code gives 5 (the conditions are disjoint at the initial state). *)
Definition pw_self : expr :=
  PwCons (CRel OGt (Sym sX) (Num 0)) (Num (-1)) (PwCons (CRel OLt (Sym sX) (Num 0)) (Num 5) (PwCons CTrue (Sym sX) PwNil)).
Theorem print_refuted_self_free :
  exists (D : list id) (x : id) (e : expr) (r : env),
    g_self_free D x e = false /\ g_wf e = true /\ g_disjoint std_fi r D x e = true /\ g_zero_fresh r D x e = true /\
    eval r std_fi e = Some (-1)%Q /\ nm_value D x e r = Some 5%Q.
Proof.
  exists [sX], sX, pw_self, (env_of [(sX, 1%Q)]). repeat split; vm_compute; reflexivity.
Qed.

(* X = Piecewise((1, A > 1), (0, True)) printed while X is not in defined_symbols (the set only holds
   the symbols assigned earlier in the SAME record): the else piece is dropped; if X already has the
   value 5 (assigned in $PK, the statement being in $ERROR) the code leaves 5, the Piecewise gives 0. *)
Definition pw_zero : expr :=
  PwCons (CRel OGt (Sym sA) (Num 1)) (Num 1) (PwCons CTrue (Num 0) PwNil).
Theorem print_refuted_zero_fresh :
  exists (D : list id) (x : id) (e : expr) (r : env),
    g_zero_fresh r D x e = false /\ g_wf e = true /\ g_self_free D x e = true /\ g_disjoint std_fi r D x e = true /\
    eval r std_fi e = Some 0%Q /\ nm_value D x e r = Some 5%Q.
Proof.
  exists [], sX, pw_zero, (env_of [(sA, 0%Q); (sX, 5%Q)]). repeat split; vm_compute; reflexivity.
Qed.

(* ---- regression examples of repaired defects (formerly cond_refuted_binary, cond_refuted_prec,
   print_refuted_fn2, print_refuted_invfn) ---------------------------------------------------------- *)
Definition gt0 (s : id) : scond := SRel OGt (Sym s) (Num 0).

(* fix 5cd6b91: And(A > 0, B > 0, C > 0) is printed with all three operands (formerly 'A.GT.0.AND.B.GT.0') *)
Example cond_nary_fixed :
  printed_cond (SAnd (gt0 sA) (gt0 sB) (SCons (gt0 sC) SNil)) =
  Some (CAnd (CRel OGt (Sym sA) (Num 0)) (CAnd (CRel OGt (Sym sB) (Num 0)) (CRel OGt (Sym sC) (Num 0)))) /\
  evalc (env_of [(sA, 1%Q); (sB, 1%Q); (sC, (-1)%Q)]) std_fi
        (CAnd (CRel OGt (Sym sA) (Num 0)) (CAnd (CRel OGt (Sym sB) (Num 0)) (CRel OGt (Sym sC) (Num 0)))) = Some false.
Proof. split; vm_compute; reflexivity. Qed.

(* fix 5cd6b91: And(C > 0, Or(A > 0, B > 0)) is printed 'C.GT.0.AND.(A.GT.0.OR.B.GT.0)' *)
Example cond_prec_fixed :
  printed_cond (SAnd (gt0 sC) (SOr (gt0 sA) (gt0 sB) SNil) SNil) =
  Some (CAnd (CRel OGt (Sym sC) (Num 0)) (COr (CRel OGt (Sym sA) (Num 0)) (CRel OGt (Sym sB) (Num 0)))).
Proof. vm_compute. reflexivity. Qed.

(* fixes 08b5390 / 09fcba7: Mod(A, 2) and 1/log(A) are printed as plain assignments *)
Example print_fn2_fixed :
  print_stmt [] sX (Fn2 8%positive (Sym sA) (Num 2)) = Some [NS (SAssign sX (Fn2 8%positive (Sym sA) (Num 2)))].
Proof. vm_compute. reflexivity. Qed.
Example print_invfn_fixed :
  print_stmt [] sX (Fn2 5%positive (Fn1 2%positive (Sym sA)) (Num (-1))) =
  Some [NS (SAssign sX (Fn2 5%positive (Fn1 2%positive (Sym sA)) (Num (-1))))].
Proof. vm_compute. reflexivity. Qed.
