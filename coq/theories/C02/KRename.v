(* PV.C02.KRename — executable model of the ADVAN5/ADVAN7 branch of update.pk_param_conversion: the loop
   that renames the rate constants K{i}{j} / K{i}T{j} of a general linear model when compartments are
   renumbered (and its ADVAN3 tail).  One entry stands for both spellings.  No proofs here.

     for i, j in product(range(1, len(oldmap)), range(0, len(oldmap))):
         if i != j and (i in remap and (j in remap or j == 0)):
             to_i = remap[i]; to_j = remap[j] if j in remap else j
             outind = to_j if to_j != 0 else len(cs)
             if cs.get_flow(comp(to_i), comp(outind)) != 0:
                 d[K{i}{j}] = K{to_i}{to_j}; d[K{i}T{j}] = K{to_i}T{to_j}
     if advan == 'ADVAN3': for i in range(1, n): d[K{i}0] = d[K{i}T0] = d[K{i}{n}] = d[K{i}T{n}] = K *)
From Coq Require Import List Bool Arith.
From PV Require Import C02.Remap.
Import ListNotations.
Local Open Scope nat_scope.

Definition kkey := (nat * nat)%type.
Definition kval := option (nat * nat).          (* None: the plain name K *)
Definition kkey_eqb (a b : kkey) : bool := Nat.eqb (fst a) (fst b) && Nat.eqb (snd a) (snd b).

Fixpoint klookup (d : list (kkey * kval)) (k : kkey) : option kval :=
  match d with [] => None | (k', v) :: tl => if kkey_eqb k' k then Some v else klookup tl k end.
Fixpoint kset (d : list (kkey * kval)) (k : kkey) (v : kval) : list (kkey * kval) :=
  match d with
  | [] => [(k, v)]
  | (k', v') :: tl => if kkey_eqb k' k then (k', v) :: tl else (k', v') :: kset tl k v
  end.

Definition is_some_n (o : option nat) : bool := match o with Some _ => true | None => false end.

Definition k_step (remap : list (nat * nat)) (ncs : nat) (flow : nat -> nat -> bool)
                  (d : list (kkey * kval)) (ij : kkey) : list (kkey * kval) :=
  let '(i, j) := ij in
  if negb (i =? j) && (is_some_n (nlookup remap i) && (is_some_n (nlookup remap j) || (j =? 0)))
  then match nlookup remap i with
       | Some ti =>
           let tj := match nlookup remap j with Some x => x | None => j end in
           let outind := if tj =? 0 then ncs else tj in
           if flow ti outind then kset d (i, j) (Some (ti, tj)) else d
       | None => d
       end
  else d.

(* product(range(1, n), range(0, n)) *)
Definition pairs (n : nat) : list kkey :=
  flat_map (fun i => map (fun j => (i, j)) (seq 0 n)) (seq 1 (n - 1)).

Definition k_rename_loop (n : nat) (remap : list (nat * nat)) (ncs : nat) (flow : nat -> nat -> bool)
  : list (kkey * kval) :=
  fold_left (k_step remap ncs flow) (pairs n) [].

Definition k_advan3 (n : nat) (d : list (kkey * kval)) : list (kkey * kval) :=
  fold_left (fun d i => kset (kset d (i, 0) None) (i, n) None) (seq 1 (n - 1)) d.

Definition k_rename (n : nat) (remap : list (nat * nat)) (ncs : nat) (flow : nat -> nat -> bool) (advan3 : bool)
  : list (kkey * kval) :=
  let d := k_rename_loop n remap ncs flow in if advan3 then k_advan3 n d else d.

(* what a correct entry looks like: the rate constant moves with both of its compartments *)
Definition entry_ok (remap : list (nat * nat)) (ncs : nat) (flow : nat -> nat -> bool) (k : kkey) (v : kval) : bool :=
  match v with
  | Some (ti, tj) =>
      negb (fst k =? snd k) &&
      match nlookup remap (fst k) with Some x => x =? ti | None => false end &&
      (tj =? match nlookup remap (snd k) with Some x => x | None => snd k end) &&
      (is_some_n (nlookup remap (snd k)) || (snd k =? 0)) &&
      flow ti (if tj =? 0 then ncs else tj)
  | None => false
  end.
